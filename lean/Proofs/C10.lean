/-
C10 — Mapping elements hold exactly the schema's fields, always as elements.

`mapinv_step` / `mapinv_run`: the invariant `MapInv` (declared keys only; a Dict has exactly its
fields; a SparseDict with minimum_fields='required' always has the required ones; every stored
child is an element of the declared field class, stored under the field's name, with the
mapping as stored parent) is preserved by every dict-protocol call, accepted or rejected.
`undeclared_rejected`: a call naming an undeclared key raises and leaves the mapping untouched.
-/
import Flatland.C10
import Flatland.Spec.C10
import Proofs.Lemmas.TreeHdr
namespace Flatland.C10.Proofs
open Flatland.Tree Flatland.PyList Flatland.C10 Flatland.C10.Spec

/-! ### helpers -/

theorem hdr_parts {a b : Node} (h : a.hdr = b.hdr) :
    a.id = b.id ∧ a.parent = b.parent ∧ a.sch = b.sch ∧ a.key = b.key ∧
      a.ni.optOv = b.ni.optOv ∧ a.ni.nameOv = b.ni.nameOv := by
  simp only [Node.hdr, Prod.mk.injEq] at h; exact h

theorem hdr_eq_parts {c : Node} {id : Nat} {p : Option Nat} {s : Schema} {k : Str} {o : Option Bool} {nm : Option Str}
    (h : c.hdr = (id, p, s, k, o, nm)) :
    c.id = id ∧ c.parent = p ∧ c.sch = s ∧ c.key = k ∧ c.ni.optOv = o ∧ c.ni.nameOv = nm := by
  simp only [Node.hdr, Prod.mk.injEq] at h; exact h

def KidOK (pid : Nat) (subs : List Schema) (c : Node) : Prop :=
  c.parent = some pid ∧ c.sch ∈ subs ∧ c.key = c.sch.key ∧ c.ni.nameOv = none

theorem kidOK_of_hdr {pid : Nat} {subs : List Schema} {a b : Node} (h : a.hdr = b.hdr) (hb : KidOK pid subs b) :
    KidOK pid subs a := by
  obtain ⟨_, hp, hs, hk, _, hn⟩ := hdr_parts h
  unfold KidOK at *
  rw [hp, hs, hk, hn]; exact hb

theorem kidOK_fresh {pid : Nat} {subs : List Schema} {c : Node} {id : Nat} {f : Schema}
    (h : c.hdr = (id, some pid, f, f.key, none, none)) (hf : f ∈ subs) : KidOK pid subs c := by
  obtain ⟨_, hp, hs, hk, _, hn⟩ := hdr_eq_parts h
  exact ⟨hp, by rw [hs]; exact hf, by rw [hk, hs], hn⟩

theorem hdr_withParent {x : Node} {id : Nat} {p : Option Nat} {s : Schema} {k : Str} {o : Option Bool} {nm : Option Str}
    (h : x.hdr = (id, p, s, k, o, nm)) (q : Option Nat) : (x.withParent q).hdr = (id, q, s, k, o, nm) := by
  cases x with
  | mk i sc ks =>
    simp only [Node.hdr, Node.withParent, Node.id, Node.ni, Node.parent, Node.sch, Node.key, Node.kids, Prod.mk.injEq] at *
    exact ⟨h.1, trivial, h.2.2⟩

def keep (b : Bool) (f : Schema) : Bool := !(b && f.info.optional)

theorem blankFields_ok (subs' subs : List Schema) (pid : Nat) (b : Bool) (next : Nat)
    (hsub : ∀ f ∈ subs', f ∈ subs) :
    (∀ c ∈ (blankFields subs' pid b next).1, KidOK pid subs c) ∧
    (blankFields subs' pid b next).1.map Node.key = (subs'.filter (keep b)).map Schema.key := by
  induction subs' generalizing next with
  | nil => simp [blankFields]
  | cons f fs ih =>
    have ihf := fun nx => ih nx (fun g hg => hsub g (by simp [hg]))
    rw [blankFields]
    by_cases hc : (b && f.info.optional) = true
    · simp only [hc, if_true]
      have : keep b f = false := by simp [keep, hc]
      simp only [List.filter_cons, this]
      exact ihf next
    · have hc' : (b && f.info.optional) = false := by simpa using hc
      simp only [hc', Bool.false_eq_true, if_false]
      have hk : keep b f = true := by simp [keep, hc']
      have hb := blank_hdr f (some pid) f.key next
      obtain ⟨_, _, _, hkey, _, _⟩ := hdr_eq_parts hb
      refine ⟨?_, ?_⟩
      · intro c hcm
        rcases List.mem_cons.mp hcm with h | h
        · rw [h]; exact kidOK_fresh hb (hsub f (by simp))
        · exact (ihf _).1 c h
      · simp only [List.map_cons, List.filter_cons, hk, if_true, (ihf _).2, hkey]

theorem findKid_some {kids : List Node} {k : Str} {c : Node} (h : findKid kids k = some c) :
    c ∈ kids ∧ c.key = k := by
  unfold findKid at h
  exact ⟨List.mem_of_find?_eq_some h, by simpa using List.find?_some h⟩

theorem findKid_none {kids : List Node} {k : Str} (h : findKid kids k = none) : k ∉ kids.map Node.key := by
  unfold findKid at h
  intro hm
  obtain ⟨c, hc, hk⟩ := List.mem_map.mp hm
  have := List.find?_eq_none.mp h c hc
  simp [hk] at this

theorem fieldFor_some {subs : List Schema} {k : Str} {f : Schema} (h : fieldFor subs k = some f) :
    f ∈ subs ∧ f.key = k := by
  unfold fieldFor at h
  exact ⟨List.mem_of_find?_eq_some h, by simpa using List.find?_some h⟩

theorem fieldFor_none {subs : List Schema} {k : Str} (h : fieldFor subs k = none) : k ∉ subs.map Schema.key := by
  unfold fieldFor at h
  intro hm
  obtain ⟨c, hc, hk⟩ := List.mem_map.mp hm
  have := List.find?_eq_none.mp h c hc
  simp [hk] at this

theorem replaceKid_keys (kids : List Node) (k : Str) (new : Node) (hn : new.key = k) :
    (replaceKid kids k new).map Node.key = kids.map Node.key := by
  unfold replaceKid
  induction kids with
  | nil => rfl
  | cons c cs ih =>
    simp only [List.map_cons, ih]
    by_cases h : (c.key == k) = true
    · simp only [h, if_true, hn]; simp at h; rw [h]
    · simp only [h]; rfl

theorem mem_replaceKid {kids : List Node} {k : Str} {new x : Node} (h : x ∈ replaceKid kids k new) :
    x ∈ kids ∨ x = new := by
  unfold replaceKid at h
  obtain ⟨c, hc, hx⟩ := List.mem_map.mp h
  split at hx
  · exact .inr hx.symm
  · exact .inl (hx ▸ hc)

/-- the three key facts about a candidate children list of mapping `n` -/
structure KI (n : Node) (kids : List Node) : Prop where
  ok : ∀ c ∈ kids, KidOK n.id n.sch.subs c
  dense : n.kind = .dict → kids.map Node.key = n.sch.subs.map Schema.key
  required : n.kind = .sparse → n.sch.info.minreq = true →
    ∀ f ∈ n.sch.subs, f.info.optional = false → f.key ∈ kids.map Node.key

theorem mapInv_iff (n : Node) : MapInv n ↔ KI n n.kids :=
  ⟨fun h => ⟨h.kids, h.dense, h.required⟩, fun h => ⟨h.ok, h.dense, h.required⟩⟩

theorem mapInv_of_hdr {n r : Node} (h : r.hdr = n.hdr) (hk : KI n r.kids) : MapInv r := by
  obtain ⟨hid, _, hs, _⟩ := hdr_parts h
  have hkind : r.kind = n.kind := by unfold Node.kind; rw [hs]
  refine ⟨?_, ?_, ?_⟩
  · intro c hc; rw [hid, hs]; exact hk.ok c hc
  · intro hd; rw [hs]; exact hk.dense (hkind ▸ hd)
  · intro hsp hm; rw [hs] at hm ⊢; exact hk.required (hkind ▸ hsp) hm

/-- a children list whose keys extend the old ones (same keys for a Dict) with well-formed
    children keeps the key facts -/
theorem KI.extend {n : Node} {kids kids' : List Node} (h : KI n kids)
    (hok : ∀ c ∈ kids', KidOK n.id n.sch.subs c)
    (hsup : ∀ k ∈ kids.map Node.key, k ∈ kids'.map Node.key)
    (hdense : (∀ f ∈ n.sch.subs, f.key ∈ kids.map Node.key) → kids'.map Node.key = kids.map Node.key) :
    KI n kids' := by
  refine ⟨hok, ?_, ?_⟩
  · intro hd
    have hk := h.dense hd
    rw [hdense (fun f hf => by rw [hk]; exact List.mem_map_of_mem hf), hk]
  · intro hs hm f hf ho
    exact hsup _ (h.required hs hm f hf ho)

/-! ### `Dict.set`'s loop -/

theorem setPairs_ok (pid : Nat) (subs : List Schema) (kvs : List (Str × Raw)) :
    ∀ (kids : List Node) (next : Nat), (∀ c ∈ kids, KidOK pid subs c) →
      (∀ c ∈ (setPairs pid subs kids kvs next).1, KidOK pid subs c) ∧
      (∀ k ∈ kids.map Node.key, k ∈ (setPairs pid subs kids kvs next).1.map Node.key) ∧
      ((∀ f ∈ subs, f.key ∈ kids.map Node.key) →
        (setPairs pid subs kids kvs next).1.map Node.key = kids.map Node.key) := by
  induction kvs with
  | nil => intro kids next h; exact ⟨h, fun k hk => hk, fun _ => rfl⟩
  | cons kv rest ih =>
    intro kids next h
    obtain ⟨k, v⟩ := kv
    rw [setPairs]
    cases hf : fieldFor subs k with
    | none => exact ih kids next h
    | some f =>
      obtain ⟨hfm, hfk⟩ := fieldFor_some hf
      cases hc : findKid kids k with
      | some child =>
        obtain ⟨hcm, hck⟩ := findKid_some hc
        have hh := setNode_hdr child v none next
        have hnk : (setNode child v none next).node.key = k := by rw [(hdr_parts hh).2.2.2.1, hck]
        have hrk := replaceKid_keys kids k _ hnk
        have hrok : ∀ c ∈ replaceKid kids k (setNode child v none next).node, KidOK pid subs c := by
          intro c hcm'
          rcases mem_replaceKid hcm' with h1 | h1
          · exact h c h1
          · rw [h1]; exact kidOK_of_hdr hh (h child hcm)
        simp only
        cases hres : (setNode child v none next).res with
        | error e => exact ⟨hrok, by rw [hrk]; exact fun k hk => hk, fun _ => hrk⟩
        | ok c =>
          have := ih (replaceKid kids k (setNode child v none next).node) (setNode child v none next).next hrok
          simp only
          refine ⟨this.1, ?_, ?_⟩
          · intro k' hk'; exact this.2.1 k' (by rw [hrk]; exact hk')
          · intro hall; rw [this.2.2 (by rw [hrk]; exact hall), hrk]
      | none =>
        have hnot := findKid_none hc
        have hb := blank_hdr f none k next
        have hel : ((blank f none k next).1.withParent (some pid)).hdr = (next, some pid, f, f.key, none, none) := by
          rw [hdr_withParent hb, hfk]
        have hh := setNode_hdr ((blank f none k next).1.withParent (some pid)) v none (blank f none k next).2
        have hnew : KidOK pid subs (setNode ((blank f none k next).1.withParent (some pid)) v none (blank f none k next).2).node :=
          kidOK_of_hdr hh (kidOK_fresh hel hfm)
        have hnk : (setNode ((blank f none k next).1.withParent (some pid)) v none (blank f none k next).2).node.key = k := by
          rw [(hdr_parts hh).2.2.2.1, (hdr_eq_parts hel).2.2.2.1]; exact hfk
        have hok' : ∀ c ∈ kids ++ [(setNode ((blank f none k next).1.withParent (some pid)) v none (blank f none k next).2).node],
            KidOK pid subs c := by
          intro c hcm
          rcases List.mem_append.mp hcm with h1 | h1
          · exact h c h1
          · simp only [List.mem_singleton] at h1; rw [h1]; exact hnew
        have habs : (∀ f ∈ subs, f.key ∈ kids.map Node.key) → False := fun hall => hnot (hfk ▸ hall f hfm)
        simp only
        cases hres : (setNode ((blank f none k next).1.withParent (some pid)) v none (blank f none k next).2).res with
        | error e =>
          exact ⟨hok', fun k' hk' => by simp only [List.map_append, List.mem_append]; exact .inl hk',
            fun hall => (habs hall).elim⟩
        | ok c =>
          have := ih _ (setNode ((blank f none k next).1.withParent (some pid)) v none (blank f none k next).2).next hok'
          simp only
          refine ⟨this.1, ?_, fun hall => (habs hall).elim⟩
          intro k' hk'
          exact this.2.1 k' (by simp only [List.map_append, List.mem_append]; exact .inl hk')


/-! ### `_reset()`, `set`, `set_default` on a mapping -/

def MapKind (n : Node) : Prop := n.kind = .dict ∨ n.kind = .sparse

theorem filter_keep_false (subs : List Schema) : subs.filter (keep false) = subs := by
  apply List.filter_eq_self.mpr; intro f _; rfl

/-- the children `_reset()` leaves -/
def resetKids (n : Node) (next : Nat) : List Node × Nat :=
  if n.kind = .dict then blankFields n.sch.subs n.id false next
  else if n.sch.info.minreq then blankFields n.sch.subs n.id true next
  else ([], next)

theorem resetKids_KI (n : Node) (hk : MapKind n) (next : Nat) : KI n (resetKids n next).1 := by
  unfold resetKids
  by_cases hd : n.kind = .dict
  · simp only [hd, if_true]
    have := blankFields_ok n.sch.subs n.sch.subs n.id false next (fun f hf => hf)
    refine ⟨this.1, fun _ => by rw [this.2, filter_keep_false], ?_⟩
    intro hs; rw [hd] at hs; cases hs
  · have hs : n.kind = .sparse := by rcases hk with h | h; exact absurd h hd; exact h
    simp only [hd, if_false]
    by_cases hm : n.sch.info.minreq = true
    · simp only [hm, if_true]
      have := blankFields_ok n.sch.subs n.sch.subs n.id true next (fun f hf => hf)
      refine ⟨this.1, fun h => absurd h hd, ?_⟩
      intro _ _ f hf ho
      rw [this.2]
      exact List.mem_map_of_mem (List.mem_filter.mpr ⟨hf, by simp [keep, ho]⟩)
    · simp only [hm]
      refine ⟨by simp, fun h => absurd h hd, fun _ h => absurd h hm⟩

theorem KI_of_setPairs {n : Node} {fresh : List Node} (h : KI n fresh) (kvs : List (Str × Raw)) (next : Nat) :
    KI n (setPairs n.id n.sch.subs fresh kvs next).1 := by
  have := setPairs_ok n.id n.sch.subs kvs fresh next h.ok
  exact h.extend this.1 this.2.1 this.2.2

theorem setNode_map_KI (n : Node) (hk : MapKind n) (h : KI n n.kids) (raw : Raw) (pol : Option Policy)
    (next : Nat) : KI n (setNode n raw pol next).node.kids := by
  cases n with
  | mk i s kids =>
    have hreset := resetKids_KI (.mk i s kids) hk next
    have hprep : ∀ kvs r, dictPrep i s kvs pol next = .error r → KI (.mk i s kids) r.node.kids := by
      intro kvs r hr
      simp only [dictPrep] at hr
      cases hp : policyCheck (pol.getD s.info.policy) s.subs kvs with
      | ok u => simp [hp] at hr
      | error e => simp [hp] at hr; subst hr; exact hreset
    have hprep2 : ∀ kvs fresh n1, dictPrep i s kvs pol next = .ok (fresh, n1) → KI (.mk i s kids) fresh := by
      intro kvs fresh n1 hr
      simp only [dictPrep] at hr
      cases hp : policyCheck (pol.getD s.info.policy) s.subs kvs with
      | error e => simp [hp] at hr
      | ok u =>
        simp [hp] at hr
        have h2 := congrArg Prod.fst hr
        simp only at h2
        rw [← h2]; exact hreset
    have hkind : s.kind = .dict ∨ s.kind = .sparse := hk
    unfold setNode
    rcases hkind with hkd | hkd <;> simp only [hkd] <;>
    · split
      · split
        · rename_i r hr; exact hprep _ r hr
        · rename_i fresh n1 hr; exact KI_of_setPairs (n := .mk i s kids) (hprep2 _ fresh n1 hr) _ _
      · split
        · rename_i r hr; exact hprep _ r hr
        · rename_i fresh n1 hr; exact KI_of_setPairs (n := .mk i s kids) (hprep2 _ fresh n1 hr) _ _
      · split
        · rename_i r hr; exact hprep _ r hr
        · rename_i fresh n1 hr; exact hprep2 _ fresh n1 hr
      · split
        · rename_i r hr; exact hprep _ r hr
        · rename_i fresh n1 hr; exact hprep2 _ fresh n1 hr
      all_goals exact h

theorem defaultFields_ok (subs' subs : List Schema) (pid : Nat) (b : Bool) (next : Nat)
    (hsub : ∀ f ∈ subs', f ∈ subs) :
    (∀ c ∈ (defaultFields subs' pid b next).1, KidOK pid subs c) ∧
    (defaultFields subs' pid b next).1.map Node.key = (subs'.filter (keep b)).map Schema.key := by
  induction subs' generalizing next with
  | nil => simp [defaultFields]
  | cons f fs ih =>
    have ihf := fun nx => ih nx (fun g hg => hsub g (by simp [hg]))
    rw [defaultFields]
    by_cases hc : (b && f.info.optional) = true
    · simp only [hc, if_true]
      have : keep b f = false := by simp [keep, hc]
      simp only [List.filter_cons, this]
      exact ihf next
    · have hc' : (b && f.info.optional) = false := by simpa using hc
      simp only [hc', Bool.false_eq_true, if_false]
      have hk : keep b f = true := by simp [keep, hc']
      have hb := fromDefaults_hdr f (some pid) f.key next
      obtain ⟨_, _, _, hkey, _, _⟩ := hdr_eq_parts hb
      split
      · by_cases hb' : b = true
        · simp only [hb', if_true]
          have hbk := blank_hdr f (some pid) f.key (fromDefaults f (some pid) f.key next).next
          have hbl := blankFields_ok fs subs pid true (blank f (some pid) f.key (fromDefaults f (some pid) f.key next).next).2
            (fun g hg => hsub g (by simp [hg]))
          subst hb'
          refine ⟨?_, ?_⟩
          · intro c hcm
            rcases List.mem_cons.mp hcm with h | h
            · rw [h]; exact kidOK_fresh hbk (hsub f (by simp))
            · exact hbl.1 c h
          · simp only [List.map_cons, List.filter_cons, hk, if_true, hbl.2, (hdr_eq_parts hbk).2.2.2.1]
        · have hbf : b = false := by simpa using hb'
          subst hbf
          simp only [Bool.false_eq_true, if_false]
          have hbl := blankFields_ok fs subs pid false (fromDefaults f (some pid) f.key next).next
            (fun g hg => hsub g (by simp [hg]))
          refine ⟨?_, ?_⟩
          · intro c hcm
            rcases List.mem_cons.mp hcm with h | h
            · rw [h]; exact kidOK_fresh hb (hsub f (by simp))
            · exact hbl.1 c h
          · simp only [List.map_cons, List.filter_cons, hk, if_true, hbl.2, hkey]
      · refine ⟨?_, ?_⟩
        · intro c hcm
          rcases List.mem_cons.mp hcm with h | h
          · rw [h]; exact kidOK_fresh hb (hsub f (by simp))
          · exact (ihf _).1 c h
        · simp only [List.map_cons, List.filter_cons, hk, if_true, (ihf _).2, hkey]

theorem setDefaultKids_hdr (kids : List Node) (next : Nat) :
    (setDefaultKids kids next).1.map Node.hdr = kids.map Node.hdr := by
  induction kids generalizing next with
  | nil => rfl
  | cons k ks ih =>
    rw [setDefaultKids]
    dsimp only
    split
    · simp [setDefault_hdr]
    · simp [setDefault_hdr, ih]

theorem KI_of_map_hdr {n : Node} {a b : List Node} (hab : a.map Node.hdr = b.map Node.hdr) (h : KI n b) : KI n a := by
  have hkeys : a.map Node.key = b.map Node.key := by
    have := congrArg (List.map (fun t : Nat × Option Nat × Schema × Str × Option Bool × Option Str => t.2.2.2.1)) hab
    simpa [List.map_map, Function.comp_def, Node.hdr] using this
  refine ⟨?_, fun hd => hkeys ▸ h.dense hd, fun hs hm f hf ho => hkeys ▸ h.required hs hm f hf ho⟩
  intro c hc
  obtain ⟨i, hi, rfl⟩ := List.mem_iff_getElem.mp hc
  have hlen : a.length = b.length := by simpa using congrArg List.length hab
  have hb : (a.map Node.hdr)[i]'(by simpa using hi) = (b.map Node.hdr)[i]'(by simp; omega) := by
    simp only [hab]
  simp only [List.getElem_map] at hb
  exact kidOK_of_hdr hb (h.ok _ (List.getElem_mem _))

theorem setDefault_map_KI (n : Node) (hk : MapKind n) (h : KI n n.kids) (next : Nat) :
    KI n (setDefault n next).node.kids := by
  cases n with
  | mk i s kids =>
    have hkind : s.kind = .dict ∨ s.kind = .sparse := hk
    unfold setDefault
    rcases hkind with hkd | hkd <;> simp only [hkd]
    · split
      · exact KI_of_map_hdr (n := .mk i s kids) (setDefaultKids_hdr kids next) h
      · exact setNode_map_KI (.mk i s kids) hk h _ _ _
    · split
      · split
        · rename_i hm
          have := defaultFields_ok s.subs s.subs i.id true next (fun f hf => hf)
          have hnd : (Node.mk i s kids).kind ≠ .dict := by
            show s.kind ≠ .dict
            rw [hkd]; intro hx; cases hx
          refine ⟨this.1, fun hd => absurd hd hnd, ?_⟩
          intro _ _ f hf ho
          simp only [Node.kids]
          rw [this.2]
          exact List.mem_map_of_mem (List.mem_filter.mpr ⟨hf, by simp [keep, ho]⟩)
        · rename_i hm
          have hnd : (Node.mk i s kids).kind ≠ .dict := by
            show s.kind ≠ .dict
            rw [hkd]; intro hx; cases hx
          exact ⟨by simp [Node.kids], fun hd => absurd hd hnd, fun _ h' => absurd h' hm⟩
      · exact setNode_map_KI (.mk i s kids) hk h _ _ _


/-! ### item assignment, update -/

theorem setChild_hdr (child : Node) (a : Arg) (next : Nat) : (setChild child a next).node.hdr = child.hdr := by
  unfold setChild
  split
  · exact setNode_hdr _ _ _ _
  · split <;> rfl

/-- an Element argument that passes `isinstance(value, field_schema)` is an instance of the
    field class itself — not of a renamed subclass (see `C10_Full` below) -/
def ArgExact (n : Node) (k : Str) (a : Arg) : Prop :=
  match a with
  | .elem e => ∀ f, fieldFor n.sch.subs k = some f → isInstance e f = true →
      e.sch = f ∧ e.ni.nameOv = none
  | .plain _ => True

theorem kidOK_placed {n : Node} {e : Node} {f : Schema} {key : Str} (hf : f ∈ n.sch.subs) (hfk : f.key = key)
    (hes : e.sch = f ∧ e.ni.nameOv = none) :
    KidOK n.id n.sch.subs ((e.withParent (some n.id)).withKey key) := by
  cases e with
  | mk i s ks =>
    obtain ⟨hes, hn⟩ := hes
    simp only [Node.sch] at hes
    refine ⟨rfl, ?_, ?_, hn⟩
    · show s ∈ n.sch.subs; rw [hes]; exact hf
    · show key = s.key; rw [hes, hfk]

theorem placed_key (e : Node) (p : Option Nat) (key : Str) : ((e.withParent p).withKey key).key = key := by
  cases e; rfl

theorem KI.replace {n : Node} (h : KI n n.kids) {key : Str} {new : Node} (hk : new.key = key)
    (hok : KidOK n.id n.sch.subs new) : KI n (replaceKid n.kids key new) := by
  have hkeys := replaceKid_keys n.kids key new hk
  refine h.extend ?_ (by rw [hkeys]; exact fun k hk => hk) (fun _ => hkeys)
  intro c hc
  rcases mem_replaceKid hc with h1 | h1
  · exact h.ok c h1
  · rw [h1]; exact hok

theorem KI.append {n : Node} (h : KI n n.kids) {new : Node} (hnot : new.key ∉ n.kids.map Node.key)
    (hok : KidOK n.id n.sch.subs new) : KI n (n.kids ++ [new]) := by
  refine h.extend ?_ (fun k hk => by simp only [List.map_append, List.mem_append]; exact .inl hk) ?_
  · intro c hc
    rcases List.mem_append.mp hc with h1 | h1
    · exact h.ok c h1
    · simp only [List.mem_singleton] at h1; rw [h1]; exact hok
  · intro hall
    exact absurd (hok.2.2.1 ▸ hall new.sch hok.2.1) hnot

theorem kids_withKids (n : Node) (ks : List Node) : (n.withKids ks).kids = ks := by cases n; rfl

theorem mapSetItem_ok (n : Node) (h : KI n n.kids) (key : Str) (a : Arg) (ha : ArgExact n key a) (next : Nat) :
    (mapSetItem n key a next).node.hdr = n.hdr ∧ KI n (mapSetItem n key a next).node.kids := by
  unfold mapSetItem
  split
  · -- SparseDict
    dsimp only
    cases hc : findKid n.kids key with
    | none =>
      have hnot := findKid_none hc
      simp only
      cases hf : fieldFor n.sch.subs key with
      | none => exact ⟨rfl, h⟩
      | some f =>
        obtain ⟨hfm, hfk⟩ := fieldFor_some hf
        simp only
        cases a with
        | elem e =>
          simp only
          split
          · rename_i hi
            refine ⟨rfl, ?_⟩
            rw [kids_withKids]
            exact h.append (by rw [placed_key]; exact hnot) (kidOK_placed hfm hfk (ha f hf hi))
          · split
            · rename_i v u ok _
              refine ⟨rfl, ?_⟩
              rw [kids_withKids]
              have hb := blank_hdr f (some n.id) key next
              have hb' : ((blank f (some n.id) key next).1.withScalar v u).hdr = (next, some n.id, f, f.key, none, none) := by
                rw [withScalar_hdr, hb, hfk]
              refine h.append ?_ (kidOK_fresh hb' hfm)
              rw [(hdr_eq_parts hb').2.2.2.1, hfk]; exact hnot
            · exact ⟨rfl, h⟩
        | plain r =>
          simp only
          split
          · exact ⟨rfl, h⟩
          · rename_i el n1 hcon
            refine ⟨rfl, ?_⟩
            rw [kids_withKids]
            have hh := construct_hdr f r (some n.id) key next el (by rw [hcon])
            have hh' : el.hdr = (next, some n.id, f, f.key, none, none) := by rw [hh, hfk]
            refine h.append ?_ (kidOK_fresh hh' hfm)
            rw [(hdr_eq_parts hh').2.2.2.1, hfk]; exact hnot
    | some child =>
      obtain ⟨hcm, hck⟩ := findKid_some hc
      have hset : ∀ (s : SetR), s.node.hdr = child.hdr → KI n (replaceKid n.kids key s.node) := by
        intro s hs
        exact h.replace (by rw [(hdr_parts hs).2.2.2.1, hck]) (kidOK_of_hdr hs (h.ok child hcm))
      simp only
      split
      · exact ⟨rfl, h⟩
      · rename_i f e hf
        obtain ⟨hfm, hfk⟩ := fieldFor_some hf
        split
        · rename_i hi
          refine ⟨rfl, ?_⟩
          rw [kids_withKids]
          exact h.replace (placed_key _ _ _) (kidOK_placed hfm hfk (ha f hf hi))
        · split <;> refine ⟨rfl, ?_⟩ <;> (try rw [excOut]) <;> rw [kids_withKids] <;> exact hset _ (setChild_hdr _ _ _)
      · split <;> refine ⟨rfl, ?_⟩ <;> (try rw [excOut]) <;> rw [kids_withKids] <;> exact hset _ (setChild_hdr _ _ _)
  · -- Dict
    cases hc : findKid n.kids key with
    | none => exact ⟨rfl, h⟩
    | some child =>
      obtain ⟨hcm, hck⟩ := findKid_some hc
      have hset : ∀ (s : SetR), s.node.hdr = child.hdr → KI n (replaceKid n.kids key s.node) := by
        intro s hs
        exact h.replace (by rw [(hdr_parts hs).2.2.2.1, hck]) (kidOK_of_hdr hs (h.ok child hcm))
      dsimp only
      split <;> refine ⟨rfl, ?_⟩ <;> (try rw [excOut]) <;> rw [kids_withKids] <;> exact hset _ (setChild_hdr _ _ _)


theorem KI_congr {n r : Node} (h : r.hdr = n.hdr) (ks : List Node) : KI r ks ↔ KI n ks := by
  obtain ⟨hid, _, hsch, _⟩ := hdr_parts h
  have hkind : r.kind = n.kind := by unfold Node.kind; rw [hsch]
  constructor
  · intro x
    exact ⟨fun c hc => by have := x.ok c hc; rwa [hid, hsch] at this,
      fun hd => by have := x.dense (hkind ▸ hd); rwa [hsch] at this,
      fun hsp hmr f hf ho => x.required (hkind ▸ hsp) (by rw [hsch]; exact hmr) f (by rw [hsch]; exact hf) ho⟩
  · intro x
    exact ⟨fun c hc => by have := x.ok c hc; rwa [← hid, ← hsch] at this,
      fun hd => by have := x.dense (hkind ▸ hd); rwa [← hsch] at this,
      fun hsp hmr f hf ho => x.required (hkind ▸ hsp) (by rw [← hsch]; exact hmr) f (by rw [← hsch]; exact hf) ho⟩

theorem mapUpdatePairs_ok (kvs : List (Str × Raw)) :
    ∀ (n : Node) (next : Nat), KI n n.kids →
      (mapUpdatePairs n kvs next).node.hdr = n.hdr ∧ KI n (mapUpdatePairs n kvs next).node.kids := by
  induction kvs with
  | nil => intro n next h; exact ⟨rfl, h⟩
  | cons kv rest ih =>
    intro n next h
    obtain ⟨k, v⟩ := kv
    have hs := mapSetItem_ok n h k (.plain v) trivial next
    rw [mapUpdatePairs]
    split
    · exact hs
    · have := ih _ (mapSetItem n k (.plain v) next).next ((KI_congr hs.1 _).mpr hs.2)
      exact ⟨this.1.trans hs.1, (KI_congr hs.1 _).mp this.2⟩

theorem mem_eraseKey {kids : List Node} {k : Str} {c : Node} (h : c ∈ eraseKey kids k) : c ∈ kids ∧ c.key ≠ k := by
  unfold eraseKey at h
  obtain ⟨h1, h2⟩ := List.mem_filter.mp h
  exact ⟨h1, by simpa using h2⟩

theorem mem_keys_eraseKey {kids : List Node} {k k' : Str} (h : k' ∈ kids.map Node.key) (hne : k' ≠ k) :
    k' ∈ (eraseKey kids k).map Node.key := by
  obtain ⟨c, hc, hk⟩ := List.mem_map.mp h
  exact List.mem_map.mpr ⟨c, List.mem_filter.mpr ⟨hc, by simp [hk, hne]⟩, hk⟩

/-- field names are distinct (`Dict.of` raises otherwise) -/
def FieldsNodup (n : Node) : Prop := (n.sch.subs.map Schema.key).Nodup

theorem field_unique {subs : List Schema} (hn : (subs.map Schema.key).Nodup) {f g : Schema} (hf : f ∈ subs)
    (hg : g ∈ subs) (h : f.key = g.key) : f = g := by
  induction subs with
  | nil => cases hf
  | cons x xs ih =>
    simp only [List.map_cons, List.nodup_cons, List.mem_map, not_exists, not_and] at hn
    rcases List.mem_cons.mp hf with hf | hf <;> rcases List.mem_cons.mp hg with hg | hg
    · rw [hf, hg]
    · exact absurd (hf ▸ h).symm (hn.1 g hg)
    · exact absurd (hg ▸ h) (hn.1 f hf)
    · exact ih hn.2 hf hg

/-- deleting the child stored under `k` when that child's class is optional keeps the required ones -/
theorem KI.erase {n : Node} (h : KI n n.kids) (hs : n.kind = .sparse) (hnd : FieldsNodup n) (k : Str)
    (hopt : n.sch.info.minreq = true → keyOptional n k = some true) : KI n (eraseKey n.kids k) := by
  refine ⟨fun c hc => h.ok c (mem_eraseKey hc).1, fun hd => (by rw [hs] at hd; cases hd), ?_⟩
  intro _ hm f hf ho
  have hin := h.required hs hm f hf ho
  apply mem_keys_eraseKey hin
  intro hfk
  have hko := hopt hm
  unfold keyOptional at hko
  cases hff : fieldFor n.sch.subs k with
  | none => exact fieldFor_none hff (hfk ▸ List.mem_map_of_mem hf)
  | some g =>
    rw [hff] at hko
    simp only [Option.some.injEq] at hko
    obtain ⟨hgm, hgk⟩ := fieldFor_some hff
    have : g = f := field_unique hnd hgm hf (by rw [hgk, hfk])
    rw [this, ho] at hko
    cases hko

theorem argExact_congr {n r : Node} (h : r.hdr = n.hdr) (k : Str) (a : Arg) : ArgExact r k a ↔ ArgExact n k a := by
  have hs : r.sch = n.sch := (hdr_parts h).2.2.1
  cases a <;> simp [ArgExact, hs]

theorem mapUpdateArgs_ok (kvs : List (Str × Arg)) :
    ∀ (n : Node) (next : Nat), KI n n.kids → (∀ p ∈ kvs, ArgExact n p.1 p.2) →
      (mapUpdateArgs n kvs next).node.hdr = n.hdr ∧ KI n (mapUpdateArgs n kvs next).node.kids := by
  induction kvs with
  | nil => intro n next h _; exact ⟨rfl, h⟩
  | cons kv rest ih =>
    intro n next h hex
    obtain ⟨k, a⟩ := kv
    have hs := mapSetItem_ok n h k a (hex (k, a) (by simp)) next
    rw [mapUpdateArgs]
    split
    · exact hs
    · have := ih _ (mapSetItem n k a next).next ((KI_congr hs.1 _).mpr hs.2)
        (fun p hp => (argExact_congr hs.1 p.1 p.2).mpr (hex p (by simp [hp])))
      exact ⟨this.1.trans hs.1, (KI_congr hs.1 _).mp this.2⟩

/-! ### every call -/

/-- the Element argument of an item assignment is exact (see `ArgExact`) -/
def OpExact (n : Node) : MapOp → Prop
  | .setitem k a => ArgExact n k a
  | .updateArgs kvs => ∀ p ∈ kvs, ArgExact n p.1 p.2
  | _ => True

theorem mapReset_eq (n : Node) (next : Nat) : (mapReset n next).1 = n.withKids (resetKids n next).1 := by
  unfold mapReset resetKids
  split
  · rfl
  · split <;> rfl

theorem mapStep_ok (n : Node) (hk : MapKind n) (hnd : FieldsNodup n) (h : KI n n.kids) (op : MapOp)
    (hop : OpExact n op) (next : Nat) :
    (mapStep n op next).node.hdr = n.hdr ∧ KI n (mapStep n op next).node.kids := by
  have hsp : ¬ n.kind = .sparse → n.kind = .dict := fun hns => by
    rcases hk with h1 | h1
    · exact h1
    · exact absurd h1 hns
  unfold mapStep
  cases op with
  | setitem k a => exact mapSetItem_ok n h k a hop next
  | delitem k =>
    dsimp only
    split
    · split <;> exact ⟨rfl, h⟩
    · rename_i hs
      have hs' : n.kind = .sparse := by simpa using hs
      split
      · rename_i hm
        split
        · refine ⟨rfl, ?_⟩
          rw [kids_withKids]
          exact h.erase hs' hnd k (fun hm' => by simp [hm'] at hm)
        · split <;> exact ⟨rfl, h⟩
      · split
        · exact ⟨rfl, h⟩
        · exact ⟨rfl, h⟩
        · rename_i hko
          split
          · refine ⟨rfl, ?_⟩
            rw [kids_withKids]
            exact h.erase hs' hnd k (fun _ => hko)
          · exact ⟨rfl, h⟩
  | pop k =>
    dsimp only
    split
    · exact ⟨rfl, h⟩
    · split
      · exact ⟨rfl, h⟩
      · rename_i hs
        have hs' : n.kind = .sparse := by simpa using hs
        split
        · exact ⟨rfl, h⟩
        · rename_i hreq
          split
          · refine ⟨rfl, ?_⟩
            rw [kids_withKids]
            apply h.erase hs' hnd k
            intro hm
            rename_i c hc
            simp only [hm, Bool.true_and] at hreq
            unfold keyOptional at hreq ⊢
            cases hff : fieldFor n.sch.subs k with
            | some g =>
              rw [hff] at hreq
              cases hb : g.info.optional
              · simp [hb] at hreq
              · simp [hb]
            | none =>
              rw [hff, hc] at hreq
              rw [hc]
              cases hb : c.optional
              · simp [hb] at hreq
              · simp [hb]
          · exact ⟨rfl, h⟩
  | popitem => dsimp only; split <;> exact ⟨rfl, h⟩
  | clear =>
    dsimp only
    split
    · refine ⟨?_, ?_⟩
      · show (mapReset n next).1.hdr = n.hdr
        rw [mapReset_eq]; rfl
      · show KI n (mapReset n next).1.kids
        rw [mapReset_eq, kids_withKids]; exact resetKids_KI n hk next
    · exact ⟨rfl, h⟩
  | update pos kw =>
    dsimp only
    split
    · exact mapUpdatePairs_ok kw n next h
    · split
      · exact ⟨rfl, h⟩
      · exact ⟨rfl, h⟩
      · rename_i kvs _
        have h1 := mapUpdatePairs_ok kvs n next h
        split
        · exact h1
        · have h2 := mapUpdatePairs_ok kw _ (mapUpdatePairs n kvs next).next ((KI_congr h1.1 _).mpr h1.2)
          exact ⟨h2.1.trans h1.1, (KI_congr h1.1 _).mp h2.2⟩
  | updateArgs kvs => exact mapUpdateArgs_ok kvs n next h hop
  | ior raw =>
    dsimp only
    split
    · exact ⟨rfl, h⟩
    · exact ⟨rfl, h⟩
    · exact mapUpdatePairs_ok _ n next h
  | setdefault k d =>
    dsimp only
    split
    · exact ⟨rfl, h⟩
    · split
      · exact ⟨rfl, h⟩
      · split
        · rename_i child hc
          obtain ⟨hcm, hck⟩ := findKid_some hc
          split
          · exact ⟨rfl, h⟩
          · have hh := setNode_hdr child d none next
            have hr : KI n (replaceKid n.kids k (setNode child d none next).node) :=
              h.replace (by rw [(hdr_parts hh).2.2.2.1, hck]) (kidOK_of_hdr hh (h.ok child hcm))
            split <;> refine ⟨rfl, ?_⟩ <;> (try rw [excOut]) <;> rw [kids_withKids] <;> exact hr
        · rename_i hc
          have hnot := findKid_none hc
          split
          · exact ⟨rfl, h⟩
          · rename_i f hf
            obtain ⟨hfm, hfk⟩ := fieldFor_some hf
            have hb := blank_hdr f none k next
            have hel : ((blank f none k next).1.withParent (some n.id)).hdr = (next, some n.id, f, f.key, none, none) := by
              rw [hdr_withParent hb, hfk]
            have hh := setNode_hdr ((blank f none k next).1.withParent (some n.id)) d none (blank f none k next).2
            have hnew := kidOK_of_hdr hh (kidOK_fresh hel hfm)
            have hnk : (setNode ((blank f none k next).1.withParent (some n.id)) d none (blank f none k next).2).node.key = k := by
              rw [(hdr_parts hh).2.2.2.1, (hdr_eq_parts hel).2.2.2.1]; exact hfk
            have hr := h.append (by rw [hnk]; exact hnot) hnew
            split <;> refine ⟨rfl, ?_⟩ <;> (try rw [excOut]) <;> rw [kids_withKids] <;> exact hr
  | get k => dsimp only; split <;> exact ⟨rfl, h⟩
  | set raw pol =>
    dsimp only
    split
    · split <;> exact ⟨setNode_hdr _ _ _ _, setNode_map_KI n hk h _ _ _⟩
    · split <;> exact ⟨setNode_hdr _ _ _ _, setNode_map_KI n hk h _ _ _⟩
    · split <;> exact ⟨setNode_hdr _ _ _ _, setNode_map_KI n hk h _ _ _⟩
  | setDefault => dsimp only; split <;> exact ⟨setDefault_hdr _ _, setDefault_map_KI n hk h _⟩
  | contains k => exact ⟨rfl, h⟩
  | len => exact ⟨rfl, h⟩


/-! ### the property theorems -/

/-- **mapinv_step.**  Every dict-protocol call — accepted or rejected — preserves the mapping
    invariant (hypothesis on Element arguments: `OpExact`). -/
theorem mapinv_step {n : Node} (h : MapInv n) (hk : MapKind n) (hnd : FieldsNodup n) (op : MapOp)
    (hop : OpExact n op) (next : Nat) : MapInv (mapStep n op next).node := by
  have := mapStep_ok n hk hnd ((mapInv_iff n).mp h) op hop next
  exact mapInv_of_hdr this.1 this.2

theorem sch_of_step (n : Node) (hk : MapKind n) (hnd : FieldsNodup n) (h : MapInv n) (op : MapOp)
    (hop : OpExact n op) (next : Nat) : (mapStep n op next).node.sch = n.sch :=
  (hdr_parts (mapStep_ok n hk hnd ((mapInv_iff n).mp h) op hop next).1).2.2.1

/-- the hypothesis on Element arguments, stated against the (constant) class of the mapping -/
def ArgExactS (s : Schema) (k : Str) : Arg → Prop
  | .elem e => ∀ f, fieldFor s.subs k = some f → isInstance e f = true →
      e.sch = f ∧ e.ni.nameOv = none
  | .plain _ => True

def OpExactS (s : Schema) : MapOp → Prop
  | .setitem k a => ArgExactS s k a
  | .updateArgs kvs => ∀ p ∈ kvs, ArgExactS s p.1 p.2
  | _ => True

theorem argExact_of_S {n : Node} {k : Str} {a : Arg} (h : ArgExactS n.sch k a) : ArgExact n k a := by
  cases a <;> first | exact h | trivial

theorem opExact_of_S {n : Node} {op : MapOp} (h : OpExactS n.sch op) : OpExact n op := by
  cases op with
  | setitem k a => exact argExact_of_S h
  | updateArgs kvs => exact fun p hp => argExact_of_S (h p hp)
  | _ => trivial

/-- **mapinv_reachable.**  The invariant holds in every state a history of calls reaches. -/
theorem mapinv_run (ops : List MapOp) :
    ∀ (n : Node) (next : Nat), MapInv n → MapKind n → FieldsNodup n → (∀ op ∈ ops, OpExactS n.sch op) →
      MapInv (run ⟨n, next⟩ ops).node := by
  induction ops with
  | nil => intro n next h _ _ _; exact h
  | cons op ops ih =>
    intro n next h hk hnd hops
    have hop := opExact_of_S (hops op (by simp))
    have hs := sch_of_step n hk hnd h op hop next
    have hk' : MapKind (mapStep n op next).node := by unfold MapKind Node.kind at *; rw [hs]; exact hk
    have hnd' : FieldsNodup (mapStep n op next).node := by unfold FieldsNodup at *; rw [hs]; exact hnd
    have := ih (mapStep n op next).node (mapStep n op next).next (mapinv_step h hk hnd op hop next) hk' hnd'
      (fun o ho => by rw [hs]; exact hops o (by simp [ho]))
    simpa [run, step] using this

/-- **mapinv_init.**  A freshly constructed mapping (`schema()`: `_reset()` has run) satisfies the invariant. -/
theorem mapinv_init (s : Schema) (hk : s.kind = .dict ∨ s.kind = .sparse) (parent : Option Nat) (key : Str)
    (next : Nat) : MapInv (blank s parent key next).1 := by
  cases s with
  | mk info dflt subs =>
    have hki : info.kind = .dict ∨ info.kind = .sparse := hk
    unfold blank
    rcases hki with hd | hd
    · simp only [hd]
      have := blankFields_ok subs subs next false (next + 1) (fun f hf => hf)
      refine ⟨this.1, fun _ => by simp only [keys, Node.kids]; rw [this.2, filter_keep_false]; rfl, ?_⟩
      intro hs; simp only [Node.kind, Node.sch, Schema.kind, Schema.info, hd] at hs; cases hs
    · simp only [hd]
      split
      · rename_i hm
        have := blankFields_ok subs subs next true (next + 1) (fun f hf => hf)
        refine ⟨this.1, ?_, ?_⟩
        · intro hs; simp only [Node.kind, Node.sch, Schema.kind, Schema.info, hd] at hs; cases hs
        · intro _ _ f hf ho
          simp only [keys, Node.kids]
          rw [this.2]
          exact List.mem_map_of_mem (List.mem_filter.mpr ⟨hf, by simp [keep, ho]⟩)
      · rename_i hm
        refine ⟨(by intro c hc; cases hc), ?_, ?_⟩
        · intro hs; simp only [Node.kind, Node.sch, Schema.kind, Schema.info, hd] at hs; cases hs
        · intro _ hm'; exact absurd hm' hm

/-- every stored child carries its key as its `.name` -/
theorem named_after_key {n : Node} (h : MapInv n) (hf : FieldsNamed n.sch) : NamedAfterKey n := by
  intro c hc
  obtain ⟨_, hmem, hkey, hnov⟩ := h.kids c hc
  obtain ⟨hns, nm, hnm⟩ := hf c.sch hmem
  rw [hkey]
  have hk : ¬ c.kind = .slot := hns
  simp [Node.name, hk, hnov, Schema.key, Schema.name, hnm]

/-- **undeclared_rejected.**  Item assignment, deletion, pop, setdefault and get naming a key
    the schema does not declare raise TypeError/KeyError and leave the mapping exactly as it was. -/
theorem undeclared_rejected {n : Node} (h : MapInv n) (k : Str) (hund : fieldFor n.sch.subs k = none) (next : Nat)
    (op : MapOp) (hop : (∃ a, op = .setitem k a) ∨ op = .delitem k ∨ op = .pop k ∨ (∃ d, op = .setdefault k d) ∨ op = .get k) :
    (mapStep n op next).node = n ∧
    ((mapStep n op next).out = .exc .typeError ∨ (mapStep n op next).out = .exc .keyError) := by
  have hnot : findKid n.kids k = none := by
    cases hc : findKid n.kids k with
    | none => rfl
    | some c =>
      obtain ⟨hcm, hck⟩ := findKid_some hc
      obtain ⟨_, hmem, hkey, _⟩ := h.kids c hcm
      exact absurd (List.mem_map.mpr ⟨c.sch, hmem, by rw [← hkey, hck]⟩) (fieldFor_none hund)
  rcases hop with ⟨a, rfl⟩ | rfl | rfl | ⟨d, rfl⟩ | rfl
  · show (mapSetItem n k a next).node = n ∧ _
    have : mapStep n (.setitem k a) next = mapSetItem n k a next := rfl
    rw [this]
    unfold mapSetItem
    by_cases hs : n.kind = .sparse <;> simp [hs, hnot, hund, excOut]
  · by_cases hs : n.kind = .sparse <;> by_cases hm : n.sch.info.minreq = true <;>
      simp [mapStep, hs, hm, hnot, hund, keyOptional, excOut]
  · simp [mapStep, hnot, excOut]
  · by_cases hs : n.kind = .sparse <;> simp [mapStep, hs, hnot, hund, excOut]
  · simp [mapStep, hnot, excOut]

/-! ### the full statement and why it needs the hypothesis on Element arguments

`C10_Full`: `mapinv_step` for *every* argument.  False of the code: `SparseDict.__setitem__`
stores any `isinstance(value, field_schema)` element, so an instance of a renamed subclass
(`field_schema.named('zz')`) ends up under the key with a foreign class and name (KF-C10-a). -/

def C10_Full : Prop :=
  ∀ (n : Node) (op : MapOp) (next : Nat), MapInv n → MapKind n → FieldsNodup n → MapInv (mapStep n op next).node

def exA : Schema := .mk { cid := 2, kind := .string, name := some ['a'] } .none []
def exS : Schema := .mk { cid := 1, kind := .sparse } .none [exA]
/-- `SparseDict.of(String.named('a'))()` -/
def exSparse : Node := (blank exS none [] 1).1
/-- `String.named('a').named('zz')('v')` -/
def exRenamed : Node :=
  .mk { id := 7, parent := none, val := .str ['v'], u := ['v'] }
    (.mk { cid := 9, isa := [2], kind := .string, name := some ['z', 'z'] } .none []) []

theorem C10_full_fails : ¬ C10_Full := by
  intro hfull
  have h := hfull exSparse (.setitem ['a'] (.elem exRenamed)) 10 (mapinv_init exS (Or.inr rfl) none [] 1)
    (Or.inr rfl) (by unfold FieldsNodup; decide)
  have hk := h.kids ((exRenamed.withParent (some 1)).withKey ['a'])
    (by show _ ∈ [(exRenamed.withParent (some 1)).withKey ['a']]; simp)
  have hm : ((exRenamed.withParent (some 1)).withKey ['a']).sch ∈ [exA] := hk.2.1
  simp only [List.mem_singleton] at hm
  have : ((exRenamed.withParent (some 1)).withKey ['a']).sch.info.cid = exA.info.cid := by rw [hm]
  exact absurd this (by decide)

/-! ### instance-level `optional=` (KF-C10-b, repaired in /repo 6e22928)

`SparseDict.__delitem__` / `pop` used to read `self[key].optional` — the *member*: an element of
exactly the field class built with `optional=True` (`A('v', optional=True)`), once adopted under
a required key, made that key deletable.  They now consult the field schema (`keyOptional`), so
`ArgExact` no longer mentions `optional=`: `mapinv_run` covers such arguments, and the former
counter-example is an instance of it. -/

def exSR : Schema := .mk { cid := 1, kind := .sparse, minreq := true } .none [exA]
/-- `S = SparseDict.of(A).using(minimum_fields='required'); s = S()` -/
def exSparseReq : Node := (blank exSR none [] 1).1
/-- `A('v', optional=True)`: `type(e) is A` -/
def exOptInst : Node := .mk { id := 7, parent := none, val := .str ['v'], u := ['v'], optOv := some true } exA []

def exOptHist : List MapOp := [.setitem ['a'] (.elem exOptInst), .delitem ['a'], .pop ['a']]

/-- **required_survives_optional_member.**  `s['a'] = A('v', optional=True); del s['a']; s.pop('a')`:
    the invariant — in particular "always its required fields" — holds afterwards -/
theorem required_survives_optional_member : MapInv (run ⟨exSparseReq, 10⟩ exOptHist).node := by
  apply mapinv_run exOptHist exSparseReq 10 (mapinv_init exSR (Or.inr rfl) none [] 1) (Or.inr rfl)
    (by unfold FieldsNodup; decide)
  intro op hop
  simp only [exOptHist, List.mem_cons, List.not_mem_nil, or_false] at hop
  rcases hop with rfl | rfl | rfl
  · intro f hf _
    have : fieldFor exSparseReq.sch.subs ['a'] = some exA := rfl
    rw [this] at hf
    cases hf; exact ⟨rfl, rfl⟩
  · trivial
  · trivial

example : keys (run ⟨exSparseReq, 10⟩ exOptHist).node = [['a']] := by decide
example : (mapStep (mapStep exSparseReq (.setitem ['a'] (.elem exOptInst)) 10).node (.delitem ['a']) 20).out
    = .exc .typeError := rfl

/-! ### non-vacuity -/

def exDS : Schema :=
  .mk { cid := 1, kind := .dict } .none
    [.mk { cid := 2, kind := .integer, name := some ['x'] } .none [],
     .mk { cid := 3, kind := .string, name := some ['y'], optional := true } .none []]
/-- `Dict.of(Integer.named('x'), String.named('y'))()` -/
def exDict : Node := (blank exDS none [] 1).1

def exMapOps : List MapOp :=
  [.setitem ['x'] (.plain (.str ['7'])), .ior (.dict [(['y'], .int 3), (['q'], .int 1)]), .pop ['x'],
   .set (.dict [(['x'], .int 1)]) (some (some .strict)), .clear, .update (some (.pairs [(['y'], .none)])) []]

example : MapInv (run ⟨exDict, 10⟩ exMapOps).node :=
  mapinv_run exMapOps exDict 10 (mapinv_init exDS (Or.inl rfl) none [] 1) (Or.inl rfl)
    (by unfold FieldsNodup; decide) (by intro op hop; simp [exMapOps] at hop; rcases hop with rfl | rfl | rfl | rfl | rfl | rfl <;> trivial)

example : keys (run ⟨exDict, 10⟩ exMapOps).node = [['x'], ['y']] := by decide
example : (mapStep exDict (.setitem ['q'] (.plain (.int 1))) 10).out = .exc .typeError := rfl


/-- an Element of the field class that belongs to another container (stored parent 99) assigned
    onto a key that is already present, by item assignment and through `update`: it is adopted
    and its stored parent becomes the mapping (id 1) -/
def exOwned : Node := .mk { id := 50, parent := some 99, val := .str ['v'], u := ['v'] } exA []

example : ((mapStep (mapStep exSparse (.setitem ['a'] (.plain (.int 1))) 10).node
    (.setitem ['a'] (.elem exOwned)) 20).node.kids.map (fun c => (c.id, c.parent))) = [(50, some 1)] := by decide

example : ((mapStep (mapStep exSparse (.setitem ['a'] (.plain (.int 1))) 10).node
    (.updateArgs [(['a'], .elem exOwned)]) 20).node.kids.map (fun c => (c.id, c.parent))) = [(50, some 1)] := by decide

end Flatland.C10.Proofs
