/-
C16 — validation messages expand completely under every lookup source and locale.

Model A: `Flatland/C16.lean` (+ `C16/Tables.lean`); specification B: `Flatland/Spec/C16.lean`;
regenerated tables: `Flatland/Generated/C16Catalogues.lean`.

Property theorems (listed in harness/props/c16.py):
  priority_partial, priority_first_defined, C16_full_fails     — lookup order of the five sources
  plural_choice, plural_missing_count, ungettext_receives_count — plural triples
  findTransformer_eq_spec, transformer_full, translator_applied, expand_plain_refines,
  expand_plural_refines                                         — translators, A ⊨ B
  expand_total, no_percent_left, expandMessage_ok_expansion     — complete expansion
  catalogue_placeholders, catalogue_complete, builtin_keys_supplied,
  builtin_no_escape, builtin_expand_total, catalogue_expand_total — the regenerated tables
-/
import Flatland.C16
import Flatland.C16.Tables
import Flatland.Spec.C16
import Flatland.Generated.C16Catalogues
namespace Flatland.C16.Proofs
open Flatland.C16 Flatland.C16.Spec Flatland.Generated.C16

/-! ## 1. Priority of the five sources -/

/-- the lookup targets `expand_message` hands to `as_format_mapping`
    (`extra_format_args, state, self, element`, `None` dropped) -/
def targetsOf (kw : List (Str × Val)) (state : Option Target) (validator element : Target) :
    List Target :=
  [kwTarget kw] ++ state.toList ++ [validator, element]

/-- the five documented sources of the same four objects -/
def sourcesOf (kw : List (Str × Val)) (state : Option Target) (validator element : Target) :
    Sources :=
  { kwargs := fun k => kw.lookup k
    stateItems := fun k => match state with | some s => s.item k | none => none
    stateAttrs := fun k => match state with | some s => s.attr k | none => none
    validatorAttrs := validator.attr
    elementAttrs := element.attr }

/-- the keyword dict answers a key that is not one of its own method names by item only -/
theorem kwTarget_get (kw : List (Str × Val)) (k : Str) (hk : (kwTarget kw).attr k = none) :
    (kwTarget kw).get k = kw.lookup k := by
  simp only [Target.get, hk]
  simp only [kwTarget, Target.item, if_true]
  cases kw.lookup k <;> rfl

theorem lookup_methodAttrs_none (owner : Str) (names : List Str) (k : Str) (h : k ∉ names) :
    (methodAttrs owner names).lookup k = none := by
  induction names with
  | nil => rfl
  | cons n rest ih =>
    simp only [List.mem_cons, not_or] at h
    have : (k == n) = false := by simpa using h.1
    simp only [methodAttrs, List.map_cons, List.lookup, this]
    exact ih h.2

/-- a key that is not the name of a dict method is not an attribute of the keyword dict -/
theorem kwTarget_attr_none (kw : List (Str × Val)) (k : Str) (h : k ∉ dictMethodNames) :
    (kwTarget kw).attr k = none :=
  lookup_methodAttrs_none _ _ k h

theorem get_of_item_none (t : Target) (k : Str) (h : t.item k = none) : t.get k = t.attr k := by
  simp [Target.get, h]

/-- the one lemma about `List.findSome?`: a source that defines the key wins as soon as no
    earlier source defines it -/
theorem findSome_first {α β} (l : List α) (f : α → Option β) (i : Nat) (a : α) (b : β)
    (hi : l[i]? = some a) (hb : f a = some b)
    (hbefore : ∀ j x, j < i → l[j]? = some x → f x = none) :
    l.findSome? f = some b := by
  induction l generalizing i with
  | nil => simp at hi
  | cons x xs ih =>
    cases i with
    | zero =>
      simp at hi; subst hi; simp [List.findSome?, hb]
    | succ i =>
      have hx : f x = none := hbefore 0 x (by omega) (by simp)
      simp only [List.findSome?, hx]
      exact ih i (by simpa using hi)
        (fun j y hj hy => hbefore (j + 1) y (by omega) (by simpa using hy))

theorem findSome_none {α β} (l : List α) (f : α → Option β) (h : ∀ x ∈ l, f x = none) :
    l.findSome? f = none := by
  induction l with
  | nil => rfl
  | cons x xs ih =>
    simp only [List.findSome?, h x (by simp)]
    exact ih (fun y hy => h y (by simp [hy]))

/-- **priority**: the model's target loop (item-then-attribute on each of kwargs, state,
    validator, element) returns the value of the first of the five documented sources that
    defines the key — provided the validator and the element do not answer `[key]` themselves
    (KF-C16-a) and the key is not an attribute of the keyword dict itself (KF-C16-d). -/
theorem priority_partial (kw : List (Str × Val)) (state : Option Target)
    (validator element : Target) (k : Str)
    (hk : (kwTarget kw).attr k = none)
    (hv : validator.item k = none) (he : element.item k = none) :
    rawLookup (targetsOf kw state validator element) k =
      Spec.lookup (sourcesOf kw state validator element) k := by
  cases state with
  | none =>
    simp only [rawLookup, targetsOf, Spec.lookup, Sources.ordered, sourcesOf, Option.toList,
      List.append_nil, List.cons_append, List.nil_append, List.findSome?, kwTarget_get _ _ hk,
      get_of_item_none _ _ hv, get_of_item_none _ _ he]
  | some s =>
    simp only [rawLookup, targetsOf, Spec.lookup, Sources.ordered, sourcesOf, Option.toList,
      List.cons_append, List.nil_append, List.findSome?, kwTarget_get _ _ hk,
      get_of_item_none _ _ hv, get_of_item_none _ _ he]
    simp only [Target.get]
    cases kw.lookup k <;> cases s.item k <;> cases s.attr k <;> cases validator.attr k <;>
      cases element.attr k <;> rfl

/-- non-vacuity: a state that defines the key both ways, a validator and an element that define
    it too — the state *item* wins over everything but the keywords -/
example :
    let k := "k".toList
    let st : Target := { subscriptable := true, items := [(k, .int 2)], attrs := [(k, .int 3)] }
    let v : Target := { subscriptable := false, items := [], attrs := [(k, .int 4)] }
    let el : Target := { subscriptable := false, items := [], attrs := [(k, .int 5)] }
    rawLookup (targetsOf [] (some st) v el) k = some (.int 2) ∧
    Spec.lookup (sourcesOf [] (some st) v el) k = some (.int 2) := by decide

/-- all 2⁵ definedness patterns at once: whichever documented source is the first to define
    the key supplies the value -/
theorem priority_first_defined (s : Sources) (k : Str) (i : Nat) (src : Str → Option Val)
    (v : Val) (hi : s.ordered[i]? = some src) (hv : src k = some v)
    (hbefore : ∀ j src', j < i → s.ordered[j]? = some src' → src' k = none) :
    Spec.lookup s k = some v :=
  findSome_first s.ordered (fun src => src k) i src v hi hv hbefore

theorem priority_none_defined (s : Sources) (k : Str)
    (h : ∀ src ∈ s.ordered, src k = none) : Spec.lookup s k = none :=
  findSome_none _ _ h

/-- **all 2⁵ definedness patterns, about model A**: the target loop of `as_format_mapping`
    returns the value of whichever documented source is the first to define the key -/
theorem priority_patterns (kw : List (Str × Val)) (state : Option Target)
    (validator element : Target) (k : Str)
    (hk : (kwTarget kw).attr k = none)
    (hv : validator.item k = none) (he : element.item k = none)
    (i : Nat) (src : Str → Option Val) (v : Val)
    (hi : (sourcesOf kw state validator element).ordered[i]? = some src) (hsrc : src k = some v)
    (hbefore : ∀ j src', j < i →
      (sourcesOf kw state validator element).ordered[j]? = some src' → src' k = none) :
    rawLookup (targetsOf kw state validator element) k = some v := by
  rw [priority_partial kw state validator element k hk hv he]
  exact priority_first_defined _ k i src v hi hsrc hbefore

/-- the full statement of the property's priority clause: no side condition on the element or
    on the key -/
def C16_Full : Prop :=
  ∀ (kw : List (Str × Val)) (state : Option Target) (validator element : Target) (k : Str),
    validator.item k = none →
    rawLookup (targetsOf kw state validator element) k =
      Spec.lookup (sourcesOf kw state validator element) k

/-- KF-C16-a: a Mapping element answers `element[key]` with a child element before its own
    attribute is looked at -/
theorem C16_full_fails : ¬ C16_Full := by
  intro h
  have := h [] none { subscriptable := false, items := [], attrs := [] }
    { subscriptable := true, items := [("label".toList, .elem "child".toList)],
      attrs := [("label".toList, .str "d".toList)] }
    "label".toList rfl
  revert this
  decide

/-- KF-C16-d: the keyword dict's own attributes (`items`, `keys`, `get` …) outrank the state,
    the validator and the element: a validator attribute called `items` is never seen -/
theorem C16_full_fails_kwargs : ¬ C16_Full := by
  intro h
  have := h [] none
    { subscriptable := false, items := [], attrs := [("items".toList, .str "VALIDATOR".toList)] }
    { subscriptable := false, items := [], attrs := [] }
    "items".toList rfl
  revert this
  decide

/-! ## 2. Plural triples -/

def trText (u : Option UTr) (t : Str) : Str := match u with | some f => f t | none => t
def trVal (u : Option UTr) (v : Val) : Val := match u with | some f => applyTr f v | none => v

theorem fmLookup_eq (targets : List Target) (u : Option UTr) (k : Str) :
    fmLookup targets u k =
      match rawLookup targets k with
      | none => .error .keyError
      | some v => .ok (trVal u v) := by
  unfold fmLookup trVal
  cases rawLookup targets k <;> cases u <;> rfl

theorem isOne_int (i : Int) : isOne (.int i) = (some i == some (1 : Int)) := by
  by_cases hi : i = 1
  · subst hi; rfl
  · have : isOne (.int i) = false := by
      unfold isOne
      split
      · rename_i h1; cases h1; exact absurd rfl hi
      · rename_i h1; cases h1
      · rfl
    rw [this]
    symm
    simp [hi]

/-- the coerced count "is 1" exactly when the number the value stands for is 1 (a value that
    is not a number is never 1) -/
theorem isOne_coerce (v : Val) : isOne (coerceCount v) = (countOf v == some 1) := by
  cases v with
  | none => rfl
  | elem u => rfl
  | method o n => rfl
  | int i => exact isOne_int i
  | bool b => cases b <;> rfl
  | str s =>
    simp only [coerceCount, countOf]
    cases hp : parseInt s with
    | none => rfl
    | some i => exact isOne_int i

/-- **plural_choice**: without an `ungettext`, the singular form is used exactly when the
    resolved (translated, `int()`-coerced) count equals 1 -/
theorem plural_choice (e : Env) (u : Option UTr) (single plural nkey : Str) (v : Val)
    (hn : findTransformer e.nState e.nAnc e.nBuiltin = .ok none)
    (hv : rawLookup e.targets nkey = some v) :
    chooseMessage e u (.plural single plural nkey) =
      .ok (trText u (if useSingular (some (trVal u v)) then single else plural)) := by
  have hone := isOne_coerce (trVal u v)
  simp only [chooseMessage, hn, resolveCount, fmLookup_eq, hv, bind, Except.bind, pure,
    Except.pure, useSingular]
  rw [hone]
  cases u <;> (simp only [trText]; split <;> simp_all)

/-- a count key that no source defines: the key name itself is the count, so the plural form -/
theorem plural_missing_count (e : Env) (u : Option UTr) (single plural nkey : Str)
    (hn : findTransformer e.nState e.nAnc e.nBuiltin = .ok none)
    (hv : rawLookup e.targets nkey = none) :
    chooseMessage e u (.plural single plural nkey) = .ok (trText u plural) := by
  simp only [chooseMessage, hn, resolveCount, fmLookup_eq, hv, bind, Except.bind, pure,
    Except.pure, isOne]
  cases u <;> rfl

/-- with an `ungettext` the choice is delegated: it receives both forms and the coerced count -/
theorem ungettext_receives_count (e : Env) (u : Option UTr) (g : NTr)
    (single plural nkey : Str) (v : Val)
    (hn : findTransformer e.nState e.nAnc e.nBuiltin = .ok (some g))
    (hv : rawLookup e.targets nkey = some v) :
    chooseMessage e u (.plural single plural nkey) = g single plural (coerceCount (trVal u v)) := by
  simp only [chooseMessage, hn, resolveCount, fmLookup_eq, hv, bind, Except.bind, pure,
    Except.pure]

example : coerceCount (.str " 1 ".toList) = .int 1 := by decide
example : coerceCount (.str "abc".toList) = .str "abc".toList ∧
    useSingular (some (.str "abc".toList)) = false := by decide
example : useSingular (some (.str "01".toList)) = true := by decide
example : useSingular (some (.bool true)) = true ∧ useSingular (some (.int 2)) = false := by decide

/-! ## 3. Translators -/

def slotOpt {α} : Slot α → Option (Option α)
  | .absent => none
  | .present v => some v

def itemOpt {α} : ItemSlot α → Option (Option α)
  | .found v => some v
  | _ => none

theorem searchAncestry_eq {α} (anc : List (AncSlots α)) :
    searchAncestry anc = (anc.map AncSlots.resolved).findSome? id := by
  induction anc with
  | nil => rfl
  | cons a rest ih =>
    simp only [searchAncestry, List.map_cons, List.findSome?, id]
    cases a.resolved with
    | none => simpa using ih
    | some f => rfl

/-- **translator search**: `find_transformer` returns the documented choice — state attribute,
    state item, element, nearest ancestor, builtins — for every kind of state (a state whose
    `[type]` raises TypeError/IndexError simply has no such item, since 3d5403b) -/
theorem findTransformer_eq_spec {α} (st : StateSlots α) (anc : List (AncSlots α))
    (b : Slot α) :
    findTransformer st anc b =
      .ok (Spec.transformer (slotOpt st.attr) (itemOpt st.item) (anc.map AncSlots.resolved)
        (slotOpt b)) := by
  unfold findTransformer Spec.transformer findI18n
  rw [searchAncestry_eq]
  cases hattr : st.attr with
  | present v => rfl
  | absent =>
    cases hitem : st.item with
    | found v => rfl
    | typeError =>
      simp only [slotOpt, itemOpt]
      cases (anc.map AncSlots.resolved).findSome? id <;> cases b <;> rfl
    | keyError =>
      simp only [slotOpt, itemOpt]
      cases (anc.map AncSlots.resolved).findSome? id <;> cases b <;> rfl
    | notSubscriptable =>
      simp only [slotOpt, itemOpt]
      cases (anc.map AncSlots.resolved).findSome? id <;> cases b <;> rfl

/-- the documented promise "any state that supports [index]": the search never raises -/
def C16_Transformer_Full : Prop :=
  ∀ (st : StateSlots UTr) (anc : List (AncSlots UTr)) (b : Slot UTr),
    ∃ t, findTransformer st anc b = .ok t

/-- it holds now (D-C16-1 is fixed): in particular for a list / tuple / str state -/
theorem transformer_full : C16_Transformer_Full :=
  fun st anc b => ⟨_, findTransformer_eq_spec st anc b⟩

example : findTransformer (α := UTr) ⟨.absent, .typeError⟩ [] .absent = .ok none := rfl

/-- the nearest ancestor wins; an instance attribute (even `None`) shadows the class's -/
example :
    let f : UTr := fun s => 'A' :: s
    let g : UTr := fun s => 'B' :: s
    (searchAncestry [⟨.present none, some f⟩, ⟨.absent, some g⟩, ⟨.absent, some f⟩]).map
      (fun t => t []) = some ['B'] := by decide

theorem chooseMessage_plain (e : Env) (u : Option UTr) (t : Str) :
    chooseMessage e u (.plain t) = .ok (trText u t) := by
  cases u <;> rfl

/-- **translator_applied**: for every message (plain or plural triple, with or without an
    `ungettext`) the text chosen by `chooseMessage` under the translator `u` that
    `find_transformer` returned is what gets formatted, and every substituted value passes
    through that same `u`; for a plain message the chosen text is `u` applied to the message. -/
theorem translator_applied (e : Env) (m : Msg) (s : Str) (h : expandMessage e m = .ok s) :
    ∃ u text, findTransformer e.uState e.uAnc e.uBuiltin = .ok u ∧
      chooseMessage e u m = .ok text ∧
      (∀ t, m = .plain t → text = trText u t) ∧
      pyFormat text (fun k => match rawLookup e.targets k with
        | none => .error .keyError
        | some v => .ok (trVal u v)) = .ok s := by
  unfold expandMessage at h
  cases hu : findTransformer e.uState e.uAnc e.uBuiltin with
  | error r => rw [hu] at h; cases h
  | ok u =>
    rw [hu] at h
    simp only [bind, Except.bind] at h
    cases hc : chooseMessage e u m with
    | error r => rw [hc] at h; cases h
    | ok text =>
      rw [hc] at h
      refine ⟨u, text, rfl, hc, ?_, ?_⟩
      · intro t ht
        subst ht
        rw [chooseMessage_plain] at hc
        cases hc; rfl
      · have hfun : (fun k => fmLookup e.targets u k) = (fun k => match rawLookup e.targets k with
            | none => .error .keyError
            | some v => .ok (trVal u v)) := by
          funext k; exact fmLookup_eq _ _ _
        rw [← hfun]
        exact h

/-! ### refinement to the specification -/

theorem render_ok_iff (targets : List Target) (u : Option UTr) (src : Sources)
    (segs : List Seg)
    (hl : ∀ k ∈ placeholdersOf segs, rawLookup targets k = Spec.lookup src k) (s : Str) :
    render (fmLookup targets u) segs = .ok s ↔ Spec.substitute u src segs = some s := by
  induction segs generalizing s with
  | nil => simp [render, Spec.substitute]
  | cons seg rest ih =>
    cases seg with
    | ch c =>
      have ih' := ih (fun k hk => hl k (by simpa [placeholdersOf] using hk))
      simp only [render, Spec.substitute, bind, Except.bind, pure, Except.pure]
      cases hr : render (fmLookup targets u) rest with
      | error r =>
        have : Spec.substitute u src rest = none := by
          cases hs : Spec.substitute u src rest with
          | none => rfl
          | some x => have := (ih' x).2 hs; rw [hr] at this; cases this
        simp [this]
      | ok x =>
        have := (ih' x).1 hr
        simp [this]
    | ph k =>
      have hk := hl k (by simp [placeholdersOf])
      have ih' := ih (fun k' hk' => hl k' (by simp [placeholdersOf, hk']))
      simp only [render, Spec.substitute, bind, Except.bind, pure, Except.pure, fmLookup_eq, hk]
      cases hlk : Spec.lookup src k with
      | none => simp
      | some v =>
        simp only []
        cases hr : render (fmLookup targets u) rest with
        | error r =>
          have : Spec.substitute u src rest = none := by
            cases hs : Spec.substitute u src rest with
            | none => rfl
            | some x => have := (ih' x).2 hs; rw [hr] at this; cases this
          simp [this]
        | ok x =>
          have := (ih' x).1 hr
          simp only [this, trVal]
          cases u <;> simp

theorem pyFormat_ok_iff (targets : List Target) (u : Option UTr) (src : Sources) (text : Str)
    (hl : ∀ k ∈ placeholders text, rawLookup targets k = Spec.lookup src k) (s : Str) :
    pyFormat text (fmLookup targets u) = .ok s ↔
      (match parseFmt text with
       | .ok segs => Spec.substitute u src segs
       | .error _ => none) = some s := by
  unfold pyFormat parseFmt
  cases hsc : scanFmt text with
  | mk segs err =>
    cases err with
    | none =>
      have hph : placeholders text = placeholdersOf segs := by
        simp [placeholders, parseFmt, hsc]
      have hr := render_ok_iff targets u src segs (fun k hk => hl k (by rw [hph]; exact hk))
      simp only []
      cases hrr : render (fmLookup targets u) segs with
      | error r =>
        simp only []
        constructor
        · intro h; cases h
        · intro h; have := (hr s).2 h; rw [hrr] at this; cases this
      | ok x =>
        simp only []
        constructor
        · intro h
          have hx : x = s := by injection h
          subst hx
          exact (hr x).1 hrr
        · intro h
          have := (hr s).2 h
          rw [hrr] at this
          exact this
    | some r =>
      simp only []
      cases render (fmLookup targets u) segs <;> simp

/-- a key for which the model's lookup is the documented one: not an attribute of the keyword
    dict (KF-C16-d), not answered by `validator[key]` or `element[key]` (KF-C16-a) -/
def KeyInScope (kw : List (Str × Val)) (validator element : Target) (k : Str) : Prop :=
  (kwTarget kw).attr k = none ∧ validator.item k = none ∧ element.item k = none

/-- **A ⊨ B for plain messages**: with the documented translator `u`, the model's
    `expand_message` produces exactly the documented expansion (every key the translated
    message uses being in scope) -/
theorem expand_plain_refines (e : Env) (kw : List (Str × Val)) (state : Option Target)
    (validator element : Target) (u : Option UTr) (t s : Str)
    (ht : e.targets = targetsOf kw state validator element)
    (hkeys : ∀ k ∈ placeholders (trText u t), KeyInScope kw validator element k)
    (hu : findTransformer e.uState e.uAnc e.uBuiltin = .ok u) :
    expandMessage e (.plain t) = .ok s ↔
      Spec.expandPlain u (sourcesOf kw state validator element) t = some s := by
  have hl : ∀ k ∈ placeholders (trText u t), rawLookup e.targets k =
      Spec.lookup (sourcesOf kw state validator element) k := by
    intro k hk; rw [ht]
    exact priority_partial kw state validator element k (hkeys k hk).1 (hkeys k hk).2.1
      (hkeys k hk).2.2
  have key := pyFormat_ok_iff e.targets u (sourcesOf kw state validator element) (trText u t) hl s
  unfold trText at key
  unfold expandMessage Spec.expandPlain
  simp only [hu, bind, Except.bind, chooseMessage]
  exact key

/-- **A ⊨ B for plural triples** (no `ungettext`; any count, number or not) -/
theorem expand_plural_refines (e : Env) (kw : List (Str × Val)) (state : Option Target)
    (validator element : Target) (u : Option UTr) (single plural nkey s : Str)
    (ht : e.targets = targetsOf kw state validator element)
    (hcount : KeyInScope kw validator element nkey)
    (hkeysS : ∀ k ∈ placeholders (trText u single), KeyInScope kw validator element k)
    (hkeysP : ∀ k ∈ placeholders (trText u plural), KeyInScope kw validator element k)
    (hu : findTransformer e.uState e.uAnc e.uBuiltin = .ok u)
    (hn : findTransformer e.nState e.nAnc e.nBuiltin = .ok none) :
    expandMessage e (.plural single plural nkey) = .ok s ↔
      Spec.expandPlural u (sourcesOf kw state validator element) single plural nkey = some s := by
  have hl : ∀ k, KeyInScope kw validator element k → rawLookup e.targets k =
      Spec.lookup (sourcesOf kw state validator element) k := by
    intro k hk; rw [ht]
    exact priority_partial kw state validator element k hk.1 hk.2.1 hk.2.2
  have keyP := pyFormat_ok_iff e.targets u (sourcesOf kw state validator element)
    (trText u plural) (fun k hk => hl k (hkeysP k hk)) s
  have keyS := pyFormat_ok_iff e.targets u (sourcesOf kw state validator element)
    (trText u single) (fun k hk => hl k (hkeysS k hk)) s
  unfold expandMessage Spec.expandPlural
  simp only [hu, bind, Except.bind]
  cases hlk : rawLookup e.targets nkey with
  | none =>
    rw [plural_missing_count e u single plural nkey hn hlk]
    have hnone : Spec.lookup (sourcesOf kw state validator element) nkey = none := by
      rw [← hl nkey hcount]; exact hlk
    simp only [hnone, Option.map, useSingular, Bool.false_eq_true, if_false]
    unfold Spec.expandPlain
    unfold trText at keyP ⊢
    exact keyP
  | some v =>
    rw [plural_choice e u single plural nkey v hn hlk]
    have hs : Spec.lookup (sourcesOf kw state validator element) nkey = some v := by
      rw [← hl nkey hcount]; exact hlk
    simp only [hs, Option.map]
    have key := pyFormat_ok_iff e.targets u (sourcesOf kw state validator element)
      (trText u (if useSingular (some (trVal u v)) then single else plural)) (by
        intro k hk
        by_cases hsing : useSingular (some (trVal u v)) = true
        · rw [if_pos hsing] at hk; exact hl k (hkeysS k hk)
        · rw [if_neg hsing] at hk; exact hl k (hkeysP k hk)) s
    unfold Spec.expandPlain
    unfold trVal trText at key ⊢
    exact key

/-! ## 4. Complete expansion -/

/-- the text a segment list denotes once every placeholder is replaced by its value -/
def expansion (val : Str → Val) : List Seg → Str
  | [] => []
  | .ch c :: r => c :: expansion val r
  | .ph k :: r => pyStr (val k) ++ expansion val r

theorem render_total (m : Str → Except Raise Val) (val : Str → Val) (segs : List Seg)
    (h : ∀ k ∈ placeholdersOf segs, m k = .ok (val k)) :
    render m segs = .ok (expansion val segs) := by
  induction segs with
  | nil => rfl
  | cons seg rest ih =>
    cases seg with
    | ch c =>
      simp only [render, expansion, bind, Except.bind, pure, Except.pure,
        ih (fun k hk => h k (by simpa [placeholdersOf] using hk))]
    | ph k =>
      simp only [render, expansion, bind, Except.bind, pure, Except.pure,
        h k (by simp [placeholdersOf]),
        ih (fun k' hk' => h k' (by simp [placeholdersOf, hk']))]

/-- **expand_total**: a well-formed template all of whose placeholders are available expands
    without error, and the result is the template with every `%(key)s` replaced by the text of
    its (translated) value and every `%%` by `%` — no placeholder is left -/
theorem expand_total (tmpl : Str) (segs : List Seg) (targets : List Target) (u : Option UTr)
    (hp : parseFmt tmpl = .ok segs)
    (h : ∀ k ∈ placeholdersOf segs, (rawLookup targets k).isSome = true) :
    pyFormat tmpl (fmLookup targets u) =
      .ok (expansion (fun k => trVal u ((rawLookup targets k).getD .none)) segs) := by
  unfold parseFmt at hp
  unfold pyFormat
  cases hsc : scanFmt tmpl with
  | mk segs' err =>
    rw [hsc] at hp
    cases err with
    | some r => cases hp
    | none =>
      cases hp
      have := render_total (fmLookup targets u)
        (fun k => trVal u ((rawLookup targets k).getD .none)) segs (by
          intro k hk
          have hk' := h k hk
          rw [fmLookup_eq]
          cases hr : rawLookup targets k with
          | none => rw [hr] at hk'; cases hk'
          | some v => rfl)
      simp only [this]

theorem render_ok_expansion (targets : List Target) (u : Option UTr) (segs : List Seg) (s : Str)
    (h : render (fmLookup targets u) segs = .ok s) :
    (∀ k ∈ placeholdersOf segs, (rawLookup targets k).isSome = true) ∧
    s = expansion (fun k => trVal u ((rawLookup targets k).getD .none)) segs := by
  induction segs generalizing s with
  | nil => simp [render] at h; subst h; exact ⟨by simp [placeholdersOf], rfl⟩
  | cons seg rest ih =>
    cases seg with
    | ch c =>
      simp only [render, bind, Except.bind, pure, Except.pure] at h
      cases hr : render (fmLookup targets u) rest with
      | error r => rw [hr] at h; cases h
      | ok x =>
        rw [hr] at h
        cases h
        obtain ⟨hd, hx⟩ := ih x hr
        exact ⟨by simpa [placeholdersOf] using hd, by simp only [expansion, ← hx]⟩
    | ph k =>
      simp only [render, bind, Except.bind, pure, Except.pure, fmLookup_eq] at h
      cases hl : rawLookup targets k with
      | none => rw [hl] at h; cases h
      | some v =>
        rw [hl] at h
        simp only at h
        cases hr : render (fmLookup targets u) rest with
        | error r => rw [hr] at h; cases h
        | ok x =>
          rw [hr] at h
          cases h
          obtain ⟨hd, hx⟩ := ih x hr
          refine ⟨?_, by
            have e1 : expansion (fun k => trVal u ((rawLookup targets k).getD .none))
                (.ph k :: rest) = pyStr (trVal u ((rawLookup targets k).getD .none)) ++
                  expansion (fun k => trVal u ((rawLookup targets k).getD .none)) rest := rfl
            rw [e1, ← hx, hl]; rfl⟩
          intro k' hk'
          simp only [placeholdersOf, List.mem_cons] at hk'
          rcases hk' with rfl | hk'
          · simp [hl]
          · exact hd k' hk'

/-- every *successful* `%` expansion is complete: the template was well-formed, every
    placeholder resolved, and the result is its segment list with every placeholder replaced
    by the (translated) value's text -/
theorem pyFormat_ok_expansion (tmpl : Str) (targets : List Target) (u : Option UTr) (s : Str)
    (h : pyFormat tmpl (fmLookup targets u) = .ok s) :
    ∃ segs, parseFmt tmpl = .ok segs ∧
      (∀ k ∈ placeholdersOf segs, (rawLookup targets k).isSome = true) ∧
      s = expansion (fun k => trVal u ((rawLookup targets k).getD .none)) segs := by
  unfold pyFormat at h
  unfold parseFmt
  cases hsc : scanFmt tmpl with
  | mk segs err =>
    rw [hsc] at h
    simp only at h
    cases hr : render (fmLookup targets u) segs with
    | error r => rw [hr] at h; cases h
    | ok x =>
      rw [hr] at h
      cases err with
      | some r => cases h
      | none =>
        have hx : x = s := by injection h
        subst hx
        obtain ⟨hd, hs⟩ := render_ok_expansion targets u segs x hr
        exact ⟨segs, rfl, hd, hs⟩

/-- **no message is ever recorded half-expanded**: whatever `expand_message` returns is the
    complete expansion of *the text `chooseMessage` chose for this message under the translator
    `find_transformer` returned* — that text is well-formed, and every one of its placeholders
    has been replaced by the (translated) value the lookup yields -/
theorem expandMessage_ok_expansion (e : Env) (m : Msg) (s : Str)
    (h : expandMessage e m = .ok s) :
    ∃ u text segs, findTransformer e.uState e.uAnc e.uBuiltin = .ok u ∧
      chooseMessage e u m = .ok text ∧ parseFmt text = .ok segs ∧
      (∀ k ∈ placeholdersOf segs, (rawLookup e.targets k).isSome = true) ∧
      s = expansion (fun k => trVal u ((rawLookup e.targets k).getD .none)) segs := by
  unfold expandMessage at h
  cases hu : findTransformer e.uState e.uAnc e.uBuiltin with
  | error r => rw [hu] at h; cases h
  | ok u =>
    rw [hu] at h
    simp only [bind, Except.bind] at h
    cases hc : chooseMessage e u m with
    | error r => rw [hc] at h; cases h
    | ok text =>
      rw [hc] at h
      obtain ⟨segs, hp, hdef, hs⟩ := pyFormat_ok_expansion text e.targets u s h
      exact ⟨u, text, segs, rfl, hc, hp, hdef, hs⟩

example : (parseFmt "%(a)s: 100%%".toList).toOption =
    some [.ph ['a'], .ch ':', .ch ' ', .ch '1', .ch '0', .ch '0', .ch '%'] := by decide

/-- nothing of the template syntax survives: when the template has no `%%` escape and no value
    text contains `%`, the result contains no `%` at all (in particular no `%(`) -/
theorem no_percent_left (val : Str → Val) (segs : List Seg)
    (hlit : ∀ c, Seg.ch c ∈ segs → c ≠ '%')
    (hval : ∀ k ∈ placeholdersOf segs, '%' ∉ pyStr (val k)) :
    '%' ∉ expansion val segs := by
  induction segs with
  | nil => simp [expansion]
  | cons seg rest ih =>
    have ih' := ih (fun c hc => hlit c (by simp [hc]))
    cases seg with
    | ch c =>
      have hc := hlit c (by simp)
      simp only [expansion, List.mem_cons, not_or]
      exact ⟨fun h => hc h.symm, ih' (fun k hk => hval k (by simpa [placeholdersOf] using hk))⟩
    | ph k =>
      simp only [expansion, List.mem_append, not_or]
      exact ⟨hval k (by simp [placeholdersOf]),
        ih' (fun k' hk' => hval k' (by simp [placeholdersOf, hk']))⟩

/-! ## 5. The regenerated tables -/

theorem catalogues_listed : catalogues = [de, es, fr] := rfl

theorem de_placeholders : de.placeholdersOK = true := by decide +kernel
theorem es_placeholders : es.placeholdersOK = true := by decide +kernel
theorem fr_placeholders : fr.placeholdersOK = true := by decide +kernel

/-- **catalogue_placeholders**: each msgstr[i] of every shipped catalogue is well-formed and
    uses exactly the placeholders of the source form it translates -/
theorem catalogue_placeholders : ∀ c ∈ catalogues, c.placeholdersOK = true := by
  intro c hc
  simp only [catalogues_listed, List.mem_cons, List.not_mem_nil, or_false] at hc
  rcases hc with rfl | rfl | rfl
  · exact de_placeholders
  · exact es_placeholders
  · exact fr_placeholders

theorem de_complete : de.complete builtinMessages = true := by decide +kernel
theorem es_complete : es.complete builtinMessages = true := by decide +kernel
theorem fr_complete : fr.complete builtinMessages = true := by decide +kernel

/-- **catalogue_complete**: every built-in message has a fully translated entry (all plural
    forms) in every shipped catalogue -/
theorem catalogue_complete : ∀ c ∈ catalogues, c.complete builtinMessages = true := by
  intro c hc
  simp only [catalogues_listed, List.mem_cons, List.not_mem_nil, or_false] at hc
  rcases hc with rfl | rfl | rfl
  · exact de_complete
  · exact es_complete
  · exact fr_complete

/-- **builtin_keys_supplied**: every placeholder (and count key) of every built-in message is
    a `note_error` keyword of its validator, a validator attribute or an element attribute -/
theorem builtin_keys_supplied :
    ∀ m ∈ builtinMessages, m.keysSupplied elementAttrs = true := by
  have h : builtinMessages.all (BuiltinMsg.keysSupplied elementAttrs) = true := by
    decide +kernel
  simpa [List.all_eq_true] using h

def noEscape (f : Str) : Bool :=
  match parseFmt f with
  | .ok segs => segs.all (fun s => s != .ch '%')
  | .error _ => false

/-- no built-in message and no translation uses the `%%` escape, so (values aside) an
    expanded message contains no `%` -/
theorem builtin_no_escape :
    (builtinMessages.all (fun m => m.forms.all noEscape) &&
     catalogues.all (fun c => c.entries.all (fun e => e.msgstr.all noEscape))) = true := by
  decide +kernel

theorem subset_mem {a b : List Str} (h : subset a b = true) : ∀ k ∈ a, k ∈ b := by
  intro k hk
  unfold subset at h
  rw [List.all_eq_true] at h
  have := h k hk
  simpa using this

theorem formKeysIn_expands (avail : List Str) (f : Str) (h : formKeysIn avail f = true)
    (targets : List Target) (u : Option UTr)
    (hd : ∀ k ∈ avail, (rawLookup targets k).isSome = true) :
    ∃ s, pyFormat f (fmLookup targets u) = .ok s := by
  unfold formKeysIn at h
  cases hp : parseFmt f with
  | error r => rw [hp] at h; cases h
  | ok segs =>
    rw [hp] at h
    exact ⟨_, expand_total f segs targets u hp (fun k hk => hd k (subset_mem h k hk))⟩

/-- **builtin_expand_total**: every form of every built-in message is a well-formed template,
    and it expands without error in any lookup environment that resolves *its own
    placeholders* — whatever the translator -/
theorem builtin_expand_total (m : BuiltinMsg) (hm : m ∈ builtinMessages) (f : Str)
    (hf : f ∈ m.forms) (targets : List Target) (u : Option UTr)
    (hd : ∀ k ∈ placeholders f, (rawLookup targets k).isSome = true) :
    ∃ s, pyFormat f (fmLookup targets u) = .ok s := by
  have h := builtin_keys_supplied m hm
  unfold BuiltinMsg.keysSupplied at h
  rw [Bool.and_eq_true, List.all_eq_true] at h
  have hk := h.1 f hf
  unfold formKeysIn at hk
  cases hp : parseFmt f with
  | error r => rw [hp] at hk; cases hk
  | ok segs =>
    exact ⟨_, expand_total f segs targets u hp (fun k hk' => hd k (by
      simp only [placeholders, hp]; exact hk'))⟩

/-- …and those placeholders are all supplied by the validator: each is a keyword of *every*
    `note_error` call site that can emit the message, a data attribute of the validator, or a
    data attribute of the element (regenerated from the source on every run) -/
theorem builtin_placeholders_in_scope (m : BuiltinMsg) (hm : m ∈ builtinMessages) (f : Str)
    (hf : f ∈ m.forms) : ∀ k ∈ placeholders f, k ∈ m.supplied ++ m.vattrs ++ elementAttrs := by
  have h := builtin_keys_supplied m hm
  unfold BuiltinMsg.keysSupplied at h
  rw [Bool.and_eq_true, List.all_eq_true] at h
  have hk := h.1 f hf
  unfold formKeysIn at hk
  cases hp : parseFmt f with
  | error r => rw [hp] at hk; cases hk
  | ok segs =>
    rw [hp] at hk
    intro k hk'
    simp only [placeholders, hp] at hk'
    exact subset_mem hk k hk'

theorem formOK_expands (s src : Str) (may : List Str) (h : formOK s src may = true)
    (targets : List Target) (u : Option UTr)
    (hd : ∀ k ∈ may, (rawLookup targets k).isSome = true) :
    ∃ out, pyFormat s (fmLookup targets u) = .ok out := by
  unfold formOK at h
  cases hp : parseFmt s with
  | error r => rw [hp] at h; simp at h
  | ok a =>
    cases hq : parseFmt src with
    | error r => rw [hp, hq] at h; simp at h
    | ok b =>
      rw [hp, hq] at h
      simp only [Bool.and_eq_true] at h
      exact ⟨_, expand_total s a targets u hp (fun k hk => hd k (subset_mem h.2 k hk))⟩

theorem entryFormsOK_get (e : PoEntry) (l : List Str) (j i : Nat) (s : Str)
    (h : entryFormsOK e j l = true) (hs : l[i]? = some s) :
    formOK s (e.sourceForm (j + i)) (e.mayKeys (j + i)) = true := by
  induction l generalizing j i with
  | nil => simp at hs
  | cons x xs ih =>
    simp only [entryFormsOK, Bool.and_eq_true] at h
    cases i with
    | zero => simp at hs; subst hs; simpa using h.1
    | succ i =>
      have := ih (j + 1) i h.2 (by simpa using hs)
      have e1 : j + 1 + i = j + (i + 1) := by omega
      rw [e1] at this
      exact this

/-- **catalogue_expand_total**: in every shipped catalogue, every msgstr[i] expands without
    error in any environment that resolves the keys it may use (those of the source form it
    translates; for the singular msgstr of a plural entry also those of the plural source
    form), under any translator -/
theorem catalogue_expand_total (c : Catalogue) (hc : c ∈ catalogues) (e : PoEntry)
    (he : e ∈ c.entries) (i : Nat) (s : Str) (hs : e.msgstr[i]? = some s)
    (targets : List Target) (u : Option UTr)
    (hd : ∀ k ∈ e.mayKeys i, (rawLookup targets k).isSome = true) :
    ∃ out, pyFormat s (fmLookup targets u) = .ok out := by
  have h := catalogue_placeholders c hc
  unfold Catalogue.placeholdersOK at h
  rw [List.all_eq_true] at h
  have h2 := h e he
  unfold PoEntry.placeholdersOK at h2
  have h3 := entryFormsOK_get e e.msgstr 0 i s h2 hs
  rw [Nat.zero_add] at h3
  exact formOK_expands s _ _ h3 targets u hd

theorem noEscape_segs (f : Str) (h : noEscape f = true) :
    ∃ segs, parseFmt f = .ok segs ∧ ∀ c, Seg.ch c ∈ segs → c ≠ '%' := by
  unfold noEscape at h
  cases hp : parseFmt f with
  | error r => rw [hp] at h; cases h
  | ok segs =>
    rw [hp] at h
    refine ⟨segs, rfl, ?_⟩
    intro c hc hcp
    subst hcp
    have := List.all_eq_true.1 h _ hc
    simp at this

/-- **catalogue_no_leftover** — the property's sentence, composed: every msgstr of every entry
    of every shipped catalogue, in any environment that resolves the keys it may use, *its own
    placeholders* resolving to values whose text carries no `%`, under any translator, expands
    without error and the result contains no `%` at all (so no `%(` is left over) -/
theorem catalogue_no_leftover (c : Catalogue) (hc : c ∈ catalogues) (e : PoEntry)
    (he : e ∈ c.entries) (i : Nat) (s : Str) (hs : e.msgstr[i]? = some s)
    (targets : List Target) (u : Option UTr)
    (hd : ∀ k ∈ e.mayKeys i, (rawLookup targets k).isSome = true)
    (hval : ∀ k ∈ placeholders s, '%' ∉ pyStr (trVal u ((rawLookup targets k).getD .none))) :
    ∃ out, pyFormat s (fmLookup targets u) = .ok out ∧ '%' ∉ out := by
  obtain ⟨out, hout⟩ := catalogue_expand_total c hc e he i s hs targets u hd
  obtain ⟨segs, hp, _, hexp⟩ := pyFormat_ok_expansion s targets u out hout
  have hne : noEscape s = true := by
    have h := builtin_no_escape
    rw [Bool.and_eq_true] at h
    have h2 := List.all_eq_true.1 h.2 c hc
    have h3 := List.all_eq_true.1 h2 e he
    exact List.all_eq_true.1 h3 s (List.mem_of_getElem? hs)
  obtain ⟨segs', hp', hlit⟩ := noEscape_segs s hne
  rw [hp] at hp'
  cases hp'
  refine ⟨out, hout, ?_⟩
  rw [hexp]
  exact no_percent_left _ segs hlit (fun k hk => hval k (by simp only [placeholders, hp]; exact hk))

/-- the same for the source-language templates themselves -/
theorem builtin_no_leftover (m : BuiltinMsg) (hm : m ∈ builtinMessages) (f : Str)
    (hf : f ∈ m.forms) (targets : List Target) (u : Option UTr)
    (hd : ∀ k ∈ placeholders f, (rawLookup targets k).isSome = true)
    (hval : ∀ k ∈ placeholders f, '%' ∉ pyStr (trVal u ((rawLookup targets k).getD .none))) :
    ∃ out, pyFormat f (fmLookup targets u) = .ok out ∧ '%' ∉ out := by
  obtain ⟨out, hout⟩ := builtin_expand_total m hm f hf targets u hd
  obtain ⟨segs, hp, _, hexp⟩ := pyFormat_ok_expansion f targets u out hout
  have hne : noEscape f = true := by
    have h := builtin_no_escape
    rw [Bool.and_eq_true] at h
    have h2 := List.all_eq_true.1 h.1 m hm
    exact List.all_eq_true.1 h2 f hf
  obtain ⟨segs', hp', hlit⟩ := noEscape_segs f hne
  rw [hp] at hp'
  cases hp'
  refine ⟨out, hout, ?_⟩
  rw [hexp]
  exact no_percent_left _ segs hlit (fun k hk => hval k (by simp only [placeholders, hp]; exact hk))

/-! ## 6. Plural forms of the shipped catalogues -/

/-- with the rule `plural=(n != 1)` gettext selects msgstr[0] exactly for the count 1 -/
theorem pluralIndex_ne1 (c : Catalogue) (h : c.pluralGt1 = false) (n : Int) :
    c.pluralIndex n = 0 ↔ n = 1 := by
  unfold Catalogue.pluralIndex
  simp only [h, Bool.false_eq_true, if_false]
  by_cases hn : n = 1 <;> simp [hn]

theorem de_singular_iff_one (n : Int) : de.pluralIndex n = 0 ↔ n = 1 := pluralIndex_ne1 de rfl n
theorem es_singular_iff_one (n : Int) : es.pluralIndex n = 0 ↔ n = 1 := pluralIndex_ne1 es rfl n

/-- the property's plural clause for the shipped catalogues: the singular msgstr is selected
    exactly for the count 1 -/
def C16_PluralLocale_Full : Prop :=
  ∀ c ∈ catalogues, ∀ n : Int, c.pluralIndex n = 0 ↔ n = 1

/-- does the singular msgstr of a plural entry spell the count out instead of substituting it? -/
def singularDropsCount (e : PoEntry) : Bool :=
  match e.msgidPlural, e.msgstr with
  | some p, s0 :: _ => !(subset (placeholders p) (placeholders s0))
  | _, _ => false

/-- KF-C16-c: the French catalogue (`plural=(n > 1)`) selects msgstr[0] for the count 0 too,
    and its msgstr[0] of HasAtLeast / HasAtMost / HasBetween.exact spell "un(e)" instead of
    substituting the count — "at most one" is recorded for a limit of 0 -/
theorem plural_locale_full_fails : ¬ C16_PluralLocale_Full := by
  intro h
  have := (h fr (by rw [catalogues_listed]; simp) 0).1 (by decide)
  cases this

theorem fr_singular_drops_count : (fr.entries.filter singularDropsCount).length = 3 := by
  decide +kernel

/-- non-vacuity: the German plural entry of HasAtLeast, looked up the way gettext does -/
example : de.ngettext "%(label)s must contain at least one %(child_label)s".toList
    "%(label)s must contain at least %(minimum)s %(child_label)ss".toList (.int 3) =
    some "%(label)s muss mindestens %(minimum)s %(child_label)s enthalten".toList := by
  decide +kernel

end Flatland.C16.Proofs
