/-
C16 — validation messages expand completely under every lookup source and locale.
-/
import Flatland.C16
import Flatland.C16.Tables
import Flatland.Spec.C16
import Flatland.Generated.C16Catalogues
namespace Flatland.C16.Proofs
open Flatland.C16 Flatland.C16.Spec Flatland.Generated.C16

/-! ### instantiations on the regenerated tables -/

theorem catalogues_listed : catalogues = [de, es, fr] := rfl

theorem de_placeholders : de.placeholdersOK = true := by decide +kernel
theorem es_placeholders : es.placeholdersOK = true := by decide +kernel
theorem fr_placeholders : fr.placeholdersOK = true := by decide +kernel

/-- each msgstr[i] of every shipped catalogue is well-formed and uses exactly the placeholders
    of the source form it translates -/
theorem catalogue_placeholders : ∀ c ∈ catalogues, c.placeholdersOK = true := by
  intro c hc
  simp only [catalogues_listed, List.mem_cons, List.not_mem_nil, or_false] at hc
  rcases hc with rfl | rfl | rfl
  · exact de_placeholders
  · exact es_placeholders
  · exact fr_placeholders

theorem de_complete : de.complete builtinMessages = true := by decide +kernel
theorem es_complete : es.complete builtinMessages = true := by decide +kernel
theorem fr_complete : fr.complete builtinMessages = true := by decide +kernel

/-- every built-in message has a fully translated entry in every shipped catalogue -/
theorem catalogue_complete : ∀ c ∈ catalogues, c.complete builtinMessages = true := by
  intro c hc
  simp only [catalogues_listed, List.mem_cons, List.not_mem_nil, or_false] at hc
  rcases hc with rfl | rfl | rfl
  · exact de_complete
  · exact es_complete
  · exact fr_complete

/-- every placeholder of every built-in message is a `note_error` keyword of its validator, a
    validator attribute or an element attribute -/
theorem builtin_keys_supplied :
    ∀ m ∈ builtinMessages, m.keysSupplied elementAttrs = true := by
  have h : builtinMessages.all (BuiltinMsg.keysSupplied elementAttrs) = true := by decide +kernel
  simpa [List.all_eq_true] using h

end Flatland.C16.Proofs
