/-
END TO END: non-vacuity and why each hypothesis is there.
-/
import Proofs.EndToEnd
namespace Flatland.EndToEnd.Proofs
open Flatland.Flat Flatland.Flat.Spec Flatland.Flat.Proofs Flatland.EndToEnd
open Flatland.C12 Flatland.C12.Proofs
open Flatland.Markup (Tables Attrs sChecked)

private def s (x : String) : Str := x.toList

/-- kind 0: a String (every text is its own reading); kind 1: `Boolean` with the library's default
    tokens (`true = '1'`, `false = ''`, synonyms on/true/True/1 and off/false/False/0/''): anything
    else is not adaptable and serialises to `''`; kind 2: a Boolean with CUSTOM tokens
    `true = 'yes'`, `false = 'no'` (KF-C01-h): it reads `''` as `'no'` -/
def exEnvB : Env :=
  { norm := fun k v =>
      if k = 1 then (if v ∈ [s "1", s "on", s "true", s "True"] then s "1" else [])
      else if k = 2 then (if v ∈ [s "yes", s "on", s "true", s "True", s "1"] then s "yes" else s "no")
      else v,
    compose := fun _ _ => [], joinedMembers := fun _ _ => [], ndZeros := [48], maxDigits := 4300 }

/-- Dict{ name: String, bio: String, yes: Boolean, no: Boolean, sub: Dict{ pick: String, flag: Boolean } } -/
def exS : Schema :=
  .dict none false .dense
    [ .leaf (some (s "name")) false 0, .leaf (some (s "bio")) false 0,
      .leaf (some (s "yes")) false 1, .leaf (some (s "no")) false 1,
      .dict (some (s "sub")) false .dense
        [ .leaf (some (s "pick")) false 0, .leaf (some (s "flag")) false 1 ] ]

def exE : Elem :=
  .dict [ (s "name", .leaf (s "Ann")), (s "bio", .leaf (s "hi & bye")), (s "yes", .leaf (s "1")),
          (s "no", .leaf []),
          (s "sub", .dict [ (s "pick", .leaf (s "b")), (s "flag", .leaf []) ]) ]

/-- the form: a text input, a textarea, a checked and an unchecked checkbox (the latter with a stale
    `checked=` the transform must remove), and one level down a select and another unchecked box -/
def exT : FormTree :=
  .dict none [
    .text (some (s "name")) (s "Ann") (.input (some (s "text"))) [],
    .text (some (s "bio")) (s "hi & bye") .textarea [],
    .bool (some (s "yes")) (s "1") (s "1") [],
    .bool (some (s "no")) (s "1") [] [[(sChecked, .text sChecked)]],
    .dict (some (s "sub")) [
      .text (some (s "pick")) (s "b") (.select [s "a", s "b"]) [],
      .bool (some (s "flag")) (s "1") [] [] ] ]

/-- every hypothesis of `end_to_end_partial` holds for it -/
theorem exT_linked : linked exEnvB exS exE exT = true := by
  simp [linked, embed, embedAll, resolve, resolveMembers, resolveOne, membersOf, exS, exE, exT, fnodeBeq,
    fnodesBeq, Schema.name, s]

theorem exT_hyps : hyps Tables.current exEnvB exS exE exT = true := by
  simp only [hyps, exT_linked, Bool.true_and]
  decide

/-- what the form carries, in document order, and what it cannot carry -/
theorem exT_pairs : formPairs [] exT =
    [(s "name", s "Ann"), (s "bio", s "hi & bye"), (s "yes", s "1"), (s "sub_pick", s "b")] := by decide
theorem exT_unchecked : uncheckedPairs [] exT = [(s "no", []), (s "sub_flag", [])] := by decide

/-- `flatten()` has them breadth first, the unchecked boxes included -/
theorem exT_flatten : flatten exEnvB usep exS exE =
    [(s "name", s "Ann"), (s "bio", s "hi & bye"), (s "yes", s "1"), (s "no", []),
     (s "sub_pick", s "b"), (s "sub_flag", [])] := by
  simp [flatten, flattenNode, resolve, resolveMembers, resolveOne, membersOf, bfsFlat, childItems, kidsFrom,
    namePath, joinSep, FNode.fl, FNode.cfl, FNode.u, FNode.name, FNode.kids, FNode.slots, exS, exE, usep, s, Schema.name]

/-- **non-vacuity**: the browser posts the four pairs, and `from_flat` of them is the element itself —
    both sides evaluated -/
theorem exT_end_to_end :
    browserSubmit (seenOf Tables.current freshGen.ctx) (some 0) (renderForm [] exT)
        = .ok [(s "name", s "Ann"), (s "bio", s "hi & bye"), (s "yes", s "1"), (s "sub_pick", s "b")] ∧
    fromFlat exEnvB usep exS
        [(s "name", s "Ann"), (s "bio", s "hi & bye"), (s "yes", s "1"), (s "sub_pick", s "b")] = exE ∧
    prS exEnvB usep false exS exE = exE := by
  obtain ⟨hl, hf, hsub, hcan, hw, hroot, hok, henv, hs, hnd, hdrop⟩ := hyps_unpack exT_hyps
  have hp := form_roundtrip_fresh exT hf hsub
  rw [exT_pairs] at hp
  have hprs : prS exEnvB usep false exS exE = exE := by
    simp [prS, prSPick, pr, innerPairs, touched, isReq, keepS, lookup, isPrefix, exS, exE,
      Schema.name, Schema.opt, flatten, flattenNode, resolve, resolveMembers, resolveOne, membersOf,
      bfsFlat, childItems, kidsFrom, namePath, joinSep, FNode.fl, FNode.cfl, FNode.u, FNode.name,
      FNode.kids, FNode.slots, usep, s]
  refine ⟨hp, ?_, hprs⟩
  rw [end_to_end_partial exEnvB exS exE exT exT_hyps _ hp, hprs]

/-! ### `EndToEnd_Full` is false: an unchecked Boolean in a SparseDict is not re-created -/

def exSparseS : Schema := .dict none false .sparse [ .leaf (some (s "b")) true 1 ]
def exSparseE : Elem := .dict [ (s "b", .leaf []) ]
def exSparseT : FormTree := .dict none [ .bool (some (s "b")) (s "1") [] [] ]

theorem exSparse_linked : linked exEnvB exSparseS exSparseE exSparseT = true := by
  simp [linked, embed, embedAll, resolve, resolveMembers, resolveOne, membersOf, exSparseS, exSparseE, exSparseT,
    fnodeBeq, fnodesBeq, Schema.name, s]

theorem exSparse_base : baseHyps Tables.current exEnvB exSparseS exSparseE exSparseT = true := by
  simp only [baseHyps, exSparse_linked, Bool.true_and]
  decide

/-- all the other hypotheses of `end_to_end_partial` hold too — only `dropSafe` fails -/
example : hnodupB exEnvB usep exSparseS (wrap (formPairs [] exSparseT ++ uncheckedPairs [] exSparseT)) = true
    ∧ boolsCanonical exSparseT = true ∧ dropSafe exEnvB exSparseS = false
    ∧ uncheckedPairs [] exSparseT = [(s "b", [])] := by decide

theorem end_to_end_full_fails : ¬ EndToEnd_Full := by
  intro h
  have hb := exSparse_base
  simp only [baseHyps, Bool.and_eq_true] at hb
  have hp := form_roundtrip_fresh exSparseT hb.1.1.1.1.1.2 hb.1.1.1.1.2
  have := h exEnvB exSparseS exSparseE exSparseT exSparse_base _ hp
  revert this
  have e1 : formPairs [] exSparseT = [] := by decide
  rw [e1]
  simp [fromFlat, setFlat, blank, wrap, possibles, prS, prSPick, pr, innerPairs, touched, isReq, keepS, lookup,
    isPrefix, exSparseS, exSparseE, Schema.name, Schema.opt, flatten, flattenNode, resolve, resolveMembers,
    resolveOne, membersOf, bfsFlat, childItems, kidsFrom, namePath, joinSep, FNode.fl, FNode.cfl, FNode.u,
    FNode.name, FNode.kids, FNode.slots, usep, s]

/-! ### `dropSafe`, Lists: an unchecked Boolean that is the last pair of a non-pruning List's slot -/

/-- List(prune_empty=False) 'l' of Boolean -/
def exNPS : Schema := .list (some (s "l")) false false 1024 (.leaf none false 1)
def exNPE : Elem := .list [ .leaf (s "1"), .leaf [] ]

/-- the checked box of slot 0 is posted, the unchecked one of slot 1 is not: the rebuilt list has one
    member, the element two (with `prune_empty = True`, the default, both have one) -/
theorem exNonPruning_differs :
    fromFlat exEnvB usep exNPS [(s "l_0", s "1")] = .list [ .leaf (s "1") ] ∧
    fromFlat exEnvB usep exNPS [(s "l_0", s "1"), (s "l_1", [])] = .list [ .leaf (s "1"), .leaf [] ] := by
  constructor <;>
  simp [fromFlat, setFlat, blank, wrap, indexesOf, groupOf, listAddr, matchIndex, isPrefix, truthy, isNd,
    ndVal, digitsVal, exEnvB, exNPS, buildSlots, usep, s, List.range, List.range.loop]

example : dropSafe exEnvB exNPS = false := by decide

/-! ### `dropSafe`, kinds: a Boolean with custom tokens reads `''` as its false token (KF-C01-h) -/

/-- Dict{ c: Boolean(true='yes', false='no') } — never set: the box is unchecked, `flatten()` has
    `('c', '')`; the pair, when present, sets the leaf to `'no'`; the form does not post it -/
def exCustomS : Schema := .dict none false .dense [ .leaf (some (s "c")) false 2 ]

example : dropSafe exEnvB exCustomS = false ∧ blankSettled exEnvB exCustomS = false := by decide

theorem exCustom_differs :
    fromFlat exEnvB usep exCustomS [] = .dict [ (s "c", .leaf []) ] ∧
    fromFlat exEnvB usep exCustomS [(s "c", [])] = .dict [ (s "c", .leaf (s "no")) ] := by
  constructor <;>
  simp [fromFlat, setFlat, setFields, blank, blankFields, wrap, possibles, lookup, replace, membersOf, isPrefix,
    exEnvB, exCustomS, Schema.name, usep, s]

/-! ### `hnodupB`: an Array / MultiValue with two members has one key twice -/

def exArrS : Schema := .dict none false .dense [ .array (some (s "a")) false true (.leaf none false 0) ]

example : hnodupB exEnvB usep exArrS (wrap [(s "a", s "x"), (s "a", s "y")]) = false
    ∧ hnodupB exEnvB usep exArrS (wrap [(s "a", s "x")]) = true := by decide

/-- … and there the ORDER of the posted pairs is the order of the members: C02's `order_free` does
    not apply (the composition would need its stable, per-key version) -/
example : fromFlat exEnvB usep exArrS [(s "a", s "x"), (s "a", s "y")]
    ≠ fromFlat exEnvB usep exArrS [(s "a", s "y"), (s "a", s "x")] := by
  simp [fromFlat, setFlat, setFields, blank, blankFields, wrap, possibles, lookup, replace, membersOf, isPrefix,
    arrayNamed, arrayRemainder, truthy, exEnvB, exArrS, Schema.name, usep, s]

/-! ### without `hnodupB`: `end_to_end_narrow_partial` -/

/-- **non-vacuity** of `end_to_end_narrow_partial`: the form above meets `hypsN` -/
theorem exT_hypsN : hypsN Tables.current exEnvB exS exE exT = true := by
  simp only [hypsN, exT_linked, Bool.true_and]
  decide

/-- … and the theorem gives the same conclusion as the evaluation above -/
theorem exT_end_to_end_narrow :
    ∃ ps, browserSubmit (seenOf Tables.current freshGen.ctx) (some 0) (renderForm [] exT) = .ok ps ∧
      fromFlat exEnvB usep exS ps = prS exEnvB usep false exS exE :=
  end_to_end_narrow_total exEnvB exS exE exT exT_hypsN

/-- the bridge on this element: its own pairs, and the form's reordering of them, satisfy `HNodup` -/
example : HNodup exEnvB usep exS (wrap (formPairs [] exT ++ uncheckedPairs [] exT)) :=
  hypsN_hnodup exT_hypsN

/-- a List of Dicts, a one-member Array and a scalar AFTER them: document order is not breadth-first
    order, and the keys `l_0_x`, `l_1_x` collide one level down unless read as canonical paths -/
def exNS : Schema :=
  .dict none false .dense
    [ .list (some (s "l")) false true 1024
        (.dict none false .dense [ .leaf (some (s "x")) false 0, .leaf (some (s "b")) false 1 ]),
      .array (some (s "arr")) false true (.leaf none false 0),
      .leaf (some (s "z")) false 0 ]
def exNE : Elem :=
  .dict [ (s "l", .list [ .dict [ (s "x", .leaf (s "p")), (s "b", .leaf (s "1")) ],
                          .dict [ (s "x", .leaf (s "q")), (s "b", .leaf (s "1")) ] ]),
          (s "arr", .array [ .leaf (s "m") ]),
          (s "z", .leaf (s "end")) ]
def exNT : FormTree :=
  .dict none [
    .list (some (s "l")) [
      .dict none [ .text (some (s "x")) (s "p") (.input (some (s "text"))) [],
                   .bool (some (s "b")) (s "1") (s "1") [] ],
      .dict none [ .text (some (s "x")) (s "q") (.input (some (s "text"))) [],
                   .bool (some (s "b")) (s "1") (s "1") [] ] ],
    .array (some (s "arr")) false [s "m"] .checkboxes [[]],
    .text (some (s "z")) (s "end") (.input (some (s "text"))) [] ]

private theorem natStr0 : natStr 0 = ['0'] := by simp [natStr]; rfl
private theorem natStr1 : natStr 1 = ['1'] := by simp [natStr]; rfl

theorem exN_linked : linked exEnvB exNS exNE exNT = true := by
  simp [linked, embed, embedAll, memberNode, resolve, resolveMembers, resolveOne, resolveList, membersOf,
    exNS, exNE, exNT, fnodeBeq, fnodesBeq, Schema.name, s]

theorem exN_pairs : formPairs [] exNT =
    [(s "l_0_x", s "p"), (s "l_0_b", s "1"), (s "l_1_x", s "q"), (s "l_1_b", s "1"),
     (s "arr", s "m"), (s "z", s "end")] := by
  simp only [exNT, formPairs, fieldPairs, slotPairs, slotName, Nat.reduceAdd, natStr0, natStr1]
  decide

theorem exN_hypsN : hypsN Tables.current exEnvB exNS exNE exNT = true := by
  have hok : okSB exEnvB exNS exNE = true := by
    simp only [exNS, exNE, okSB, okSAnyB, List.all_cons, List.all_nil, List.length_cons, List.length_nil,
      Nat.reduceAdd, List.range, List.range.loop, natStr0, natStr1, Schema.name]
    decide
  have hf : formOk Tables.current [] exNT = true := by
    simp only [exNT, formOk, fieldsOk, slotsOk, slotName, Nat.reduceAdd, natStr0, natStr1]
    decide
  have hu : (uncheckedPairs [] exNT).isEmpty = true := by
    simp only [exNT, uncheckedPairs, uncheckedFields, uncheckedSlots, slotName, Nat.reduceAdd, natStr0, natStr1]
    decide
  simp only [hypsN, exN_linked, hok, hf, hu, Bool.true_and, Bool.true_or, Bool.and_true]
  decide

/-- so the browser's six pairs — in DOCUMENT order: the List first, `z` last, where `flatten()` has `z`
    first — rebuild the element -/
theorem exN_end_to_end :
    fromFlat exEnvB usep exNS (formPairs [] exNT) = prS exEnvB usep false exNS exNE := by
  obtain ⟨hl, _, _, hcan, hw, hroot, hok, henv, hs, hnar, hdrop⟩ := hypsN_unpack exN_hypsN
  exact fromFlat_formPairs_narrow exEnvB exNS exNE exNT henv hs hw hroot hok hl hcan hnar hdrop

/-! ### `narrowB`: what happens when an Array holds two members

`narrowB` is the hypothesis under which C02's `order_free` applies (it is `HNodup` on the element's own
pairs).  With two members it fails together with `hnodupB` — everything else holds — and `order_free` is
false there (above).  The CONCLUSION still holds on the example (the form posts the members in
member order): that is the per-key stable version of the composition, left open. -/

def exArrE2 : Elem := .dict [ (s "a", .array [ .leaf (s "x"), .leaf (s "y") ]) ]
def exArrT2 : FormTree := .dict none [ .array (some (s "a")) false [s "x", s "y"] .checkboxes [[], []] ]

theorem exArr2_linked : linked exEnvB exArrS exArrE2 exArrT2 = true := by
  simp [linked, embed, embedAll, memberNode, resolve, resolveMembers, resolveOne, resolveList, membersOf,
    exArrS, exArrE2, exArrT2, fnodeBeq, fnodesBeq, Schema.name, s]

/-- only `narrowB` (and with it `hnodupB`) fails -/
theorem exArr2_only_narrow_fails :
    baseHyps Tables.current exEnvB exArrS exArrE2 exArrT2 = true ∧ boolsCanonical exArrT2 = true ∧
    uncheckedPairs [] exArrT2 = [] ∧ narrowB exArrS exArrE2 = false ∧
    hnodupB exEnvB usep exArrS (wrap (formPairs [] exArrT2 ++ uncheckedPairs [] exArrT2)) = false ∧
    hypsN Tables.current exEnvB exArrS exArrE2 exArrT2 = false ∧
    hyps Tables.current exEnvB exArrS exArrE2 exArrT2 = false := by
  simp only [baseHyps, hypsN, hyps, exArr2_linked, Bool.true_and]
  decide

/-- … while the conclusion is true of it all the same -/
theorem exArr2_still_rebuilds :
    fromFlat exEnvB usep exArrS (formPairs [] exArrT2) = exArrE2 := by
  have : formPairs [] exArrT2 = [(s "a", s "x"), (s "a", s "y")] := by decide
  rw [this]
  simp [fromFlat, setFlat, setFields, blank, blankFields, wrap, possibles, lookup, replace, membersOf, isPrefix,
    arrayNamed, arrayRemainder, truthy, exEnvB, exArrS, exArrE2, Schema.name, usep, s]

/-- `hyps` is strictly weaker than `hypsN`: a pruning Array holding `['', 'x']` contributes ONE surviving
    pair; `hnodupB` sees that, the state-level `narrowB` does not -/
def exArrE3 : Elem := .dict [ (s "a", .array [ .leaf [], .leaf (s "x") ]) ]
def exArrT3 : FormTree := .dict none [ .array (some (s "a")) false [[], s "x"] .checkboxes [[], []] ]

theorem exArr3_linked : linked exEnvB exArrS exArrE3 exArrT3 = true := by
  simp [linked, embed, embedAll, memberNode, resolve, resolveMembers, resolveOne, resolveList, membersOf,
    exArrS, exArrE3, exArrT3, fnodeBeq, fnodesBeq, Schema.name, s]

theorem exPrunedArr_hyps :
    hyps Tables.current exEnvB exArrS exArrE3 exArrT3 = true ∧
    hypsN Tables.current exEnvB exArrS exArrE3 exArrT3 = false := by
  simp only [hypsN, hyps, exArr3_linked, Bool.true_and]
  decide

/-- the two-member Array through the stable composition: both hereditary conditions hold of it -/
theorem exArr2_via_stable :
    fromFlat exEnvB usep exArrS (formPairs [] exArrT2) = prS exEnvB usep false exArrS exArrE2 := by
  have hb := exArr2_only_narrow_fails.1
  simp only [baseHyps, Bool.and_eq_true] at hb
  obtain ⟨⟨⟨⟨⟨⟨⟨hl, _⟩, _⟩, hw⟩, hroot⟩, hok⟩, henv⟩, hns⟩ := hb
  have henv' := envOKB_sound exEnvB henv
  have hfl : flatten exEnvB usep exArrS exArrE2 = [(s "a", s "x"), (s "a", s "y")] := by
    simp [flatten, flattenNode, resolve, resolveMembers, resolveOne, resolveList, membersOf, bfsFlat, childItems,
      kidsFrom, namePath, joinSep, FNode.fl, FNode.cfl, FNode.u, FNode.name, FNode.kids, FNode.slots, exArrS,
      exArrE2, usep, s, Schema.name]
  have hfp : formPairs [] exArrT2 = [(s "a", s "x"), (s "a", s "y")] := by decide
  apply fromFlat_formPairs_stable exEnvB exArrS exArrE2 exArrT2 henv' (namesSafe_sound exEnvB exArrS henv' hns)
    (by rw [← wfS_eq]; exact hw) hroot (okSB_sound exEnvB exArrS exArrE2 hok) (fnodeBeq_sound _ _ hl)
  · rw [hfl]
    simp only [exArrS, HNodupA, HNodupAFields, and_true]
  · rw [hfl, hfp]
    simp only [exArrS, ASame, ASameFields, and_true]
    decide
  · decide

end Flatland.EndToEnd.Proofs
