/-
END TO END: non-vacuity and why each hypothesis is there.
-/
import Proofs.EndToEnd
namespace Flatland.EndToEnd.Proofs
open Flatland.Flat Flatland.Flat.Spec Flatland.Flat.Proofs Flatland.EndToEnd
open Flatland.C12 Flatland.C12.Proofs
open Flatland.Markup (Tables Attrs sChecked)

private def s (x : String) : Str := x.toList

/-- kind 0: a String (every text is its own reading); kind 1: `Boolean` with the library's default
    tokens (`true = '1'`, `false = ''`, synonyms on/true/True/1 and off/false/False/0/''): anything
    else is not adaptable and serialises to `''`; kind 2: a Boolean with CUSTOM tokens
    `true = 'yes'`, `false = 'no'` (KF-C01-h): it reads `''` as `'no'` -/
def exEnvB : Env :=
  { norm := fun k v =>
      if k = 1 then (if v ∈ [s "1", s "on", s "true", s "True"] then s "1" else [])
      else if k = 2 then (if v ∈ [s "yes", s "on", s "true", s "True", s "1"] then s "yes" else s "no")
      else v,
    compose := fun _ _ => [], joinedMembers := fun _ _ => [], ndZeros := [48], maxDigits := 4300 }

/-- Dict{ name: String, bio: String, yes: Boolean, no: Boolean, sub: Dict{ pick: String, flag: Boolean } } -/
def exS : Schema :=
  .dict none false .dense
    [ .leaf (some (s "name")) false 0, .leaf (some (s "bio")) false 0,
      .leaf (some (s "yes")) false 1, .leaf (some (s "no")) false 1,
      .dict (some (s "sub")) false .dense
        [ .leaf (some (s "pick")) false 0, .leaf (some (s "flag")) false 1 ] ]

def exE : Elem :=
  .dict [ (s "name", .leaf (s "Ann")), (s "bio", .leaf (s "hi & bye")), (s "yes", .leaf (s "1")),
          (s "no", .leaf []),
          (s "sub", .dict [ (s "pick", .leaf (s "b")), (s "flag", .leaf []) ]) ]

/-- the form: a text input, a textarea, a checked and an unchecked checkbox (the latter with a stale
    `checked=` the transform must remove), and one level down a select and another unchecked box -/
def exT : FormTree :=
  .dict none [
    .text (some (s "name")) (s "Ann") (.input (some (s "text"))) [],
    .text (some (s "bio")) (s "hi & bye") .textarea [],
    .bool (some (s "yes")) (s "1") (s "1") [],
    .bool (some (s "no")) (s "1") [] [[(sChecked, .text sChecked)]],
    .dict (some (s "sub")) [
      .text (some (s "pick")) (s "b") (.select [s "a", s "b"]) [],
      .bool (some (s "flag")) (s "1") [] [] ] ]

/-- every hypothesis of `end_to_end_partial` holds for it -/
theorem exT_linked : linked exEnvB exS exE exT = true := by
  simp [linked, embed, embedAll, resolve, resolveMembers, resolveOne, membersOf, exS, exE, exT, fnodeBeq,
    fnodesBeq, Schema.name, s]

theorem exT_hyps : hyps Tables.current exEnvB exS exE exT = true := by
  simp only [hyps, exT_linked, Bool.true_and]
  decide

/-- what the form carries, in document order, and what it cannot carry -/
theorem exT_pairs : formPairs [] exT =
    [(s "name", s "Ann"), (s "bio", s "hi & bye"), (s "yes", s "1"), (s "sub_pick", s "b")] := by decide
theorem exT_unchecked : uncheckedPairs [] exT = [(s "no", []), (s "sub_flag", [])] := by decide

/-- `flatten()` has them breadth first, the unchecked boxes included -/
theorem exT_flatten : flatten exEnvB usep exS exE =
    [(s "name", s "Ann"), (s "bio", s "hi & bye"), (s "yes", s "1"), (s "no", []),
     (s "sub_pick", s "b"), (s "sub_flag", [])] := by
  simp [flatten, flattenNode, resolve, resolveMembers, resolveOne, membersOf, bfsFlat, childItems, kidsFrom,
    namePath, joinSep, FNode.fl, FNode.cfl, FNode.u, FNode.name, FNode.kids, FNode.slots, exS, exE, usep, s, Schema.name]

/-- **non-vacuity**: the browser posts the four pairs, and `from_flat` of them is the element itself —
    both sides evaluated -/
theorem exT_end_to_end :
    browserSubmit (seenOf Tables.current freshGen.ctx) (some 0) (renderForm [] exT)
        = .ok [(s "name", s "Ann"), (s "bio", s "hi & bye"), (s "yes", s "1"), (s "sub_pick", s "b")] ∧
    fromFlat exEnvB usep exS
        [(s "name", s "Ann"), (s "bio", s "hi & bye"), (s "yes", s "1"), (s "sub_pick", s "b")] = exE ∧
    prS exEnvB usep false exS exE = exE := by
  obtain ⟨hl, hf, hsub, hcan, hw, hroot, hok, henv, hs, hnd, hdrop⟩ := hyps_unpack exT_hyps
  have hp := form_roundtrip_fresh exT hf hsub
  rw [exT_pairs] at hp
  have hprs : prS exEnvB usep false exS exE = exE := by
    simp [prS, prSPick, pr, innerPairs, touched, isReq, keepS, lookup, isPrefix, exS, exE,
      Schema.name, Schema.opt, flatten, flattenNode, resolve, resolveMembers, resolveOne, membersOf,
      bfsFlat, childItems, kidsFrom, namePath, joinSep, FNode.fl, FNode.cfl, FNode.u, FNode.name,
      FNode.kids, FNode.slots, usep, s]
  refine ⟨hp, ?_, hprs⟩
  rw [end_to_end_partial exEnvB exS exE exT exT_hyps _ hp, hprs]

/-! ### `EndToEnd_Full` is false: an unchecked Boolean in a SparseDict is not re-created -/

def exSparseS : Schema := .dict none false .sparse [ .leaf (some (s "b")) true 1 ]
def exSparseE : Elem := .dict [ (s "b", .leaf []) ]
def exSparseT : FormTree := .dict none [ .bool (some (s "b")) (s "1") [] [] ]

theorem exSparse_linked : linked exEnvB exSparseS exSparseE exSparseT = true := by
  simp [linked, embed, embedAll, resolve, resolveMembers, resolveOne, membersOf, exSparseS, exSparseE, exSparseT,
    fnodeBeq, fnodesBeq, Schema.name, s]

theorem exSparse_base : baseHyps Tables.current exEnvB exSparseS exSparseE exSparseT = true := by
  simp only [baseHyps, exSparse_linked, Bool.true_and]
  decide

/-- all the other hypotheses of `end_to_end_partial` hold too — only `dropSafe` fails -/
example : hnodupB exEnvB usep exSparseS (wrap (formPairs [] exSparseT ++ uncheckedPairs [] exSparseT)) = true
    ∧ boolsCanonical exSparseT = true ∧ dropSafe exEnvB exSparseS = false
    ∧ uncheckedPairs [] exSparseT = [(s "b", [])] := by decide

theorem end_to_end_full_fails : ¬ EndToEnd_Full := by
  intro h
  have hb := exSparse_base
  simp only [baseHyps, Bool.and_eq_true] at hb
  have hp := form_roundtrip_fresh exSparseT hb.1.1.1.1.1.2 hb.1.1.1.1.2
  have := h exEnvB exSparseS exSparseE exSparseT exSparse_base _ hp
  revert this
  have e1 : formPairs [] exSparseT = [] := by decide
  rw [e1]
  simp [fromFlat, setFlat, blank, wrap, possibles, prS, prSPick, pr, innerPairs, touched, isReq, keepS, lookup,
    isPrefix, exSparseS, exSparseE, Schema.name, Schema.opt, flatten, flattenNode, resolve, resolveMembers,
    resolveOne, membersOf, bfsFlat, childItems, kidsFrom, namePath, joinSep, FNode.fl, FNode.cfl, FNode.u,
    FNode.name, FNode.kids, FNode.slots, usep, s]

/-! ### `dropSafe`, Lists: an unchecked Boolean that is the last pair of a non-pruning List's slot -/

/-- List(prune_empty=False) 'l' of Boolean -/
def exNPS : Schema := .list (some (s "l")) false false 1024 (.leaf none false 1)
def exNPE : Elem := .list [ .leaf (s "1"), .leaf [] ]

/-- the checked box of slot 0 is posted, the unchecked one of slot 1 is not: the rebuilt list has one
    member, the element two (with `prune_empty = True`, the default, both have one) -/
theorem exNonPruning_differs :
    fromFlat exEnvB usep exNPS [(s "l_0", s "1")] = .list [ .leaf (s "1") ] ∧
    fromFlat exEnvB usep exNPS [(s "l_0", s "1"), (s "l_1", [])] = .list [ .leaf (s "1"), .leaf [] ] := by
  constructor <;>
  simp [fromFlat, setFlat, blank, wrap, indexesOf, groupOf, listAddr, matchIndex, isPrefix, truthy, isNd,
    ndVal, digitsVal, exEnvB, exNPS, buildSlots, usep, s, List.range, List.range.loop]

example : dropSafe exEnvB exNPS = false := by decide

/-! ### `dropSafe`, kinds: a Boolean with custom tokens reads `''` as its false token (KF-C01-h) -/

/-- Dict{ c: Boolean(true='yes', false='no') } — never set: the box is unchecked, `flatten()` has
    `('c', '')`; the pair, when present, sets the leaf to `'no'`; the form does not post it -/
def exCustomS : Schema := .dict none false .dense [ .leaf (some (s "c")) false 2 ]

example : dropSafe exEnvB exCustomS = false ∧ blankSettled exEnvB exCustomS = false := by decide

theorem exCustom_differs :
    fromFlat exEnvB usep exCustomS [] = .dict [ (s "c", .leaf []) ] ∧
    fromFlat exEnvB usep exCustomS [(s "c", [])] = .dict [ (s "c", .leaf (s "no")) ] := by
  constructor <;>
  simp [fromFlat, setFlat, setFields, blank, blankFields, wrap, possibles, lookup, replace, membersOf, isPrefix,
    exEnvB, exCustomS, Schema.name, usep, s]

/-! ### `hnodupB`: an Array / MultiValue with two members has one key twice -/

def exArrS : Schema := .dict none false .dense [ .array (some (s "a")) false true (.leaf none false 0) ]

example : hnodupB exEnvB usep exArrS (wrap [(s "a", s "x"), (s "a", s "y")]) = false
    ∧ hnodupB exEnvB usep exArrS (wrap [(s "a", s "x")]) = true := by decide

/-- … and there the ORDER of the posted pairs is the order of the members: C02's `order_free` does
    not apply (the composition would need its stable, per-key version) -/
example : fromFlat exEnvB usep exArrS [(s "a", s "x"), (s "a", s "y")]
    ≠ fromFlat exEnvB usep exArrS [(s "a", s "y"), (s "a", s "x")] := by
  simp [fromFlat, setFlat, setFields, blank, blankFields, wrap, possibles, lookup, replace, membersOf, isPrefix,
    arrayNamed, arrayRemainder, truthy, exEnvB, exArrS, Schema.name, usep, s]

end Flatland.EndToEnd.Proofs
