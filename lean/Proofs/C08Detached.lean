/-
C08 — "removed ⇒ unreachable", named by the call: what a call of the model reports as having left
the container (`StepR.detached`: the popped / deleted / replaced / cleared members) occurs nowhere
in the tree afterwards.  Complements `removed_unreachable` (Proofs/C08Frame.lean), which says the
same of every child that is not a child any more without asking which call it was.

Technique: the accounting inequality with the detached members on the left,
`cnt a new + cntL a detached ≤ cnt a old + (arguments) + ind`: an identity that was in the tree
once and is in a detached member cannot be in the new tree as well.
-/
import Proofs.C08Tree
namespace Flatland.C08.Proofs
open Flatland.Tree Flatland.PyList Flatland.C08 Flatland.C08.Spec
open Flatland.C10.Proofs (findKid_some findKid_none fieldFor_some hdr_parts hdr_eq_parts)

/-! ### exact list accounting: what leaves plus what stays is what was there -/

section lists
variable {α : Type} (w : α → Nat)

theorem wsum_erase_pick (is : List Nat) (k : Nat) (l : List α) :
    wsum w (eraseIdxsFrom is k l) + wsum w (pickIdxsFrom is k l) = wsum w l := by
  induction l generalizing k with
  | nil => simp [eraseIdxsFrom, pickIdxsFrom, wsum]
  | cons x xs ih =>
    have := ih (k + 1)
    rw [eraseIdxsFrom, pickIdxsFrom]
    split <;> simp only [wsum] <;> omega

theorem pick_set_of_not_mem (is : List Nat) (k : Nat) (l : List α) (i : Nat) (x : α) (h : k + i ∉ is) :
    pickIdxsFrom is k (l.set i x) = pickIdxsFrom is k l := by
  induction l generalizing k i with
  | nil => simp
  | cons y ys ih =>
    cases i with
    | zero =>
      have hc : is.contains k = false := by simpa using h
      simp only [List.set_cons_zero, pickIdxsFrom, hc]; rfl
    | succ i =>
      simp only [List.set_cons_succ, pickIdxsFrom]
      rw [ih (k + 1) i (by rw [Nat.add_assoc, Nat.add_comm 1 i]; exact h)]

theorem wsum_pick_cons (is : List Nat) (k : Nat) (l : List α) (i : Nat) (hi : i < l.length) (hn : k + i ∉ is) :
    wsum w (pickIdxsFrom ((k + i) :: is) k l) = wsum w (pickIdxsFrom is k l) + w l[i] := by
  induction l generalizing k i with
  | nil => simp at hi
  | cons y ys ih =>
    cases i with
    | zero =>
      have hc : is.contains k = false := by simpa using hn
      -- position k itself: picked now, not before; the rest is unaffected
      have hrest : ∀ (m : Nat) (zs : List α), k < m → pickIdxsFrom (k :: is) m zs = pickIdxsFrom is m zs := by
        intro m zs hm
        induction zs generalizing m with
        | nil => rfl
        | cons z zs ihz =>
          have : (k :: is).contains m = is.contains m := by
            simp only [List.contains_cons]
            have : (m == k) = false := by simp; omega
            rw [this]; rfl
          rw [pickIdxsFrom, pickIdxsFrom, this, ihz (m + 1) (by omega)]
      simp only [Nat.add_zero, pickIdxsFrom, List.contains_cons, beq_self_eq_true, Bool.true_or, if_true, hc,
        List.getElem_cons_zero, wsum]
      rw [hrest (k + 1) ys (by omega)]; simp; omega
    | succ i =>
      have hne : ((k + (i + 1)) :: is).contains k = is.contains k := by
        simp only [List.contains_cons]
        have : (k == k + (i + 1)) = false := by simp
        rw [this]; rfl
      have := ih (k + 1) i (by simpa using hi) (by rw [Nat.add_assoc, Nat.add_comm 1 i]; exact hn)
      rw [Nat.add_assoc, Nat.add_comm 1 i] at this
      rw [pickIdxsFrom, pickIdxsFrom, hne]
      split <;> simp only [wsum, List.getElem_cons_succ] <;> omega

theorem wsum_assign_pick (l : List α) (is : List Nat) (xs : List α) (hn : is.Nodup) (hlt : ∀ i ∈ is, i < l.length)
    (hlen : xs.length = is.length) :
    wsum w (assign l is xs) + wsum w (pickIdxsFrom is 0 l) = wsum w l + wsum w xs := by
  induction is generalizing l xs with
  | nil =>
    cases xs with
    | nil =>
      have : ∀ (k : Nat) (zs : List α), pickIdxsFrom [] k zs = [] := by
        intro k zs; induction zs generalizing k with
        | nil => rfl
        | cons z zs ih => rw [pickIdxsFrom]; simp [ih]
      simp [assign, this, wsum]
    | cons y ys => simp at hlen
  | cons i is ih =>
    cases xs with
    | nil => simp at hlen
    | cons y ys =>
      rw [List.nodup_cons] at hn
      have hi : i < l.length := hlt i (by simp)
      have h1 := ih (l.set i y) ys hn.2 (fun j hj => by rw [List.length_set]; exact hlt j (by simp [hj])) (by simpa using hlen)
      have h2 := pick_set_of_not_mem is 0 l i y (by simpa using hn.1)
      have h3 := wsum_pick_cons w is 0 l i hi (by simpa using hn.1)
      have h4 := wsum_set w l i y hi
      rw [Nat.zero_add] at h3
      rw [assign, h3]
      rw [h2] at h1
      simp only [wsum]; omega

/-- the members a slice assignment replaces, as the model reports them -/
def sliceRemoved (l : List α) (s : Slice) : List α :=
  match adjust l.length s with
  | some ix =>
    if ix.step = 1 then (l.drop ix.start.toNat).take ((max ix.start ix.stop).toNat - ix.start.toNat)
    else pickIdxsFrom (indices ix) 0 l
  | none => []

theorem wsum_setSlice_exact {l l' : List α} {s : Slice} {new : List α} (h : setSlice l s new = .ok l') :
    wsum w l' + wsum w (sliceRemoved l s) = wsum w l + wsum w new := by
  unfold setSlice at h
  unfold sliceRemoved
  split at h
  · cases h
  · rename_i ix hix
    simp only [hix]
    split at h
    · rename_i h1
      cases h
      simp only [h1, if_true]
      have ha := wsum_take_drop w l ix.start.toNat
      have hb := wsum_take_drop w (l.drop ix.start.toNat) ((max ix.start ix.stop).toNat - ix.start.toNat)
      have hd : (l.drop ix.start.toNat).drop ((max ix.start ix.stop).toNat - ix.start.toNat) = l.drop (max ix.start ix.stop).toNat := by
        rw [List.drop_drop]; congr 1; omega
      rw [hd] at hb
      simp only [wsum_append]; omega
    · rename_i h1
      split at h
      · cases h
      · rename_i hlen
        cases h
        simp only [h1, if_false]
        obtain ⟨g1, g2, g3⟩ := indices_ok hix
        exact wsum_assign_pick w l (indices ix) new g1 g2 (by rw [g3]; exact Decidable.of_not_not hlen)

theorem wsum_delSlice_exact {l l' : List α} {s : Slice} (h : delSlice l s = .ok l') :
    wsum w l' + wsum w (delSliceRemoved l s) = wsum w l := by
  unfold delSlice at h
  unfold delSliceRemoved
  split at h
  · cases h
  · rename_i ix hix
    cases h
    exact wsum_erase_pick w _ _ _

theorem wsum_filter_split (p : α → Bool) (l : List α) :
    wsum w (l.filter p) + wsum w (l.filter (fun x => !p x)) = wsum w l := by
  induction l with
  | nil => simp [wsum]
  | cons x xs ih =>
    rw [List.filter_cons, List.filter_cons]
    cases hp : p x <;> simp only [hp, Bool.not_false, Bool.not_true, if_true, if_false, Bool.false_eq_true, wsum] <;> omega

end lists

theorem wsum_eraseIdx_opt {α : Type} (w : α → Nat) (l : List α) (k : Nat) :
    wsum w (l.eraseIdx k) + wsum w (l[k]?).toList = wsum w l := by
  by_cases h : k < l.length
  · have := wsum_eraseIdx w l k h
    rw [List.getElem?_eq_getElem h]; simp only [Option.toList, wsum]; omega
  · rw [List.eraseIdx_of_length_le (by omega), List.getElem?_eq_none (by omega)]; simp [wsum]

theorem wsum_set_opt {α : Type} (w : α → Nat) (l : List α) (k : Nat) (x : α) :
    wsum w (l.set k x) + wsum w (l[k]?).toList ≤ wsum w l + w x := by
  by_cases h : k < l.length
  · have := wsum_set w l k x h
    rw [List.getElem?_eq_getElem h]; simp only [Option.toList, wsum]; omega
  · rw [List.set_eq_of_length_le (by omega), List.getElem?_eq_none (by omega)]; simp [wsum]

/-! ### sequences -/

/-- the accounting inequality with the members that left on the left -/
def Det (n : Node) (args : List Node) (next : Nat) (r : StepR) : Prop :=
  ∀ a, cnt a r.node + cntL a r.detached ≤ cnt a n + cntL a args + ind next r.next a

theorem det_exc (n : Node) (args : List Node) {next n1 : Nat} (e : Exc) : Det n args next (excOut n n1 e) :=
  fun a => by simp only [excOut, cntL_nil]; omega

theorem det_of_ls {n : Node} {args : List Node} {next : Nat} {r : StepR} (h : LS next (n :: args) r.next [r.node])
    (hd : r.detached = []) : Det n args next r := fun a => by
  have := h.hcnt a
  simp only [cntL_cons, cntL_nil] at this
  rw [hd, cntL_nil]; omega

/-- the list-protocol calls for which the model reports members leaving the container -/
def Removing : SeqOp → Bool
  | .setitem _ _ | .setslice _ _ | .delitem _ | .delslice _ | .pop _ | .remove _ | .clear | .imul _ | .set _ => true
  | _ => false

theorem seqStep_detached_nil (n : Node) (op : SeqOp) (next : Nat) (h : Removing op = false) :
    (seqStep n op next).detached = [] := by
  unfold seqStep
  split
  · rfl
  · cases op <;> simp only [Removing] at h <;> (try cases h) <;> dsimp only <;>
      (repeat' split) <;> rfl

theorem delItem_eq {α : Type} {l l' : List α} {i : Int} {k : Nat} (h : delItem l i = some l')
    (hk : normIndex l.length i = some k) : l' = l.eraseIdx k := by
  unfold delItem at h; rw [hk] at h; cases h; rfl

theorem popAt_eq {α : Type} {l l' : List α} {i : Int} {x : α} (h : popAt l i = some (x, l')) :
    ∃ k, l' = l.eraseIdx k ∧ l[k]? = some x := by
  unfold popAt at h
  split at h
  · cases h
  · rename_i k _
    split at h
    · cases h
    · rename_i y hy
      cases h; exact ⟨k, rfl, hy⟩

/-- **what left is accounted for, sequences, every call** -/
theorem seqStep_det (n : Node) (hk : kok n = true) (hseq : IsSeq n.kind) (op : SeqOp)
    (hop : kokL (placedSeq op) = true) (next : Nat) : Det n (placedSeq op) next (seqStep n op next) := by
  have hmap : isMap n.kind = false := isSeq_not_map hseq
  by_cases hrem : Removing op = false
  · exact det_of_ls (seqStep_ls n hk hmap op hop next) (seqStep_detached_nil n op next hrem)
  have hkids : kokL n.kids = true := kokL_of_kok hk
  have hkid : ∀ x ∈ n.kids, kok x = true := (kokL_iff _).mp hkids
  have hs : swf n.sch = true := kok_swf hk
  -- the new underlying list `ks` (possibly renumbered) with the members `det` gone
  have hfin : ∀ (ks det : List Node) (n1 : Nat) (out : Out) (extra : Nat → Nat),
      (∀ a, cntL a ks + cntL a det ≤ cntL a n.kids + extra a) →
      (∀ a, extra a ≤ cntL a (placedSeq op) + ind next n1 a) →
      Det n (placedSeq op) next ⟨n.withKids (if n.kind = .list then renumber ks else ks), n1, out, det⟩ := by
    intro ks det n1 out extra h1 h2 a
    have := h1 a; have := h2 a
    have hr : cntL a (if n.kind = .list then renumber ks else ks) = cntL a ks := by
      split
      · exact cntL_renumber a ks
      · rfl
    show cnt a (n.withKids _) + cntL a det ≤ cnt a n + cntL a (placedSeq op) + ind next n1 a
    rw [cnt_withKids, hr, cnt_eq a n]; omega
  have hfin0 : ∀ (ks det : List Node) (n1 : Nat) (out : Out) (extra : Nat → Nat),
      (∀ a, cntL a ks + cntL a det ≤ cntL a n.kids + extra a) →
      (∀ a, extra a ≤ cntL a (placedSeq op) + ind next n1 a) →
      Det n (placedSeq op) next ⟨n.withKids ks, n1, out, det⟩ := by
    intro ks det n1 out extra h1 h2 a
    have := h1 a; have := h2 a
    show cnt a (n.withKids _) + cntL a det ≤ cnt a n + cntL a (placedSeq op) + ind next n1 a
    rw [cnt_withKids, cnt_eq a n]; omega
  unfold seqStep
  split
  · exact det_exc _ _ _
  · rename_i m hm
    have hsm : swf m = true := swf_member hs hm
    cases op with
    | setitem i a =>
      dsimp only
      split
      · rename_i hlist
        cases a with
        | elem e =>
          dsimp only
          split
          · exact det_exc _ _ _
          · rename_i slot hg
            split
            · exact det_exc _ _ _
            · rename_i k hnk
              have hl := getItem_idx hg hnk
              refine hfin0 _ _ _ _ (fun a => cnt a e) (fun a => ?_) (fun a => by simp [placedSeq, argElems, cntL_singleton])
              have h1 := wsum_set' (cnt a) hl (slot.withKids [e.withParent (some slot.id)])
              rw [cnt_withKids, cntL_singleton, cnt_withParent, cnt_eq a slot] at h1
              rw [cntL_eq_wsum a (n.kids.set _ _), cntL_eq_wsum a n.kids]; omega
        | plain r =>
          dsimp only
          split
          · rename_i slot k hg hnk
            have hl := getItem_idx hg hnk
            have hslot := hkid slot (List.mem_of_getElem? hl)
            split
            · exact det_exc _ _ _
            · rename_i el hel
              have helm : el ∈ slot.kids := by
                unfold slotElement at hel; exact List.mem_of_mem_head? hel
              have hS := setNode_ls r el none next ((kokL_iff _).mp (kokL_of_kok hslot) el helm)
              have hL := withKids_ls (extra := []) hk hmap
                (set_slot_ls (extra := []) hl hkids hS (fun y => by
                  have := cnt_le_cntL (a := y) helm
                  simp only [cntL_singleton, cntL_nil]; omega))
              split
              · exact det_of_ls (r := ⟨_, _, _, []⟩) hL rfl
              · exact det_of_ls (r := ⟨_, _, _, []⟩) hL rfl
          · exact det_exc _ _ _
      · split
        · exact det_exc _ _ _
        · rename_i w n1 h
          have h1 := wrap_ok_ls hsm hop h
          split
          · exact det_exc _ _ _
          · rename_i k _
            refine hfin0 _ _ _ _ (fun a => cnt a w) (fun a => ?_) (fun a => by
              have := h1.hcnt a; simp only [cntL_singleton] at this; exact this)
            have := wsum_set_opt (cnt a) n.kids k (w.withParent (some n.id))
            rw [cnt_withParent] at this
            rw [cntL_eq_wsum a (n.kids.set _ _), cntL_eq_wsum a n.kids, cntL_eq_wsum a (n.kids[k]?).toList]; exact this
    | setslice sl as =>
      dsimp only
      split
      · exact det_exc _ _ _
      · rename_i ws n1 hws
        have h1 := wrapAll_ok_ls hsm as next n1 ws hop hws
        split
        · have h2 := h1.trans (newSlots_ls n.id n.kids.length ws n1 h1.hkok)
          split
          · exact det_exc _ _ _
          · rename_i ks hss
            refine (fun a => ?_)
            have he := wsum_setSlice_exact (cnt a) hss
            have hc := h2.hcnt a
            show cnt a (n.withKids (renumber ks)) + cntL a (sliceRemoved n.kids sl) ≤
              cnt a n + cntL a (as.flatMap argElems) + ind next (newSlots n.id n.kids.length ws n1).2 a
            rw [cnt_withKids, cntL_renumber, cnt_eq a n, cntL_eq_wsum a ks, cntL_eq_wsum a (sliceRemoved _ _),
              cntL_eq_wsum a n.kids]
            rw [cntL_eq_wsum a (newSlots _ _ _ _).1] at hc
            omega
        · split
          · exact det_exc _ _ _
          · rename_i ks hss
            refine (fun a => ?_)
            have he := wsum_setSlice_exact (cnt a) hss
            rw [wsum_map_eq (cnt a) (cnt a) (fun w => w.withParent (some n.id)) (fun x => cnt_withParent a x _)] at he
            have hc := h1.hcnt a
            show cnt a (n.withKids ks) + cntL a (sliceRemoved n.kids sl) ≤
              cnt a n + cntL a (as.flatMap argElems) + ind next n1 a
            rw [cnt_withKids, cnt_eq a n, cntL_eq_wsum a ks, cntL_eq_wsum a (sliceRemoved _ _), cntL_eq_wsum a n.kids]
            rw [cntL_eq_wsum a ws] at hc
            omega
    | delitem i =>
      dsimp only
      split
      · rename_i ks k hd hnk
        rw [delItem_eq hd hnk]
        refine hfin _ _ _ _ (fun _ => 0) (fun a => ?_) (fun a => Nat.zero_le _)
        have := wsum_eraseIdx_opt (cnt a) n.kids k
        rw [cntL_eq_wsum a (n.kids.eraseIdx k), cntL_eq_wsum a n.kids, cntL_eq_wsum a (n.kids[k]?).toList]; omega
      · exact det_exc _ _ _
    | delslice sl =>
      dsimp only
      split
      · exact det_exc _ _ _
      · rename_i ks hd
        refine hfin _ _ _ _ (fun _ => 0) (fun a => ?_) (fun a => Nat.zero_le _)
        have := wsum_delSlice_exact (cnt a) hd
        rw [cntL_eq_wsum a ks, cntL_eq_wsum a n.kids, cntL_eq_wsum a (delSliceRemoved _ _)]; omega
    | pop i =>
      dsimp only
      split
      · exact det_exc _ _ _
      · rename_i x ks hp
        have hx := fun a => wsum_popAt (cnt a) hp
        split
        · refine hfin0 _ _ _ _ (fun _ => 0) (fun a => ?_) (fun a => Nat.zero_le _)
          have := hx a
          rw [cntL_renumber, cntL_singleton, cnt_withParent, cntL_eq_wsum a ks, cntL_eq_wsum a n.kids]; omega
        · refine hfin0 _ _ _ _ (fun _ => 0) (fun a => ?_) (fun a => Nat.zero_le _)
          have := hx a
          rw [cntL_singleton, cntL_eq_wsum a ks, cntL_eq_wsum a n.kids]; omega
    | remove a =>
      dsimp only
      split
      · exact det_exc _ _ _
      · rename_i w n1 h
        have hle := wrap_le' hsm h
        split
        · exact det_exc _ _ _
        · rename_i k _
          refine hfin _ _ _ _ (fun _ => 0) (fun a => ?_) (fun a => Nat.zero_le _)
          have := wsum_eraseIdx_opt (cnt a) n.kids k
          rw [cntL_eq_wsum a (n.kids.eraseIdx k), cntL_eq_wsum a n.kids, cntL_eq_wsum a (n.kids[k]?).toList]; omega
    | clear =>
      exact hfin0 _ _ _ _ (fun _ => 0) (fun a => by simp) (fun a => Nat.zero_le _)
    | imul c =>
      dsimp only
      split
      · refine hfin _ _ _ _ (fun _ => 0) (fun a => by simp) (fun a => Nat.zero_le _)
      · have hL := imulLoop_ls hsm ((members n).map (fun x => Arg.plain (imulValue x)))
          (by have := plain_args_nil ((members n).map imulValue); rw [List.map_map] at this; exact this)
          (c.toNat - 1) n next hk hmap
        split
        · exact det_of_ls (r := ⟨_, _, _, []⟩) (hL.of_le (fun x => by simp only [cntL_cons, cntL_nil]; omega)) rfl
        · exact det_of_ls (r := ⟨_, _, _, []⟩) (hL.of_le (fun x => by simp only [cntL_cons, cntL_nil]; omega)) rfl
    | set r =>
      have hL := setNode_ls r (n.withKids []) none next (kok_withKids_nil hk)
      have hseq' : setNode n r none next = setNode (n.withKids []) r none next := setNode_seq_forget' n hseq r none next
      have hD : ∀ a, cnt a (setNode n r none next).node + cntL a n.kids ≤
          cnt a n + cntL a (placedSeq (.set r)) + ind next (setNode n r none next).next a := by
        intro a
        rw [hseq']
        have := hL.hcnt a
        simp only [cntL_singleton, cnt_withKids, cntL_nil] at this
        rw [cnt_eq a n]; omega
      dsimp only
      split
      · exact hD
      · exact hD
    | append _ | extend _ | iadd _ | insert _ _ | reverse | sort _ _ | setDefault | len | getitem _ | getslice _
    | contains _ | index _ | count _ => exact absurd rfl hrem

/-! ### mappings -/

theorem mapUpdatePairs_detached (kvs : List (Str × Raw)) : ∀ (n : Node) (next : Nat),
    (mapUpdatePairs n kvs next).detached = [] := by
  induction kvs with
  | nil => intro n next; rfl
  | cons kv rest ih =>
    intro n next
    obtain ⟨k, v⟩ := kv
    rw [mapUpdatePairs]
    split
    · rfl
    · exact ih _ _

/-- item assignment reports a member as leaving in one case only: an element of the declared
    field class replacing the child stored under the key -/
theorem mapSetItem_detached (n : Node) (key : Str) (a : Arg) (next : Nat) :
    (mapSetItem n key a next).detached = [] ∨
    ∃ child e, a = .elem e ∧ findKid n.kids key = some child ∧
      mapSetItem n key a next =
        ⟨n.withKids (replaceKid n.kids key ((e.withParent (some n.id)).withKey key)), next, .ok, [child]⟩ := by
  unfold mapSetItem
  repeat' (first | split | (dsimp only; split))
  all_goals first | exact .inl rfl | exact .inr ⟨_, _, rfl, ‹_›, rfl⟩

theorem mapSetItem_det (n : Node) (hk : kok n = true) (hm : isMap n.kind = true) (key : Str) (a : Arg)
    (ha : kokL (argElems a) = true) (next : Nat) : Det n (argElems a) next (mapSetItem n key a next) := by
  rcases mapSetItem_detached n key a next with h | ⟨child, e, rfl, hc, heq⟩
  · exact det_of_ls (mapSetItem_ls n hk hm key a ha next).1 h
  · rw [heq]
    intro x
    have hnd : (n.kids.map Node.key).Nodup := ((kok_iff n).mp hk).2.1 hm
    have h1 := wsum_replaceKid (cnt x) n.kids key ((e.withParent (some n.id)).withKey key) child hnd hc
    show cnt x (n.withKids _) + cntL x [child] ≤ cnt x n + cntL x [e] + ind next next x
    rw [cnt_withKids, cntL_singleton, cntL_singleton, cnt_eq x n, cntL_eq_wsum x (replaceKid _ _ _), cntL_eq_wsum x n.kids]
    rw [cnt_withKey, cnt_withParent] at h1
    omega

theorem mapUpdateArgs_det (kvs : List (Str × Arg)) : ∀ (n : Node) (next : Nat), kok n = true → isMap n.kind = true →
    kokL (kvs.flatMap (fun p => argElems p.2)) = true →
    Det n (kvs.flatMap (fun p => argElems p.2)) next (mapUpdateArgs n kvs next) := by
  induction kvs with
  | nil => intro n next _ _ _ a; simp [mapUpdateArgs]
  | cons kv rest ih =>
    intro n next hk hm ha
    obtain ⟨k, a⟩ := kv
    rw [List.flatMap_cons, kokL_append] at ha
    have hs := mapSetItem_ls n hk hm k a ha.1 next
    have hd := mapSetItem_det n hk hm k a ha.1 next
    rw [mapUpdateArgs, List.flatMap_cons]
    split
    · intro x
      have := hd x
      show cnt x (mapSetItem n k a next).node + cntL x (mapSetItem n k a next).detached ≤
        cnt x n + cntL x (argElems a ++ _) + ind next (mapSetItem n k a next).next x
      rw [cntL_append]; omega
    · have h2 := ih _ (mapSetItem n k a next).next (kok_single.mp hs.1.hkok) (kok_congr_map hs.2 hm) ha.2
      have hle2 := (mapUpdateArgs_ls rest _ (mapSetItem n k a next).next (kok_single.mp hs.1.hkok) (kok_congr_map hs.2 hm) ha.2).1.hle
      intro x
      have := hd x; have := h2 x; have := ind_add x hs.1.hle hle2
      show cnt x (mapUpdateArgs _ rest _).node + cntL x ((mapSetItem n k a next).detached ++ (mapUpdateArgs _ rest _).detached) ≤
        cnt x n + cntL x (argElems a ++ _) + ind next (mapUpdateArgs _ rest _).next x
      rw [cntL_append, cntL_append]; omega

/-- the dict-protocol calls for which the model reports members leaving the container -/
def RemovingM : MapOp → Bool
  | .setitem _ _ | .delitem _ | .pop _ | .clear | .updateArgs _ => true
  | _ => false

theorem mapStep_detached_nil (n : Node) (op : MapOp) (next : Nat) (h : RemovingM op = false) :
    (mapStep n op next).detached = [] := by
  unfold mapStep
  cases op <;> simp only [RemovingM] at h <;> (try cases h) <;> dsimp only <;>
    (repeat' (first | split | (dsimp only; split))) <;>
    first | rfl | exact mapUpdatePairs_detached _ _ _

theorem erase_det (w : Node → Nat) (kids : List Node) (k : Str) :
    wsum w (eraseKey kids k) + wsum w (findKid kids k).toList ≤ wsum w kids := by
  have h1 := wsum_filter_split w (fun c => !(c.key == k)) kids
  unfold eraseKey
  cases hf : findKid kids k with
  | none => simp only [Option.toList, wsum]; omega
  | some c =>
    have hc := findKid_some hf
    have hm : c ∈ kids.filter (fun x => !(!(x.key == k))) := List.mem_filter.mpr ⟨hc.1, by simp [hc.2]⟩
    have := wsum_mem_le w hm
    simp only [Option.toList, wsum]; omega

/-- **what left is accounted for, mappings, every call** -/
theorem mapStep_det (n : Node) (hk : kok n = true) (hm : isMap n.kind = true) (op : MapOp)
    (hop : kokL (placedMap op) = true) (next : Nat) : Det n (placedMap op) next (mapStep n op next) := by
  by_cases hrem : RemovingM op = false
  · exact det_of_ls (mapStep_ls n hk hm op hop next).1 (mapStep_detached_nil n op next hrem)
  have herase : ∀ (k : Str) (out : Out) (det : List Node), (∀ a, cntL a det ≤ cntL a (findKid n.kids k).toList) →
      Det n (placedMap op) next ⟨n.withKids (eraseKey n.kids k), next, out, det⟩ := by
    intro k out det hdet a
    have := erase_det (cnt a) n.kids k
    have := hdet a
    show cnt a (n.withKids _) + cntL a det ≤ cnt a n + cntL a (placedMap op) + ind next next a
    rw [cnt_withKids, cnt_eq a n, cntL_eq_wsum a (eraseKey _ _), cntL_eq_wsum a n.kids]
    rw [cntL_eq_wsum a (findKid n.kids k).toList] at this; omega
  unfold mapStep
  cases op with
  | setitem k a => exact mapSetItem_det n hk hm k a hop next
  | delitem k =>
    dsimp only
    split
    · split <;> exact det_exc _ _ _
    · split
      · split
        · exact herase k _ _ (fun a => Nat.le_refl _)
        · split <;> exact det_exc _ _ _
      · split
        · exact det_exc _ _ _
        · exact det_exc _ _ _
        · split
          · exact herase k _ _ (fun a => Nat.le_refl _)
          · exact det_exc _ _ _
  | pop k =>
    dsimp only
    split
    · exact det_exc _ _ _
    · split
      · exact det_exc _ _ _
      · split
        · exact det_exc _ _ _
        · split
          · rename_i c hc
            exact herase k _ _ (fun a => by rw [hc]; exact Nat.le_refl _)
          · exact det_exc _ _ _
  | clear =>
    dsimp only
    split
    · have hL := (mapReset_ls n hk hm next).1
      have hh := id_of_hdr (mapReset_hdr n next)
      intro a
      have h1 := hL.hcnt a
      simp only [cntL_singleton] at h1
      -- the reset children are all fresh: nothing of the old children is in them
      have hfresh : cntL a (mapReset n next).1.kids ≤ ind next (mapReset n next).2 a := by
        have hsub : swfL n.sch.subs = true := (swfL_iff _).mpr (swf_subs (kok_swf hk))
        unfold mapReset
        split
        · rw [kids_withKids']; have := (blankFields_ls n.sch.subs n.id false next hsub).hcnt a; simpa using this
        · split
          · rw [kids_withKids']; have := (blankFields_ls n.sch.subs n.id true next hsub).hcnt a; simpa using this
          · rw [kids_withKids']; simp
      show cnt a (mapReset n next).1 + cntL a n.kids ≤ cnt a n + cntL a (placedMap .clear) + ind next (mapReset n next).2 a
      rw [cnt_eq a (mapReset n next).1, hh, cnt_eq a n]; omega
    · exact det_exc _ _ _
  | updateArgs kvs => exact mapUpdateArgs_det kvs n next hk hm hop
  | popitem | update _ _ | ior _ | setdefault _ _ | get _ | set _ _ | setDefault | contains _ | len =>
    exact absurd rfl hrem

/-! ### anywhere in a tree -/

theorem nodeStep_det (n : Node) (hk : kok n = true) (op : Op) (hop : kokL (placedArgs op) = true) (next : Nat) :
    Det n (placedArgs op) next (nodeStep n op next) := by
  have hself : Det n (placedArgs op) next (excOut n next .unsupported) := det_exc _ _ _
  cases op with
  | seq o =>
    have h := fun hs => seqStep_det n hk hs o hop next
    unfold nodeStep
    cases hkd : n.kind <;> simp only [] <;>
      first
      | exact h (by rw [hkd]; exact .inl rfl)
      | exact h (by rw [hkd]; exact .inr (.inl rfl))
      | exact h (by rw [hkd]; exact .inr (.inr rfl))
      | exact hself
  | map o =>
    have h := fun hm => mapStep_det n hk hm o hop next
    unfold nodeStep
    cases hkd : n.kind <;> simp only [] <;>
      first
      | exact h (by rw [hkd]; rfl)
      | exact hself

/-- **detached ⇒ unreachable** (every call of the model).  Whatever a call reports as having
    left the container — the popped, deleted, replaced, cleared members, with everything below
    them — occurs nowhere in the tree afterwards: no identity of the old tree that is in a
    detached member is an identity of the new tree. -/
theorem detached_unreachable (s : HState) (h : HOp) (hi : IdInv s) (ha : ArgsFresh s h.op)
    (n : Node) (hn : n ∈ nodes s.root) (hid : n.id = h.target) :
    ∀ d ∈ (nodeStep n h.op s.next).detached, ∀ a ∈ ids d, a ∈ ids s.root →
      a ∉ ids (hstep s h).root ∧ ∀ x, Reach (hstep s h).root x → x.id ≠ a := by
  obtain ⟨r, hr⟩ := stepAt_some h.op h.target s.root s.next n hn hid
  obtain ⟨n0, hf⟩ := stepAt_framed h.op h.target s.root s.next r hr
  have hn0 : n0 = n := eq_of_nodup_map_id hi.uniq hf.mem hn (hf.id.trans hid.symm)
  subst hn0
  have hroot : (hstep s h).root = r.node := by unfold hstep; rw [hr]
  rw [hroot]
  intro d hd a had hold
  have hgone : a ∉ ids r.node := by
    intro hin
    have hD := nodeStep_det n0 (kok_of_mem_nodes s.root n0 hi.keys hf.mem) h.op ((kokL_iff _).mpr ha.2.2) s.next a
    have h1 := cnt_le_of_nodup hi.uniq a
    have h2 := cnt_le_of_mem_nodes a s.root n0 hf.mem
    have h3 := hf.cnt_eq a
    have h4 := (mem_ids_iff _ _).mp hin
    have h5 : 0 < cntL a (nodeStep n0 h.op s.next).detached :=
      Nat.lt_of_lt_of_le ((mem_ids_iff a d).mp had) (cnt_le_cntL hd)
    have h6 := args_disjoint ha a hold
    have h7 := ind_eq_zero_of_lt (hi := (nodeStep n0 h.op s.next).next) (hi.below a hold)
    have h8 := (mem_ids_iff _ _).mp hold
    omega
  refine ⟨hgone, fun x hx hxid => hgone ?_⟩
  rw [← hxid]
  exact List.mem_map.mpr ⟨x, reach_mem_nodes hx, rfl⟩

end Flatland.C08.Proofs
