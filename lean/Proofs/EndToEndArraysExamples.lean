/-
END TO END with Arrays: non-vacuity, and the scope witnesses.
-/
import Proofs.EndToEndArrays
import Proofs.EndToEndExamples
namespace Flatland.EndToEnd.Proofs
open Flatland.Flat Flatland.Flat.Spec Flatland.Flat.Proofs Flatland.EndToEnd
open Flatland.C12 Flatland.C12.Proofs
open Flatland.Markup (Tables Attrs sChecked)

private def s (x : String) : Str := x.toList

/-- Dict{ a: Array[String], z: String }: the Array is declared BEFORE the scalar -/
def exAS : Schema :=
  .dict none false .dense
    [ .array (some (s "a")) false true (.leaf none false 0), .leaf (some (s "z")) false 0 ]

def exAE : Elem := .dict [ (s "a", .array [ .leaf (s "x"), .leaf (s "y") ]), (s "z", .leaf (s "1")) ]

/-- two checked checkboxes `a=x`, `a=y`, then a text input `z=1` -/
def exAT : FormTree :=
  .dict none [ .array (some (s "a")) false [s "x", s "y"] .checkboxes [[], []],
               .text (some (s "z")) (s "1") (.input (some (s "text"))) [] ]

theorem exA_linked : linked exEnvB exAS exAE exAT = true := by
  simp [linked, embed, embedAll, memberNode, resolve, resolveMembers, resolveOne, resolveList, membersOf,
    exAS, exAE, exAT, fnodeBeq, fnodesBeq, Schema.name, s]

/-- document order: the Array's pairs first … -/
theorem exA_pairs : formPairs [] exAT = [(s "a", s "x"), (s "a", s "y"), (s "z", s "1")] := by decide

/-- … `flatten()` is breadth first: the scalar first (document order ≠ `flatten()` order) -/
theorem exA_flatten : flatten exEnvB usep exAS exAE = [(s "z", s "1"), (s "a", s "x"), (s "a", s "y")] := by
  simp [flatten, flattenNode, resolve, resolveMembers, resolveOne, resolveList, membersOf, bfsFlat, childItems,
    kidsFrom, namePath, joinSep, FNode.fl, FNode.cfl, FNode.u, FNode.name, FNode.kids, FNode.slots, exAS,
    exAE, usep, s, Schema.name]

/-- every hypothesis of `end_to_end_arrays_partial` holds (all by evaluation) … -/
theorem exA_hypsA : hypsA Tables.current exEnvB exAS exAE exAT = true := by
  simp only [hypsA, exA_linked, exA_flatten, exA_pairs, Bool.true_and]
  decide

/-- … while `narrowB`, `hnodupB`, `hypsN` and `hyps` all fail: none of the earlier theorems applies -/
theorem exA_only_arrays_applies :
    narrowB exAS exAE = false ∧
    hnodupB exEnvB usep exAS (wrap (formPairs [] exAT ++ uncheckedPairs [] exAT)) = false ∧
    hypsN Tables.current exEnvB exAS exAE exAT = false ∧ hyps Tables.current exEnvB exAS exAE exAT = false := by
  simp only [hypsN, hyps, exA_linked, Bool.true_and]
  decide

/-- the rebuilt tree computed directly from the document-order pairs: the members in member order -/
theorem exA_fromFlat : fromFlat exEnvB usep exAS [(s "a", s "x"), (s "a", s "y"), (s "z", s "1")] = exAE := by
  simp [fromFlat, setFlat, setFields, blank, blankFields, wrap, possibles, lookup, replace, membersOf, isPrefix,
    arrayNamed, arrayRemainder, truthy, exEnvB, exAS, exAE, Schema.name, usep, s, List.find?]

/-- **non-vacuity**, both sides evaluated: the browser posts the three pairs in document order, the
    theorem says `from_flat` of them is `prS e`, and that is the element itself -/
theorem exA_end_to_end :
    browserSubmit (seenOf Tables.current freshGen.ctx) (some 0) (renderForm [] exAT)
        = .ok [(s "a", s "x"), (s "a", s "y"), (s "z", s "1")] ∧
    fromFlat exEnvB usep exAS [(s "a", s "x"), (s "a", s "y"), (s "z", s "1")]
        = prS exEnvB usep false exAS exAE ∧
    prS exEnvB usep false exAS exAE = exAE := by
  obtain ⟨_, hf, hsub, _⟩ := hypsA_unpack exA_hypsA
  have hp := form_roundtrip_fresh exAT hf hsub
  rw [exA_pairs] at hp
  have h := end_to_end_arrays_partial exEnvB exAS exAE exAT exA_hypsA _ hp
  exact ⟨hp, h, by rw [← h]; exact exA_fromFlat⟩

/-- `order_free_canonical` on it: `z` moves past the Array's pairs -/
example : fromFlat exEnvB usep exAS (flatten exEnvB usep exAS exAE)
    = fromFlat exEnvB usep exAS (formPairs [] exAT) := by
  obtain ⟨hl, _, _, hw, hroot, hok, henv, hs, hun, hks⟩ := hypsA_unpack exA_hypsA
  have hperm : (flatten exEnvB usep exAS exAE).Perm (formPairs [] exAT) := by
    have := formPairs_flatten exAT
    rw [hun, List.append_nil, hl] at this
    exact this
  exact order_free_canonical exEnvB usep exAS exAE hs henv hw hroot hok _ (keySameB_sound hperm hks)

/-! ### unchecked boxes and Arrays do not combine -/

/-- the same schema with a Boolean: `dropSafe` is false (because of the Array), so a form with the box
    unchecked meets neither `hyps` (`hnodupB` fails: two members) nor `hypsA` (an unchecked box) -/
def exABS : Schema :=
  .dict none false .dense
    [ .array (some (s "a")) false true (.leaf none false 0), .leaf (some (s "b")) false 1 ]
def exABE : Elem := .dict [ (s "a", .array [ .leaf (s "x"), .leaf (s "y") ]), (s "b", .leaf []) ]
def exABT : FormTree :=
  .dict none [ .array (some (s "a")) false [s "x", s "y"] .checkboxes [[], []],
               .bool (some (s "b")) (s "1") [] [] ]

theorem exAB_linked : linked exEnvB exABS exABE exABT = true := by
  simp [linked, embed, embedAll, memberNode, resolve, resolveMembers, resolveOne, resolveList, membersOf,
    exABS, exABE, exABT, fnodeBeq, fnodesBeq, Schema.name, s]

theorem exAB_outside :
    dropSafe exEnvB exABS = false ∧ uncheckedPairs [] exABT = [(s "b", [])] ∧
    hyps Tables.current exEnvB exABS exABE exABT = false ∧
    hypsA Tables.current exEnvB exABS exABE exABT = false := by
  refine ⟨by decide, by decide, ?_, ?_⟩
  · simp only [hyps, exAB_linked, Bool.true_and]; decide
  · have hu : (uncheckedPairs [] exABT).isEmpty = false := by decide
    simp only [hypsA, hu, Bool.and_false, Bool.false_and]

/-- (the conclusion is true of it all the same — oracle and correspondence cover it, no theorem does) -/
example : fromFlat exEnvB usep exABS (formPairs [] exABT) = exABE := by
  have : formPairs [] exABT = [(s "a", s "x"), (s "a", s "y")] := by decide
  rw [this]
  simp [fromFlat, setFlat, setFields, blank, blankFields, wrap, possibles, lookup, replace, membersOf, isPrefix,
    arrayNamed, arrayRemainder, truthy, exEnvB, exABS, exABE, Schema.name, usep, s, List.find?]

/-! ### scope: a Compound with members is linked to no form -/

/-- `DateYYYYMMDD`-like: Compound{ year, month, day } holding its three members -/
def exDateS : Schema :=
  .compound (some (s "d")) false 0
    [ .leaf (some (s "year")) false 0, .leaf (some (s "month")) false 0, .leaf (some (s "day")) false 0 ]
def exDateE : Elem :=
  .dict [ (s "year", .leaf (s "2024")), (s "month", .leaf (s "1")), (s "day", .leaf (s "2")) ]

theorem exDate_not_linked (t : FormTree) : linked exEnvB exDateS exDateE t = false := by
  cases h : linked exEnvB exDateS exDateE t with
  | false => rfl
  | true =>
    have := compound_not_linked exEnvB _ _ _ _ exDateE t h
    simp [resolveMembers, resolveOne, membersOf, exDateE, Schema.name, s] at this

/-- … nor is a Dict that holds one -/
theorem exDateDict_not_linked (t : FormTree) :
    linked exEnvB (.dict none false .dense [exDateS]) (.dict [ (s "d", exDateE) ]) t = false := by
  cases h : linked exEnvB (.dict none false .dense [exDateS]) (.dict [ (s "d", exDateE) ]) t with
  | false => rfl
  | true =>
    have := linked_formLike exEnvB _ _ t h
    simp [resolve, resolveMembers, resolveOne, membersOf, exDateS, exDateE, formLike, formLikeL, Schema.name, s]
      at this

end Flatland.EndToEnd.Proofs
