/-
C01 with SparseDicts: the full statement, corollaries, non-vacuity, and why each hypothesis is needed.
-/
import Proofs.C01Sparse
import Proofs.C01Examples
namespace Flatland.Flat.Proofs
open Flatland.Flat Flatland.Flat.Spec

/-- **the full statement**: every well-formed schema (SparseDicts allowed), every `SepSafe`
    separator, every conforming settled state — the rebuilt TREE is `prS e`. -/
def C01_Sparse_Full : Prop :=
  ∀ (env : Env) (sep : Str) (s : Schema) (e : Elem), SepSafe env sep (Tok s) → EnvOK env →
    wf s = true → rootOK s = true → OkS env s e →
    fromFlat env sep s (flatten env sep s e) = prS env sep false s e

/-- … and it is proved at full strength (no `_partial` needed) -/
theorem c01_sparse_full : C01_Sparse_Full :=
  fun env sep s e hs henv hw hroot hok => roundtrip_sparse env sep s e hs henv hw hroot hok

/-- flatten level: the flat output after the round trip is the flat output of `prS e` -/
theorem roundtrip_sparse_flatten (env : Env) (sep : Str) (s : Schema) (e : Elem)
    (hs : SepSafe env sep (Tok s)) (henv : EnvOK env) (hw : wf s = true)
    (hroot : rootOK s = true) (hok : OkS env s e) :
    flatten env sep s (fromFlat env sep s (flatten env sep s e)) = flatten env sep s (prS env sep false s e) := by
  rw [roundtrip_sparse env sep s e hs henv hw hroot hok]

/-- second trip: once the rebuilt tree conforms (`OkS (prS e)` — true whenever the schema's scalar
    kinds read '' back as '', `blankSettled`; checked at run time by the Lean runner on every
    generated case), the second round trip is again `prS` -/
theorem roundtrip_sparse_second (env : Env) (sep : Str) (s : Schema) (e : Elem)
    (hs : SepSafe env sep (Tok s)) (henv : EnvOK env) (hw : wf s = true)
    (hroot : rootOK s = true) (hok : OkS env s e) (hok2 : OkS env s (prS env sep false s e)) :
    fromFlat env sep s (flatten env sep s (fromFlat env sep s (flatten env sep s e)))
      = prS env sep false s (prS env sep false s e) := by
  rw [roundtrip_sparse env sep s e hs henv hw hroot hok,
    roundtrip_sparse env sep s _ hs henv hw hroot hok2]

/-! ### executable hypotheses agree with the ones the theorem uses -/

theorem namesOfS_eq (fs : List Schema) : namesOfS fs = namesOf fs := by
  induction fs with
  | nil => rfl
  | cons f fs ih => simp [namesOfS, namesOf, ih]

mutual
theorem wfS_eq : ∀ s : Schema, wfS s = wf s
  | .leaf .. => by simp [wfS, wf]
  | .dict _ _ _ fields => by simp [wfS, wf, wfSL_eq fields, namesOfS_eq]
  | .compound _ _ _ fields => by simp [wfS, wf, wfSL_eq fields, namesOfS_eq]
  | .list _ _ _ _ member => by simp [wfS, wf, wfS_eq member]
  | .array _ _ _ member => by simp [wfS, wf, wfS_eq member]
  | .joined _ _ _ member => by simp [wfS, wf, wfS_eq member]
theorem wfSL_eq : ∀ fs : List Schema, wfSL fs = wfL fs
  | [] => by simp [wfSL, wfL]
  | f :: fs => by simp [wfSL, wfL, wfS_eq f, wfSL_eq fs]
end

/-! ### non-vacuity 1: `minimum_fields='required'` -/

/-- SparseDict(minimum_fields='required'){ o1?: String, r: String, o2?: String } -/
def exReqSchema : Schema :=
  .dict none false .sparseReq
    [ .leaf (some "o1".toList) true 0, .leaf (some "r".toList) false 0, .leaf (some "o2".toList) true 0 ]

/-- members in insertion order o2, r; o1 absent -/
def exReqElem : Elem := .dict [("o2".toList, .leaf "y".toList), ("r".toList, .leaf "x".toList)]

theorem exReq_sepSafe : SepSafe exEnv01 "_".toList (Tok exReqSchema) := by
  apply sepSafe_single_char exEnv01 exEnvOK exReqSchema '_'
  · decide
  · intro t ht
    simp only [exReqSchema, names, namesL, Option.toList, List.nil_append, List.append_nil,
      List.mem_append, List.mem_cons, List.mem_singleton, List.not_mem_nil, or_false] at ht
    rcases ht with rfl | rfl | rfl <;> decide

theorem exReq_ok : OkS exEnv01 exReqSchema exReqElem := by
  simp [exReqSchema, exReqElem, OkS, OkSAny, OkP, exEnv01, Schema.name]

/-- the required member comes back FIRST (although it was inserted last and is declared second),
    then the touched optional one; the absent optional member stays absent (KF-C01-d) -/
example : fromFlat exEnv01 "_".toList exReqSchema (flatten exEnv01 "_".toList exReqSchema exReqElem)
    = .dict [("r".toList, .leaf "x".toList), ("o2".toList, .leaf "y".toList)] := by
  rw [roundtrip_sparse exEnv01 "_".toList exReqSchema exReqElem exReq_sepSafe exEnvOK (by decide)
    (by decide) exReq_ok]
  simp [prS, prSPick, pr, innerPairs, touched, isReq, keepS, lookup, isPrefix, exReqSchema, exReqElem,
    Schema.name, Schema.opt, flatten, flattenNode, resolve, resolveMembers, resolveOne, membersOf,
    bfsFlat, childItems, kidsFrom, namePath, joinSep, FNode.fl, FNode.cfl, FNode.u, FNode.name,
    FNode.kids, FNode.slots]

/-! ### non-vacuity 2: a SparseDict nested in a List of Dicts -/

/-- List 'l' of Dict{ id: String, sp: SparseDict{ r: String, o1?: String, o2?: String } } -/
def exNestSchema : Schema :=
  .list (some "l".toList) false true 1024
    (.dict none false .dense
      [ .leaf (some "id".toList) false 0,
        .dict (some "sp".toList) false .sparse
          [ .leaf (some "r".toList) false 0, .leaf (some "o1".toList) true 0,
            .leaf (some "o2".toList) true 0 ] ])

/-- one list member; its SparseDict holds o2 and r (in that order), o1 is absent -/
def exNestElem : Elem :=
  .list [ .dict [ ("id".toList, .leaf "1".toList),
                  ("sp".toList, .dict [("o2".toList, .leaf "y".toList), ("r".toList, .leaf "x".toList)]) ] ]

theorem exNest_sepSafe : SepSafe exEnv01 "_".toList (Tok exNestSchema) := by
  apply sepSafe_single_char exEnv01 exEnvOK exNestSchema '_'
  · decide
  · intro t ht
    simp only [exNestSchema, names, namesL, Option.toList, List.nil_append, List.append_nil,
      List.mem_append, List.mem_cons, List.mem_singleton, List.not_mem_nil, or_false] at ht
    rcases ht with rfl | rfl | rfl | rfl | rfl | rfl <;> decide

theorem exNest_ok : OkS exEnv01 exNestSchema exNestElem := by
  simp only [exNestSchema, exNestElem, OkS]
  refine ⟨by decide, ?_, ?_⟩
  · intro i hi
    simp only [List.length_cons, List.length_nil] at hi
    have : i = 0 := by omega
    subst this
    rw [natStr_lt 0 (by omega)]; decide
  · intro e he
    simp only [List.mem_singleton] at he
    subst he
    simp [OkS, OkSAny, OkP, exEnv01, Schema.name]

/-- the hypotheses of `roundtrip_sparse` are satisfiable by a SparseDict with a required and two
    optional members, one absent, held out of declaration order, inside a List of Dicts -/
example : fromFlat exEnv01 "_".toList exNestSchema (flatten exEnv01 "_".toList exNestSchema exNestElem)
    = prS exEnv01 "_".toList false exNestSchema exNestElem :=
  roundtrip_sparse exEnv01 "_".toList exNestSchema exNestElem exNest_sepSafe exEnvOK (by decide)
    (by decide) exNest_ok

/-! ### the old negation witness, explained: it is the member order, nothing else -/

theorem sparse_ok : OkS exEnv01 sparseSchema sparseElem := by
  simp [sparseSchema, sparseElem, OkS, OkSAny, OkP, exEnv01, Schema.name]

/-- `roundtrip_sparse_fails` (Proofs/C01Examples.lean) refutes "the flat output is identical" for
    `sparseElem` = {b: 1, a: 2}; `roundtrip_sparse` says what the rebuilt tree is instead: the same
    members in declaration order -/
example : prS exEnv01 "_".toList false sparseSchema sparseElem
    = .dict [("a".toList, .leaf "2".toList), ("b".toList, .leaf "1".toList)] := by
  simp [prS, prSPick, pr, innerPairs, touched, isReq, keepS, lookup, isPrefix, sparseSchema, sparseElem,
    Schema.name, Schema.opt, flatten, flattenNode, resolve, resolveMembers, resolveOne, membersOf,
    bfsFlat, childItems, kidsFrom, namePath, joinSep, FNode.fl, FNode.cfl, FNode.u, FNode.name,
    FNode.kids, FNode.slots]

/-- … and that state is not in normal order, which is the decidable reason the flat output moves -/
example : sparseNormal sparseSchema sparseElem = false := by decide

/-! ### `OkS` is needed: an unsettled leaf does not come back -/

/-- a scalar kind that upper-cases nothing but maps "x" to "X" -/
def exEnvUp : Env :=
  { norm := fun _ s => if s = "x".toList then "X".toList else s, compose := fun _ _ => [],
    joinedMembers := fun _ _ => [], ndZeros := [48], maxDigits := 4300 }

/-- without "every leaf is settled" (`OkS`) the conclusion fails: the leaf comes back as `norm "x"` -/
example : fromFlat exEnvUp "_".toList (.leaf (some "a".toList) false 0)
      (flatten exEnvUp "_".toList (.leaf (some "a".toList) false 0) (.leaf "x".toList))
    ≠ prS exEnvUp "_".toList false (.leaf (some "a".toList) false 0) (.leaf "x".toList) := by
  simp [fromFlat, setFlat, blank, wrap, prS, pr, exEnvUp, flatten, flattenNode, resolve, bfsFlat,
    childItems, kidsFrom, namePath, joinSep, FNode.fl, FNode.cfl, FNode.u, FNode.name, FNode.kids,
    FNode.slots]

end Flatland.Flat.Proofs
