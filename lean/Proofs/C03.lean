/-
C03 — exported native value re-imports to an equal element.

`reimport`: for every well-formed schema (Dict / SparseDict under every policy, List / Array,
scalars, JoinedString, DateYYYYMMDD as table-driven leaf-likes), every native input `x`:
if `set(x)` returned True for a fresh element `e`, then `set(e.value)` on another fresh element of
the same schema returns True and builds **the same element state** — hence equal `.value`, `.u`,
`==` and `flatten()`.

Hypotheses on the leaf-likes (the subjects of C04 / C18, checked there and by correspondence):
* `LeafIdem`: a leaf that adapted `x` to the value `v` adapts `v` to the same value, text and parts;
* `BlankOk`: a fresh leaf re-set with its own (fresh) value stays as it is.
The negation witness `reimport_needs_leafIdem` shows what happens without (KF-C03-a).
-/
import Flatland.C03
namespace Flatland.C03.Proofs
open Flatland.C03

def LeafIdem (env : Env) : Prop :=
  ∀ k x, (env.adapt k x).1 = true → env.adapt k (env.adapt k x).2.1 = (true, (env.adapt k x).2)

def BlankOk (env : Env) : Prop :=
  ∀ k, env.adapt k (env.blankLeaf k).1 = (true, env.blankLeaf k)

/-- an element that its own exported value rebuilds -/
def Stable (env : Env) (s : Schema) (e : Elem) : Prop := setNative env s (value e) = .ok (e, true)

def namesOf : List Schema → List (Option Str)
  | [] => []
  | f :: fs => f.name :: namesOf fs

mutual
/-- Dict fields are named and distinct; a SparseDict is not combined with the 'strict' policy (a
    blank sparse member could never satisfy it) -/
def wf : Schema → Bool
  | .leaf .. => true
  | .dict _ _ mode policy fields =>
    wfL fields && (namesOf fields).all Option.isSome && decide (namesOf fields).Nodup &&
      (decide (mode = .dense) || decide (policy ≠ .strict))
  | .seq _ _ member => wf member
def wfL : List Schema → Bool
  | [] => true
  | f :: fs => wf f && wfL fs
end

/-! ### small facts -/

theorem fieldNames_eq (fs : List Schema) (h : (namesOf fs).all Option.isSome = true) :
    (fieldNames fs).map some = namesOf fs := by
  induction fs with
  | nil => rfl
  | cons f fs ih =>
    simp only [namesOf, List.all_cons, Bool.and_eq_true] at h
    simp only [fieldNames, namesOf, List.map_cons, ih h.2]
    cases hn : f.name with
    | none => simp [hn] at h
    | some x => simp

theorem setOne_of_mem (env : Env) (fs : List Schema) (hn : (namesOf fs).Nodup) (f : Schema) (hf : f ∈ fs)
    (key : Str) (hk : f.name = some key) (v : Native) :
    setOne env fs key v = some (setNative env f v) := by
  induction fs with
  | nil => simp at hf
  | cons g gs ih =>
    simp only [namesOf, List.nodup_cons] at hn
    unfold setOne
    rcases List.mem_cons.mp hf with rfl | hin
    · simp [hk]
    · have hne : g.name ≠ some key := by
        intro heq
        apply hn.1
        rw [heq, ← hk]
        clear ih hn hf
        induction gs with
        | nil => simp at hin
        | cons a as iha =>
          rcases List.mem_cons.mp hin with rfl | h'
          · simp [namesOf]
          · simp [namesOf, iha h']
      simp only [hne, if_false]
      exact ih hn.2 hin

theorem setOne_some_key (env : Env) (fs : List Schema) (key : Str) (v : Native) (r)
    (h : setOne env fs key v = some r) : key ∈ fieldNames fs := by
  induction fs with
  | nil => simp [setOne] at h
  | cons g gs ih =>
    unfold setOne at h
    split at h
    · rename_i hk; simp [fieldNames, hk]
    · simp [fieldNames, ih h]

theorem lookup_none_of_not_mem (key : Str) (ms : List (Str × Elem)) (h : key ∉ ms.map (·.1)) :
    lookup key ms = none := by
  induction ms with
  | nil => rfl
  | cons p ps ih =>
    obtain ⟨k, e⟩ := p
    simp only [List.map_cons, List.mem_cons, not_or] at h
    simp only [lookup, Ne.symm h.1, if_false]
    exact ih h.2

theorem lookup_isSome_of_mem (key : Str) (ms : List (Str × Elem)) (h : key ∈ ms.map (·.1)) :
    (lookup key ms).isSome = true := by
  induction ms with
  | nil => simp at h
  | cons p ps ih =>
    obtain ⟨k, e⟩ := p
    simp only [lookup]
    split
    · rfl
    · rename_i hk
      simp only [List.map_cons, List.mem_cons] at h
      rcases h with h | h
      · exact absurd h.symm hk
      · exact ih h

theorem replace_keys (key : Str) (e : Elem) (ms : List (Str × Elem)) :
    (replace key e ms).map (·.1) = ms.map (·.1) := by
  induction ms with
  | nil => rfl
  | cons p ps ih =>
    obtain ⟨k, x⟩ := p
    unfold replace
    split <;> simp [ih]

theorem mem_replace (key : Str) (e : Elem) (ms : List (Str × Elem)) (p : Str × Elem)
    (h : p ∈ replace key e ms) : p = (key, e) ∨ p ∈ ms := by
  induction ms with
  | nil => simp [replace] at h
  | cons q qs ih =>
    obtain ⟨k, x⟩ := q
    unfold replace at h
    split at h
    · rename_i hk
      rcases List.mem_cons.mp h with h | h
      · left; rw [h, hk]
      · right; exact List.mem_cons_of_mem _ h
    · rcases List.mem_cons.mp h with h | h
      · right; rw [h]; simp
      · rcases ih h with h' | h'
        · left; exact h'
        · right; exact List.mem_cons_of_mem _ h'

theorem valueMembers_keys (ms : List (Str × Elem)) :
    (value.valueMembers ms).map (·.1) = ms.map (·.1) := by
  induction ms with
  | nil => rfl
  | cons p ps ih => obtain ⟨k, e⟩ := p; simp [value.valueMembers, ih]

theorem valueMembers_getElem (ms : List (Str × Elem)) (j : Nat) (h : j < ms.length)
    (h' : j < (value.valueMembers ms).length) :
    (value.valueMembers ms)[j] = ((ms[j]).1, value (ms[j]).2) := by
  induction ms generalizing j with
  | nil => simp at h
  | cons p ps ih =>
    obtain ⟨k, e⟩ := p
    cases j with
    | zero => simp [value.valueMembers]
    | succ i =>
      simp only [value.valueMembers, List.getElem_cons_succ]
      exact ih i (by simpa using h) _

theorem lookup_skip_pre (key : Str) (b : Elem) (pre rest : List (Str × Elem))
    (h : key ∉ pre.map (·.1)) : lookup key (pre ++ (key, b) :: rest) = some b := by
  induction pre with
  | nil => simp [lookup]
  | cons q qs ih =>
    obtain ⟨k, x⟩ := q
    simp only [List.map_cons, List.mem_cons, not_or] at h
    simp only [List.cons_append, lookup, Ne.symm h.1, if_false]
    exact ih h.2

theorem replace_skip_pre (key : Str) (b e : Elem) (pre rest : List (Str × Elem))
    (h : key ∉ pre.map (·.1)) :
    replace key e (pre ++ (key, b) :: rest) = pre ++ (key, e) :: rest := by
  induction pre with
  | nil => simp [replace]
  | cons q qs ih =>
    obtain ⟨k, x⟩ := q
    simp only [List.map_cons, List.mem_cons, not_or] at h
    simp only [List.cons_append, replace, Ne.symm h.1, if_false]
    rw [ih h.2]

/-! ### the invariant of the members a `Dict.set` builds -/

/-- `ms` was grown from the blank members `B`: distinct keys, the blank members' keys first and in
    place, and every member is rebuilt by its own exported value -/
structure Grown (env : Env) (fields : List Schema) (B ms : List (Str × Elem)) : Prop where
  nodup : (ms.map (·.1)).Nodup
  pre : (ms.map (·.1)).take B.length = B.map (·.1)
  stable : ∀ p ∈ ms, setOne env fields p.1 (value p.2) = some (.ok (p.2, true))

theorem grown_setPairs (env : Env) (fields : List Schema) (B : List (Str × Elem))
    (hstep : ∀ key v e, setOne env fields key v = some (.ok (e, true)) →
      setOne env fields key (value e) = some (.ok (e, true))) :
    ∀ (kvs : List (Str × Native)) (cur ms : List (Str × Elem)), Grown env fields B cur →
      setPairs env fields cur kvs = .ok (ms, true) → Grown env fields B ms := by
  intro kvs
  induction kvs with
  | nil =>
    intro cur ms hg h
    simp only [setPairs, Except.ok.injEq, Prod.mk.injEq, and_true] at h
    rw [← h]; exact hg
  | cons kv rest ih =>
    intro cur ms hg h
    obtain ⟨key, v⟩ := kv
    simp only [setPairs] at h
    cases hso : setOne env fields key v with
    | none => simp only [hso] at h; exact ih cur ms hg h
    | some r =>
      simp only [hso] at h
      cases r with
      | error err => simp at h
      | ok ef =>
        obtain ⟨e, f⟩ := ef
        simp only at h
        split at h
        · rename_i ms'' f' hrest
          simp only [Except.ok.injEq, Prod.mk.injEq, Bool.and_eq_true] at h
          obtain ⟨hms, hf, hf'⟩ := h
          subst hms; subst hf; subst hf'
          apply ih _ _ _ hrest
          have hst := hstep key v e hso
          cases hl : lookup key cur with
          | some old =>
            simp only
            refine ⟨by rw [replace_keys]; exact hg.nodup, by rw [replace_keys]; exact hg.pre, ?_⟩
            intro p hp
            rcases mem_replace key e cur p hp with rfl | hp
            · exact hst
            · exact hg.stable p hp
          | none =>
            simp only
            have hnot : key ∉ cur.map (·.1) := by
              intro hin
              have := lookup_isSome_of_mem key cur hin
              rw [hl] at this; cases this
            refine ⟨?_, ?_, ?_⟩
            · simp only [List.map_append, List.map_cons, List.map_nil]
              apply List.nodup_append.mpr
              refine ⟨hg.nodup, by simp, ?_⟩
              intro a ha b hb
              simp only [List.mem_singleton] at hb
              subst hb
              intro heq; subst heq; exact hnot ha
            · have hlen : B.length ≤ (cur.map (·.1)).length := by
                have := congrArg List.length hg.pre
                simp only [List.length_take, List.length_map] at this ⊢
                omega
              simp only [List.map_append]
              rw [List.take_append_of_le_length hlen]
              exact hg.pre
            · intro p hp
              rcases List.mem_append.mp hp with hp | hp
              · exact hg.stable p hp
              · simp only [List.mem_singleton] at hp; subst hp; exact hst
        · simp at h

/-- re-importing the exported members of a grown mapping rebuilds it, pair by pair -/
theorem rebuild (env : Env) (fields : List Schema) (B ms : List (Str × Elem))
    (hg : Grown env fields B ms) :
    ∀ (n j : Nat), j + n = ms.length →
      setPairs env fields (ms.take j ++ B.drop j) ((value.valueMembers ms).drop j) = .ok (ms, true) := by
  have hBlen : B.length ≤ ms.length := by
    have := congrArg List.length hg.pre
    simp only [List.length_take, List.length_map] at this
    omega
  intro n
  induction n with
  | zero =>
    intro j hj
    have hjl : j = ms.length := by omega
    subst hjl
    have h1 : (value.valueMembers ms).drop ms.length = [] := by
      apply List.drop_eq_nil_of_le
      have := congrArg List.length (valueMembers_keys ms)
      simp only [List.length_map] at this; omega
    have h2 : B.drop ms.length = [] := List.drop_eq_nil_of_le hBlen
    simp [h1, h2, setPairs]
  | succ n ih =>
    intro j hj
    have hjlt : j < ms.length := by omega
    have hvlen : (value.valueMembers ms).length = ms.length := by
      have := congrArg List.length (valueMembers_keys ms)
      simpa using this
    -- the j-th exported pair
    have hdrop : (value.valueMembers ms).drop j
        = ((ms[j]).1, value (ms[j]).2) :: (value.valueMembers ms).drop (j + 1) := by
      rw [← List.getElem_cons_drop (h := by omega)]
      rw [valueMembers_getElem ms j hjlt (by omega)]
    rw [hdrop]
    simp only [setPairs]
    have hst := hg.stable ms[j] (List.getElem_mem hjlt)
    rw [hst]
    simp only
    have hkeyj : (ms.map (·.1))[j]'(by simpa using hjlt) = (ms[j]).1 := by simp
    -- the key is not among the first j members
    have hnotin : (ms[j]).1 ∉ (ms.take j).map (·.1) := by
      intro hin
      have hnd := hg.nodup
      rw [← List.take_append_drop j (ms.map (·.1))] at hnd
      have hd := (List.nodup_append.mp hnd).2.2
      have h1 : (ms[j]).1 ∈ (ms.map (·.1)).take j := by rw [← List.map_take]; exact hin
      have h2 : (ms[j]).1 ∈ (ms.map (·.1)).drop j := by
        rw [← List.getElem_cons_drop (h := by simpa using hjlt)]
        simp
      exact hd _ h1 _ h2 rfl
    have hnext : ms.take (j + 1) = ms.take j ++ [ms[j]] := by
      rw [List.take_succ_eq_append_getElem hjlt]
    by_cases hjB : j < B.length
    · -- a blank member sits at this position: it is replaced
      have hBj : (B[j]).1 = (ms[j]).1 := by
        have h1 : ((ms.map (·.1)).take B.length)[j]'(by simp; omega) = (B.map (·.1))[j]'(by simpa using hjB) := by
          simp only [hg.pre]
        simp only [List.getElem_take, List.getElem_map] at h1
        exact h1.symm
      have hBdrop : B.drop j = ((ms[j]).1, (B[j]).2) :: B.drop (j + 1) := by
        rw [← List.getElem_cons_drop (h := hjB), ← hBj]
      rw [hBdrop, lookup_skip_pre _ _ _ _ hnotin]
      simp only
      have hrep : replace (ms[j]).1 (ms[j]).2 (ms.take j ++ ((ms[j]).1, (B[j]).2) :: B.drop (j + 1))
          = ms.take (j + 1) ++ B.drop (j + 1) := by
        rw [replace_skip_pre _ _ _ _ _ hnotin]
        rw [hnext, List.append_assoc]
        rfl
      rw [hrep, ih (j + 1) (by omega)]
      simp
    · -- past the blank members: appended
      have hBd : B.drop j = [] := List.drop_eq_nil_of_le (by omega)
      have hBd' : B.drop (j + 1) = [] := List.drop_eq_nil_of_le (by omega)
      rw [hBd, List.append_nil, lookup_none_of_not_mem _ _ hnotin]
      simp only
      have := ih (j + 1) (by omega)
      rw [hBd', List.append_nil, hnext] at this
      rw [this]
      simp


/-! ### blank members -/

def blankMs (env : Env) (mode : DictMode) (fields : List Schema) : List (Str × Elem) :=
  match mode with
  | .dense => blankFields env fields
  | .sparse => []
  | .sparseReq => blankRequired env fields

theorem blank_dict (env : Env) (n : Option Str) (o : Bool) (mode : DictMode) (policy : Policy)
    (fields : List Schema) : blank env (.dict n o mode policy fields) = .dict (blankMs env mode fields) := by
  cases mode <;> simp [blank, blankMs]

theorem blankFields_keys (env : Env) (fs : List Schema) : (blankFields env fs).map (·.1) = fieldNames fs := by
  induction fs with
  | nil => rfl
  | cons f fs ih => simp [blankFields, fieldNames, ih]

theorem blankRequired_sublist (env : Env) (fs : List Schema) :
    ((blankRequired env fs).map (·.1)).Sublist (fieldNames fs) := by
  induction fs with
  | nil => simp [blankRequired, fieldNames]
  | cons f fs ih =>
    unfold blankRequired
    split
    · exact List.Sublist.cons _ ih
    · simp only [List.map_cons, fieldNames]; exact List.Sublist.cons₂ _ ih

theorem mem_blankFields (env : Env) (fs : List Schema) (p : Str × Elem) (h : p ∈ blankFields env fs) :
    ∃ f ∈ fs, p = (f.name.getD [], blank env f) := by
  induction fs with
  | nil => simp [blankFields] at h
  | cons f fs ih =>
    simp only [blankFields, List.mem_cons] at h
    rcases h with rfl | h
    · exact ⟨f, by simp, rfl⟩
    · obtain ⟨g, hg, he⟩ := ih h; exact ⟨g, List.mem_cons_of_mem _ hg, he⟩

theorem mem_blankRequired (env : Env) (fs : List Schema) (p : Str × Elem) (h : p ∈ blankRequired env fs) :
    ∃ f ∈ fs, p = (f.name.getD [], blank env f) := by
  induction fs with
  | nil => simp [blankRequired] at h
  | cons f fs ih =>
    unfold blankRequired at h
    split at h
    · obtain ⟨g, hg, he⟩ := ih h; exact ⟨g, List.mem_cons_of_mem _ hg, he⟩
    · rcases List.mem_cons.mp h with rfl | h
      · exact ⟨f, by simp, rfl⟩
      · obtain ⟨g, hg, he⟩ := ih h; exact ⟨g, List.mem_cons_of_mem _ hg, he⟩

theorem nodup_of_nodup_map {α β} (f : α → β) (l : List α) (h : (l.map f).Nodup) : l.Nodup := by
  induction l with
  | nil => exact List.nodup_nil
  | cons a as ih =>
    simp only [List.map_cons, List.nodup_cons] at h ⊢
    exact ⟨fun hin => h.1 (List.mem_map_of_mem hin), ih h.2⟩

theorem fieldNames_nodup (fs : List Schema) (hs : (namesOf fs).all Option.isSome = true)
    (hn : (namesOf fs).Nodup) : (fieldNames fs).Nodup := by
  rw [← fieldNames_eq fs hs] at hn
  exact nodup_of_nodup_map _ _ hn

theorem name_getD (f : Schema) (fs : List Schema) (hs : (namesOf fs).all Option.isSome = true)
    (hf : f ∈ fs) : f.name = some (f.name.getD []) := by
  induction fs with
  | nil => simp at hf
  | cons g gs ih =>
    simp only [namesOf, List.all_cons, Bool.and_eq_true] at hs
    rcases List.mem_cons.mp hf with rfl | h
    · cases hn : f.name with
      | none => simp [hn] at hs
      | some x => simp
    · exact ih hs.2 h

/-- blank members are a grown mapping as soon as each blank member is stable -/
theorem grown_blank (env : Env) (mode : DictMode) (fields : List Schema)
    (hs : (namesOf fields).all Option.isSome = true) (hn : (namesOf fields).Nodup)
    (hst : ∀ f ∈ fields, Stable env f (blank env f)) :
    Grown env fields (blankMs env mode fields) (blankMs env mode fields) := by
  have hfn := fieldNames_nodup fields hs hn
  refine ⟨?_, List.take_of_length_le (by simp), ?_⟩
  · cases mode with
    | dense => simp only [blankMs, blankFields_keys]; exact hfn
    | sparse => simp [blankMs]
    | sparseReq => exact List.Nodup.sublist (blankRequired_sublist env fields) hfn
  · intro p hp
    have : ∃ f ∈ fields, p = (f.name.getD [], blank env f) := by
      cases mode with
      | dense => exact mem_blankFields env fields p hp
      | sparse => exact absurd hp (by simp [blankMs])
      | sparseReq => exact mem_blankRequired env fields p hp
    obtain ⟨f, hf, rfl⟩ := this
    rw [setOne_of_mem env fields hn f hf _ (name_getD f fields hs hf)]
    exact congrArg some (hst f hf)

theorem policy_ok_of_grown (env : Env) (mode : DictMode) (policy : Policy) (fields : List Schema)
    (hpol : mode = .dense ∨ policy ≠ .strict) (ms : List (Str × Elem))
    (hg : Grown env fields (blankMs env mode fields) ms) :
    policyRaise policy fields (ms.map (·.1)) = none := by
  have hextra : (ms.map (·.1)).all (fun k => (fieldNames fields).contains k) = true := by
    apply List.all_eq_true.mpr
    intro k hk
    obtain ⟨p, hp, rfl⟩ := List.mem_map.mp hk
    have := setOne_some_key env fields p.1 _ _ (hg.stable p hp)
    simpa using this
  unfold policyRaise
  simp only [hextra, Bool.not_true, Bool.false_eq_true, if_false]
  cases policy with
  | subset => rfl
  | duck => rfl
  | off => rfl
  | strict =>
    rcases hpol with hm | hp
    · subst hm
      have hpre := hg.pre
      simp only [blankMs, blankFields_keys, List.length_map] at hpre
      have hmiss : (fieldNames fields).all (fun n => (ms.map (·.1)).contains n) = true := by
        apply List.all_eq_true.mpr
        intro n hn
        have : n ∈ (ms.map (·.1)).take (blankFields env fields).length := by rw [hpre]; exact hn
        have := List.mem_of_mem_take this
        simpa using this
      simp only [hmiss, Bool.not_true, Bool.false_eq_true, if_false]
    · exact absurd rfl hp

/-! ### the theorem -/

theorem setMembers_rebuild (env : Env) (member : Schema)
    (hstep : ∀ x e, setNative env member x = .ok (e, true) → Stable env member e) :
    ∀ (xs : List Native) (ms : List Elem), setMembers env member xs = .ok (ms, true) →
      setMembers env member (value.valueList ms) = .ok (ms, true) := by
  intro xs
  induction xs with
  | nil =>
    intro ms h
    simp only [setMembers, Except.ok.injEq, Prod.mk.injEq, and_true] at h
    subst h; simp [value.valueList, setMembers]
  | cons x xs ih =>
    intro ms h
    simp only [setMembers] at h
    cases h1 : setNative env member x with
    | error r => simp [h1] at h
    | ok ef =>
      obtain ⟨e, f⟩ := ef
      simp only [h1] at h
      cases h2 : setMembers env member xs with
      | error r => simp [h2] at h
      | ok esf =>
        obtain ⟨es, f'⟩ := esf
        simp only [h2, Except.ok.injEq, Prod.mk.injEq, Bool.and_eq_true] at h
        obtain ⟨hms, hf, hf'⟩ := h
        subst hms; subst hf; subst hf'
        have hs := hstep x e h1
        unfold Stable at hs
        simp only [value.valueList, setMembers, hs, ih es h2, Bool.and_self]

mutual
theorem stable_blank (env : Env) (hb : BlankOk env) : ∀ s : Schema, wf s = true →
    Stable env s (blank env s)
  | .leaf n o k, _ => by
    have := hb k
    simp only [Stable, blank, value, setNative, this]
  | .seq n o member, _ => by
    simp [Stable, blank, value, value.valueList, setNative, iterate, setMembers]
  | .dict n o mode policy fields, hw => by
    simp only [wf, Bool.and_eq_true, Bool.or_eq_true, decide_eq_true_eq] at hw
    obtain ⟨⟨⟨hwl, hsome⟩, hnd⟩, hpol⟩ := hw
    have hg := grown_blank env mode fields hsome hnd (stable_blankL env hb fields hwl)
    have hpolok := policy_ok_of_grown env mode policy fields hpol _ hg
    have hreb := rebuild env fields _ _ hg (blankMs env mode fields).length 0 (by simp)
    simp only [List.take_zero, List.nil_append, List.drop_zero] at hreb
    simp only [Stable, blank_dict, value, setNative, toPairs, valueMembers_keys, hpolok, hreb]
theorem stable_blankL (env : Env) (hb : BlankOk env) : ∀ fs : List Schema, wfL fs = true →
    ∀ f ∈ fs, Stable env f (blank env f)
  | [], _ => fun f hf => by simp at hf
  | g :: gs, hw => by
    simp only [wfL, Bool.and_eq_true] at hw
    have h1 := stable_blank env hb g hw.1
    have h2 := stable_blankL env hb gs hw.2
    intro f hf
    rcases List.mem_cons.mp hf with rfl | h
    · exact h1
    · exact h2 f h
end

mutual
theorem stable_set (env : Env) (hi : LeafIdem env) (hb : BlankOk env) : ∀ (s : Schema), wf s = true →
    ∀ (x : Native) (e : Elem), setNative env s x = .ok (e, true) → Stable env s e
  | .leaf n o k, _, x, e, h => by
    simp only [setNative, Except.ok.injEq, Prod.mk.injEq] at h
    obtain ⟨he, hf⟩ := h
    subst he
    have := hi k x hf
    simp only [Stable, value, setNative, this]
  | .seq n o member, hw, x, e, h => by
    simp only [wf] at hw
    simp only [setNative] at h
    cases hit : iterate x with
    | none => simp [hit] at h
    | some xs =>
      simp only [hit] at h
      cases hm : setMembers env member xs with
      | error r => cases r <;> simp [hm] at h
      | ok msf =>
        obtain ⟨ms, f⟩ := msf
        simp only [hm, Except.ok.injEq, Prod.mk.injEq] at h
        obtain ⟨he, hf⟩ := h
        subst he; subst hf
        have := setMembers_rebuild env member (fun x e hx => stable_set env hi hb member hw x e hx) xs ms hm
        simp only [Stable, value, setNative, iterate, this]
  | .dict n o mode policy fields, hw, x, e, h => by
    have hw0 := hw
    simp only [wf, Bool.and_eq_true, Bool.or_eq_true, decide_eq_true_eq] at hw
    obtain ⟨⟨⟨hwl, hsome⟩, hnd⟩, hpol⟩ := hw
    simp only [setNative, blank_dict] at h
    cases htp : toPairs x with
    | none => simp [htp] at h
    | some kvs =>
      simp only [htp] at h
      cases hpr : policyRaise policy fields (kvs.map (·.1)) with
      | some r => simp [hpr] at h
      | none =>
        simp only [hpr] at h
        cases hsp : setPairs env fields (blankMs env mode fields) kvs with
        | error r => simp [hsp] at h
        | ok msf =>
          obtain ⟨ms, f⟩ := msf
          simp only [hsp, Except.ok.injEq, Prod.mk.injEq] at h
          obtain ⟨he, hf⟩ := h
          subst he; subst hf
          have hg0 := grown_blank env mode fields hsome hnd (stable_blankL env hb fields hwl)
          have hg := grown_setPairs env fields _ (stable_setOne env hi hb fields hwl) kvs _ ms hg0 hsp
          have hpolok := policy_ok_of_grown env mode policy fields hpol _ hg
          have hreb := rebuild env fields _ _ hg ms.length 0 (by simp)
          simp only [List.take_zero, List.nil_append, List.drop_zero] at hreb
          simp only [Stable, blank_dict, value, setNative, toPairs, valueMembers_keys, hpolok, hreb]
theorem stable_setOne (env : Env) (hi : LeafIdem env) (hb : BlankOk env) : ∀ (fs : List Schema),
    wfL fs = true → ∀ key v e, setOne env fs key v = some (.ok (e, true)) →
      setOne env fs key (value e) = some (.ok (e, true))
  | [], _, key, v, e, h => by simp [setOne] at h
  | g :: gs, hw, key, v, e, h => by
    simp only [wfL, Bool.and_eq_true] at hw
    unfold setOne at h ⊢
    split
    · rename_i hk
      simp only [hk, if_true, Option.some.injEq] at h
      exact congrArg some (stable_set env hi hb g hw.1 v e h)
    · rename_i hk
      simp only [hk, if_false] at h
      exact stable_setOne env hi hb gs hw.2 key v e h
end

/-- **C03.**  If `set(x)` reported full adaptation for a fresh element `e`, then a fresh element of
    the same schema set with `e.value` reports full adaptation and is in the very same state —
    equal `.value`, `.u`, `==`, `flatten()` and everything else a state determines. -/
theorem reimport (env : Env) (hi : LeafIdem env) (hb : BlankOk env) (s : Schema) (hw : wf s = true)
    (x : Native) (e : Elem) (h : setNative env s x = .ok (e, true)) :
    setNative env s (value e) = .ok (e, true) :=
  stable_set env hi hb s hw x e h

/-- in particular the exported values agree -/
theorem reimport_value (env : Env) (hi : LeafIdem env) (hb : BlankOk env) (s : Schema) (hw : wf s = true)
    (x : Native) (e : Elem) (h : setNative env s x = .ok (e, true)) :
    ∃ e', setNative env s (value e) = .ok (e', true) ∧ value e' = value e :=
  ⟨e, reimport env hi hb s hw x e h, rfl⟩

/-! ### non-vacuity and the need for the leaf hypothesis -/

/-- a toy leaf table: texts are kept as they are; anything else is rejected -/
def exEnv : Env :=
  { adapt := fun _ x => match x with
      | .text s => (true, .text s, s, [])
      | .none => (true, .none, [], [])
      | _ => (false, .none, [], [])
    blankLeaf := fun _ => (.none, [], []) }

theorem exEnv_idem : LeafIdem exEnv := by
  intro k x h
  cases x <;> simp_all [exEnv]

theorem exEnv_blank : BlankOk exEnv := by intro k; rfl

def exSchema : Schema :=
  .dict none false .sparse .subset
    [.leaf (some "a".toList) false 0, .seq (some "l".toList) false (.leaf none false 0)]

/-- the premises of `reimport` are met by a partially specified SparseDict holding a list -/
example : setNative exEnv exSchema (.dict [("l".toList, .list [.text "x".toList, .none])])
      = .ok (.dict [("l".toList, .seq [.leaf (.text "x".toList) "x".toList [], .leaf .none [] []])], true)
    ∧ wf exSchema = true := by
  refine ⟨?_, by decide⟩
  simp [exSchema, setNative, toPairs, policyRaise, fieldNames, Schema.name, blank, setPairs, setOne,
    lookup, iterate, setMembers, exEnv]

/-- KF-C03-a in the model: a leaf whose value does not re-adapt to itself (a pruning JoinedString
    holding an empty member) breaks the re-import — `LeafIdem` is needed. -/
def badEnv : Env :=
  { adapt := fun _ x => match x with
      | .list _ => (true, .text "a,,b".toList, "a,,b".toList, ["a".toList, [], "b".toList])
      | .text _ => (true, .text "a,b".toList, "a,b".toList, ["a".toList, "b".toList])
      | _ => (true, .none, [], [])
    blankLeaf := fun _ => (.none, [], []) }

theorem reimport_needs_leafIdem :
    ∃ x e, setNative badEnv (.leaf none false 0) x = .ok (e, true) ∧
      setNative badEnv (.leaf none false 0) (value e) ≠ .ok (e, true) := by
  refine ⟨.list [], .leaf (.text "a,,b".toList) "a,,b".toList ["a".toList, [], "b".toList], ?_, ?_⟩
  · simp [setNative, badEnv]
  · simp [setNative, value, badEnv]

end Flatland.C03.Proofs
