/-
C03 — exported native value re-imports to an equal element.

`reimport`: for every well-formed schema (Dict / SparseDict under every policy, List / Array,
scalars, JoinedString, DateYYYYMMDD as table-driven leaf-likes), every element state `cur` that
`set()` can have built and every native input `x`: if `el.set(x)` returned True and left the
element in state `e`, then `set(e.value)` on a fresh element of the same schema builds **the same
element state** `e` — hence equal `.value`, `.u`, `==` and `flatten()`.  The flag that second
`set()` returns is *not* part of the claim (the property asks for equal elements): a DateYYYYMMDD
set with an unparseable text reports True, exports None, and None re-imports to the same state
with the flag False.

Hypothesis on the leaf-likes, *localised to the leaves that occur in `e`* (`leafStable env false s
e`, a decidable function the runner evaluates on the table extracted from the real classes for
every generated case): a fresh leaf-like of the same kind, set with the leaf's exported value, gets
into the leaf's state.  The blank-filled leaves of `e` are leaves of `e`, so the condition on fresh
leaves is included, only for the kinds that are actually blank-filled.  `reimport_true`: if the
leaves also report True on their exported value, so does the container.

The negation witness `reimport_needs_leafIdem` shows what happens without (KF-C03-a: a pruning
JoinedString holding an empty member text).
-/
import Flatland.C03
namespace Flatland.C03.Proofs
open Flatland.C03

def namesOf : List Schema → List (Option Str)
  | [] => []
  | f :: fs => f.name :: namesOf fs

mutual
/-- Dict fields are named and distinct; a SparseDict is not combined with the 'strict' policy (a
    blank sparse member could never satisfy it) -/
def wf : Schema → Bool
  | .leaf .. => true
  | .dict _ _ mode policy fields =>
    wfL fields && (namesOf fields).all Option.isSome && decide (namesOf fields).Nodup &&
      (decide (mode = .dense) || decide (policy ≠ .strict))
  | .seq _ _ member => wf member
def wfL : List Schema → Bool
  | [] => true
  | f :: fs => wf f && wfL fs
end

/-! ### small facts -/

theorem fieldNames_eq (fs : List Schema) (h : (namesOf fs).all Option.isSome = true) :
    (fieldNames fs).map some = namesOf fs := by
  induction fs with
  | nil => rfl
  | cons f fs ih =>
    simp only [namesOf, List.all_cons, Bool.and_eq_true] at h
    simp only [fieldNames, namesOf, List.map_cons, ih h.2]
    cases hn : f.name with
    | none => simp [hn] at h
    | some x => simp

theorem mem_namesOf (f : Schema) (fs : List Schema) (h : f ∈ fs) : f.name ∈ namesOf fs := by
  induction fs with
  | nil => simp at h
  | cons a as iha =>
    rcases List.mem_cons.mp h with rfl | h'
    · simp [namesOf]
    · simp [namesOf, iha h']

theorem findField_of_mem (fs : List Schema) (hn : (namesOf fs).Nodup) (f : Schema) (hf : f ∈ fs)
    (key : Str) (hk : f.name = some key) : findField key fs = some f := by
  induction fs with
  | nil => simp at hf
  | cons g gs ih =>
    simp only [namesOf, List.nodup_cons] at hn
    unfold findField
    rcases List.mem_cons.mp hf with rfl | hin
    · simp [hk]
    · have hne : g.name ≠ some key := by
        intro heq
        apply hn.1
        rw [heq, ← hk]
        exact mem_namesOf f gs hin
      simp only [hne, if_false]
      exact ih hn.2 hin

theorem findField_mem (fs : List Schema) (key : Str) (f : Schema) (h : findField key fs = some f) :
    f ∈ fs ∧ f.name = some key := by
  induction fs with
  | nil => simp [findField] at h
  | cons g gs ih =>
    unfold findField at h
    split at h
    · rename_i hk
      simp only [Option.some.injEq] at h
      subst h
      exact ⟨by simp, hk⟩
    · exact ⟨List.mem_cons_of_mem _ (ih h).1, (ih h).2⟩

theorem findField_key (fs : List Schema) (key : Str) (f : Schema) (h : findField key fs = some f) :
    key ∈ fieldNames fs := by
  induction fs with
  | nil => simp [findField] at h
  | cons g gs ih =>
    unfold findField at h
    split at h
    · rename_i hk; simp [fieldNames, hk]
    · simp [fieldNames, ih h]

/-- `setOne` sets the first declared field of that name, from the member that is there or a fresh one -/
theorem setOne_eq (env : Env) (fs : List Schema) (key : Str) (cur : Option Elem) (v : Native) :
    setOne env fs key cur v
      = (findField key fs).map (fun f => setNative env f (cur.getD (blank env f)) v) := by
  induction fs with
  | nil => simp [setOne, findField]
  | cons g gs ih =>
    unfold setOne findField
    split
    · simp
    · exact ih

theorem lookup_none_of_not_mem (key : Str) (ms : List (Str × Elem)) (h : key ∉ ms.map (·.1)) :
    lookup key ms = none := by
  induction ms with
  | nil => rfl
  | cons p ps ih =>
    obtain ⟨k, e⟩ := p
    simp only [List.map_cons, List.mem_cons, not_or] at h
    simp only [lookup, Ne.symm h.1, if_false]
    exact ih h.2

theorem lookup_isSome_of_mem (key : Str) (ms : List (Str × Elem)) (h : key ∈ ms.map (·.1)) :
    (lookup key ms).isSome = true := by
  induction ms with
  | nil => simp at h
  | cons p ps ih =>
    obtain ⟨k, e⟩ := p
    simp only [lookup]
    split
    · rfl
    · rename_i hk
      simp only [List.map_cons, List.mem_cons] at h
      rcases h with h | h
      · exact absurd h.symm hk
      · exact ih h

theorem lookup_mem (key : Str) (ms : List (Str × Elem)) (e : Elem) (h : lookup key ms = some e) :
    (key, e) ∈ ms := by
  induction ms with
  | nil => simp [lookup] at h
  | cons p ps ih =>
    obtain ⟨k, x⟩ := p
    simp only [lookup] at h
    split at h
    · rename_i hk
      simp only [Option.some.injEq] at h
      subst h; subst hk
      simp
    · exact List.mem_cons_of_mem _ (ih h)

theorem replace_keys (key : Str) (e : Elem) (ms : List (Str × Elem)) :
    (replace key e ms).map (·.1) = ms.map (·.1) := by
  induction ms with
  | nil => rfl
  | cons p ps ih =>
    obtain ⟨k, x⟩ := p
    unfold replace
    split <;> simp [ih]

theorem mem_replace (key : Str) (e : Elem) (ms : List (Str × Elem)) (p : Str × Elem)
    (h : p ∈ replace key e ms) : p = (key, e) ∨ p ∈ ms := by
  induction ms with
  | nil => simp [replace] at h
  | cons q qs ih =>
    obtain ⟨k, x⟩ := q
    unfold replace at h
    split at h
    · rename_i hk
      rcases List.mem_cons.mp h with h | h
      · left; rw [h, hk]
      · right; exact List.mem_cons_of_mem _ h
    · rcases List.mem_cons.mp h with h | h
      · right; rw [h]; simp
      · rcases ih h with h' | h'
        · left; exact h'
        · right; exact List.mem_cons_of_mem _ h'

theorem valueMembers_keys (ms : List (Str × Elem)) :
    (value.valueMembers ms).map (·.1) = ms.map (fun p => Native.text p.1) := by
  induction ms with
  | nil => rfl
  | cons p ps ih => obtain ⟨k, e⟩ := p; simp [value.valueMembers, ih]

theorem valueMembers_length (ms : List (Str × Elem)) : (value.valueMembers ms).length = ms.length := by
  have := congrArg List.length (valueMembers_keys ms)
  simpa using this

theorem valueMembers_getElem (ms : List (Str × Elem)) (j : Nat) (h : j < ms.length)
    (h' : j < (value.valueMembers ms).length) :
    (value.valueMembers ms)[j] = (Native.text (ms[j]).1, value (ms[j]).2) := by
  induction ms generalizing j with
  | nil => simp at h
  | cons p ps ih =>
    obtain ⟨k, e⟩ := p
    cases j with
    | zero => simp [value.valueMembers]
    | succ i =>
      simp only [value.valueMembers, List.getElem_cons_succ]
      exact ih i (by simpa using h) _

theorem lookup_skip_pre (key : Str) (b : Elem) (pre rest : List (Str × Elem))
    (h : key ∉ pre.map (·.1)) : lookup key (pre ++ (key, b) :: rest) = some b := by
  induction pre with
  | nil => simp [lookup]
  | cons q qs ih =>
    obtain ⟨k, x⟩ := q
    simp only [List.map_cons, List.mem_cons, not_or] at h
    simp only [List.cons_append, lookup, Ne.symm h.1, if_false]
    exact ih h.2

theorem replace_skip_pre (key : Str) (b e : Elem) (pre rest : List (Str × Elem))
    (h : key ∉ pre.map (·.1)) :
    replace key e (pre ++ (key, b) :: rest) = pre ++ (key, e) :: rest := by
  induction pre with
  | nil => simp [replace]
  | cons q qs ih =>
    obtain ⟨k, x⟩ := q
    simp only [List.map_cons, List.mem_cons, not_or] at h
    simp only [List.cons_append, replace, Ne.symm h.1, if_false]
    rw [ih h.2]

/-! ### blank members -/

theorem blank_dict (env : Env) (n : Option Str) (o : Bool) (mode : DictMode) (policy : Policy)
    (fields : List Schema) : blank env (.dict n o mode policy fields) = .dict (blankMs env mode fields) := by
  cases mode <;> simp [blank, blankMs]

theorem blankFields_keys (env : Env) (fs : List Schema) : (blankFields env fs).map (·.1) = fieldNames fs := by
  induction fs with
  | nil => rfl
  | cons f fs ih => simp [blankFields, fieldNames, ih]

theorem blankRequired_sublist (env : Env) (fs : List Schema) :
    ((blankRequired env fs).map (·.1)).Sublist (fieldNames fs) := by
  induction fs with
  | nil => simp [blankRequired, fieldNames]
  | cons f fs ih =>
    unfold blankRequired
    split
    · exact List.Sublist.cons _ ih
    · simp only [List.map_cons, fieldNames]; exact List.Sublist.cons_cons _ ih

theorem mem_blankFields (env : Env) (fs : List Schema) (p : Str × Elem) (h : p ∈ blankFields env fs) :
    ∃ f ∈ fs, p = (f.name.getD [], blank env f) := by
  induction fs with
  | nil => simp [blankFields] at h
  | cons f fs ih =>
    simp only [blankFields, List.mem_cons] at h
    rcases h with rfl | h
    · exact ⟨f, by simp, rfl⟩
    · obtain ⟨g, hg, he⟩ := ih h; exact ⟨g, List.mem_cons_of_mem _ hg, he⟩

theorem mem_blankRequired (env : Env) (fs : List Schema) (p : Str × Elem) (h : p ∈ blankRequired env fs) :
    ∃ f ∈ fs, p = (f.name.getD [], blank env f) := by
  induction fs with
  | nil => simp [blankRequired] at h
  | cons f fs ih =>
    unfold blankRequired at h
    split at h
    · obtain ⟨g, hg, he⟩ := ih h; exact ⟨g, List.mem_cons_of_mem _ hg, he⟩
    · rcases List.mem_cons.mp h with rfl | h
      · exact ⟨f, by simp, rfl⟩
      · obtain ⟨g, hg, he⟩ := ih h; exact ⟨g, List.mem_cons_of_mem _ hg, he⟩

theorem mem_blankMs (env : Env) (mode : DictMode) (fs : List Schema) (p : Str × Elem)
    (h : p ∈ blankMs env mode fs) : ∃ f ∈ fs, p = (f.name.getD [], blank env f) := by
  cases mode with
  | dense => exact mem_blankFields env fs p h
  | sparse => exact absurd h (by simp [blankMs])
  | sparseReq => exact mem_blankRequired env fs p h

theorem nodup_of_nodup_map {α β} (f : α → β) (l : List α) (h : (l.map f).Nodup) : l.Nodup := by
  induction l with
  | nil => exact List.nodup_nil
  | cons a as ih =>
    simp only [List.map_cons, List.nodup_cons] at h ⊢
    exact ⟨fun hin => h.1 (List.mem_map_of_mem hin), ih h.2⟩

theorem fieldNames_nodup (fs : List Schema) (hs : (namesOf fs).all Option.isSome = true)
    (hn : (namesOf fs).Nodup) : (fieldNames fs).Nodup := by
  rw [← fieldNames_eq fs hs] at hn
  exact nodup_of_nodup_map _ _ hn

theorem name_getD (f : Schema) (fs : List Schema) (hs : (namesOf fs).all Option.isSome = true)
    (hf : f ∈ fs) : f.name = some (f.name.getD []) := by
  induction fs with
  | nil => simp at hf
  | cons g gs ih =>
    simp only [namesOf, List.all_cons, Bool.and_eq_true] at hs
    rcases List.mem_cons.mp hf with rfl | h
    · cases hn : f.name with
      | none => simp [hn] at hs
      | some x => simp
    · exact ih hs.2 h

theorem blankMs_nodup (env : Env) (mode : DictMode) (fields : List Schema)
    (hs : (namesOf fields).all Option.isSome = true) (hn : (namesOf fields).Nodup) :
    ((blankMs env mode fields).map (·.1)).Nodup := by
  have hfn := fieldNames_nodup fields hs hn
  cases mode with
  | dense => simp only [blankMs, blankFields_keys]; exact hfn
  | sparse => simp [blankMs]
  | sparseReq => exact List.Nodup.sublist (blankRequired_sublist env fields) hfn

/-- a member `_reset()` leaves is the blank element of the field of that name -/
theorem blankMs_is_blank (env : Env) (mode : DictMode) (fields : List Schema)
    (hs : (namesOf fields).all Option.isSome = true) (hn : (namesOf fields).Nodup)
    (p : Str × Elem) (hp : p ∈ blankMs env mode fields) :
    ∃ f, f ∈ fields ∧ findField p.1 fields = some f ∧ p.2 = blank env f := by
  obtain ⟨g, hg, rfl⟩ := mem_blankMs env mode fields p hp
  exact ⟨g, hg, findField_of_mem fields hn g hg _ (name_getD g fields hs hg), rfl⟩

/-! ### the shape of the states `set()` builds -/

/-- distinct keys, the keys `_reset()` leaves first and in place -/
def KeysOk (B ms : List (Str × Elem)) : Prop :=
  (ms.map (·.1)).Nodup ∧ (ms.map (·.1)).take B.length = B.map (·.1)

mutual
/-- the element conforms to the schema: Dict members are keyed by field names, keys distinct,
    the always-present ones first, in declaration order -/
def Shaped (env : Env) : Schema → Elem → Prop
  | .leaf .., .leaf .. => True
  | .dict _ _ mode _ fields, .dict ms => KeysOk (blankMs env mode fields) ms ∧ ShapedMs env fields ms
  | .seq _ _ member, .seq ms => ShapedL env member ms
  | _, _ => False
def ShapedMs (env : Env) (fields : List Schema) : List (Str × Elem) → Prop
  | [] => True
  | (k, m) :: rest =>
    (match findField k fields with
     | some f => Shaped env f m
     | none => False) ∧ ShapedMs env fields rest
def ShapedL (env : Env) (member : Schema) : List Elem → Prop
  | [] => True
  | m :: rest => Shaped env member m ∧ ShapedL env member rest
end

theorem shapedMs_iff (env : Env) (fields : List Schema) (ms : List (Str × Elem)) :
    ShapedMs env fields ms ↔ ∀ p ∈ ms, ∃ f, findField p.1 fields = some f ∧ Shaped env f p.2 := by
  induction ms with
  | nil => simp [ShapedMs]
  | cons p ps ih =>
    obtain ⟨k, m⟩ := p
    simp only [ShapedMs, ih, List.mem_cons, forall_eq_or_imp]
    constructor
    · rintro ⟨h1, h2⟩
      refine ⟨?_, h2⟩
      cases hf : findField k fields with
      | none => simp [hf] at h1
      | some f => simp only [hf] at h1; exact ⟨f, rfl, h1⟩
    · rintro ⟨⟨f, hf, hs⟩, h2⟩
      refine ⟨?_, h2⟩
      simp only [hf]; exact hs

theorem shapedL_iff (env : Env) (member : Schema) (ms : List Elem) :
    ShapedL env member ms ↔ ∀ m ∈ ms, Shaped env member m := by
  induction ms with
  | nil => simp [ShapedL]
  | cons p ps ih => simp [ShapedL, ih]

theorem leafStableMs_iff (env : Env) (nf : Bool) (fields : List Schema) (ms : List (Str × Elem)) :
    leafStableMs env nf fields ms = true
      ↔ ∀ p ∈ ms, ∃ f, findField p.1 fields = some f ∧ leafStable env nf f p.2 = true := by
  induction ms with
  | nil => simp [leafStableMs]
  | cons p ps ih =>
    obtain ⟨k, m⟩ := p
    simp only [leafStableMs, Bool.and_eq_true, ih, List.mem_cons, forall_eq_or_imp]
    constructor
    · rintro ⟨h1, h2⟩
      refine ⟨?_, h2⟩
      cases hf : findField k fields with
      | none => simp [hf] at h1
      | some f => simp only [hf] at h1; exact ⟨f, rfl, h1⟩
    · rintro ⟨⟨f, hf, hs⟩, h2⟩
      refine ⟨?_, h2⟩
      simp only [hf]; exact hs

theorem leafStableL_iff (env : Env) (nf : Bool) (member : Schema) (ms : List Elem) :
    leafStableL env nf member ms = true ↔ ∀ m ∈ ms, leafStable env nf member m = true := by
  induction ms with
  | nil => simp [leafStableL]
  | cons p ps ih => simp [leafStableL, ih]

/-! ### `set()` builds shaped states -/

/-- the members while `Dict.set` runs: keys as `KeysOk`, every member satisfies `P` for its field -/
structure Inv (fields : List Schema) (P : Schema → Elem → Prop) (B ms : List (Str × Elem)) : Prop where
  keys : KeysOk B ms
  mem : ∀ p ∈ ms, ∃ f, findField p.1 fields = some f ∧ P f p.2

theorem inv_setPairs (env : Env) (fields : List Schema) (P : Schema → Elem → Prop) (B : List (Str × Elem))
    (hblank : ∀ key f, findField key fields = some f → P f (blank env f))
    (hstep : ∀ key f, findField key fields = some f → ∀ cur v e fl, P f cur →
      setNative env f cur v = .ok (e, fl) → P f e) :
    ∀ (kvs : List (Native × Native)) (cur ms : List (Str × Elem)) (fl : Bool), Inv fields P B cur →
      setPairs env fields cur kvs = .ok (ms, fl) → Inv fields P B ms := by
  intro kvs
  induction kvs with
  | nil =>
    intro cur ms fl hg h
    simp only [setPairs, Except.ok.injEq, Prod.mk.injEq] at h
    rw [← h.1]; exact hg
  | cons kv rest ih =>
    intro cur ms fl hg h
    obtain ⟨key, v⟩ := kv
    unfold setPairs at h
    split at h
    · simp at h
    · split at h
      · rename_i k _
        rw [setOne_eq] at h
        cases hff : findField k fields with
        | none => simp only [hff, Option.map_none] at h; exact ih cur ms fl hg h
        | some f =>
          simp only [hff, Option.map_some] at h
          have hPcur : P f ((lookup k cur).getD (blank env f)) := by
            cases hl : lookup k cur with
            | none => exact hblank k f hff
            | some old =>
              obtain ⟨f', hf', hp⟩ := hg.mem (k, old) (lookup_mem k cur old hl)
              simp only [hff, Option.some.injEq] at hf'
              subst hf'
              exact hp
          cases hr : setNative env f ((lookup k cur).getD (blank env f)) v with
          | error err => simp [hr] at h
          | ok ef =>
            obtain ⟨e, f1⟩ := ef
            simp only [hr] at h
            have hPe := hstep k f hff _ v e f1 hPcur hr
            split at h
            · rename_i ms'' f' hrest
              simp only [Except.ok.injEq, Prod.mk.injEq] at h
              obtain ⟨hms, _⟩ := h
              subst hms
              apply ih _ _ _ _ hrest
              cases hl : lookup k cur with
              | some old =>
                simp only
                refine ⟨⟨by rw [replace_keys]; exact hg.keys.1, by rw [replace_keys]; exact hg.keys.2⟩, ?_⟩
                intro p hp
                rcases mem_replace k e cur p hp with rfl | hp
                · exact ⟨f, hff, hPe⟩
                · exact hg.mem p hp
              | none =>
                simp only
                have hnot : k ∉ cur.map (·.1) := by
                  intro hin
                  have := lookup_isSome_of_mem k cur hin
                  rw [hl] at this; cases this
                refine ⟨⟨?_, ?_⟩, ?_⟩
                · simp only [List.map_append, List.map_cons, List.map_nil]
                  apply List.nodup_append.mpr
                  refine ⟨hg.keys.1, by simp, ?_⟩
                  intro a ha b hb
                  simp only [List.mem_singleton] at hb
                  subst hb
                  intro heq; subst heq; exact hnot ha
                · have hlen : B.length ≤ (cur.map (·.1)).length := by
                    have := congrArg List.length hg.keys.2
                    simp only [List.length_take, List.length_map] at this ⊢
                    omega
                  simp only [List.map_append]
                  rw [List.take_append_of_le_length hlen]
                  exact hg.keys.2
                · intro p hp
                  rcases List.mem_append.mp hp with hp | hp
                  · exact hg.mem p hp
                  · simp only [List.mem_singleton] at hp; subst hp; exact ⟨f, hff, hPe⟩
            · simp at h
      · exact ih cur ms fl hg h

theorem inv_blank (env : Env) (mode : DictMode) (fields : List Schema) (P : Schema → Elem → Prop)
    (hs : (namesOf fields).all Option.isSome = true) (hn : (namesOf fields).Nodup)
    (hblank : ∀ f ∈ fields, P f (blank env f)) :
    Inv fields P (blankMs env mode fields) (blankMs env mode fields) := by
  refine ⟨⟨blankMs_nodup env mode fields hs hn, List.take_of_length_le (by simp)⟩, ?_⟩
  intro p hp
  obtain ⟨f, hf, hff, he⟩ := blankMs_is_blank env mode fields hs hn p hp
  exact ⟨f, hff, by rw [he]; exact hblank f hf⟩

theorem setMembers_mem (env : Env) (member : Schema) :
    ∀ (xs : List Native) (ms : List Elem) (fl : Bool), setMembers env member xs = .ok (ms, fl) →
      ∀ m ∈ ms, ∃ x f, setNative env member (blank env member) x = .ok (m, f) := by
  intro xs
  induction xs with
  | nil =>
    intro ms fl h
    simp only [setMembers, Except.ok.injEq, Prod.mk.injEq] at h
    intro m hm; rw [← h.1] at hm; simp at hm
  | cons x xs ih =>
    intro ms fl h
    simp only [setMembers] at h
    cases h1 : setNative env member (blank env member) x with
    | error r => simp [h1] at h
    | ok ef =>
      obtain ⟨e, f⟩ := ef
      simp only [h1] at h
      cases h2 : setMembers env member xs with
      | error r => simp [h2] at h
      | ok esf =>
        obtain ⟨es, f'⟩ := esf
        simp only [h2, Except.ok.injEq, Prod.mk.injEq] at h
        intro m hm
        rw [← h.1] at hm
        rcases List.mem_cons.mp hm with rfl | hm
        · exact ⟨x, f, h1⟩
        · exact ih es f' h2 m hm

mutual
/-- a fresh element is shaped -/
theorem shaped_blank (env : Env) : ∀ s : Schema, wf s = true → Shaped env s (blank env s)
  | .leaf n o k, _ => by simp [blank, Shaped]
  | .seq n o member, _ => by simp [blank, Shaped, ShapedL]
  | .dict n o mode policy fields, hw => by
    simp only [wf, Bool.and_eq_true, Bool.or_eq_true, decide_eq_true_eq] at hw
    obtain ⟨⟨⟨hwl, hsome⟩, hnd⟩, _⟩ := hw
    have hg := inv_blank env mode fields (Shaped env) hsome hnd (shaped_blankL env fields hwl)
    rw [blank_dict]
    simp only [Shaped]
    exact ⟨hg.keys, (shapedMs_iff env fields _).mpr hg.mem⟩
theorem shaped_blankL (env : Env) : ∀ fs : List Schema, wfL fs = true →
    ∀ f ∈ fs, Shaped env f (blank env f)
  | [], _ => fun f hf => by simp at hf
  | g :: gs, hw => by
    simp only [wfL, Bool.and_eq_true] at hw
    have h1 := shaped_blank env g hw.1
    have h2 := shaped_blankL env gs hw.2
    intro f hf
    rcases List.mem_cons.mp hf with rfl | h
    · exact h1
    · exact h2 f h
end

mutual
/-- whatever `set()` is given and whatever it returns, it leaves a shaped element shaped -/
theorem shaped_set (env : Env) : ∀ (s : Schema), wf s = true →
    ∀ (cur : Elem) (x : Native) (e : Elem) (fl : Bool), Shaped env s cur →
      setNative env s cur x = .ok (e, fl) → Shaped env s e
  | .leaf n o k, _, cur, x, e, fl, _, h => by
    simp only [setNative, Except.ok.injEq, Prod.mk.injEq] at h
    rw [← h.1]; simp [Shaped]
  | .seq n o member, hw, cur, x, e, fl, _, h => by
    simp only [wf] at hw
    simp only [setNative] at h
    cases hit : iterate x with
    | none =>
      simp only [hit, Except.ok.injEq, Prod.mk.injEq] at h
      rw [← h.1]; simp [Shaped, ShapedL]
    | some xs =>
      simp only [hit] at h
      cases hm : setMembers env member xs with
      | error r =>
        cases r <;> simp only [hm, Except.ok.injEq, Prod.mk.injEq, reduceCtorEq] at h
        rw [← h.1]; simp [Shaped, ShapedL]
      | ok msf =>
        obtain ⟨ms, f⟩ := msf
        simp only [hm, Except.ok.injEq, Prod.mk.injEq] at h
        rw [← h.1]
        simp only [Shaped]
        apply (shapedL_iff env member ms).mpr
        intro m hmm
        obtain ⟨x', f', hx'⟩ := setMembers_mem env member xs ms f hm m hmm
        exact shaped_set env member hw _ x' m f' (shaped_blank env member hw) hx'
  | .dict n o mode policy fields, hw, cur, x, e, fl, hc, h => by
    have hw0 := hw
    simp only [wf, Bool.and_eq_true, Bool.or_eq_true, decide_eq_true_eq] at hw
    obtain ⟨⟨⟨hwl, hsome⟩, hnd⟩, _⟩ := hw
    simp only [setNative] at h
    cases htp : toPairs x with
    | none =>
      simp only [htp, Except.ok.injEq, Prod.mk.injEq] at h
      rw [← h.1]; exact hc
    | some kvs =>
      simp only [htp] at h
      cases hpr : policyRaise policy fields (kvs.map (·.1)) with
      | some r => simp [hpr] at h
      | none =>
        simp only [hpr] at h
        cases hsp : setPairs env fields (blankMs env mode fields) kvs with
        | error r => simp [hsp] at h
        | ok msf =>
          obtain ⟨ms, f⟩ := msf
          simp only [hsp, Except.ok.injEq, Prod.mk.injEq] at h
          rw [← h.1]
          have hg0 := inv_blank env mode fields (Shaped env) hsome hnd (shaped_blankL env fields hwl)
          have hg := inv_setPairs env fields (Shaped env) _
            (fun key f hf => shaped_blankL env fields hwl f (findField_mem fields key f hf).1)
            (fun key f hf => shaped_setL env fields hwl f (findField_mem fields key f hf).1)
            kvs _ ms f hg0 hsp
          simp only [Shaped]
          exact ⟨hg.keys, (shapedMs_iff env fields _).mpr hg.mem⟩
theorem shaped_setL (env : Env) : ∀ (fs : List Schema), wfL fs = true → ∀ f ∈ fs,
    ∀ (cur : Elem) (x : Native) (e : Elem) (fl : Bool), Shaped env f cur →
      setNative env f cur x = .ok (e, fl) → Shaped env f e
  | [], _ => fun f hf => by simp at hf
  | g :: gs, hw => by
    simp only [wfL, Bool.and_eq_true] at hw
    have h1 := shaped_set env g hw.1
    have h2 := shaped_setL env gs hw.2
    intro f hf
    rcases List.mem_cons.mp hf with rfl | h
    · exact h1
    · exact h2 f h
end

/-! ### re-importing the exported value -/

/-- `s` rebuilds `e` from `e.value` on a fresh element; with `nf` the flag is True as well -/
def Rebuilds (env : Env) (nf : Bool) (s : Schema) (e : Elem) : Prop :=
  ∃ b, setNative env s (blank env s) (value e) = .ok (e, b) ∧ (nf = true → b = true)

/-- re-importing the exported members of a mapping rebuilds it, pair by pair -/
theorem rebuild (env : Env) (nf : Bool) (fields : List Schema) (B ms : List (Str × Elem))
    (hk : KeysOk B ms)
    (hB : ∀ p ∈ B, ∀ f, findField p.1 fields = some f → p.2 = blank env f)
    (hst : ∀ p ∈ ms, ∃ f, findField p.1 fields = some f ∧ Rebuilds env nf f p.2) :
    ∀ (n j : Nat), j + n = ms.length →
      ∃ b, setPairs env fields (ms.take j ++ B.drop j) ((value.valueMembers ms).drop j) = .ok (ms, b)
        ∧ (nf = true → b = true) := by
  have hBlen : B.length ≤ ms.length := by
    have := congrArg List.length hk.2
    simp only [List.length_take, List.length_map] at this
    omega
  intro n
  induction n with
  | zero =>
    intro j hj
    have hjl : j = ms.length := by omega
    subst hjl
    have h1 : (value.valueMembers ms).drop ms.length = [] := by
      apply List.drop_eq_nil_of_le
      rw [valueMembers_length]; exact Nat.le_refl _
    have h2 : B.drop ms.length = [] := List.drop_eq_nil_of_le hBlen
    exact ⟨true, by simp [h1, h2, setPairs], fun _ => rfl⟩
  | succ n ih =>
    intro j hj
    have hjlt : j < ms.length := by omega
    have hvlen := valueMembers_length ms
    -- the j-th exported pair
    have hdrop : (value.valueMembers ms).drop j
        = (Native.text (ms[j]).1, value (ms[j]).2) :: (value.valueMembers ms).drop (j + 1) := by
      rw [← List.getElem_cons_drop (h := by omega)]
      rw [valueMembers_getElem ms j hjlt (by omega)]
    rw [hdrop]
    obtain ⟨f, hff, bj, hbj, hbjt⟩ := hst ms[j] (List.getElem_mem hjlt)
    -- the key is not among the first j members
    have hnotin : (ms[j]).1 ∉ (ms.take j).map (·.1) := by
      intro hin
      have hnd := hk.1
      rw [← List.take_append_drop j (ms.map (·.1))] at hnd
      have hd := (List.nodup_append.mp hnd).2.2
      have h1 : (ms[j]).1 ∈ (ms.map (·.1)).take j := by rw [← List.map_take]; exact hin
      have h2 : (ms[j]).1 ∈ (ms.map (·.1)).drop j := by
        rw [← List.getElem_cons_drop (h := by simpa using hjlt)]
        simp
      exact hd _ h1 _ h2 rfl
    have hnext : ms.take (j + 1) = ms.take j ++ [ms[j]] := by
      rw [List.take_succ_eq_append_getElem hjlt]
    obtain ⟨b', hb', hbt'⟩ := ih (j + 1) (by omega)
    refine ⟨bj && b', ?_, fun h => by rw [hbjt h, hbt' h]; rfl⟩
    simp only [setPairs, hashable, Bool.true_eq_false, if_false, setOne_eq, hff, Option.map_some]
    by_cases hjB : j < B.length
    · -- a member `_reset()` left sits at this position: it is set, and replaced
      have hBj : (B[j]).1 = (ms[j]).1 := by
        have h1 : ((ms.map (·.1)).take B.length)[j]'(by simp; omega) = (B.map (·.1))[j]'(by simpa using hjB) := by
          simp only [hk.2]
        simp only [List.getElem_take, List.getElem_map] at h1
        exact h1.symm
      have hBblank : (B[j]).2 = blank env f := hB B[j] (List.getElem_mem hjB) f (by rw [hBj]; exact hff)
      have hBdrop : B.drop j = ((ms[j]).1, blank env f) :: B.drop (j + 1) := by
        rw [← List.getElem_cons_drop (h := hjB), ← hBj, ← hBblank]
      rw [hBdrop, lookup_skip_pre _ _ _ _ hnotin]
      simp only [Option.getD_some, hbj]
      have hrep : replace (ms[j]).1 (ms[j]).2 (ms.take j ++ ((ms[j]).1, blank env f) :: B.drop (j + 1))
          = ms.take (j + 1) ++ B.drop (j + 1) := by
        rw [replace_skip_pre _ _ _ _ _ hnotin]
        rw [hnext, List.append_assoc]
        rfl
      rw [hrep, hb']
    · -- past them: a fresh member is set, and appended
      have hBd : B.drop j = [] := List.drop_eq_nil_of_le (by omega)
      have hBd' : B.drop (j + 1) = [] := List.drop_eq_nil_of_le (by omega)
      rw [hBd, List.append_nil, lookup_none_of_not_mem _ _ hnotin]
      simp only [Option.getD_none, hbj]
      rw [hBd', List.append_nil, hnext] at hb'
      rw [hb']

theorem policy_ok (env : Env) (mode : DictMode) (policy : Policy) (fields : List Schema)
    (hpol : mode = .dense ∨ policy ≠ .strict) (ms : List (Str × Elem))
    (hk : KeysOk (blankMs env mode fields) ms)
    (hm : ∀ p ∈ ms, ∃ f, findField p.1 fields = some f) :
    policyRaise policy fields (ms.map (fun p => Native.text p.1)) = none := by
  have hextra : (ms.map (fun p => Native.text p.1)).all (isField fields) = true := by
    apply List.all_eq_true.mpr
    intro k hkm
    obtain ⟨p, hp, rfl⟩ := List.mem_map.mp hkm
    obtain ⟨f, hf⟩ := hm p hp
    have := findField_key fields p.1 f hf
    simpa [isField] using this
  have hhash : (ms.map (fun p => Native.text p.1)).all hashable = true := by
    apply List.all_eq_true.mpr
    intro k hkm
    obtain ⟨p, _, rfl⟩ := List.mem_map.mp hkm
    simp [hashable]
  unfold policyRaise
  simp only [hextra, hhash, Bool.not_true, Bool.false_eq_true, if_false]
  cases policy with
  | subset => rfl
  | duck => rfl
  | off => rfl
  | strict =>
    rcases hpol with hmd | hp
    · subst hmd
      have hpre := hk.2
      simp only [blankMs, blankFields_keys] at hpre
      have hmiss : (fieldNames fields).all
          (fun n => (ms.map (fun p => Native.text p.1)).any (isText n)) = true := by
        apply List.all_eq_true.mpr
        intro n hn
        have : n ∈ (ms.map (·.1)).take (blankFields env fields).length := by rw [hpre]; exact hn
        have := List.mem_of_mem_take this
        obtain ⟨p, hp, rfl⟩ := List.mem_map.mp this
        apply List.any_eq_true.mpr
        exact ⟨Native.text p.1, List.mem_map.mpr ⟨p, hp, rfl⟩, by simp [isText]⟩
      simp only [hmiss, Bool.not_true, Bool.false_eq_true, if_false]
    · exact absurd rfl hp

theorem setMembers_rebuild (env : Env) (nf : Bool) (member : Schema) :
    ∀ (ms : List Elem), (∀ m ∈ ms, Rebuilds env nf member m) →
      ∃ b, setMembers env member (value.valueList ms) = .ok (ms, b) ∧ (nf = true → b = true) := by
  intro ms
  induction ms with
  | nil => intro _; exact ⟨true, by simp [value.valueList, setMembers], fun _ => rfl⟩
  | cons m ms ih =>
    intro h
    obtain ⟨b1, h1, ht1⟩ := h m (by simp)
    obtain ⟨b2, h2, ht2⟩ := ih (fun m' hm' => h m' (List.mem_cons_of_mem _ hm'))
    refine ⟨b1 && b2, ?_, fun hn => by rw [ht1 hn, ht2 hn]; rfl⟩
    simp only [value.valueList, setMembers, h1, h2]

mutual
/-- a shaped element whose leaves re-adapt to their own state is rebuilt by its exported value -/
theorem rebuilds_of_shaped (env : Env) (nf : Bool) : ∀ (s : Schema), wf s = true →
    ∀ (e : Elem), Shaped env s e → leafStable env nf s e = true → Rebuilds env nf s e
  | .leaf n o k, _, e, hs, hl => by
    cases e with
    | leaf v u p =>
      simp only [leafStable, Bool.and_eq_true, decide_eq_true_eq, Bool.or_eq_true,
        Bool.not_eq_true'] at hl
      refine ⟨(env.adapt k (env.blankLeaf k) v).1, ?_, ?_⟩
      · simp only [value, setNative, blank, leafStateOf, hl.1]
      · intro hn
        rcases hl.2 with h | h
        · rw [hn] at h; cases h
        · exact h
    | dict ms => simp [Shaped] at hs
    | seq ms => simp [Shaped] at hs
  | .seq n o member, hw, e, hs, hl => by
    simp only [wf] at hw
    cases e with
    | leaf v u p => simp [Shaped] at hs
    | dict ms => simp [Shaped] at hs
    | seq ms =>
      simp only [Shaped] at hs
      simp only [leafStable] at hl
      have hs' := (shapedL_iff env member ms).mp hs
      have hl' := (leafStableL_iff env nf member ms).mp hl
      obtain ⟨b, hb, hbt⟩ := setMembers_rebuild env nf member ms
        (fun m hm => rebuilds_of_shaped env nf member hw m (hs' m hm) (hl' m hm))
      exact ⟨b, by simp only [value, setNative, iterate, hb], hbt⟩
  | .dict n o mode policy fields, hw, e, hs, hl => by
    simp only [wf, Bool.and_eq_true, Bool.or_eq_true, decide_eq_true_eq] at hw
    obtain ⟨⟨⟨hwl, hsome⟩, hnd⟩, hpol⟩ := hw
    cases e with
    | leaf v u p => simp [Shaped] at hs
    | seq ms => simp [Shaped] at hs
    | dict ms =>
      simp only [Shaped] at hs
      simp only [leafStable] at hl
      obtain ⟨hk, hsm⟩ := hs
      have hs' := (shapedMs_iff env fields ms).mp hsm
      have hl' := (leafStableMs_iff env nf fields ms).mp hl
      have hst : ∀ p ∈ ms, ∃ f, findField p.1 fields = some f ∧ Rebuilds env nf f p.2 := by
        intro p hp
        obtain ⟨f, hf, hsf⟩ := hs' p hp
        obtain ⟨f', hf', hlf⟩ := hl' p hp
        rw [hf] at hf'
        simp only [Option.some.injEq] at hf'
        subst hf'
        exact ⟨f, hf, rebuilds_of_shapedL env nf fields hwl f (findField_mem fields p.1 f hf).1 p.2 hsf hlf⟩
      have hB : ∀ p ∈ blankMs env mode fields, ∀ f, findField p.1 fields = some f → p.2 = blank env f := by
        intro p hp f hf
        obtain ⟨g, _, hg, he⟩ := blankMs_is_blank env mode fields hsome hnd p hp
        rw [hf] at hg
        simp only [Option.some.injEq] at hg
        subst hg; exact he
      have hpolok := policy_ok env mode policy fields hpol ms hk (fun p hp => (hs' p hp).imp (fun _ h => h.1))
      obtain ⟨b, hreb, hbt⟩ := rebuild env nf fields _ ms hk hB hst ms.length 0 (by simp)
      simp only [List.take_zero, List.nil_append, List.drop_zero] at hreb
      exact ⟨b, by simp only [value, setNative, toPairs, valueMembers_keys, hpolok, hreb], hbt⟩
theorem rebuilds_of_shapedL (env : Env) (nf : Bool) : ∀ (fs : List Schema), wfL fs = true → ∀ f ∈ fs,
    ∀ (e : Elem), Shaped env f e → leafStable env nf f e = true → Rebuilds env nf f e
  | [], _ => fun f hf => by simp at hf
  | g :: gs, hw => by
    simp only [wfL, Bool.and_eq_true] at hw
    have h1 := rebuilds_of_shaped env nf g hw.1
    have h2 := rebuilds_of_shapedL env nf gs hw.2
    intro f hf
    rcases List.mem_cons.mp hf with rfl | h
    · exact h1
    · exact h2 f h
end

/-! ### the theorem -/

/-- **C03.**  If `set(x)` reported full adaptation on an element (in any state `cur` that `set()`
    can have built) and left it in state `e`, and the leaves that occur in `e` re-adapt to their own
    state (`leafStable`, evaluated per case on the tables of the real classes), then a fresh element
    of the same schema set with `e.value` is in the very same state — equal `.value`, `.u`, `==`,
    `flatten()` and everything else a state determines.  The flag of the second `set()` is not
    claimed. -/
theorem reimport (env : Env) (s : Schema) (hw : wf s = true) (cur : Elem) (hc : Shaped env s cur)
    (x : Native) (e : Elem) (h : setNative env s cur x = .ok (e, true))
    (hl : leafStable env false s e = true) :
    ∃ b, setNative env s (blank env s) (value e) = .ok (e, b) := by
  obtain ⟨b, hb, _⟩ := rebuilds_of_shaped env false s hw e (shaped_set env s hw cur x e true hc h) hl
  exact ⟨b, hb⟩

/-- the case the property names first: the element was fresh -/
theorem reimport_fresh (env : Env) (s : Schema) (hw : wf s = true)
    (x : Native) (e : Elem) (h : setNative env s (blank env s) x = .ok (e, true))
    (hl : leafStable env false s e = true) :
    ∃ b, setNative env s (blank env s) (value e) = .ok (e, b) :=
  reimport env s hw _ (shaped_blank env s hw) x e h hl

/-- if the leaves of `e` also report True on their own exported value, so does the container -/
theorem reimport_true (env : Env) (s : Schema) (hw : wf s = true) (cur : Elem) (hc : Shaped env s cur)
    (x : Native) (e : Elem) (h : setNative env s cur x = .ok (e, true))
    (hl : leafStable env true s e = true) :
    setNative env s (blank env s) (value e) = .ok (e, true) := by
  obtain ⟨b, hb, ht⟩ := rebuilds_of_shaped env true s hw e (shaped_set env s hw cur x e true hc h) hl
  rw [ht rfl] at hb; exact hb

/-- in particular the exported values agree -/
theorem reimport_value (env : Env) (s : Schema) (hw : wf s = true) (cur : Elem) (hc : Shaped env s cur)
    (x : Native) (e : Elem) (h : setNative env s cur x = .ok (e, true))
    (hl : leafStable env false s e = true) :
    ∃ e' b, setNative env s (blank env s) (value e) = .ok (e', b) ∧ value e' = value e := by
  obtain ⟨b, hb⟩ := reimport env s hw cur hc x e h hl
  exact ⟨e, b, hb, rfl⟩

/-! ### the element's history

The `cur` of `reimport` is any shaped state.  What builds such states: the steps of
`Flatland.C03.Step` (a `set()` anywhere in the tree, item assignment anywhere in the tree), from a
fresh element or from any shaped state; states that come from elsewhere (`set_flat()`) are checked
with the function `shapedB`. -/

theorem wfL_mem (fs : List Schema) (h : wfL fs = true) (f : Schema) (hf : f ∈ fs) : wf f = true := by
  induction fs with
  | nil => simp at hf
  | cons g gs ih =>
    simp only [wfL, Bool.and_eq_true] at h
    rcases List.mem_cons.mp hf with rfl | hin
    · exact h.1
    · exact ih h.2 hin

theorem keysOkB_iff (B ms : List (Str × Elem)) : keysOkB B ms = true ↔ KeysOk B ms := by
  simp [keysOkB, KeysOk]

mutual
theorem shapedB_iff (env : Env) : ∀ (s : Schema) (e : Elem), shapedB env s e = true ↔ Shaped env s e
  | .leaf .., .leaf .. => by simp [shapedB, Shaped]
  | .leaf .., .dict _ => by simp [shapedB, Shaped]
  | .leaf .., .seq _ => by simp [shapedB, Shaped]
  | .dict .., .leaf .. => by simp [shapedB, Shaped]
  | .dict .., .seq _ => by simp [shapedB, Shaped]
  | .seq .., .leaf .. => by simp [shapedB, Shaped]
  | .seq .., .dict _ => by simp [shapedB, Shaped]
  | .dict _ _ mode _ fields, .dict ms => by
    simp only [shapedB, Shaped, Bool.and_eq_true, keysOkB_iff, shapedMsB_iff env fields ms]
  | .seq _ _ member, .seq ms => by
    simp only [shapedB, Shaped, shapedLB_iff env member ms]
theorem shapedMsB_iff (env : Env) (fields : List Schema) :
    ∀ ms : List (Str × Elem), shapedMsB env fields ms = true ↔ ShapedMs env fields ms
  | [] => by simp [shapedMsB, ShapedMs]
  | (k, m) :: rest => by
    simp only [shapedMsB, ShapedMs, Bool.and_eq_true, shapedMsB_iff env fields rest]
    cases hf : findField k fields with
    | none => simp
    | some f => simp only [shapedB_iff env f m]
theorem shapedLB_iff (env : Env) (member : Schema) :
    ∀ ms : List Elem, shapedLB env member ms = true ↔ ShapedL env member ms
  | [] => by simp [shapedLB, ShapedL]
  | m :: rest => by
    simp only [shapedLB, ShapedL, Bool.and_eq_true, shapedB_iff env member m, shapedLB_iff env member rest]
end

theorem shaped_replace (env : Env) (fields : List Schema) (B ms : List (Str × Elem)) (k : Str)
    (f : Schema) (m' : Elem) (hf : findField k fields = some f) (hm' : Shaped env f m')
    (hk : KeysOk B ms) (hs : ShapedMs env fields ms) :
    KeysOk B (replace k m' ms) ∧ ShapedMs env fields (replace k m' ms) := by
  refine ⟨⟨by rw [replace_keys]; exact hk.1, by rw [replace_keys]; exact hk.2⟩, ?_⟩
  apply (shapedMs_iff env fields _).mpr
  intro p hp
  rcases mem_replace k m' ms p hp with rfl | hp
  · exact ⟨f, hf, hm'⟩
  · exact (shapedMs_iff env fields ms).mp hs p hp

theorem shapedL_set (env : Env) (member : Schema) (ms : List Elem) (i : Nat) (m' : Elem)
    (hm' : Shaped env member m') (hs : ShapedL env member ms) : ShapedL env member (ms.set i m') := by
  apply (shapedL_iff env member _).mpr
  intro m hm
  rcases List.mem_or_eq_of_mem_set hm with h | h
  · exact (shapedL_iff env member ms).mp hs m h
  · rw [h]; exact hm'

/-- an operation that keeps every member shaped keeps the whole element shaped, wherever in the
    tree it is applied -/
theorem shaped_updateAt (env : Env) (op : Schema → Elem → Except StepRaise (Elem × Bool))
    (hop : ∀ s, wf s = true → ∀ cur e fl, Shaped env s cur → op s cur = .ok (e, fl) → Shaped env s e) :
    ∀ (path : List Key) (s : Schema), wf s = true → ∀ (cur e : Elem) (fl : Bool), Shaped env s cur →
      updateAt op s cur path = .ok (e, fl) → Shaped env s e := by
  intro path
  induction path with
  | nil =>
    intro s hw cur e fl hc h
    simp only [updateAt] at h
    exact hop s hw cur e fl hc h
  | cons key rest ih =>
    intro s hw cur e fl hc h
    cases s with
    | leaf n o k => simp [updateAt] at h
    | dict n o mode policy fields =>
      cases cur with
      | leaf v u p => simp [Shaped] at hc
      | seq ms => simp [Shaped] at hc
      | dict ms =>
        cases key with
        | idx i => simp [updateAt] at h
        | name k =>
          simp only [updateAt] at h
          cases hl : lookup k ms with
          | none => simp [hl] at h
          | some m =>
            cases hf : findField k fields with
            | none => simp [hl, hf] at h
            | some f =>
              simp only [hl, hf] at h
              cases hu : updateAt op f m rest with
              | error r => simp [hu] at h
              | ok mf =>
                obtain ⟨m', fl'⟩ := mf
                simp only [hu, Except.ok.injEq, Prod.mk.injEq] at h
                simp only [wf, Bool.and_eq_true] at hw
                have hwf : wf f = true := wfL_mem fields hw.1.1.1 f (findField_mem fields k f hf).1
                simp only [Shaped] at hc
                obtain ⟨f', hf', hsm⟩ := (shapedMs_iff env fields ms).mp hc.2 (k, m) (lookup_mem k ms m hl)
                simp only [hf, Option.some.injEq] at hf'
                subst hf'
                have hm' := ih f hwf m m' fl' hsm hu
                rw [← h.1]
                simp only [Shaped]
                exact shaped_replace env fields _ ms k f m' hf hm' hc.1 hc.2
    | seq n o member =>
      cases cur with
      | leaf v u p => simp [Shaped] at hc
      | dict ms => simp [Shaped] at hc
      | seq ms =>
        cases key with
        | name k => simp [updateAt] at h
        | idx i =>
          simp only [updateAt] at h
          cases hg : ms[i]? with
          | none => simp [hg] at h
          | some m =>
            simp only [hg] at h
            cases hu : updateAt op member m rest with
            | error r => simp [hu] at h
            | ok mf =>
              obtain ⟨m', fl'⟩ := mf
              simp only [hu, Except.ok.injEq, Prod.mk.injEq] at h
              simp only [wf] at hw
              simp only [Shaped] at hc
              have hsm := (shapedL_iff env member ms).mp hc m (List.mem_of_getElem? hg)
              have hm' := ih member hw m m' fl' hsm hu
              rw [← h.1]
              simp only [Shaped]
              exact shapedL_set env member ms i m' hm' hc

/-- `el.set(x)` through the lifted exception type -/
theorem shaped_liftSet (env : Env) (x : Native) (s : Schema) (hw : wf s = true) (cur e : Elem) (fl : Bool)
    (hc : Shaped env s cur) (h : liftSet (setNative env s cur x) = .ok (e, fl)) : Shaped env s e := by
  cases hr : setNative env s cur x with
  | error r => simp [liftSet, hr] at h
  | ok p =>
    simp only [liftSet, hr, Except.ok.injEq] at h
    subst h
    exact shaped_set env s hw cur x e fl hc hr

/-- item assignment leaves a shaped container shaped -/
theorem shaped_itemAssign (env : Env) (key : Key) (fresh : Bool) (x : Native) (s : Schema)
    (hw : wf s = true) (cur e : Elem) (fl : Bool) (hc : Shaped env s cur)
    (h : itemAssign env key fresh x s cur = .ok (e, fl)) : Shaped env s e := by
  cases s with
  | leaf n o k => cases cur <;> simp [itemAssign] at h
  | dict n o mode policy fields =>
    cases cur with
    | leaf v u p => simp [Shaped] at hc
    | seq ms => simp [Shaped] at hc
    | dict ms =>
      cases key with
      | idx i => simp [itemAssign] at h
      | name k =>
        simp only [itemAssign] at h
        split at h
        · simp at h
        · cases hsp : setPairs env fields ms [(Native.text k, x)] with
          | error r => simp [hsp] at h
          | ok msf =>
            obtain ⟨ms', f'⟩ := msf
            simp only [hsp, Except.ok.injEq, Prod.mk.injEq] at h
            simp only [wf, Bool.and_eq_true] at hw
            obtain ⟨⟨⟨hwl, _⟩, _⟩, _⟩ := hw
            simp only [Shaped] at hc
            have hg0 : Inv fields (Shaped env) (blankMs env mode fields) ms :=
              ⟨hc.1, (shapedMs_iff env fields ms).mp hc.2⟩
            have hg := inv_setPairs env fields (Shaped env) _
              (fun key f hf => shaped_blankL env fields hwl f (findField_mem fields key f hf).1)
              (fun key f hf => shaped_setL env fields hwl f (findField_mem fields key f hf).1)
              _ ms ms' f' hg0 hsp
            rw [← h.1]
            simp only [Shaped]
            exact ⟨hg.keys, (shapedMs_iff env fields _).mpr hg.mem⟩
  | seq n o member =>
    cases cur with
    | leaf v u p => simp [Shaped] at hc
    | dict ms => simp [Shaped] at hc
    | seq ms =>
      simp only [wf] at hw
      simp only [Shaped] at hc
      cases key with
      | name k => simp [itemAssign] at h
      | idx i =>
        simp only [itemAssign] at h
        split at h
        · cases hs : setNative env member (blank env member) x with
          | error r => simp [hs] at h
          | ok mf =>
            obtain ⟨m, f'⟩ := mf
            simp only [hs] at h
            split at h
            · simp only [Except.ok.injEq, Prod.mk.injEq] at h
              rw [← h.1]
              simp only [Shaped]
              exact shapedL_set env member ms i m
                (shaped_set env member hw _ x m f' (shaped_blank env member hw) hs) hc
            · simp at h
        · cases hg : ms[i]? with
          | none => simp [hg] at h
          | some m =>
            simp only [hg] at h
            cases hs : setNative env member m x with
            | error r => simp [hs] at h
            | ok mf =>
              obtain ⟨m', f'⟩ := mf
              simp only [hs, Except.ok.injEq, Prod.mk.injEq] at h
              rw [← h.1]
              simp only [Shaped]
              have hsm := (shapedL_iff env member ms).mp hc m (List.mem_of_getElem? hg)
              exact shapedL_set env member ms i m' (shaped_set env member hw m x m' f' hsm hs) hc

/-- every step of a history leaves a shaped element shaped -/
theorem shaped_applyStep (env : Env) (s : Schema) (hw : wf s = true) (cur : Elem) (st : Step)
    (e : Elem) (fl : Bool) (hc : Shaped env s cur) (h : applyStep env s cur st = .ok (e, fl)) :
    Shaped env s e := by
  cases st with
  | set path x =>
    exact shaped_updateAt env _ (fun s' hw' c e' fl' hc' h' => shaped_liftSet env x s' hw' c e' fl' hc' h')
      path s hw cur e fl hc h
  | setItem path key fresh x =>
    exact shaped_updateAt env _ (fun s' hw' c e' fl' hc' h' => shaped_itemAssign env key fresh x s' hw' c e' fl' hc' h')
      path s hw cur e fl hc h

/-- … hence so does a whole history -/
theorem shaped_history (env : Env) (s : Schema) (hw : wf s = true) :
    ∀ (steps : List Step) (cur e : Elem), Shaped env s cur → runSteps env s cur steps = .ok e →
      Shaped env s e := by
  intro steps
  induction steps with
  | nil =>
    intro cur e hc h
    simp only [runSteps, Except.ok.injEq] at h
    rw [← h]; exact hc
  | cons st rest ih =>
    intro cur e hc h
    simp only [runSteps] at h
    cases ha : applyStep env s cur st with
    | error r => simp [ha] at h
    | ok ef =>
      obtain ⟨e1, f1⟩ := ef
      simp only [ha] at h
      exact ih e1 e (shaped_applyStep env s hw cur st e1 f1 hc ha) h

/-- **C03 after any history.**  The element was built fresh and then went through any sequence
    of `set()` calls and item assignments anywhere in its tree (none of which raised); if the
    `set(x)` that follows reports True, its exported value rebuilds it on a fresh element. -/
theorem reimport_history (env : Env) (s : Schema) (hw : wf s = true) (steps : List Step) (cur : Elem)
    (hr : runSteps env s (blank env s) steps = .ok cur)
    (x : Native) (e : Elem) (h : setNative env s cur x = .ok (e, true))
    (hl : leafStable env false s e = true) :
    ∃ b, setNative env s (blank env s) (value e) = .ok (e, b) :=
  reimport env s hw cur (shaped_history env s hw steps _ cur (shaped_blank env s hw) hr) x e h hl

/-- the same from a state that was observed (after `set_flat()`, after a step that raised) and
    passed the check `shapedB`, followed by any further history -/
theorem reimport_observed (env : Env) (s : Schema) (hw : wf s = true) (obs : Elem)
    (ho : shapedB env s obs = true) (steps : List Step) (cur : Elem)
    (hr : runSteps env s obs steps = .ok cur)
    (x : Native) (e : Elem) (h : setNative env s cur x = .ok (e, true))
    (hl : leafStable env false s e = true) :
    ∃ b, setNative env s (blank env s) (value e) = .ok (e, b) :=
  reimport env s hw cur (shaped_history env s hw steps _ cur ((shapedB_iff env s obs).mp ho) hr) x e h hl

/-! ### non-vacuity -/

/-- a toy leaf table: texts are kept as they are, None gives an empty leaf; anything else is
    rejected -/
def exEnv : Env :=
  { adapt := fun _ _ x => match x with
      | .text s => (true, .text s, s, [])
      | .none => (true, .none, [], [])
      | _ => (false, .none, [], [])
    blankLeaf := fun _ => (.none, [], []) }

def exSchema : Schema :=
  .dict none false .sparse .subset
    [.leaf (some "a".toList) false 0, .seq (some "l".toList) false (.leaf none false 0)]

def exElem : Elem :=
  .dict [("l".toList, .seq [.leaf (.text "x".toList) "x".toList [], .leaf .none [] []])]

/-- the premises of `reimport_fresh` are met by a partially specified SparseDict holding a list,
    given as a list of pairs (a 2-tuple here) -/
example : setNative exEnv exSchema (blank exEnv exSchema)
        (.list [.tuple [.text "l".toList, .list [.text "x".toList, .none]]]) = .ok (exElem, true)
    ∧ wf exSchema = true ∧ leafStable exEnv false exSchema exElem = true := by
  refine ⟨?_, by decide, ?_⟩
  · simp [exSchema, exElem, setNative, toPairs, iterate, unpackPairs, policyRaise, fieldNames, isField,
      hashable, Schema.name, blank, blankMs, setPairs, setOne, lookup, setMembers, exEnv]
  · simp [exSchema, exElem, leafStable, leafStableMs, leafStableL, findField, Schema.name, exEnv]

/-- the adapt table the harness extracts from the real DateYYYYMMDD: an unparseable text gives
    (True, None, '', ['', '', '']); None gives False and leaves the state as it is; a date is
    taken.  The old hypotheses (every adapted input re-adapts with the flag True; a fresh leaf set
    with its own value reports True) are false of it, `leafStable` holds on what it builds. -/
def dateEnv : Env :=
  { adapt := fun _ st x => match x with
      | .text _ => (true, .none, [], [[], [], []])
      | .atom d => (true, .atom d, d, [d, d, d])
      | _ => (false, st)
    blankLeaf := fun _ => (.none, [], [[], [], []]) }

def dateSchema : Schema := .dict none false .dense .subset [.leaf (some "d".toList) false 0]

def dateElem : Elem := .dict [("d".toList, .leaf .none [] [[], [], []])]

/-- `reimport` applies to `{'d': 'garbage'}` on a Dict holding a DateYYYYMMDD-like leaf … -/
example : setNative dateEnv dateSchema (blank dateEnv dateSchema)
        (.dict [(.text "d".toList, .text "garbage".toList)]) = .ok (dateElem, true)
    ∧ wf dateSchema = true ∧ leafStable dateEnv false dateSchema dateElem = true := by
  refine ⟨?_, by decide, ?_⟩
  · simp [dateSchema, dateElem, setNative, toPairs, policyRaise, fieldNames, isField, hashable,
      Schema.name, blank, blankMs, blankFields, setPairs, setOne, lookup, replace, dateEnv]
  · simp [dateSchema, dateElem, leafStable, leafStableMs, findField, Schema.name, dateEnv]

/-- … where the flag of the second `set()` is False (so no theorem that promises True applies:
    the table is not idempotent with flags) while the state is rebuilt, as `reimport` says -/
example : setNative dateEnv dateSchema (blank dateEnv dateSchema) (value dateElem) = .ok (dateElem, false)
    ∧ (dateEnv.adapt 0 (dateEnv.blankLeaf 0) (dateEnv.adapt 0 (dateEnv.blankLeaf 0) (.text "garbage".toList)).2.1).1
        = false
    ∧ leafStable dateEnv true dateSchema dateElem = false := by
  refine ⟨?_, by simp [dateEnv], ?_⟩
  · simp [dateSchema, dateElem, value, value.valueMembers, setNative, toPairs, policyRaise, fieldNames,
      isField, hashable, Schema.name, blank, blankMs, blankFields, setPairs, setOne, lookup,
      replace, dateEnv, leafStateOf]
  · simp [dateSchema, dateElem, leafStable, leafStableMs, findField, Schema.name, dateEnv]

def dupSchema : Schema :=
  .dict none false .dense .subset
    [.dict (some "m".toList) false .dense .subset [.leaf (some "a".toList) false 0]]

/-- a member set twice through a duplicate key keeps the state of the first `set()` when the second
    value is not dict-like (`Dict.set` returns False before `_reset()`); the premises of `reimport`
    do not hold for that input (flag False), the element is shaped all the same -/
example : setNative exEnv dupSchema (blank exEnv dupSchema)
      (.list [.list [.text "m".toList, .dict [(.text "a".toList, .text "x".toList)]],
              .text "m7".toList])
    = .ok (.dict [("m".toList, .dict [("a".toList, .leaf (.text "x".toList) "x".toList [])])], false) := by
  simp [dupSchema, setNative, toPairs, iterate, unpackPairs, policyRaise, fieldNames, isField,
    hashable, Schema.name, blank, blankMs, blankFields, setPairs, setOne, lookup, replace, exEnv]

/-! ### an element with a history: a stale, unadaptable text under a partial `set()` -/

/-- an Integer-like leaf table: numbers (atoms) are taken, None empties the leaf, a text that is no
    number is kept as the text with the value None and the flag False -/
def intEnv : Env :=
  { adapt := fun _ _ x => match x with
      | .atom d => (true, .atom d, d, [])
      | .none => (true, .none, [], [])
      | .text t => (false, .none, t, [])
      | _ => (false, .none, [], [])
    blankLeaf := fun _ => (.none, [], []) }

/-- `Dict.named('p').of(Integer.named('x'), Integer.named('y'))`, default policy -/
def pointSchema : Schema :=
  .dict (some "p".toList) false .dense .subset
    [.leaf (some "x".toList) false 0, .leaf (some "y".toList) false 0]

/-- the point after `el['x'].set('abc'); el['y'] = 3` (or after `set_flat([('p_x', 'abc'),
    ('p_y', '3')])`): `x` holds the value None and the text 'abc' -/
def staleCur : Elem :=
  .dict [("x".toList, .leaf .none "abc".toList []), ("y".toList, .leaf (.atom "3".toList) "3".toList [])]

def afterPartial : Elem :=
  .dict [("x".toList, .leaf .none [] []), ("y".toList, .leaf (.atom "2".toList) "2".toList [])]

/-- that state is what a member's own `set()` and an item assignment build from a fresh point … -/
example : runSteps intEnv pointSchema (blank intEnv pointSchema)
      [.set [.name "x".toList] (.text "abc".toList), .setItem [] (.name "y".toList) false (.atom "3".toList)]
    = .ok staleCur := by
  simp [runSteps, applyStep, updateAt, itemAssign, liftSet, pointSchema, staleCur, setNative, blank, blankFields,
    Schema.name, lookup, findField, replace, setPairs, setOne, hashable, intEnv]

/-- … it is not the fresh state, it is shaped, and the partial `set({'y': 2})` under the 'subset'
    policy reports True on it: `Dict.set` resets the members first, so the stale text 'abc' of `x`
    is gone from the result (a member that kept it would show in `.u`, `==` and `flatten()`, not
    in `.value`) -/
example : staleCur ≠ blank intEnv pointSchema
    ∧ shapedB intEnv pointSchema staleCur = true
    ∧ setNative intEnv pointSchema staleCur (.dict [(.text "y".toList, .atom "2".toList)]) = .ok (afterPartial, true)
    ∧ wf pointSchema = true ∧ leafStable intEnv false pointSchema afterPartial = true := by
  refine ⟨by simp [staleCur, pointSchema, blank, blankFields, intEnv], ?_, ?_, by decide, ?_⟩
  · simp [pointSchema, staleCur, shapedB, shapedMsB, keysOkB, blankMs, blankFields, findField, Schema.name]
  · simp [pointSchema, staleCur, afterPartial, setNative, toPairs, policyRaise, fieldNames, isField, hashable,
      Schema.name, blankMs, blankFields, blank, setPairs, setOne, lookup, replace, intEnv]
  · simp [pointSchema, afterPartial, leafStable, leafStableMs, findField, Schema.name, intEnv]

/-- so `reimport` speaks about exactly this situation: the exported value `{'x': None, 'y': 2}`
    rebuilds the element on a fresh point -/
example : ∃ b, setNative intEnv pointSchema (blank intEnv pointSchema) (value afterPartial) = .ok (afterPartial, b) := by
  have hs : Shaped intEnv pointSchema staleCur := by
    apply (shapedB_iff intEnv pointSchema staleCur).mp
    simp [pointSchema, staleCur, shapedB, shapedMsB, keysOkB, blankMs, blankFields, findField, Schema.name]
  refine reimport intEnv pointSchema (by decide) staleCur hs (.dict [(.text "y".toList, .atom "2".toList)]) afterPartial ?_ ?_
  · simp [pointSchema, staleCur, afterPartial, setNative, toPairs, policyRaise, fieldNames, isField, hashable,
      Schema.name, blankMs, blankFields, blank, setPairs, setOne, lookup, replace, intEnv]
  · simp [pointSchema, afterPartial, leafStable, leafStableMs, findField, Schema.name, intEnv]

/-- the counter-model of the defect "skip `_reset()` on an element whose own `set()` was never
    called": the member `x` is kept, the exported value is the same `{'x': None, 'y': 2}`, and the
    re-import builds a different element (text '' instead of 'abc') -/
example :
    let kept : Elem := .dict [("x".toList, .leaf .none "abc".toList []), ("y".toList, .leaf (.atom "2".toList) "2".toList [])]
    value kept = value afterPartial ∧
      setNative intEnv pointSchema (blank intEnv pointSchema) (value kept) = .ok (afterPartial, true) ∧
      kept ≠ afterPartial := by
  refine ⟨by simp [value, value.valueMembers, afterPartial], ?_, by simp [afterPartial]⟩
  simp [pointSchema, afterPartial, value, value.valueMembers, setNative, toPairs, policyRaise, fieldNames, isField,
    hashable, Schema.name, blankMs, blankFields, blank, setPairs, setOne, lookup, replace, intEnv]

/-! ### the need for the leaf hypothesis -/

/-- KF-C03-a in the model: a leaf whose value does not re-adapt to its own state (a pruning
    JoinedString holding an empty member text: the list ['a', ' ', 'b'] gives the parts
    'a', '', 'b' and the value 'a,,b', which splits and prunes into 'a', 'b') -/
def badEnv : Env :=
  { adapt := fun _ _ x => match x with
      | .list _ => (true, .text "a,,b".toList, "a,,b".toList, ["a".toList, [], "b".toList])
      | .text _ => (true, .text "a,b".toList, "a,b".toList, ["a".toList, "b".toList])
      | _ => (true, .none, [], [])
    blankLeaf := fun _ => (.none, [], []) }

/-- without `leafStable` the re-import builds a different element, whatever flag one allows -/
theorem reimport_needs_leafIdem :
    ∃ x e, setNative badEnv (.leaf none false 0) (blank badEnv (.leaf none false 0)) x = .ok (e, true) ∧
      leafStable badEnv false (.leaf none false 0) e = false ∧
      ∀ b, setNative badEnv (.leaf none false 0) (blank badEnv (.leaf none false 0)) (value e) ≠ .ok (e, b) := by
  refine ⟨.list [], .leaf (.text "a,,b".toList) "a,,b".toList ["a".toList, [], "b".toList], ?_, ?_, ?_⟩
  · simp [setNative, badEnv]
  · simp [leafStable, badEnv]
  · intro b
    simp [setNative, value, badEnv]

end Flatland.C03.Proofs
