import Flatland.C03
namespace Flatland.C03.Proofs
end Flatland.C03.Proofs
