/-
C07 on the tree model — negation witness and non-vacuity examples.
-/
import Proofs.C07Tree
namespace Flatland.C07Tree.Proofs
open Flatland.Tree Flatland.PyList Flatland.C08 Flatland.C07Tree

/-! ### the hypothesis is needed: one stale slot name -/

def exStr : Schema := .mk { cid := 2, kind := .string, name := some ['s'] } .none []
def exLs : Schema := .mk { cid := 1, kind := .list, name := some ['l'] } .none [exStr]

def leaf (id : Nat) (p : Nat) (u : Str) : Node := .mk { id := id, parent := some p, val := .str u, u := u } exStr []
def slot (id : Nat) (name : Str) (el : Node) : Node := .mk { id := id, parent := some 1, key := name } slotSchema [el]

/-- `List.named('l').of(String.named('s'))(['a', 'b'])` whose second slot kept the name it had
    before a member in front of it was removed without renumbering -/
def exStale : Node :=
  .mk { id := 1, parent := none } exLs [slot 2 ['0'] (leaf 3 2 ['a']), slot 4 ['2'] (leaf 5 4 ['b'])]

/-- the same tree with its slots named by position -/
def exFresh : Node :=
  .mk { id := 1, parent := none } exLs [slot 2 ['0'] (leaf 3 2 ['a']), slot 4 ['1'] (leaf 5 4 ['b'])]

theorem exStale_flatten : flattenTree ['_'] exStale = [("l_0_s".toList, ['a']), ("l_2_s".toList, ['b'])] := by
  simp [flattenTree, exStale, slot, leaf, exLs, exStr, slotSchema, bfs_cons, bfs_nil, ownPair, pushed, childItems,
    slotItems, namePath, fl, cfl, Node.name, Node.kind, Node.sch, Node.kids, Node.key, Node.ni, Schema.kind,
    Schema.info, Schema.name, joinSep, Flatland.Flat.joinSep]

theorem exStale_spec : specFlatten ['_'] exStale = [("l_0_s".toList, ['a']), ("l_1_s".toList, ['b'])] := by
  simp [specFlatten, exStale, slot, leaf, exLs, exStr, slotSchema, specBfs_cons, specBfs_nil, ownPair, specItems,
    specSlots, namePath, fl, Node.name, Node.kind, Node.sch, Node.kids, Node.key, Node.ni, Schema.kind,
    Schema.info, Schema.name, joinSep, Flatland.Flat.joinSep]
  decide

/-- **negation witness.**  Without the invariant the statement of `flattenTree_positional` fails:
    a List with ONE stale slot name (what a list operation that forgets — or cuts short — its
    `_renumber()` leaves behind) flattens its second member under `l_2_s` instead of `l_1_s`. -/
theorem flattenTree_stale_differs :
    dp exStale = false ∧ flattenTree ['_'] exStale ≠ specFlatten ['_'] exStale := by
  refine ⟨by decide, ?_⟩
  rw [exStale_flatten, exStale_spec]
  decide

/-- the full statement without the hypothesis, kept visible — and refuted -/
def C07_Positional_Unconditional : Prop := ∀ (sep : Str) (n : Node), flattenTree sep n = specFlatten sep n

theorem C07_positional_unconditional_fails : ¬ C07_Positional_Unconditional :=
  fun h => flattenTree_stale_differs.2 (h _ _)

/-- with positional names the same tree satisfies the hypothesis, and the theorem gives its keys -/
example : dp exFresh = true := by decide
example : flattenTree ['_'] exFresh = specFlatten ['_'] exFresh := flattenTree_positional _ _ (by decide)
example : flattenTree ['_'] exFresh = Flatland.Flat.flattenNode ['_'] (toFNode exFresh) :=
  flattenTree_eq_flat _ _ (by decide)

/-! ### transfer: C07's theorems on `FNode` speak about deep-positional trees -/

/-- **keys are paths, on trees.**  Every pair `flatten()` emits on a deep-positional tree belongs
    to a flattenable element at or beneath the (abstracted) root, and its key is the
    separator-join of the names on the path, list members contributing their current index. -/
theorem tree_keys_are_paths (sep : Str) (n : Node) (h : dp n = true) (x : Str × Str) (hx : x ∈ flattenTree sep n) :
    ∃ p' n', Flatland.Flat.Proofs.Below [] (toFNode n) p' n' ∧ n'.fl = true ∧
      x = (Flatland.Flat.joinSep sep (Flatland.Flat.namePath p' n'), n'.u) := by
  rw [flattenTree_eq_flat sep n h] at hx
  exact Flatland.Flat.Proofs.keys_are_paths sep (toFNode n) x hx

/-- **compositional, on trees.** -/
theorem tree_flatten_compositional (sep : Str) (n : Node) (h : dp n = true) :
    (flattenTree sep n).Perm
      (Flatland.Flat.ownPair sep ([], toFNode n) ++
        (Flatland.Flat.childItems [] (toFNode n)).flatMap (fun it => Flatland.Flat.flattenAt sep it.1 it.2)) := by
  rw [flattenTree_eq_flat sep n h]
  exact Flatland.Flat.Proofs.flatten_root_compositional sep (toFNode n) (toFNode_cfl n)

/-! ### non-vacuity: a List of Dicts with a nested List under `insert(-1, …)`, `sort`, slice deletion -/

def exX : Schema := .mk { cid := 11, kind := .string, name := some ['x'] } .none []
def exI : Schema := .mk { cid := 14, kind := .integer } .none []
def exN : Schema := .mk { cid := 12, kind := .list, name := some ['n'] } .none [exI]
def exD : Schema := .mk { cid := 10, kind := .dict } .none [exX, exN]
def exLoD : Schema := .mk { cid := 13, kind := .list, name := some ['l'] } .none [exD]

def dv (x : Str) (ns : List Int) : Raw := .dict [(['x'], .str x), (['n'], .list (ns.map Raw.int))]

/-- `List.named('l').of(Dict.of(String.named('x'), List.named('n').of(Integer)))([{x:'b', n:[1,2]}, {x:'a', n:[3]}, {x:'c', n:[]}])` -/
def exStart : HState :=
  match construct exLoD (.list [dv ['b'] [1, 2], dv ['a'] [3], dv ['c'] []]) none [] 1 with
  | (.ok n, next) => ⟨n, next⟩
  | (.error _, next) => ⟨(blank exLoD none [] next).1, next + 1⟩

/-- `l.insert(-1, {x:'0', n:[9]})`, `l.sort(key=lambda e: e['x'].u)`, `del l[::2]`,
    and on the nested List of the first remaining member: `n.insert(-1, 7)`, `n.reverse()` -/
def exHist : List HOp :=
  [⟨1, .seq (.insert (-1) (.plain (dv ['0'] [9])))⟩,
   ⟨1, .seq (.sort (some .field) false)⟩,
   ⟨1, .seq (.delslice ⟨none, none, some 2⟩)⟩]

example : dp exStart.root = true := by decide
example : dp (hrun exStart exHist).root = true := by decide
example : ((hrun exStart exHist).root.kids.map Node.key) = [['0'], ['1']] := by decide
/-- the theorem applies after every step of the history -/
example (k : Nat) (hk : k ≤ 3) :
    flattenTree ['_'] (hrun exStart (exHist.take k)).root = specFlatten ['_'] (hrun exStart (exHist.take k)).root := by
  apply flattenTree_positional
  have : k = 0 ∨ k = 1 ∨ k = 2 ∨ k = 3 := by omega
  rcases this with rfl | rfl | rfl | rfl <;> decide

end Flatland.C07Tree.Proofs
