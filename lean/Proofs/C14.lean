/-
C14 — path expressions select what the documented path syntax denotes.

Main theorems (model A = Flatland/Path.lean, spec B = Flatland/Spec/C14.lean).  `Uni strict ops` /
`UniSteps strict steps` = the evaluation can raise one kind of error only: no slice step written as 0
(only LookupError), or non-strict lookups (only ValueError).  With strict lookups AND a zero step,
which error is met first depends on the order of evaluation; that case is not covered.

* `evalOps_denotes`   the FIFO work list of `PathExpression.__call__` = the depth-first reading
                      `denOps` of the op list: same elements, same order, same error (Uni);
* `find_denotes`      `find(path, single, strict)` = the `single` table applied to the depth-first
                      reading of `tokenize(path)`, for every string that compiles (Uni); `find_error`
                      for those that do not; `single_spec` restates the table (by construction);
* `denOps_compile`    the op list a path AST compiles to denotes what spec B says (`denote`: step by
                      step over the whole selection), incl. `[-n]`, slice defaults and steps written
                      as 0 (ValueError on both sides) (UniSteps);
* `canonicalize_sound`  on the `Canon` domain `_canonicalize` preserves the denotation;
* `eval_denotes`      Canon p → evalOps (canonicalize (compile p)) = denote p (UniSteps);
* `C14_Full` / `C14_full_fails`  without `Canon` the statement is false of the code as it is
                      (KF-C14-a): `nosuch/..` strict;
* `eval_cancel_denotes` / `find_print_cancel`  without `Canon`: what the code evaluates is the documented
                      reading of the path with every `X/..` pair and every `.` deleted (`cancel`);
* `tokenize_print`    tokenizer ∘ printer for the whole concrete syntax (`CPath`): leading/trailing slash,
                      `..`/`.` anywhere, names with minimal or full escaping (a name ending in a
                      backslash as the very last step), `[n]` or `/n`, `[-n]`, `[a:b]`, `[a:b:c]` with
                      omitted bounds and with c = 0, bracket steps attached with or without a slash;
* `find_print_denotes` / `find_print_denotes_lax`  end to end: `find(print p, single, strict)` = spec B's
                      `findSpec`, on the Canon domain (UniSteps; the lax version needs nothing else);
* `zero_stride_stays_zero`, `zero_step_raises`, `C14_zero_step_ok`  a step written as 0 raises ValueError
                      as soon as it is reached, strict or not (9884fd3; KF-C14-b is closed);
* `denote_sorted` / `find_sorted`  Canon + ascending strides ⇒ results strictly increasing in document order;
* `lax_never_raises`, `find_lax_never_lookup`, `strict_ok_eq_lax`, `no_names_never_raises`;
* `tokenize_print_names`  the name fragment separately.

Trusted, not proved: that `scan` is `_tokenize_re.findall` and `pyInt`/`pySlice` are Python's
`int()`/slicing (pinned regex text, generated Unicode tables, correspondence on every run incl.
the exhaustive enumeration of all strings of length <= 4/5 over the path alphabet).
-/
import Flatland.Path
import Flatland.Spec.C14
import Proofs.Lemmas.C14Work
import Proofs.Lemmas.C14Ord
import Proofs.Lemmas.C14Slice
import Proofs.Lemmas.C14Print
import Proofs.Lemmas.C14Tok
import Proofs.Lemmas.C14Order
namespace Flatland.C14.Proofs
open Flatland.Path Flatland.C14.Spec Flatland.Path.Lemmas

/-! ### the work list -/

theorem flatMapM_singleton {α β : Type} (f : α → Except Err (List β)) (x : α) :
    flatMapM f [x] = f x := by
  simp only [flatMapM]
  cases f x <;> simp

/-- **evaluator = denotation on op lists**, full strength -/
theorem evalOps_denotes (root : Node) (strict : Bool) (ops : List Op) (el : Pos)
    (hz : Uni strict ops) :
    evalOps root strict ops el = denOps root strict ops el := by
  unfold evalOps
  have := work_level root strict ops.length ops (Nat.le_refl _) hz [el]
  simp only [List.map_cons, List.map_nil] at this
  rw [this, flatMapM_singleton]

/-- `[:][:]` on a list of two lists: document order, level by level -/
example : (match evalOps (.mk .list (some []) [] [.mk .list (some []) [] [.mk .scalar (some []) [] [], .mk .scalar (some []) [] []], .mk .list (some []) [] [.mk .scalar (some []) [] []]])
      true [.slice none none none, .slice none none none] [] with
    | .ok l => l == [[0, 0], [0, 1], [1, 0]]
    | .error _ => false) = true := by
  rw [evalOps_denotes _ _ _ _ (Or.inl (by decide))]
  decide

/-! ### the work list, for every op list (no `Uni`): which error comes first -/

/-- **evaluator = denotation with explicit error precedence**, every op list, strict or not, zero
    slice steps or not: the FIFO work list computes the depth-first reading; when several steps of
    the evaluation fail, the error raised is the one at the smallest slice depth, and among those
    the first in sequence order (`denOrd`). -/
theorem evalOps_denotes_gen (root : Node) (strict : Bool) (ops : List Op) (el : Pos) :
    evalOps root strict ops el = (denOrd root strict ops 0 el).forget := by
  unfold evalOps
  have := work_level_gen root strict ops.length ops (Nat.le_refl _) 0 [el]
  simp only [List.map_cons, List.map_nil] at this
  rw [this]
  simp only [flatMapR]
  cases denOrd root strict ops 0 el <;> simp [Ranked.merge]

/-- when only one kind of error can arise (`Uni`) the precedence is immaterial: `denOrd` forgets to
    the plain reading `denOps` (proved directly, by induction on the op list) -/
theorem denOrd_forget_of_uni (root : Node) (strict : Bool) (ops : List Op) (el : Pos)
    (hz : Uni strict ops) :
    (denOrd root strict ops 0 el).forget = denOps root strict ops el :=
  denOrd_forget_of_uni' root strict ops hz 0 el

/-- `evalOps_denotes` again, as a corollary of the general theorem -/
theorem evalOps_denotes_cor (root : Node) (strict : Bool) (ops : List Op) (el : Pos)
    (hz : Uni strict ops) :
    evalOps root strict ops el = denOps root strict ops el := by
  rw [evalOps_denotes_gen, denOrd_forget_of_uni root strict ops el hz]

/-- the witness that the precedence matters, and that it is by depth first: a Dict whose first field
    is a Dict without `a` and whose second field is a List; `[:]/a` … on it -/
def mixedTree : Node :=
  .mk .map (some []) [] [.mk .map (some ['x']) ['x'] [.mk .list (some ['a']) ['a'] [.mk .scalar (some []) [] []]],
                  .mk .map (some ['y']) ['y'] []]

/-- `[:]/a[::0]` strict: the lookup of `a` fails below `y` (second in sequence order, depth 1), the
    zero step is reached below `x/a` (first in sequence order, depth 1 too): ValueError, the earlier
    one.  A step-by-step reading over the whole selection (`denote`) would meet the LookupError first. -/
example : evalOps mixedTree true [.slice none none none, .name (some ['a']), .slice none none (some 0)] []
    = .error .value := by
  rw [evalOps_denotes_gen]; decide

/-- `[:][:]/q` vs a zero step one level down: in `[:]/a[:][::0]` with a failing `a` below `y`, the
    LookupError (depth 1) beats the ValueError (depth 2) although it comes later in sequence order -/
example : evalOps mixedTree true
    [.slice none none none, .name (some ['a']), .slice none none none, .slice none none (some 0)] []
    = .error .lookup := by
  rw [evalOps_denotes_gen]; decide

/-- the plain depth-first reading `denOps` would say ValueError there (first in sequence order) — the
    reason `evalOps_denotes` needs `Uni` and `evalOps_denotes_gen` needs `denOrd` -/
example : denOps mixedTree true
    [.slice none none none, .name (some ['a']), .slice none none none, .slice none none (some 0)] []
    = .error .value := by decide

/-! ### `_canonicalize` introduces no zero stride -/

theorem canonStep_stepOk (multi : Bool) (canon : List Op) (t : Op)
    (hc : canon.all Op.stepOk = true) (ht : Op.stepOk t = true) :
    (canonStep multi canon t).all Op.stepOk = true := by
  unfold canonStep
  split
  · exact hc
  · split
    · simp [hc, ht]
    · split
      · exact hc
      · simp [hc, ht]
      · next rest => simp only [List.all_cons, Bool.and_eq_true] at hc; exact hc.2
      · simp [ht]

theorem foldl_canonStep_stepOk (multi : Bool) : ∀ (ts canon : List Op),
    canon.all Op.stepOk = true → ts.all Op.stepOk = true →
    (ts.foldl (canonStep multi) canon).all Op.stepOk = true
  | [], canon, hc, _ => hc
  | t :: ts, canon, hc, ht => by
    simp only [List.all_cons, Bool.and_eq_true] at ht
    exact foldl_canonStep_stepOk multi ts _ (canonStep_stepOk multi canon t hc ht.1) ht.2

theorem canonicalize_noZero (ops : List Op) (h : NoZero ops = true) : NoZero (canonicalize ops) = true := by
  unfold canonicalize NoZero
  rw [List.all_reverse]
  exact foldl_canonStep_stepOk _ ops [] rfl h

/-! ### `find` -/

/-- the outcome of `find` given the evaluation result -/
def findResOf (single strict : Bool) (r : Except Err (List Pos)) : FindRes :=
  match r with
  | .error e => .err e
  | .ok res => if single then singleOf strict (.ok res) else .many res

/-- a path that does not compile: `find` raises what `tokenize` raised -/
theorem find_error (root : Node) (start : Pos) (path : Str) (single strict : Bool) (e : Err)
    (ht : tokenize path = .error e) : find root start path single strict = .err e := by
  unfold find; rw [ht]

/-- **`find` = the documented reading of the compiled path**, for every string that compiles, every
    tree, start and `single` — whenever the evaluation can raise only one kind of error (`Uni`: no
    slice step written as zero, or non-strict lookups) -/
theorem find_denotes (root : Node) (start : Pos) (path : Str) (single strict : Bool) (ops : List Op)
    (ht : tokenize path = .ok ops) (hu : Uni strict ops) :
    find root start path single strict = findResOf single strict (denOps root strict ops start) := by
  unfold find
  rw [ht]
  simp only [evalOps_denotes root strict ops start hu]
  cases denOps root strict ops start with
  | error e => rfl
  | ok res =>
    cases single with
    | false => rfl
    | true =>
      simp only [findResOf, Bool.not_true, Bool.false_eq_true, if_false, if_true, singleOf]
      match res with
      | [] => rfl
      | [p] => rfl
      | p :: q :: r => rfl

/-- **`find` = the `single` table of the ordered reading of the compiled path**: every string that
    compiles, every tree, start, `single`, `strict` — no hypothesis on zero steps -/
theorem find_denotes_gen (root : Node) (start : Pos) (path : Str) (single strict : Bool) (ops : List Op)
    (ht : tokenize path = .ok ops) :
    find root start path single strict
      = findResOf single strict (denOrd root strict ops 0 start).forget := by
  unfold find
  rw [ht]
  simp only [evalOps_denotes_gen root strict ops start]
  cases (denOrd root strict ops 0 start).forget with
  | error e => rfl
  | ok res =>
    cases single with
    | false => rfl
    | true =>
      simp only [findResOf, Bool.not_true, Bool.false_eq_true, if_false, if_true, singleOf]
      match res with
      | [] => rfl
      | [p] => rfl
      | p :: q :: r => rfl

/-- the `single=True` table (sole match, `None` for none, `LookupError` for several when strict,
    else the first) — by construction: it restates the `match` in the model's `find`, composed
    with `find_denotes` -/
theorem single_spec (root : Node) (start : Pos) (path : Str) (strict : Bool) (ops : List Op)
    (ht : tokenize path = .ok ops) (hu : Uni strict ops) :
    find root start path true strict =
      match denOps root strict ops start with
      | .error e => .err e
      | .ok [] => .one none
      | .ok [p] => .one (some p)
      | .ok (p :: _ :: _) => if strict then .err .lookup else .one (some p) := by
  rw [find_denotes _ _ _ _ _ _ ht hu]
  simp only [findResOf]
  cases denOps root strict ops start with
  | error e => rfl
  | ok res =>
    match res with
    | [] => rfl
    | [p] => rfl
    | p :: q :: r => rfl

/-- `[:]` with `single=True, strict=True` on a Dict with two fields raises -/
example : (match findResOf true true (denOps (.mk .map (some []) [] [.mk .scalar (some ['a']) ['a'] [], .mk .scalar (some ['b']) ['b'] []]) true
      [.slice none none none] []) with
    | .err .lookup => true
    | _ => false) = true := by decide

/-! ### the compiled AST denotes what spec B says -/

theorem kidsAt_length (root : Node) (el : Pos) :
    (kidsAt root el).length = (nodeAt root el).kids.length := by
  unfold kidsAt nodeAt
  cases root.get? el <;> rfl

theorem findName_eq (s : Option Str) : ∀ kids : List Node,
    findName s kids =
      (let i := kids.findIdx (fun k => k.key == s); if i < kids.length then some i else none)
  | [] => by simp [findName]
  | k :: r => by
    simp only [findName, List.findIdx_cons, List.length_cons]
    by_cases h : (k.key == s) = true
    · simp [h]
    · simp only [h, Bool.false_eq_true, if_false, cond_false, findName_eq s r]
      by_cases h2 : List.findIdx (fun k => k.key == s) r < r.length
      · simp [h2]
      · simp [h2]

theorem indexAt_eq_childNamed (root : Node) (el : Pos) (s : Str) :
    indexAt root el (some s) = childNamed (nodeAt root el) s := by
  unfold indexAt nodeAt
  cases hg : root.get? el with
  | none => simp [childNamed, Node.kind]
  | some n =>
    simp only [Option.getD_some]
    unfold Node.index childNamed
    cases hk : n.kind with
    | scalar => rfl
    | map => simp only [findName_eq]
    | list =>
      show (match pyInt s with | none => none | some i => pyListIndex n.kids.length i)
        = (pyInt s).bind (pyListIndex n.kids.length)
      cases pyInt s <;> rfl
    | array =>
      show (match pyInt s with | none => none | some i => pyListIndex n.kids.length i)
        = (pyInt s).bind (pyListIndex n.kids.length)
      cases pyInt s <;> rfl

theorem stride_ne_zero (a b : Option Int) (c : Option (Option Int)) (h : Step.wf (.slice a b c) = true) :
    (Step.stride c == some 0) = false := by
  match c, h with
  | none, _ => rfl
  | some none, _ => rfl
  | some (some v), h =>
    simp only [Step.wf, bne_iff_ne, ne_eq] at h
    simp [Step.stride, h]

theorem stepDen_onlyLookup (root : Node) (strict : Bool) (s : Step) (hs : s.wf = true) (el : Pos) :
    OnlyLookup (stepDen root strict s el) := by
  intro e h
  unfold stepDen at h
  cases s with
  | up => simp at h
  | here => simp at h
  | name nm =>
    simp only at h
    split at h
    · simp at h
    · split at h <;> simp at h; exact h.symm
  | negidx k => simp at h
  | slice a b c => simp [stride_ne_zero a b c hs] at h

theorem compileStep_stepOk (s : Step) (h : s.wf = true) : Op.stepOk (compileStep s) = true := by
  cases s with
  | up => rfl
  | here => rfl
  | name _ => rfl
  | negidx n => simp only [compileStep]; split <;> rfl
  | slice a b c =>
    match a, b, c, h with
    | none, none, none, _ => rfl
    | none, none, some none, _ => rfl
    | none, none, some (some v), h => simpa [compileStep, Op.stepOk, Step.wf] using h
    | some _, none, none, _ => rfl
    | none, some _, none, _ => rfl
    | some _, some _, none, _ => rfl
    | some _, none, some none, _ => rfl
    | none, some _, some none, _ => rfl
    | some _, some _, some none, _ => rfl
    | some _, none, some (some v), h => simpa [compileStep, Op.stepOk, Step.wf] using h
    | none, some _, some (some v), h => simpa [compileStep, Op.stepOk, Step.wf] using h
    | some _, some _, some (some v), h => simpa [compileStep, Op.stepOk, Step.wf] using h

theorem compile_noZero (steps : List Step) (h : steps.all Step.wf = true) :
    NoZero (steps.map compileStep) = true := by
  induction steps with
  | nil => rfl
  | cons s r ih =>
    simp only [List.all_cons, Bool.and_eq_true] at h
    simp only [NoZero, List.map_cons, List.all_cons, Bool.and_eq_true]
    exact ⟨compileStep_stepOk s h.1, ih h.2⟩

/-- a slice op evaluates to the continuation applied to the selected children -/
theorem denOps_slice (root : Node) (strict : Bool) (a b c : Option Int) (hc : (c == some 0) = false)
    (r : List Op) (el : Pos) :
    denOps root strict (.slice a b c :: r) el =
      flatMapM (denOps root strict r) ((pySlice (nodeAt root el).kids.length a b c).map (fun i => el ++ [i])) := by
  simp only [denOps, hc, kidsAt_length]
  rfl

theorem denOps_step_wf (root : Node) (strict : Bool) (s : Step) (hs : s.wf = true) (r : List Op) (el : Pos) :
    denOps root strict (compileStep s :: r) el
      = andThen (stepDen root strict s el) (flatMapM (denOps root strict r)) := by
  cases s with
  | up => simp only [compileStep, denOps, stepDen, andThen_ok, flatMapM_singleton]
  | here => simp only [compileStep, denOps, stepDen, andThen_ok, flatMapM_singleton]
  | name nm =>
    simp only [compileStep, denOps, stepDen, indexAt_eq_childNamed]
    cases childNamed (nodeAt root el) nm with
    | some i => simp only [andThen_ok, flatMapM_singleton]
    | none => cases strict <;> simp
  | negidx k =>
    have hA : compileStep (.negidx k) = .slice (negA k) (negB k) none := by
      simp only [compileStep, negA, negB]
      by_cases hk : k = 1
      · subst hk; simp
      · simp [hk]
    rw [hA, denOps_slice _ _ _ _ _ (by rfl), pySlice_negidx]
    simp only [stepDen, andThen_ok]
  | slice a b c =>
    simp only [stepDen, stride_ne_zero a b c hs, Bool.false_eq_true, if_false, andThen_ok]
    match a, b, c, hs with
    | none, none, none, _ => rw [compileStep, denOps_slice _ _ _ _ _ (by rfl)]; rfl
    | none, none, some none, _ => rw [compileStep, denOps_slice _ _ _ _ _ (by rfl)]; rfl
    | none, none, some (some v), h =>
      have hv : (some v == some (0 : Int)) = false := by simpa [Step.wf] using h
      simp only [compileStep, Option.getD_some]
      rw [denOps_slice _ _ _ _ _ hv]; rfl
    | some x, none, none, _ => simp only [compileStep, Option.getD_some]; rw [denOps_slice _ _ _ _ _ (by rfl)]; rfl
    | none, some y, none, _ =>
      simp only [compileStep, Option.getD_none]
      rw [denOps_slice _ _ _ _ _ (by rfl), pySlice_start_zero]; rfl
    | some x, some y, none, _ => simp only [compileStep, Option.getD_some]; rw [denOps_slice _ _ _ _ _ (by rfl)]; rfl
    | some x, none, some none, _ =>
      simp only [compileStep, Option.getD_none]
      rw [denOps_slice _ _ _ _ _ (by decide), pySlice_stride_one]; rfl
    | none, some y, some none, _ =>
      simp only [compileStep, Option.getD_none]
      rw [denOps_slice _ _ _ _ _ (by decide), pySlice_stride_one]; rfl
    | some x, some y, some none, _ =>
      simp only [compileStep, Option.getD_none]
      rw [denOps_slice _ _ _ _ _ (by decide), pySlice_stride_one]; rfl
    | some x, none, some (some v), h =>
      have hv : (some v == some (0 : Int)) = false := by simpa [Step.wf] using h
      simp only [compileStep, Option.getD_some]
      rw [denOps_slice _ _ _ _ _ hv]; rfl
    | none, some y, some (some v), h =>
      have hv : (some v == some (0 : Int)) = false := by simpa [Step.wf] using h
      simp only [compileStep, Option.getD_some]
      rw [denOps_slice _ _ _ _ _ hv]; rfl
    | some x, some y, some (some v), h =>
      have hv : (some v == some (0 : Int)) = false := by simpa [Step.wf] using h
      simp only [compileStep, Option.getD_some]
      rw [denOps_slice _ _ _ _ _ hv]; rfl

/-- one step of the AST, compiled, = the step's denotation followed by the rest; a step written
    with stride 0 raises `ValueError` on both sides -/
theorem denOps_step (root : Node) (strict : Bool) (s : Step) (r : List Op) (el : Pos) :
    denOps root strict (compileStep s :: r) el
      = andThen (stepDen root strict s el) (flatMapM (denOps root strict r)) := by
  by_cases hs : s.wf = true
  · exact denOps_step_wf root strict s hs r el
  · -- only `[a:b:0]` is not wf
    cases s with
    | up => exact absurd rfl hs
    | here => exact absurd rfl hs
    | name _ => exact absurd rfl hs
    | negidx _ => exact absurd rfl hs
    | slice a b c =>
      match c, hs with
      | none, hs => exact absurd rfl hs
      | some none, hs => exact absurd rfl hs
      | some (some v), hs =>
        have hv : v = 0 := by simpa [Step.wf] using hs
        subst hv
        have hc : compileStep (.slice a b (some (some 0))) = .slice a b (some 0) := by
          cases a <;> cases b <;> rfl
        simp [hc, denOps, stepDen, Step.stride]

/-- strict lookups with no zero stride raise only `LookupError`; non-strict ones only `ValueError` -/
theorem stepDen_onlyErr (root : Node) (strict : Bool) (s : Step) (hs : s.wf = true ∨ strict = false)
    (el : Pos) : OnlyErr (errOf strict) (stepDen root strict s el) := by
  cases strict with
  | true =>
    rcases hs with h | h
    · exact stepDen_onlyLookup root true s h el
    · cases h
  | false =>
    intro e h
    unfold stepDen at h
    cases s with
    | up => simp at h
    | here => simp at h
    | name nm =>
      simp only at h
      split at h <;> simp at h
    | negidx k => simp at h
    | slice a b c =>
      simp only at h
      split at h
      · simp only [Except.error.injEq] at h; exact h.symm
      · simp at h

theorem flatMapM_pure {α : Type} : ∀ xs : List α, flatMapM (fun x => (.ok [x] : Except Err (List α))) xs = .ok xs
  | [] => rfl
  | x :: xs => by simp [flatMapM, flatMapM_pure xs]

/-- the steps raise one kind of error only: none is written with stride 0, or lookups are non-strict -/
def UniSteps (strict : Bool) (steps : List Step) : Prop := steps.all Step.wf = true ∨ strict = false

theorem uni_compile_steps (strict : Bool) (steps : List Step) (h : UniSteps strict steps) :
    Uni strict (steps.map compileStep) := h.imp (compile_noZero steps) id

/-- depth-first on the compiled steps = spec B's step-by-step reading over the whole selection -/
theorem denOps_steps (root : Node) (strict : Bool) :
    ∀ (steps : List Step), UniSteps strict steps → ∀ cur : List Pos,
      flatMapM (denOps root strict (steps.map compileStep)) cur = denoteSteps root strict steps cur
  | [], _, cur => by
    simp only [List.map_nil, denoteSteps]
    have : denOps root strict [] = fun el => .ok [el] := funext (fun el => by simp [denOps])
    rw [this, flatMapM_pure]
  | s :: r, hwf, cur => by
    have hs : s.wf = true ∨ strict = false := hwf.imp (fun h => by simp only [List.all_cons, Bool.and_eq_true] at h; exact h.1) id
    have hr : UniSteps strict r := hwf.imp (fun h => by simp only [List.all_cons, Bool.and_eq_true] at h; exact h.2) id
    have hfun : denOps root strict ((s :: r).map compileStep)
        = fun el => andThen (stepDen root strict s el) (flatMapM (denOps root strict (r.map compileStep))) :=
      funext (fun el => by rw [List.map_cons, denOps_step root strict s])
    rw [hfun, flatMapM_bind _ _ (stepDen_onlyErr root strict s hs)
      (denOps_onlyErr root strict _ (uni_compile_steps strict r hr))]
    simp only [denoteSteps]
    cases flatMapM (stepDen root strict s) cur with
    | error e => rfl
    | ok next => simp only [andThen_ok]; exact denOps_steps root strict r hr next

/-- **compiled AST = denotation**, for every AST that raises one kind of error only (no `Canon` needed) -/
theorem denOps_compile (root : Node) (strict : Bool) (p : Spec.Path) (hwf : UniSteps strict p.steps)
    (el : Pos) :
    denOps root strict (compile p) el = denote p root el strict := by
  unfold compile denote
  have h := denOps_steps root strict p.steps hwf [if p.top then [] else el]
  rw [flatMapM_singleton] at h
  rw [← h]
  cases p.top with
  | true => simp [denOps]
  | false => simp

theorem uni_compile (strict : Bool) (p : Spec.Path) (h : UniSteps strict p.steps) : Uni strict (compile p) := by
  rcases h with h | h
  · left
    unfold compile NoZero
    rw [List.all_append]
    have := compile_noZero p.steps h
    unfold NoZero at this
    rw [this]
    cases p.top <;> rfl
  · exact Or.inr h

theorem uni_canonicalize (strict : Bool) (ops : List Op) (h : Uni strict ops) : Uni strict (canonicalize ops) :=
  h.imp (canonicalize_noZero ops) id

/-! ### `_canonicalize` on the Canon domain -/

/-- a `.` anywhere in an op list is a no-op -/
theorem denOps_here (root : Node) (strict : Bool) : ∀ (A B : List Op) (el : Pos),
    denOps root strict (A ++ .here :: B) el = denOps root strict (A ++ B) el
  | [], B, el => by simp [denOps]
  | .top :: A, B, el => by simp only [List.cons_append, denOps]; exact denOps_here root strict A B _
  | .up :: A, B, el => by simp only [List.cons_append, denOps]; exact denOps_here root strict A B _
  | .here :: A, B, el => by simp only [List.cons_append, denOps]; exact denOps_here root strict A B _
  | .name d :: A, B, el => by
    simp only [List.cons_append, denOps]
    cases indexAt root el d with
    | some i => exact denOps_here root strict A B _
    | none => rfl
  | .slice a b c :: A, B, el => by
    simp only [List.cons_append, denOps]
    have : denOps root strict (A ++ .here :: B) = denOps root strict (A ++ B) :=
      funext (denOps_here root strict A B)
    rw [this]

def _root_.Flatland.Path.Op.isHere : Op → Bool | .here => true | _ => false
def _root_.Flatland.Path.Op.isUp : Op → Bool | .up => true | _ => false

theorem denOps_filter_here (root : Node) (strict : Bool) : ∀ (B A : List Op) (el : Pos),
    denOps root strict (A ++ B.filter (fun o => !o.isHere)) el = denOps root strict (A ++ B) el
  | [], A, el => rfl
  | .here :: B, A, el => by
    have h1 : (!(Op.here).isHere) = false := rfl
    rw [List.filter_cons]
    simp only [h1, Bool.false_eq_true, if_false]
    rw [denOps_here, denOps_filter_here root strict B A el]
  | .top :: B, A, el => by
    have h1 : (!(Op.top).isHere) = true := rfl
    rw [List.filter_cons]
    simp only [h1, if_true]
    have h2 := denOps_filter_here root strict B (A ++ [.top]) el
    simp only [List.append_assoc, List.singleton_append] at h2
    exact h2
  | .up :: B, A, el => by
    have h1 : (!(Op.up).isHere) = true := rfl
    rw [List.filter_cons]
    simp only [h1, if_true]
    have h2 := denOps_filter_here root strict B (A ++ [.up]) el
    simp only [List.append_assoc, List.singleton_append] at h2
    exact h2
  | .name d :: B, A, el => by
    have h1 : (!(Op.name d).isHere) = true := rfl
    rw [List.filter_cons]
    simp only [h1, if_true]
    have h2 := denOps_filter_here root strict B (A ++ [.name d]) el
    simp only [List.append_assoc, List.singleton_append] at h2
    exact h2
  | .slice a b c :: B, A, el => by
    have h1 : (!(Op.slice a b c).isHere) = true := rfl
    rw [List.filter_cons]
    simp only [h1, if_true]
    have h2 := denOps_filter_here root strict B (A ++ [.slice a b c]) el
    simp only [List.append_assoc, List.singleton_append] at h2
    exact h2

/-- the loop of `_canonicalize` over an op list without `..`: drops every `.` (multi), keeps the rest -/
theorem foldl_canon_rest : ∀ (R canon : List Op), R.all (fun o => !o.isUp) = true →
    R.foldl (canonStep true) canon = (R.filter (fun o => !o.isHere)).reverse ++ canon
  | [], canon, _ => rfl
  | o :: R, canon, h => by
    simp only [List.all_cons, Bool.and_eq_true] at h
    simp only [List.foldl_cons]
    rw [foldl_canon_rest R _ h.2]
    cases o with
    | here => simp [canonStep, Op.isHere]
    | up => simp [Op.isUp] at h
    | top => simp [canonStep, Op.isHere]
    | name d => simp [canonStep, Op.isHere]
    | slice a b c => simp [canonStep, Op.isHere]

/-- accumulator shapes while only `/`, `..` and `.` have been seen -/
def ZoneAcc (canon : List Op) : Prop := canon = [.top] ∨ canon.all Op.isUp = true

/-- the loop over a run of `..` and `.`: the accumulator stays `[TOP]` or all-`..`, and means the same -/
theorem foldl_canon_zone (root : Node) (strict : Bool) : ∀ (Z canon : List Op),
    Z.all (fun o => o.isUp || o.isHere) = true → ZoneAcc canon →
    ZoneAcc (Z.foldl (canonStep true) canon) ∧
    ∀ (S : List Op) (el : Pos),
      denOps root strict ((Z.foldl (canonStep true) canon).reverse ++ S) el
        = denOps root strict (canon.reverse ++ (Z ++ S)) el
  | [], canon, _, hc => ⟨hc, fun S el => rfl⟩
  | o :: Z, canon, hz, hc => by
    simp only [List.all_cons, Bool.and_eq_true] at hz
    simp only [List.foldl_cons]
    cases o with
    | top => simp [Op.isUp, Op.isHere] at hz
    | name d => simp [Op.isUp, Op.isHere] at hz
    | slice a b c => simp [Op.isUp, Op.isHere] at hz
    | here =>
      have hstep : canonStep true canon .here = canon := by simp [canonStep]
      rw [hstep]
      obtain ⟨h1, h2⟩ := foldl_canon_zone root strict Z canon hz.2 hc
      refine ⟨h1, fun S el => ?_⟩
      rw [h2 S el, List.cons_append, denOps_here]
    | up =>
      rcases hc with hc | hc
      · -- after `/`, `..` stays at the root
        subst hc
        have hstep : canonStep true [.top] .up = [.top] := by simp [canonStep]
        rw [hstep]
        obtain ⟨h1, h2⟩ := foldl_canon_zone root strict Z [.top] hz.2 (Or.inl rfl)
        refine ⟨h1, fun S el => ?_⟩
        rw [h2 S el]
        simp [denOps]
      · have hstep : canonStep true canon .up = .up :: canon := by
          cases canon with
          | nil => simp [canonStep]
          | cons c cs =>
            simp only [List.all_cons, Bool.and_eq_true] at hc
            cases c <;> simp [Op.isUp] at hc
            simp [canonStep]
        rw [hstep]
        have hc' : ZoneAcc (.up :: canon) := Or.inr (by simp [Op.isUp, hc])
        obtain ⟨h1, h2⟩ := foldl_canon_zone root strict Z (.up :: canon) hz.2 hc'
        refine ⟨h1, fun S el => ?_⟩
        rw [h2 S el]
        simp

/-- split of a `Canon` step list: a run of `..`/`.` and a rest without `..` -/
theorem canon_split : ∀ steps : List Step, canonFrom false steps = true →
    ∃ Z R, steps = Z ++ R ∧ Z.all (fun s => s.isUp || s.isHere) = true ∧ R.all (fun s => !s.isUp) = true
  | [], _ => ⟨[], [], rfl, rfl, rfl⟩
  | .here :: r, h => by
    obtain ⟨Z, R, h1, h2, h3⟩ := canon_split r (by simpa [canonFrom] using h)
    exact ⟨.here :: Z, R, by simp [h1], by
      simp only [List.all_cons, Bool.and_eq_true]; exact ⟨by rfl, h2⟩, h3⟩
  | .up :: r, h => by
    obtain ⟨Z, R, h1, h2, h3⟩ := canon_split r (by simpa [canonFrom] using h)
    exact ⟨.up :: Z, R, by simp [h1], by
      simp only [List.all_cons, Bool.and_eq_true]; exact ⟨by rfl, h2⟩, h3⟩
  | .name s :: r, h => by
    refine ⟨[], .name s :: r, rfl, rfl, ?_⟩
    simp only [canonFrom] at h
    simp only [List.all_cons, Step.isUp, Bool.not_false, Bool.true_and]
    exact noUp_of_canonTrue r h
  | .negidx k :: r, h => by
    refine ⟨[], .negidx k :: r, rfl, rfl, ?_⟩
    simp only [canonFrom] at h
    simp only [List.all_cons, Step.isUp, Bool.not_false, Bool.true_and]
    exact noUp_of_canonTrue r h
  | .slice a b c :: r, h => by
    refine ⟨[], .slice a b c :: r, rfl, rfl, ?_⟩
    simp only [canonFrom] at h
    simp only [List.all_cons, Step.isUp, Bool.not_false, Bool.true_and]
    exact noUp_of_canonTrue r h
where
  noUp_of_canonTrue : ∀ r : List Step, canonFrom true r = true → r.all (fun s => !s.isUp) = true
    | [], _ => rfl
    | .here :: r, h => by simpa [Step.isUp] using noUp_of_canonTrue r (by simpa [canonFrom] using h)
    | .up :: r, h => by simp [canonFrom] at h
    | .name _ :: r, h => by simpa [Step.isUp] using noUp_of_canonTrue r (by simpa [canonFrom] using h)
    | .negidx _ :: r, h => by simpa [Step.isUp] using noUp_of_canonTrue r (by simpa [canonFrom] using h)
    | .slice _ _ _ :: r, h => by simpa [Step.isUp] using noUp_of_canonTrue r (by simpa [canonFrom] using h)

theorem compileStep_isUp (s : Step) : (compileStep s).isUp = s.isUp := by
  cases s with
  | up => rfl
  | here => rfl
  | name _ => rfl
  | negidx n => simp only [compileStep]; split <;> rfl
  | slice a b c =>
    match a, b, c with
    | none, none, none => rfl
    | none, none, some none => rfl
    | none, none, some (some v) => rfl
    | some _, none, none => rfl
    | none, some _, none => rfl
    | some _, some _, none => rfl
    | some _, none, some _ => rfl
    | none, some _, some _ => rfl
    | some _, some _, some _ => rfl

theorem compileStep_isHere (s : Step) : (compileStep s).isHere = s.isHere := by
  cases s with
  | up => rfl
  | here => rfl
  | name _ => rfl
  | negidx n => simp only [compileStep]; split <;> rfl
  | slice a b c =>
    match a, b, c with
    | none, none, none => rfl
    | none, none, some none => rfl
    | none, none, some (some v) => rfl
    | some _, none, none => rfl
    | none, some _, none => rfl
    | some _, some _, none => rfl
    | some _, none, some _ => rfl
    | none, some _, some _ => rfl
    | some _, some _, some _ => rfl

/-- a single token is returned unchanged -/
theorem canonicalize_short (ops : List Op) (h : ops.length ≤ 1) : canonicalize ops = ops := by
  match ops, h with
  | [], _ => rfl
  | [o], _ =>
    unfold canonicalize
    cases o <;> simp [canonStep]

/-- **`_canonicalize` preserves the denotation on the Canon domain** (every `..` before every
    name/index/slice step) -/
theorem canonicalize_sound (root : Node) (strict : Bool) (p : Spec.Path) (hc : Canon p = true) (el : Pos) :
    denOps root strict (canonicalize (compile p)) el = denOps root strict (compile p) el := by
  by_cases hlen : (compile p).length ≤ 1
  · rw [canonicalize_short _ hlen]
  · have hmulti : decide ((compile p).length > 1) = true := by simp; omega
    obtain ⟨Z, R, hsplit, hZ, hR⟩ := canon_split p.steps hc
    have hZ' : (Z.map compileStep).all (fun o => o.isUp || o.isHere) = true := by
      rw [List.all_map]
      simpa [Function.comp_def, compileStep_isUp, compileStep_isHere] using hZ
    have hR' : (R.map compileStep).all (fun o => !o.isUp) = true := by
      rw [List.all_map]
      simpa [Function.comp_def, compileStep_isUp] using hR
    unfold canonicalize
    rw [hmulti]
    unfold compile
    rw [hsplit, List.map_append, List.foldl_append, List.foldl_append]
    -- the accumulator after the optional TOP
    have hacc : ZoneAcc ((if p.top = true then [Op.top] else []).foldl (canonStep true) []) := by
      cases p.top with
      | true => left; simp [canonStep]
      | false => right; rfl
    obtain ⟨_, hz2⟩ := foldl_canon_zone root strict (Z.map compileStep) _ hZ' hacc
    rw [foldl_canon_rest _ _ hR', List.reverse_append, List.reverse_reverse]
    rw [hz2]
    have hpre : ((if p.top = true then [Op.top] else []).foldl (canonStep true) []).reverse
        = (if p.top = true then [Op.top] else []) := by
      cases p.top <;> simp [canonStep]
    rw [hpre]
    have := denOps_filter_here root strict (R.map compileStep)
      ((if p.top = true then [Op.top] else []) ++ Z.map compileStep) el
    simp only [List.append_assoc] at this
    exact this

/-- **evaluator ∘ canonicalize ∘ compile = denotation** on the Canon domain (for paths that can
    raise one kind of error only: no step written with stride 0, or non-strict lookups) -/
theorem eval_denotes (root : Node) (strict : Bool) (p : Spec.Path)
    (hwf : UniSteps strict p.steps) (hc : Canon p = true) (el : Pos) :
    evalOps root strict (canonicalize (compile p)) el = denote p root el strict := by
  rw [evalOps_denotes _ _ _ _ (uni_canonicalize _ _ (uni_compile strict p hwf)),
    canonicalize_sound _ _ _ hc, denOps_compile _ _ _ hwf]

/-- the same without `_canonicalize` (paths without `.`/`..` are not canonicalised), no `Canon` needed -/
theorem eval_denotes_raw (root : Node) (strict : Bool) (p : Spec.Path)
    (hwf : UniSteps strict p.steps) (el : Pos) :
    evalOps root strict (compile p) el = denote p root el strict := by
  rw [evalOps_denotes _ _ _ _ (uni_compile strict p hwf), denOps_compile _ _ _ hwf]

/-- non-vacuity: `../l[1:]/x` is Canon and well-formed -/
example : Canon ⟨false, [.up, .name ['l'], .slice (some 1) none none, .name ['x']]⟩ = true ∧
    ([Step.up, .name ['l'], .slice (some 1) none none, .name ['x']].all Step.wf) = true := by decide

/-! ### the full statement and why it fails (KF-C14-a) -/

/-- the property without the `Canon` restriction -/
def C14_Full : Prop :=
  ∀ (root : Node) (strict : Bool) (p : Spec.Path) (el : Pos), p.steps.all Step.wf = true →
    evalOps root strict (canonicalize (compile p)) el = denote p root el strict

/-- `nosuch/..`, strict, on a Dict without such a field: the documented reading raises
    LookupError, the code (which cancels `nosuch/..` first) returns the start element -/
theorem C14_full_fails : ¬ C14_Full := by
  intro h
  have := h (.mk .map (some []) [] [.mk .scalar (some ['a']) ['a'] []]) true ⟨false, [.name ['n'], .up]⟩ [] (by decide)
  rw [evalOps_denotes _ _ _ _ (Or.inl (by decide))] at this
  have h1 : denOps (.mk .map (some []) [] [.mk .scalar (some ['a']) ['a'] []]) true
      (canonicalize (compile ⟨false, [.name ['n'], .up]⟩)) [] = .ok [[]] := by decide
  have h2 : denote ⟨false, [.name ['n'], .up]⟩ (.mk .map (some []) [] [.mk .scalar (some ['a']) ['a'] []]) [] true
      = .error .lookup := by decide
  rw [h1, h2] at this
  cases this

/-! ### outside the Canon domain: exactly what the code evaluates (KF-C14-a as a theorem) -/

theorem compileStep_shape (s : Step) (h1 : s.isUp = false) (h2 : s.isHere = false) :
    (∃ d, compileStep s = .name d) ∨ (∃ x y z, compileStep s = .slice x y z) := by
  cases s with
  | up => simp [Step.isUp] at h1
  | here => simp [Step.isHere] at h2
  | name n => exact Or.inl ⟨_, rfl⟩
  | negidx n => right; simp only [compileStep]; split <;> exact ⟨_, _, _, rfl⟩
  | slice a b c =>
    right
    match a, b, c with
    | none, none, none => exact ⟨_, _, _, rfl⟩
    | none, none, some none => exact ⟨_, _, _, rfl⟩
    | none, none, some (some v) => exact ⟨_, _, _, rfl⟩
    | some _, none, none => exact ⟨_, _, _, rfl⟩
    | none, some _, none => exact ⟨_, _, _, rfl⟩
    | some _, some _, none => exact ⟨_, _, _, rfl⟩
    | some _, none, some _ => exact ⟨_, _, _, rfl⟩
    | none, some _, some _ => exact ⟨_, _, _, rfl⟩
    | some _, some _, some _ => exact ⟨_, _, _, rfl⟩

def topPart (top : Bool) : List Op := if top then [.top] else []

/-- one iteration of `_canonicalize` on compiled steps = one `cancelStep` on the AST -/
theorem canonStep_cancelStep (top : Bool) (acc : List Step) (s : Step)
    (hacc : acc.all (fun a => !a.isHere) = true) :
    canonStep true (acc.map compileStep ++ topPart top) (compileStep s)
      = (cancelStep top acc s).map compileStep ++ topPart top ∧
    (cancelStep top acc s).all (fun a => !a.isHere) = true := by
  cases hs : s with
  | here => exact ⟨by simp [compileStep, canonStep, cancelStep], by simpa [cancelStep] using hacc⟩
  | up =>
    simp only [compileStep, cancelStep]
    cases acc with
    | nil =>
      cases top with
      | true => exact ⟨by simp [canonStep, topPart], rfl⟩
      | false => exact ⟨by simp [canonStep, topPart, compileStep], rfl⟩
    | cons a rest =>
      simp only [List.all_cons, Bool.and_eq_true, Bool.not_eq_true'] at hacc
      by_cases hup : a.isUp = true
      · have ha : a = .up := by cases a <;> simp [Step.isUp] at hup; rfl
        subst ha
        refine ⟨by simp [canonStep, compileStep], ?_⟩
        simp only [List.all_cons, Bool.and_eq_true, Bool.not_eq_true']
        exact ⟨rfl, rfl, by simpa using hacc.2⟩
      · have hup' : a.isUp = false := by simpa using hup
        have hne : ∀ (h : a = .up), False := by intro h; subst h; simp [Step.isUp] at hup'
        rcases compileStep_shape a hup' hacc.1 with ⟨d, hd⟩ | ⟨x, y, z, hd⟩
        · constructor
          · cases a with
            | up => exact absurd rfl hne
            | _ => simp [canonStep, hd, cancelStep] <;> simp_all
          · cases a with
            | up => exact absurd rfl hne
            | _ => simpa [cancelStep] using hacc.2
        · constructor
          · cases a with
            | up => exact absurd rfl hne
            | _ => simp [canonStep, hd, cancelStep] <;> simp_all
          · cases a with
            | up => exact absurd rfl hne
            | _ => simpa [cancelStep] using hacc.2
  | name n =>
    exact ⟨by simp [compileStep, canonStep, cancelStep], by simpa [cancelStep, Step.isHere] using hacc⟩
  | negidx n =>
    have h1 : ((compileStep (.negidx n)) == Op.here) = false := by
      simp only [compileStep]; split <;> rfl
    have h2 : ((compileStep (.negidx n)) != Op.up) = true := by
      simp only [compileStep]; split <;> rfl
    exact ⟨by simp [canonStep, cancelStep, h1, h2], by simpa [cancelStep, Step.isHere] using hacc⟩
  | slice a b c =>
    have hu := compileStep_isUp (.slice a b c)
    have hh := compileStep_isHere (.slice a b c)
    have h1 : ((compileStep (.slice a b c)) == Op.here) = false := by
      cases hc : compileStep (.slice a b c) <;> simp_all [Op.isHere, Step.isHere]
    have h2 : ((compileStep (.slice a b c)) != Op.up) = true := by
      cases hc : compileStep (.slice a b c) <;> simp_all [Op.isUp, Step.isUp]
    exact ⟨by simp [canonStep, cancelStep, h1, h2], by simpa [cancelStep, Step.isHere] using hacc⟩

theorem foldl_canon_cancel (top : Bool) : ∀ (steps acc : List Step),
    acc.all (fun a => !a.isHere) = true →
    (steps.map compileStep).foldl (canonStep true) (acc.map compileStep ++ topPart top)
      = (steps.foldl (cancelStep top) acc).map compileStep ++ topPart top
  | [], acc, _ => rfl
  | s :: r, acc, hacc => by
    obtain ⟨h1, h2⟩ := canonStep_cancelStep top acc s hacc
    simp only [List.map_cons, List.foldl_cons, h1]
    exact foldl_canon_cancel top r _ h2

/-- `_canonicalize` of a compiled path of more than one op is, literally, the compiled
    cancelled path -/
theorem canonicalize_cancel (p : Spec.Path) (hlen : (compile p).length > 1) :
    canonicalize (compile p) = compile (cancel p) := by
  unfold canonicalize
  have hm : decide ((compile p).length > 1) = true := by simpa using hlen
  rw [hm]
  unfold compile cancel
  simp only
  rw [List.foldl_append]
  have h0 : (if p.top = true then [Op.top] else []).foldl (canonStep true) []
      = ([] : List Step).map compileStep ++ topPart p.top := by
    cases p.top <;> simp [canonStep, topPart]
  rw [h0, foldl_canon_cancel p.top p.steps [] rfl]
  cases p.top <;> simp [topPart]

/-- **what the code evaluates, for every well-formed path**: the documented reading of the path
    with every `X/..` pair and every `.` deleted.  On the Canon domain this is the reading of the
    path itself (`eval_denotes`); outside it is KF-C14-a. -/
theorem denOps_canonicalize (root : Node) (strict : Bool) (p : Spec.Path) (el : Pos) :
    denOps root strict (canonicalize (compile p)) el = denOps root strict (compile (cancel p)) el := by
  by_cases hlen : (compile p).length > 1
  · rw [canonicalize_cancel p hlen]
  · rw [canonicalize_short _ (by omega)]
    -- at most one op: `/`, nothing, or a single relative step
    cases hp : p with | mk top steps =>
    subst hp
    cases top with
    | true =>
      cases steps with
      | nil => rfl
      | cons s r => simp [compile] at hlen
    | false =>
      cases steps with
      | nil => rfl
      | cons s r =>
        cases r with
        | cons _ _ => simp [compile] at hlen
        | nil =>
          cases s with
          | here => simp [compile, cancel, cancelStep, compileStep, denOps]
          | up => simp [compile, cancel, cancelStep]
          | name n => simp [compile, cancel, cancelStep]
          | negidx n => simp [compile, cancel, cancelStep]
          | slice a b c => simp [compile, cancel, cancelStep]

theorem cancelStep_wf (top : Bool) (acc : List Step) (s : Step) (h1 : acc.all Step.wf = true) (h2 : s.wf = true) :
    (cancelStep top acc s).all Step.wf = true := by
  cases s with
  | here => exact h1
  | up =>
    simp only [cancelStep]
    cases acc with
    | nil => cases top <;> rfl
    | cons a rest =>
      simp only [List.all_cons, Bool.and_eq_true] at h1
      cases a <;> simp_all [Step.wf]
  | name n => simpa [cancelStep, Step.wf] using h1
  | negidx n => simpa [cancelStep, Step.wf] using h1
  | slice a b c => simp only [cancelStep, List.all_cons, Bool.and_eq_true]; exact ⟨h2, h1⟩

theorem cancel_wf (p : Spec.Path) (h : p.steps.all Step.wf = true) : (cancel p).steps.all Step.wf = true := by
  unfold cancel
  simp only [List.all_reverse]
  have : ∀ (steps acc : List Step), acc.all Step.wf = true → steps.all Step.wf = true →
      (steps.foldl (cancelStep p.top) acc).all Step.wf = true := by
    intro steps
    induction steps with
    | nil => intro acc h1 _; exact h1
    | cons s r ih =>
      intro acc h1 h2
      simp only [List.all_cons, Bool.and_eq_true] at h2
      exact ih _ (cancelStep_wf p.top acc s h1 h2.1) h2.2
  exact this p.steps [] rfl h

theorem uniSteps_cancel (strict : Bool) (p : Spec.Path) (h : UniSteps strict p.steps) :
    UniSteps strict (cancel p).steps := h.imp (cancel_wf p) id

/-- **C14 for every path, with the code's actual reading**: the evaluator on the
    canonicalised compiled path = spec B's denotation of the cancelled path -/
theorem eval_cancel_denotes (root : Node) (strict : Bool) (p : Spec.Path)
    (hwf : UniSteps strict p.steps) (el : Pos) :
    evalOps root strict (canonicalize (compile p)) el = denote (cancel p) root el strict := by
  rw [evalOps_denotes _ _ _ _ (uni_canonicalize _ _ (uni_compile strict p hwf)), denOps_canonicalize,
    denOps_compile _ _ _ (uniSteps_cancel strict p hwf)]

/-! ### tokenizer ∘ printer -/

theorem stepsOK_of_wf (trail : Bool) : ∀ cs : List CStep, wfSteps trail cs = true →
    (∀ c ∈ cs, StepFits c.step) → StepsOK trail cs
  | [], _, _ => trivial
  | [x], h, hf => by
    simp only [wfSteps] at h
    simp only [StepsOK, List.isEmpty_nil, Bool.true_and, and_true]
    cases trail with
    | true =>
      have hx : CStepOK x := ⟨by simpa using h, hf x (by simp)⟩
      simpa using hx
    | false =>
      have hx : CStepOKW x := ⟨by simpa using h, hf x (by simp)⟩
      simpa using hx
  | x :: y :: r, h, hf => by
    simp only [wfSteps, Bool.and_eq_true] at h
    simp only [StepsOK, List.isEmpty_cons, Bool.false_and, Bool.false_eq_true, if_false]
    exact ⟨⟨h.1, hf x (by simp)⟩,
      by simpa [StepsOK] using stepsOK_of_wf trail (y :: r) h.2 (fun c hc => hf c (by simp [hc]))⟩

/-- **tokenizer ∘ printer, whole concrete syntax**: every well-formed concrete path — leading and
    trailing slash, `..`/`.` anywhere, names with minimal or full escaping, `[n]` or `/n`,
    `[-n]`, `[a:b]`, `[a:b:c]` with any omitted bounds, bracket steps attached directly or with a
    slash — whose integers stay within `int()`'s digit limit tokenizes to its compiled op list,
    canonicalised exactly when it contains `.` or `..`. -/
theorem tokenize_print (p : CPath) (hwf : p.wf = true) (hfit : ∀ c ∈ p.steps, StepFits c.step) :
    tokenize (print p) = .ok
      (if p.steps.any (fun c => c.step.isUp || c.step.isHere) then canonicalize (compile p.abstract)
       else compile p.abstract) := by
  rw [tokenize_print_aux p (stepsOK_of_wf p.trail p.steps hwf hfit)]
  have : p.steps.all (fun c => notDot c.step) = !p.steps.any (fun c => c.step.isUp || c.step.isHere) := by
    simp only [notDot]
    induction p.steps with
    | nil => rfl
    | cons c r ih =>
      rw [List.all_cons, List.any_cons, ih]
      cases c.step.isUp <;> cases c.step.isHere <;> simp
  rw [this]
  cases p.steps.any (fun c => c.step.isUp || c.step.isHere) <;> rfl

/-- **end to end**: `find` on the printed path = spec B's reading of the AST, on the Canon domain,
    for paths that can raise one kind of error only (no step written with stride 0, or non-strict) -/
theorem find_print_denotes (root : Node) (start : Pos) (p : CPath) (single strict : Bool)
    (hwf : p.wf = true) (hfit : ∀ c ∈ p.steps, StepFits c.step) (hc : Canon p.abstract = true)
    (hu : UniSteps strict p.abstract.steps) :
    find root start (print p) single strict = findSpec p.abstract root start single strict := by
  have huo : Uni strict (if p.steps.any (fun c => c.step.isUp || c.step.isHere) then canonicalize (compile p.abstract)
        else compile p.abstract) := by
    split
    · exact uni_canonicalize _ _ (uni_compile strict _ hu)
    · exact uni_compile strict _ hu
  rw [find_denotes _ _ _ _ _ _ (tokenize_print p hwf hfit) huo]
  have hden : denOps root strict
      (if p.steps.any (fun c => c.step.isUp || c.step.isHere) then canonicalize (compile p.abstract)
        else compile p.abstract) start = denote p.abstract root start strict := by
    split
    · rw [canonicalize_sound _ _ _ hc, denOps_compile _ _ _ hu]
    · rw [denOps_compile _ _ _ hu]
  simp only [hden, findResOf, findSpec]
  cases denote p.abstract root start strict with
  | error e => cases single <;> rfl
  | ok res => cases single <;> rfl

theorem canon_of_noDots : ∀ (steps : List Step) (seen : Bool),
    steps.any (fun s => s.isUp || s.isHere) = false → canonFrom seen steps = true
  | [], _, _ => rfl
  | s :: r, seen, h => by
    simp only [List.any_cons, Bool.or_eq_false_iff] at h
    cases s with
    | up => simp [Step.isUp] at h
    | here => simp [Step.isHere] at h
    | name n => simp only [canonFrom]; exact canon_of_noDots r true h.2
    | negidx n => simp only [canonFrom]; exact canon_of_noDots r true h.2
    | slice a b c => simp only [canonFrom]; exact canon_of_noDots r true h.2

/-- **end to end, every spellable path** (no Canon restriction): `find` on the printed path =
    spec B's reading of the *cancelled* AST — the exact content of KF-C14-a -/
theorem find_print_cancel (root : Node) (start : Pos) (p : CPath) (single strict : Bool)
    (hwf : p.wf = true) (hfit : ∀ c ∈ p.steps, StepFits c.step) (hu : UniSteps strict p.abstract.steps) :
    find root start (print p) single strict = findSpec (cancel p.abstract) root start single strict := by
  have huo : Uni strict (if p.steps.any (fun c => c.step.isUp || c.step.isHere) then canonicalize (compile p.abstract)
        else compile p.abstract) := by
    split
    · exact uni_canonicalize _ _ (uni_compile strict _ hu)
    · exact uni_compile strict _ hu
  rw [find_denotes _ _ _ _ _ _ (tokenize_print p hwf hfit) huo]
  have huc := uniSteps_cancel strict p.abstract hu
  have hden : denOps root strict
      (if p.steps.any (fun c => c.step.isUp || c.step.isHere) then canonicalize (compile p.abstract)
        else compile p.abstract) start = denote (cancel p.abstract) root start strict := by
    split
    · rw [denOps_canonicalize, denOps_compile _ _ _ huc]
    · next hno =>
      have hno' : p.abstract.steps.any (fun s => s.isUp || s.isHere) = false := by
        simp only [CPath.abstract, List.any_map]
        simpa [Function.comp_def] using hno
      have hc : Canon p.abstract = true := canon_of_noDots _ false hno'
      rw [← canonicalize_sound root strict p.abstract hc, denOps_canonicalize,
        denOps_compile _ _ _ huc]
  simp only [hden, findResOf, findSpec]
  cases denote (cancel p.abstract) root start strict with
  | error e => cases single <;> rfl
  | ok res => cases single <;> rfl

/-! ### strict and non-strict lookups -/

theorem flatMapM_ok_of_all {α β : Type} (f : α → Except Err (List β)) :
    ∀ xs : List α, (∀ x ∈ xs, ∃ r, f x = .ok r) → ∃ r, flatMapM f xs = .ok r
  | [], _ => ⟨[], rfl⟩
  | x :: xs, h => by
    obtain ⟨r1, h1⟩ := h x (by simp)
    obtain ⟨r2, h2⟩ := flatMapM_ok_of_all f xs (fun y hy => h y (by simp [hy]))
    exact ⟨r1 ++ r2, by simp [flatMapM, h1, h2]⟩

/-- **non-strict lookups never raise**: without `strict`, every op list (without a zero
    stride) evaluates to a list -/
theorem lax_never_raises (root : Node) : ∀ (ops : List Op) (el : Pos), NoZero ops = true →
    ∃ res, denOps root false ops el = .ok res
  | [], el, _ => ⟨[el], rfl⟩
  | .top :: r, el, hz => by
    simp only [denOps]; exact lax_never_raises root r [] (by simpa [NoZero, Op.stepOk] using hz)
  | .up :: r, el, hz => by
    simp only [denOps]; exact lax_never_raises root r _ (by simpa [NoZero, Op.stepOk] using hz)
  | .here :: r, el, hz => by
    simp only [denOps]; exact lax_never_raises root r _ (by simpa [NoZero, Op.stepOk] using hz)
  | .name d :: r, el, hz => by
    simp only [denOps]
    cases indexAt root el d with
    | some i => exact lax_never_raises root r _ (by simpa [NoZero, Op.stepOk] using hz)
    | none => exact ⟨[], rfl⟩
  | .slice a b c :: r, el, hz => by
    have hz' : NoZero r = true := by
      simp only [NoZero, List.all_cons, Bool.and_eq_true] at hz; exact hz.2
    have hc : (c == some 0) = false := by
      simp only [NoZero, List.all_cons, Bool.and_eq_true] at hz
      have h1 := hz.1
      cases c with
      | none => rfl
      | some v =>
        simp only [Op.stepOk, bne_iff_ne, ne_eq] at h1
        simp [h1]
    simp only [denOps, hc]
    exact flatMapM_ok_of_all _ _ (fun p _ => lax_never_raises root r p hz')

/-- … and so does `find(path, strict=False)` for every path string that compiles -/
theorem find_lax_never_lookup (root : Node) (start : Pos) (path : Str) (single : Bool) (ops : List Op)
    (ht : tokenize path = .ok ops) : find root start path single false ≠ .err .lookup := by
  rw [find_denotes _ _ _ _ _ _ ht (Or.inr rfl)]
  have hv := denOps_lax_onlyValue root ops start
  cases hr : denOps root false ops start with
  | error e =>
    have := hv e hr
    subst this
    simp [findResOf]
  | ok res =>
    simp only [findResOf]
    cases single with
    | false => simp
    | true =>
      simp only [if_true, singleOf]
      match res with
      | [] => simp
      | [p] => simp
      | p :: q :: r => simp

theorem flatMapM_congr_ok {α β : Type} (f g : α → Except Err (List β)) :
    ∀ (xs : List α) (r : List β), (∀ x ∈ xs, ∀ y, f x = .ok y → g x = .ok y) →
      flatMapM f xs = .ok r → flatMapM g xs = .ok r
  | [], r, _, h => h
  | x :: xs, r, hfg, h => by
    simp only [flatMapM] at h ⊢
    cases hx : f x with
    | error e => rw [hx] at h; simp at h
    | ok ys =>
      rw [hx] at h
      simp only at h
      cases hxs : flatMapM f xs with
      | error e => rw [hxs] at h; simp at h
      | ok zs =>
        rw [hxs] at h
        rw [hfg x (by simp) ys hx, flatMapM_congr_ok f g xs zs (fun y hy => hfg y (by simp [hy])) hxs]
        exact h

/-- **when the strict lookup succeeds, the non-strict one returns the same elements** -/
theorem strict_ok_eq_lax (root : Node) : ∀ (ops : List Op) (el : Pos) (res : List Pos),
    denOps root true ops el = .ok res → denOps root false ops el = .ok res
  | [], el, res, h => h
  | .top :: r, el, res, h => by simp only [denOps] at h ⊢; exact strict_ok_eq_lax root r _ res h
  | .up :: r, el, res, h => by simp only [denOps] at h ⊢; exact strict_ok_eq_lax root r _ res h
  | .here :: r, el, res, h => by simp only [denOps] at h ⊢; exact strict_ok_eq_lax root r _ res h
  | .name d :: r, el, res, h => by
    simp only [denOps] at h ⊢
    cases hi : indexAt root el d with
    | some i => rw [hi] at h; exact strict_ok_eq_lax root r _ res h
    | none => rw [hi] at h; simp at h
  | .slice a b c :: r, el, res, h => by
    simp only [denOps] at h ⊢
    split at h
    · simp at h
    · next hc =>
      simp only [hc, Bool.false_eq_true, if_false]
      exact flatMapM_congr_ok _ _ _ res (fun x _ y hy => strict_ok_eq_lax root r x y hy) h

def Op.notName : Op → Bool | .name _ => false | _ => true

/-- **slices, negative indexes, `..`, `.` and `/` never raise**, strict or not: an op list
    without NAME steps always evaluates to a list -/
theorem no_names_never_raises (root : Node) (strict : Bool) : ∀ (ops : List Op) (el : Pos),
    NoZero ops = true → ops.all Op.notName = true → ∃ res, denOps root strict ops el = .ok res
  | [], el, _, _ => ⟨[el], rfl⟩
  | .top :: r, el, hz, hn => by
    simp only [denOps]
    exact no_names_never_raises root strict r [] (by simpa [NoZero, Op.stepOk] using hz) (by simpa [Op.notName] using hn)
  | .up :: r, el, hz, hn => by
    simp only [denOps]
    exact no_names_never_raises root strict r _ (by simpa [NoZero, Op.stepOk] using hz) (by simpa [Op.notName] using hn)
  | .here :: r, el, hz, hn => by
    simp only [denOps]
    exact no_names_never_raises root strict r _ (by simpa [NoZero, Op.stepOk] using hz) (by simpa [Op.notName] using hn)
  | .name d :: r, el, _, hn => by simp [Op.notName] at hn
  | .slice a b c :: r, el, hz, hn => by
    have hz' : NoZero r = true := by
      simp only [NoZero, List.all_cons, Bool.and_eq_true] at hz; exact hz.2
    have hn' : r.all Op.notName = true := by simpa [Op.notName] using hn
    have hc : (c == some 0) = false := by
      simp only [NoZero, List.all_cons, Bool.and_eq_true] at hz
      have h1 := hz.1
      cases c with
      | none => rfl
      | some v =>
        simp only [Op.stepOk, bne_iff_ne, ne_eq] at h1
        simp [h1]
    simp only [denOps, hc]
    exact flatMapM_ok_of_all _ _ (fun p _ => no_names_never_raises root strict r p hz' hn')

/-! ### results come in sequence order -/

theorem denoteSteps_filter_here (root : Node) (strict : Bool) : ∀ (R : List Step) (cur : List Pos),
    denoteSteps root strict (R.filter (fun s => !s.isHere)) cur = denoteSteps root strict R cur
  | [], _ => rfl
  | s :: R, cur => by
    cases s with
    | here =>
      have hf : flatMapM (stepDen root strict .here) cur = .ok cur := by
        have : stepDen root strict .here = fun el => .ok [el] := funext (fun el => rfl)
        rw [this, flatMapM_pure]
      simp only [List.filter_cons, Step.isHere, Bool.not_true, Bool.false_eq_true, if_false, denoteSteps, hf]
      exact denoteSteps_filter_here root strict R cur
    | up =>
      simp only [List.filter_cons, Step.isHere, Bool.not_false, if_true, denoteSteps]
      cases flatMapM (stepDen root strict .up) cur with
      | error e => rfl
      | ok next => exact denoteSteps_filter_here root strict R next
    | name n =>
      simp only [List.filter_cons, Step.isHere, Bool.not_false, if_true, denoteSteps]
      cases flatMapM (stepDen root strict (.name n)) cur with
      | error e => rfl
      | ok next => exact denoteSteps_filter_here root strict R next
    | negidx n =>
      simp only [List.filter_cons, Step.isHere, Bool.not_false, if_true, denoteSteps]
      cases flatMapM (stepDen root strict (.negidx n)) cur with
      | error e => rfl
      | ok next => exact denoteSteps_filter_here root strict R next
    | slice a b c =>
      simp only [List.filter_cons, Step.isHere, Bool.not_false, if_true, denoteSteps]
      cases flatMapM (stepDen root strict (.slice a b c)) cur with
      | error e => rfl
      | ok next => exact denoteSteps_filter_here root strict R next

/-- **"in sequence order"**: on the Canon domain, with ascending slice strides, the selected
    elements are strictly increasing in document order — so there are no duplicates either -/
theorem denote_sorted (root : Node) (strict : Bool) (p : Spec.Path) (hc : Canon p = true)
    (hasc : p.steps.all Step.ascending = true) (el : Pos) (res : List Pos)
    (h : denote p root el strict = .ok res) :
    res.Pairwise (fun a b => posLt a b = true) := by
  obtain ⟨Z, R, hsplit, hZ, hR⟩ := canon_split p.steps hc
  unfold denote at h
  rw [hsplit] at h hasc
  obtain ⟨el', hz⟩ := denoteSteps_zone root strict Z (if p.top then [] else el) hZ
  rw [hz R, ← denoteSteps_filter_here] at h
  have hall : (R.filter (fun s => !s.isHere)).all (fun s => s.down && s.ascending) = true := by
    rw [List.all_eq_true]
    intro s hs
    rw [List.mem_filter] at hs
    rw [List.all_append, Bool.and_eq_true] at hasc
    have hasc2 := hasc.2
    rw [List.all_eq_true] at hR hasc2
    have h1 := hR s hs.1
    have h2 := hasc2 s hs.1
    have h3 := hs.2
    cases s <;> simp_all [Step.down, Step.isUp, Step.isHere]
  have hlev : Level el'.length [el'] := ⟨by simp, by simp⟩
  exact (denoteSteps_level root strict _ _ _ _ hall hlev h).2

/-- the same for what `find` returns on a printed path -/
theorem find_sorted (root : Node) (start : Pos) (p : CPath) (strict : Bool) (res : List Pos)
    (hwf : p.wf = true) (hfit : ∀ c ∈ p.steps, StepFits c.step) (hc : Canon p.abstract = true)
    (hasc : p.abstract.steps.all Step.ascending = true)
    (h : find root start (print p) false strict = .many res) :
    res.Pairwise (fun a b => posLt a b = true) := by
  have hu : UniSteps strict p.abstract.steps := by
    left
    rw [List.all_eq_true] at hasc ⊢
    intro s hs
    have := hasc s hs
    match s, this with
    | .slice _ _ (some (some c)), h =>
      simp only [Step.ascending, decide_eq_true_eq] at h
      simp only [Step.wf, bne_iff_ne, ne_eq]; omega
    | .slice _ _ none, _ => rfl
    | .slice _ _ (some none), _ => rfl
    | .up, _ => rfl
    | .here, _ => rfl
    | .name _, _ => rfl
    | .negidx _, _ => rfl
  rw [find_print_denotes root start p false strict hwf hfit hc hu] at h
  simp only [findSpec, Bool.false_eq_true, if_false] at h
  cases hd : denote p.abstract root start strict with
  | error e => rw [hd] at h; simp at h
  | ok l =>
    rw [hd] at h
    simp only [FindRes.many.injEq] at h
    subst h
    exact denote_sorted root strict p.abstract hc hasc start l hd

/-! ### a slice step written as zero (was KF-C14-b; fixed in 9884fd3) -/

/-- `[::0]`: the concrete path the grammar's "zero step" denotes -/
def zeroStepPath : CPath := ⟨false, false, [⟨.slice none none (some (some 0)), {}⟩]⟩

theorem natStr_zero : natStr 0 = ['0'] := by rw [natStr]; rfl

theorem print_zeroStepPath : print zeroStepPath = ['[', ':', ':', '0', ']'] := by
  simp [print, zeroStepPath, printSteps, CStep.text, optIntStr, intStr, natStr_zero]

/-- `_parse_slice` keeps an explicit step 0 (`int(segs[2]) if segs[2] else 1`) — an instance of
    `tokenize_print`, which no longer excludes zero strides -/
theorem zero_stride_stays_zero :
    tokenize (print zeroStepPath) = .ok [.slice none none (some 0)] := by
  have hfit : ∀ c ∈ zeroStepPath.steps, StepFits c.step := by
    intro c hc
    simp only [zeroStepPath, List.mem_singleton] at hc
    subst hc
    refine ⟨trivial, trivial, ?_⟩
    show IntFits 0
    left
    simp [natStr_zero]
    decide
  have := tokenize_print zeroStepPath (by decide) hfit
  simpa [zeroStepPath, CPath.abstract, compile, compileStep, Step.isUp, Step.isHere] using this

/-- **a step written as zero raises `ValueError` as soon as it is reached**, strict or not, exactly
    as the Python slice `a:b:0` of spec B does -/
theorem zero_step_raises (root : Node) (start : Pos) (single strict : Bool) :
    find root start (print zeroStepPath) single strict = .err .value ∧
    findSpec zeroStepPath.abstract root start single strict = .err .value := by
  constructor
  · unfold find
    rw [zero_stride_stays_zero]
    simp only [evalOps]
    rw [work_cons]
    simp [runCtx]
  · cases single <;>
      simp [findSpec, denote, denoteSteps, flatMapM, stepDen, Step.stride, zeroStepPath, CPath.abstract, singleOf]

/-- the property with a zero step in its quantifier, on the path `[::0]` -/
def C14_ZeroStep : Prop :=
  ∀ (root : Node) (start : Pos) (single strict : Bool),
    find root start (print zeroStepPath) single strict = findSpec zeroStepPath.abstract root start single strict

/-- it holds since 9884fd3 (it was refuted before: `C14_zero_step_fails`) -/
theorem C14_zero_step_ok : C14_ZeroStep := by
  intro root start single strict
  obtain ⟨h1, h2⟩ := zero_step_raises root start single strict
  rw [h1, h2]

/-- … and for every spellable Canon path containing zero steps, under non-strict lookups:
    `find` = spec B, `ValueError` included (an instance of `find_print_denotes`) -/
theorem find_print_denotes_lax (root : Node) (start : Pos) (p : CPath) (single : Bool)
    (hwf : p.wf = true) (hfit : ∀ c ∈ p.steps, StepFits c.step) (hc : Canon p.abstract = true) :
    find root start (print p) single false = findSpec p.abstract root start single false :=
  find_print_denotes root start p single false hwf hfit hc (Or.inr rfl)

/-- a name step written as a segment (not as `[n]`), for a name the grammar can spell -/
def NameSeg (c : CStep) : Prop := ∃ s, c.step = .name s ∧ c.sp.bracket = false ∧ GoodName s = true

theorem nameSeg_text (c : CStep) (s : Str) (h1 : c.step = .name s) (h2 : c.sp.bracket = false) :
    c.text = (escapeSeg c.sp.escAll s, false) := by
  unfold CStep.text
  rw [h1]
  simp [h2]

theorem printSteps_false : ∀ cs : List CStep, (∀ c ∈ cs, NameSeg c) →
    printSteps false cs = slashJoin (cs.map (fun c => c.text.1))
  | [], _ => rfl
  | c :: r, h => by
    obtain ⟨s, h1, h2, _⟩ := h c (by simp)
    have ih := printSteps_false r (fun x hx => h x (by simp [hx]))
    simp only [printSteps, nameSeg_text c s h1 h2, Bool.false_or, Bool.false_and, Bool.false_eq_true, if_false, ih]
    simp [slashJoin, nameSeg_text c s h1 h2]

theorem segsOK_of_all : ∀ l : List Str,
    (∀ x ∈ l, x ≠ [] ∧ cleanB true x = true ∧ cleanB false x = true) → SegsOK l
  | [], _ => trivial
  | [s], h => ⟨(h s (by simp)).1, (h s (by simp)).2.1⟩
  | s :: s2 :: r, h =>
    ⟨(h s (by simp)).1, (h s (by simp)).2.2, segsOK_of_all (s2 :: r) (fun x hx => h x (by simp [hx]))⟩

/-- **tokenizer ∘ printer on name paths** (absolute or relative, any number of steps, any
    spellable names, minimal or full escaping): the op list is exactly the compiled AST —
    in particular escaped `/ [ ] .` are literal name characters and `\.`/`\.\.` are names -/
theorem tokenize_print_names (top : Bool) (cs : List CStep) (h : ∀ c ∈ cs, NameSeg c) :
    tokenize (print ⟨top, false, cs⟩) = .ok (compile (CPath.abstract ⟨top, false, cs⟩)) := by
  have htexts : ∀ x ∈ cs.map (fun c => c.text.1),
      (x ≠ [] ∧ cleanB true x = true ∧ cleanB false x = true) ∧ PlainSeg x := by
    intro x hx
    simp only [List.mem_map] at hx
    obtain ⟨c, hc, rfl⟩ := hx
    obtain ⟨s, h1, h2, h3⟩ := h c hc
    rw [nameSeg_text c s h1 h2]
    have ft := escapeSeg_facts true c.sp.escAll s h3
    have ff := escapeSeg_facts false c.sp.escAll s h3
    exact ⟨⟨ft.1, ft.2.1, ff.2.1⟩, ft.2.2.1⟩
  have hnames : cs.map (fun c => Op.name (some (unescape c.text.1))) = cs.map (fun c => compileStep c.step) := by
    apply List.map_congr_left
    intro c hc
    obtain ⟨s, h1, h2, h3⟩ := h c hc
    rw [nameSeg_text c s h1 h2, h1]
    simp [compileStep, (escapeSeg_facts true c.sp.escAll s h3).2.2.2]
  simp only [print, Bool.false_and, Bool.false_eq_true, if_false, List.append_nil, compile, CPath.abstract,
    List.map_map]
  cases cs with
  | nil =>
    cases top with
    | true => simpa [printSteps] using tokenize_root
    | false => simpa [printSteps] using tokenize_empty
  | cons c r =>
    obtain ⟨s, h1, h2, _⟩ := h c (by simp)
    have hr := printSteps_false r (fun x hx => h x (by simp [hx]))
    have hok : SegsOK ((c :: r).map (fun c => c.text.1)) :=
      segsOK_of_all _ (fun x hx => (htexts x hx).1)
    have hpl : ∀ x ∈ (c :: r).map (fun c => c.text.1), PlainSeg x := fun x hx => (htexts x hx).2
    have hps : printSteps true (c :: r) = c.text.1 ++ slashJoin (r.map (fun c => c.text.1)) := by
      simp only [printSteps, Bool.true_or, if_true, hr]
    simp only [List.map_cons] at hok hpl hnames
    cases top with
    | true =>
      have hj : ['/'] ++ printSteps true (c :: r) = slashJoin (c.text.1 :: r.map (fun c => c.text.1)) := by
        rw [hps]; simp [slashJoin]
      simp only [if_true]
      rw [hj, tokenize_segs _ _ hok hpl]
      simp only [List.map_cons, List.map_map, Function.comp_def] at hnames ⊢
      rw [← hnames]
      simp
    | false =>
      simp only [Bool.false_eq_true, if_false, List.nil_append]
      rw [hps, tokenize_rel_segs _ _ hok hpl]
      simp only [List.map_cons, List.map_map, Function.comp_def] at hnames ⊢
      rw [← hnames]

/-- non-vacuity: `/a\/b/\./x\\.y` (names `a/b`, `.`, `x\.y`) -/
example : NameSeg ⟨.name ['a', '/', 'b'], {}⟩ ∧ NameSeg ⟨.name ['.'], {}⟩ ∧
    NameSeg ⟨.name ['x', '\\', '.', 'y'], {}⟩ :=
  ⟨⟨_, rfl, rfl, by decide⟩, ⟨_, rfl, rfl, by decide⟩, ⟨_, rfl, rfl, by decide⟩⟩

end Flatland.C14.Proofs
