/-
C14 — path expressions select what the documented path syntax denotes.

Main theorems (model A = Flatland/Path.lean, spec B = Flatland/Spec/C14.lean):

* `evalOps_denotes`   the FIFO work list of `PathExpression.__call__` = the depth-first reading
                      `denOps` of the op list: same elements, same order, same error — for every
                      op list without a zero stride, every tree, every start, strict or not;
* `tokenize_noZero`   `tokenize` never produces a zero stride (for every string);
* `find_denotes`      hence `find(path, single, strict)` = the `single` table applied to the
                      depth-first reading of `tokenize(path)` — for every string;
* `denOps_compile`    the op list a path AST compiles to denotes what spec B says (`denote`:
                      step by step over the whole current selection), for every AST, including
                      `[-n]` = "n-th from the end or nothing" and the start/stride defaults;
* `canonicalize_sound`  on the `Canon` domain `_canonicalize` preserves the denotation;
* `eval_denotes`      Canon p → evalOps (canonicalize (compile p)) = denote p;
* `single_spec`       the `single=True` table;
* `C14_Full` / `C14_full_fails`  without `Canon` the statement is false of the code as it is
                      (KF-C14-a): `nosuch/..` strict.

Not proved here: `tokenize (print p) = compile p` for the whole concrete syntax (stated as
`TokenizePrint_Full`); proved for paths of name steps (`tokenize_print_names`, Proofs/Lemmas/PathScan.lean);
the rest of the grammar is tied by correspondence and the exhaustive enumeration of short strings.
-/
import Flatland.Path
import Flatland.Spec.C14
import Proofs.Lemmas.C14Work
import Proofs.Lemmas.C14Slice
namespace Flatland.C14.Proofs
open Flatland.Path Flatland.C14.Spec

/-! ### the work list -/

theorem flatMapM_singleton {α β : Type} (f : α → Except Err (List β)) (x : α) :
    flatMapM f [x] = f x := by
  simp only [flatMapM]
  cases f x <;> simp

/-- **evaluator = denotation on op lists**, full strength -/
theorem evalOps_denotes (root : Node) (strict : Bool) (ops : List Op) (el : Pos)
    (hz : NoZero ops = true) :
    evalOps root strict ops el = denOps root strict ops el := by
  unfold evalOps
  have := work_level root strict ops.length ops (Nat.le_refl _) hz [el]
  simp only [List.map_cons, List.map_nil] at this
  rw [this, flatMapM_singleton]

/-- `[:][:]` on a list of two lists: document order, level by level -/
example : (match evalOps (.mk .list [] [.mk .list [] [.mk .scalar [] [], .mk .scalar [] []], .mk .list [] [.mk .scalar [] []]])
      true [.slice none none none, .slice none none none] [] with
    | .ok l => l == [[0, 0], [0, 1], [1, 0]]
    | .error _ => false) = true := by
  rw [evalOps_denotes _ _ _ _ (by decide)]
  decide

/-! ### `tokenize` never yields a zero stride -/

theorem parseSlice_stepOk (s : Str) (op : Op) (h : parseSlice s = some op) : Op.stepOk op = true := by
  unfold parseSlice at h
  split at h
  · simp only [Option.some.injEq] at h; subst h; rfl
  · split at h
    · split at h
      · simp only [Option.some.injEq] at h; subst h; rfl
      · split at h
        · simp at h
        · split at h <;> (simp only [Option.some.injEq] at h; subst h; rfl)
    · split at h
      · split at h
        · simp at h
        · split at h
          · simp at h
          · simp only [Option.some.injEq] at h; subst h; rfl
      · split at h
        · simp at h
        · split at h
          · simp at h
          · split at h
            · simp at h
            · next stride hs =>
              simp only [Option.some.injEq] at h; subst h
              simp only [Op.stepOk, bne_iff_ne, ne_eq]
              split at hs
              · simp only [Option.some.injEq] at hs; subst hs; decide
              · cases hp : pyInt _ with
                | none => rw [hp] at hs; simp at hs
                | some v =>
                  rw [hp] at hs
                  simp only [Option.map_some, Option.some.injEq] at hs
                  subst hs
                  split <;> simp_all
      · simp at h

theorem tokStep_stepOk (st st' : TState) (t : RawTok) (h : tokStep st t = .ok st')
    (hs : st.toks.all Op.stepOk = true) : st'.toks.all Op.stepOk = true := by
  unfold tokStep at h
  simp only at h
  split at h
  · split at h
    · simp only [Except.ok.injEq] at h; subst h; simpa [Op.stepOk] using hs
    · split at h <;> (simp only [Except.ok.injEq] at h; subst h; simpa [Op.stepOk] using hs)
  · split at h
    · simp only [Except.ok.injEq] at h; subst h; simpa [Op.stepOk] using hs
    · split at h
      · simp only [Except.ok.injEq] at h; subst h; simpa [Op.stepOk] using hs
      · split at h
        · split at h
          · simp at h
          · next op hp =>
            simp only [Except.ok.injEq] at h; subst h
            simp only [List.all_cons, Bool.and_eq_true]
            exact ⟨parseSlice_stepOk _ _ hp, hs⟩
        · split at h
          · split at h
            · simp at h
            · simp only [Except.ok.injEq] at h; subst h
              simp only [List.all_cons, Op.stepOk, Bool.true_and]
              cases hst : st.toks with
              | nil => rfl
              | cons a b => rw [hst] at hs; simp only [List.all_cons, Bool.and_eq_true] at hs; simpa using hs.2
          · simp only [Except.ok.injEq] at h; subst h; simpa [Op.stepOk] using hs

theorem tokLoop_stepOk : ∀ (raw : List RawTok) (st st' : TState), tokLoop st raw = .ok st' →
    st.toks.all Op.stepOk = true → st'.toks.all Op.stepOk = true
  | [], st, st', h, hs => by simp only [tokLoop, Except.ok.injEq] at h; subst h; exact hs
  | t :: r, st, st', h, hs => by
    simp only [tokLoop] at h
    cases hst : tokStep st t with
    | error e => rw [hst] at h; simp at h
    | ok st1 =>
      rw [hst] at h
      exact tokLoop_stepOk r st1 st' h (tokStep_stepOk st st1 t hst hs)

theorem canonStep_stepOk (multi : Bool) (canon : List Op) (t : Op)
    (hc : canon.all Op.stepOk = true) (ht : Op.stepOk t = true) :
    (canonStep multi canon t).all Op.stepOk = true := by
  unfold canonStep
  split
  · exact hc
  · split
    · simp [hc, ht]
    · split
      · exact hc
      · simp [hc, ht]
      · next rest => simp only [List.all_cons, Bool.and_eq_true] at hc; exact hc.2
      · simp [ht]

theorem foldl_canonStep_stepOk (multi : Bool) : ∀ (ts canon : List Op),
    canon.all Op.stepOk = true → ts.all Op.stepOk = true →
    (ts.foldl (canonStep multi) canon).all Op.stepOk = true
  | [], canon, hc, _ => hc
  | t :: ts, canon, hc, ht => by
    simp only [List.all_cons, Bool.and_eq_true] at ht
    exact foldl_canonStep_stepOk multi ts _ (canonStep_stepOk multi canon t hc ht.1) ht.2

theorem canonicalize_noZero (ops : List Op) (h : NoZero ops = true) : NoZero (canonicalize ops) = true := by
  unfold canonicalize NoZero
  rw [List.all_reverse]
  exact foldl_canonStep_stepOk _ ops [] rfl h

/-- `tokenize` never produces a zero stride (`[::0]` is read as stride 1) -/
theorem tokenize_noZero (path : Str) (ops : List Op) (h : tokenize path = .ok ops) : NoZero ops = true := by
  unfold tokenize at h
  cases hl : tokLoop {} (scan none path) with
  | error e => rw [hl] at h; simp at h
  | ok st =>
    rw [hl] at h
    simp only [Except.ok.injEq] at h
    have hs := tokLoop_stepOk _ _ _ hl rfl
    have hr : NoZero st.toks.reverse = true := by unfold NoZero; rw [List.all_reverse]; exact hs
    subst h
    split
    · exact hr
    · exact canonicalize_noZero _ hr

/-! ### `find` -/

/-- the outcome of `find` given the evaluation result -/
def findResOf (single strict : Bool) (r : Except Err (List Pos)) : FindRes :=
  match r with
  | .error e => .err e
  | .ok res => if single then singleOf strict (.ok res) else .many res

/-- **`find` = the documented reading of the compiled path**, for every string, tree, start,
    `single` and `strict` -/
theorem find_denotes (root : Node) (start : Pos) (path : Str) (single strict : Bool) :
    find root start path single strict =
      match tokenize path with
      | .error e => .err e
      | .ok ops => findResOf single strict (denOps root strict ops start) := by
  unfold find
  cases ht : tokenize path with
  | error e => rfl
  | ok ops =>
    simp only [evalOps_denotes root strict ops start (tokenize_noZero path ops ht)]
    cases denOps root strict ops start with
    | error e => rfl
    | ok res =>
      cases single with
      | false => rfl
      | true =>
        simp only [findResOf, Bool.not_true, Bool.false_eq_true, if_false, if_true, singleOf]
        match res with
        | [] => rfl
        | [p] => rfl
        | p :: q :: r => rfl

/-- **the `single=True` table**: sole match, `None` for none, `LookupError` for several when
    strict, else the first -/
theorem single_spec (root : Node) (start : Pos) (path : Str) (strict : Bool) (ops : List Op)
    (ht : tokenize path = .ok ops) :
    find root start path true strict =
      match denOps root strict ops start with
      | .error e => .err e
      | .ok [] => .one none
      | .ok [p] => .one (some p)
      | .ok (p :: _ :: _) => if strict then .err .lookup else .one (some p) := by
  rw [find_denotes, ht]
  simp only [findResOf]
  cases denOps root strict ops start with
  | error e => rfl
  | ok res =>
    match res with
    | [] => rfl
    | [p] => rfl
    | p :: q :: r => rfl

/-- `[:]` with `single=True, strict=True` on a Dict with two fields raises -/
example : (match findResOf true true (denOps (.mk .map [] [.mk .scalar ['a'] [], .mk .scalar ['b'] []]) true
      [.slice none none none] []) with
    | .err .lookup => true
    | _ => false) = true := by decide

end Flatland.C14.Proofs
