/-
C14 — path expressions select what the documented path syntax denotes.
-/
import Flatland.Path
import Flatland.Spec.C14
namespace Flatland.C14.Proofs
open Flatland.Path Flatland.C14.Spec

end Flatland.C14.Proofs
