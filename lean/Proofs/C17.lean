/-
C17 — properties is a layered mapping: inherited downward, never leaking upward.

Theorems about model A (`Flatland/C17.lean`) against spec B (`Flatland/Spec/C17.lean`).
-/
import Proofs.Lemmas.C17Inv
namespace Flatland.C17.Proofs
open Flatland.C17 Flatland.C17.Spec

/-! ## no upward leak (non-interference) -/

/-- the classes a view inherits properties from (its MRO; for an instance, that of its class) -/
def viewMro (σ : State) : View → List ClassId
  | .cls w => σ.mroOf w
  | .inst i => match σ.insts[i]? with | some x => σ.mroOf x.cls | none => []

/-- `W` inherits from `V`: `V` is `W` itself or a class in the MRO of `W` (of `W`'s class) -/
def Inherits (σ : State) (W V : View) : Prop :=
  match V with
  | .cls v => v ∈ viewMro σ W
  | .inst i => W = .inst i

theorem tGet_setFrame (σ : State) (hs : NoShared σ) (v w : ClassId) (d d' : DescId) (f : Frame)
    (h : v ∉ σ.mroOf w) (k : Key) :
    tGet (σ.setFrame (σ.baseKey v d) f) w d' k = tGet σ w d' k := by
  unfold tGet tFrames
  rw [mroOf_setFrame, walk_setFrame]
  intro c hc
  exact baseKey_ne σ hs c v d d' (fun e => h (e ▸ hc))

theorem visible_setFrame (σ : State) (hs : NoShared σ) (v : ClassId) (d : DescId) (f : Frame)
    (W : View) (h : v ∉ viewMro σ W) :
    visible (σ.setFrame (σ.baseKey v d) f) W = visible σ W := by
  funext k
  cases W with
  | cls w =>
    simp only [visible, descOf_setFrame]
    split
    · rfl
    · rw [tGet_setFrame σ hs v w d _ f h]
  | inst i =>
    simp only [visible, insts_setFrame, descOf_setFrame]
    split
    · rfl
    · rename_i x hx
      split
      · rfl
      · split
        · rfl
        · simp only [viewMro, hx] at h
          simp only [iGet, tGet_setFrame σ hs v x.cls d _ f h]

theorem tWrite_state (σ : State) (v : ClassId) (d : DescId) (o : Op) :
    (tWrite σ v d o).1 = σ ∨ ∃ f, (tWrite σ v d o).1 = σ.setFrame (σ.baseKey v d) f := by
  cases o <;> simp only [tWrite, State.writeBase] <;> first
    | (left; trivial)
    | (right; exact ⟨_, rfl⟩)
    | (split <;> first | (left; trivial) | (right; exact ⟨_, rfl⟩))

theorem classOp_state (σ : State) (v : ClassId) (o : Op) :
    (classOp σ v o).1 = σ ∨ ∃ d f, (classOp σ v o).1 = σ.setFrame (σ.baseKey v d) f := by
  unfold classOp
  split
  · split
    · left; rfl
    · rename_i d _
      split
      · left; rfl
      · rcases tWrite_state σ v d o with h | ⟨f, h⟩
        · left; exact h
        · right; exact ⟨d, f, h⟩
  · left; rfl

/-- an operation through an instance view changes that instance's `__dict__` entry only -/
theorem instOp_state (σ : State) (i : InstId) (o : Op) :
    (instOp σ i o).1 = σ ∨ ∃ x, (instOp σ i o).1 = setInst σ i x := by
  unfold instOp
  split
  · left; rfl
  · split
    · right; exact ⟨_, rfl⟩
    · split
      · left; rfl
      · split
        · left; rfl
        · right; exact ⟨_, rfl⟩

theorem visible_setInst (σ : State) (i : InstId) (x : Inst) (W : View) (h : W ≠ .inst i) :
    visible (setInst σ i x) W = visible σ W := by
  funext k
  have hd : ∀ c, (setInst σ i x).descOf c = σ.descOf c := descOf_congr rfl
  cases W with
  | cls w => simp only [visible, hd, tGet_congr (σ := σ) (σ' := setInst σ i x) rfl rfl]
  | inst j =>
    have hj : i ≠ j := fun e => h (e ▸ rfl)
    simp only [visible, hd, iGet_congr (σ := σ) (σ' := setInst σ i x) rfl rfl]
    simp only [setInst, List.getElem?_set_ne hj]

/-- **No upward leak.**  An operation made through view `V` never changes what a view `W`
    that does not inherit from `V` shows: parents, siblings, cousins, their instances, other
    instances of the same class, and (for an operation through an instance) every other view. -/
theorem no_upward_leak (σ : State) (hs : NoShared σ) (V W : View) (o : Op)
    (h : ¬ Inherits σ W V) : visible (step σ (.op V o)).1 W = visible σ W := by
  cases V with
  | cls v =>
    simp only [step]
    rcases classOp_state σ v o with e | ⟨d, f, e⟩
    · rw [e]
    · rw [e]; exact visible_setFrame σ hs v d f W h
  | inst i =>
    simp only [step]
    rcases instOp_state σ i o with e | ⟨x, e⟩
    · rw [e]
    · rw [e]; exact visible_setInst σ i x W h

/-! ## reading is the overlay of the chain's layers -/

/-- every class of the chain of `c` (MRO up to the nearest fresh start) resolves `properties`
    to the descriptor `c` resolves it to.  Always true with single inheritance
    (`coherent_of_single`); can fail for `class X(A, B)` — see `read_is_overlay_fails_mi`. -/
def Coherent (σ : State) (c : ClassId) : Prop :=
  ∃ d, σ.descOf c = some d ∧
    ∀ x ∈ cut (fun x => (σ.ownOf x).isSome) (σ.mroOf c), σ.descOf x = some d

theorem descOf_of_head (σ : State) (x : ClassId) (tail : List ClassId) (d : DescId)
    (hm : σ.mroOf x = x :: tail) (ho : σ.ownOf x = some d) : σ.descOf x = some d := by
  simp [State.descOf, hm, ho]

theorem walk_eq_chain (σ : State) (hwf : WF σ) (d : DescId) (l : List ClassId)
    (hl : ∀ x ∈ l, x < σ.classes.length)
    (h : ∀ x ∈ cut (fun x => (σ.ownOf x).isSome) l, σ.descOf x = some d) :
    overlayAll ((σ.walk d l).map frameLayer)
      = overlayAll ((cut (fun x => (σ.ownOf x).isSome) l).map (absLayer σ)) := by
  induction l with
  | nil => rfl
  | cons x rest ih =>
    have hx : x < σ.classes.length := hl x (List.mem_cons_self ..)
    obtain ⟨tail, hm⟩ := hwf.mro_head x hx
    simp only [State.walk, cut]
    by_cases ho : σ.owns x d = true
    · have ho' : σ.ownOf x = some d := by simpa [State.owns] using ho
      simp only [ho, if_true, ho', Option.isSome_some, List.map_cons, List.map_nil]
      have : absLayer σ x = frameLayer (σ.frameD (.init d)) := by
        simp [absLayer, descOf_of_head σ x tail d hm ho', State.baseFrame, State.baseKey, ho]
      rw [this]
    · have hdx : σ.descOf x = some d := by
        apply h; simp only [cut]; split <;> simp
      have hnone : σ.ownOf x = none := by
        cases hox : σ.ownOf x with
        | none => rfl
        | some d' =>
          have := descOf_of_head σ x tail d' hm hox
          rw [hdx] at this
          simp only [Option.some.injEq] at this
          subst this
          simp [State.owns, hox] at ho
      have hrest := ih (fun y hy => hl y (List.mem_cons_of_mem _ hy)) (fun y hy => by
        apply h; simp only [cut, hnone, Option.isSome_none]; exact List.mem_cons_of_mem _ hy)
      simp only [ho, hnone, Option.isSome_none, Bool.false_eq_true, if_false, List.map_cons, overlayAll]
      have hl' : absLayer σ x = frameLayer (σ.frameD (.cls d x)) := by
        simp [absLayer, hdx, State.baseFrame, State.baseKey, ho]
      rw [hl', ← hrest]
      cases hg : AList.get? σ.frames (.cls d x) with
      | none =>
        funext k
        simp [State.frameD, hg, overlay, frameLayer]
      | some f =>
        simp [State.frameD, hg, overlayAll]

/-- **Reading is the overlay.**  What a class view shows is the overlay, from the most basic
    class of its chain down to the class itself, of the layers held for those classes. -/
theorem read_is_overlay_class (σ : State) (hwf : WF σ) (c : ClassId) (hc : Coherent σ c) :
    visible σ (.cls c) = Spec.visible (abs σ) (.cls c) := by
  obtain ⟨d, hd, hall⟩ := hc
  funext k
  simp only [visible, hd, tGet, tFrames, lookupFrames_overlay, Spec.visible, classVisible, chain, abs]
  rw [walk_eq_chain σ hwf d (σ.mroOf c) (fun x hx => hwf.mro_lt c x hx) hall]

/-- … and an instance view adds the instance's own layer on top; an instance that was assigned
    a plain mapping shows that mapping. -/
theorem read_is_overlay_inst (σ : State) (hwf : WF σ) (i : InstId) (x : Inst)
    (hx : σ.insts[i]? = some x) (hc : Coherent σ x.cls) :
    visible σ (.inst i) = Spec.visible (abs σ) (.inst i) := by
  have hcls := read_is_overlay_class σ hwf x.cls hc
  obtain ⟨d, hd, _⟩ := hc
  funext k
  have hcls' := congrFun hcls k
  simp only [visible, hd, Spec.visible] at hcls'
  simp only [visible, hx, Spec.visible, abs, List.getElem?_map, Option.map_some, absInst]
  cases hloc : x.loc with
  | plain m => rfl
  | storage f =>
    simp only [hd, iGet, overlay, frameLayer]
    cases hg : AList.get? f k with
    | none => simpa [abs] using hcls'
    | some s => cases s <;> simp [Except.toOption]

/-! ## the mutating methods have `dict` semantics on the visible mapping -/

/-- what class `v` inherits: everything its walk finds above its own frame -/
def belowC (σ : State) (v : ClassId) (d : DescId) : Mapping :=
  if σ.owns v d then Mapping.empty
  else fun k => (lookupFrames (σ.walk d (σ.mroOf v).tail) k).toOption

theorem frameLayer_nil : frameLayer [] = Layer.empty := rfl

theorem overlay_empty_layer (below : Mapping) : overlay below Layer.empty = below := by
  funext k; simp [overlay, Layer.empty]

theorem tGet_decomp (σ : State) (v : ClassId) (d : DescId) (tail : List ClassId)
    (hm : σ.mroOf v = v :: tail) (k : Key) :
    (tGet σ v d k).toOption = overlay (belowC σ v d) (frameLayer (σ.baseFrame v d)) k := by
  simp only [tGet, tFrames, hm, State.walk, belowC, State.baseFrame, State.baseKey, List.tail_cons]
  by_cases ho : σ.owns v d = true
  · simp only [ho, if_true, lookupFrames_overlay, List.map_cons, List.map_nil, overlayAll]
  · simp only [ho, Bool.false_eq_true, if_false]
    cases hg : AList.get? σ.frames (.cls d v) with
    | none =>
      simp only [State.frameD, hg, Option.getD_none, frameLayer_nil, overlay_empty_layer]
    | some f =>
      simp only [State.frameD, hg, Option.getD_some, lookupFrames_overlay, List.map_cons, overlayAll]

theorem baseFrame_setFrame (σ : State) (v : ClassId) (d : DescId) (f : Frame) :
    (σ.setFrame (σ.baseKey v d) f).baseFrame v d = f := by
  simp [State.baseFrame, baseKey_congr (σ := σ) (σ' := σ.setFrame (σ.baseKey v d) f) rfl, frameD_setFrame]

theorem belowC_setFrame (σ : State) (hwf : WF σ) (v : ClassId) (d : DescId) (f : Frame) :
    belowC (σ.setFrame (σ.baseKey v d) f) v d = belowC σ v d := by
  simp only [belowC, owns_setFrame, mroOf_setFrame]
  by_cases ho : σ.owns v d = true
  · simp [ho]
  · simp only [ho, Bool.false_eq_true, if_false]
    funext k
    rw [walk_setFrame]
    intro c hc
    have hnd := hwf.mro_nodup v
    have hne : c ≠ v := by
      intro e; subst e
      cases hmv : σ.mroOf c with
      | nil => simp [hmv] at hc
      | cons a tl =>
        rw [hmv] at hc hnd
        simp only [List.tail_cons] at hc
        -- `c` occurs in the tail; it is also the head whenever the class exists
        by_cases hlt : c < σ.classes.length
        · obtain ⟨tl', e⟩ := hwf.mro_head c hlt
          rw [hmv] at e
          simp only [List.cons.injEq] at e
          obtain ⟨rfl, rfl⟩ := e
          exact (List.nodup_cons.1 hnd).1 hc
        · exact hlt (hwf.mro_lt c c (by rw [hmv]; exact List.mem_cons_of_mem _ hc))
    unfold State.baseKey
    simp only [ho, Bool.false_eq_true, if_false]
    split <;> simp [hne]

theorem except_cases {ε α : Type} (x : Except ε α) : (∃ e, x = .error e) ∨ (∃ a, x = .ok a) := by
  cases x <;> simp

/-- what `_TypeLookup`'s writing methods leave in the class's own frame, as a layer -/
theorem tWrite_layer (σ : State) (v : ClassId) (d : DescId) (o : Op) :
    frameLayer ((tWrite σ v d o).1.baseFrame v d)
      = applyOp (fun k => (tGet σ v d k).toOption) (frameLayer (σ.baseFrame v d)) o := by
  cases o <;> simp only [tWrite, applyOp, State.writeBase]
  case setitem k x => rw [baseFrame_setFrame, frameLayer_set]
  case delitem k =>
    rcases except_cases (tGet σ v d k) with ⟨e, hg⟩ | ⟨x, hg⟩
    · simp [hg, Except.toOption]
    · simp only [hg, Except.toOption, Option.isSome_some, if_true, baseFrame_setFrame, frameLayer_set]
  case clear =>
    rw [baseFrame_setFrame, frameLayer_foldl_deleted]
    funext k
    simp only [mem_keys_tItems]
  case pop k dflt =>
    rcases except_cases (tGet σ v d k) with ⟨e, hg⟩ | ⟨x, hg⟩
    · simp [hg, Except.toOption]
    · simp only [hg, Except.toOption, Option.isSome_some, if_true, baseFrame_setFrame, frameLayer_set]
  case setdefault k dv =>
    rcases except_cases (tGet σ v d k) with ⟨e, hg⟩ | ⟨x, hg⟩
    · simp only [hg, Except.toOption, Option.isSome_none, Bool.false_eq_true, if_false,
        baseFrame_setFrame, frameLayer_set]
    · simp [hg, Except.toOption]
  case update ps => rw [baseFrame_setFrame, frameLayer_update]

theorem belowC_tWrite (σ : State) (hwf : WF σ) (v : ClassId) (d : DescId) (o : Op) :
    belowC (tWrite σ v d o).1 v d = belowC σ v d := by
  rcases tWrite_state σ v d o with e | ⟨f, e⟩ <;> rw [e]
  exact belowC_setFrame σ hwf v d f

theorem tWrite_classes (σ : State) (v : ClassId) (d : DescId) (o : Op) :
    (tWrite σ v d o).1.classes = σ.classes := by
  rcases tWrite_state σ v d o with e | ⟨f, e⟩ <;> rw [e]; rfl

/-- **dict semantics, class views.**  After any method `o` called through the view of class
    `v`, that view shows exactly what a Python dict holding the previously visible mapping would
    hold after `o`. -/
theorem dict_semantics_class (σ : State) (hwf : WF σ) (v : ClassId) (hv : v < σ.classes.length)
    (d : DescId) (hd : σ.descOf v = some d) (o : Op) :
    visible (step σ (.op (.cls v) o)).1 (.cls v) = dictApply o (visible σ (.cls v)) := by
  obtain ⟨tail, hm⟩ := hwf.mro_head v hv
  have hvis : visible σ (.cls v) = overlay (belowC σ v d) (frameLayer (σ.baseFrame v d)) := by
    funext k; simp only [visible, hd]; exact tGet_decomp σ v d tail hm k
  simp only [step, classOp, hv, if_true, hd]
  cases hr : dictLikeRead (tReader σ v d) o with
  | some r =>
    simp only
    cases o <;> simp_all [dictLikeRead, dictApply]
  | none =>
    simp only
    have hcl := tWrite_classes σ v d o
    have hd' : (tWrite σ v d o).1.descOf v = some d := by rw [descOf_congr hcl]; exact hd
    have hm' : (tWrite σ v d o).1.mroOf v = v :: tail := by rw [mroOf_congr hcl]; exact hm
    have : visible (tWrite σ v d o).1 (.cls v)
        = overlay (belowC σ v d) (applyOp (visible σ (.cls v)) (frameLayer (σ.baseFrame v d)) o) := by
      funext k
      simp only [visible, hd']
      rw [tGet_decomp _ v d tail hm' k, belowC_tWrite σ hwf, tWrite_layer]
      congr 2
      funext k'; simp only [visible, hd]
    rw [this, hvis, overlay_applyOp]

/-! ### instance views -/

theorem iGet_overlay (σ : State) (f : Frame) (c : ClassId) (d : DescId) (k : Key) :
    (iGet σ f c d k).toOption = overlay (fun k => (tGet σ c d k).toOption) (frameLayer f) k := by
  simp only [iGet, overlay, frameLayer]
  cases hg : AList.get? f k with
  | none => rfl
  | some s => cases s <;> simp [Except.toOption]

/-- what `_InstanceLookup`'s writing methods leave in `local`, as a layer (all but `clear`) -/
theorem iWrite_layer (σ : State) (f : Frame) (c : ClassId) (d : DescId) (o : Op) (hc : o ≠ .clear) :
    frameLayer (iWrite σ f c d o).1
      = applyOp (fun k => (iGet σ f c d k).toOption) (frameLayer f) o := by
  cases o <;> simp only [iWrite, applyOp]
  case setitem k x => rw [frameLayer_set]
  case delitem k =>
    rcases except_cases (iGet σ f c d k) with ⟨e, hg⟩ | ⟨x, hg⟩
    · simp [hg, Except.toOption]
    · simp only [hg, Except.toOption, Option.isSome_some, if_true, frameLayer_set]
  case clear => exact absurd rfl hc
  case pop k dflt =>
    rcases except_cases (iGet σ f c d k) with ⟨e, hg⟩ | ⟨x, hg⟩
    · simp [hg, Except.toOption]
    · simp only [hg, Except.toOption, Option.isSome_some, if_true, frameLayer_set]
  case setdefault k dv =>
    rcases except_cases (iGet σ f c d k) with ⟨e, hg⟩ | ⟨x, hg⟩
    · simp only [hg, Except.toOption, Option.isSome_none, Bool.false_eq_true, if_false, frameLayer_set]
    · simp [hg, Except.toOption]
  case update ps => rw [frameLayer_update]

/-- `_InstanceLookup.clear()`: `local` is emptied, then every key the class shows is tombstoned -/
theorem iWrite_clear_layer (σ : State) (f : Frame) (c : ClassId) (d : DescId) :
    frameLayer (iWrite σ f c d .clear).1
      = fun k => if ((tGet σ c d k).toOption).isSome then some .deleted else none := by
  simp only [iWrite, frameLayer_foldl_deleted, mem_keys_tItems]
  rfl

theorem overlay_clear (below : Mapping) :
    overlay below (fun k => if (below k).isSome then some .deleted else none) = Mapping.empty := by
  funext k
  simp only [overlay, Mapping.empty]
  cases h : below k <;> simp

theorem visible_inst_storage (σ : State) (i : InstId) (y : Inst) (f : Frame) (d : DescId)
    (hy : σ.insts[i]? = some y) (hl : y.loc = .storage f) (hd : σ.descOf y.cls = some d) :
    visible σ (.inst i) = overlay (fun k => (tGet σ y.cls d k).toOption) (frameLayer f) := by
  funext k; simp only [visible, hy, hl, hd, iGet_overlay]

theorem lt_of_getElem? {α : Type} (l : List α) (i : Nat) (x : α) (h : l[i]? = some x) : i < l.length := by
  rcases Nat.lt_or_ge i l.length with h' | h'
  · exact h'
  · simp [List.getElem?_eq_none h'] at h

/-- **dict semantics, instance views** (instances that still use `local_storage`) -/
theorem dict_semantics_inst (σ : State) (i : InstId) (x : Inst) (f : Frame) (d : DescId)
    (hx : σ.insts[i]? = some x) (hloc : x.loc = .storage f) (hd : σ.descOf x.cls = some d) (o : Op) :
    visible (step σ (.op (.inst i) o)).1 (.inst i) = dictApply o (visible σ (.inst i)) := by
  have hvis := visible_inst_storage σ i x f d hx hloc hd
  simp only [step, instOp, hx, hloc, hd]
  cases hr : dictLikeRead (iReader σ f x.cls d) o with
  | some r =>
    simp only
    cases o <;> simp_all [dictLikeRead, dictApply]
  | none =>
    simp only
    have hlt := lt_of_getElem? _ _ _ hx
    have hvis' : ∀ f', visible (setInst σ i { x with loc := .storage f' }) (.inst i)
        = overlay (fun k => (tGet σ x.cls d k).toOption) (frameLayer f') := by
      intro f'
      have h1 := visible_inst_storage (setInst σ i { x with loc := .storage f' }) i
        { x with loc := .storage f' } f' d (by simp [setInst, List.getElem?_set_self hlt]) rfl
        ((descOf_congr (σ := σ) rfl x.cls).trans hd)
      rw [h1]
      congr 1
      funext k
      exact congrArg _ (tGet_congr (σ := σ) (σ' := setInst σ i { x with loc := .storage f' }) rfl rfl x.cls d k)
    rw [hvis']
    by_cases hc : o = .clear
    · subst hc
      rw [iWrite_clear_layer, hvis]
      simp only [dictApply]
      exact overlay_clear _
    · rw [iWrite_layer σ f x.cls d o hc, hvis]
      have : (fun k => (iGet σ f x.cls d k).toOption)
          = overlay (fun k => (tGet σ x.cls d k).toOption) (frameLayer f) := by
        funext k; exact iGet_overlay σ f x.cls d k
      rw [this, overlay_applyOp]

/-! ### results of the methods -/

theorem lookupFrames_error (fs : List Frame) (k : Key) (e : Err) (h : lookupFrames fs k = .error e) :
    e = .keyError := by
  induction fs with
  | nil => simp [lookupFrames] at h; exact h.symm
  | cons f r ih =>
    simp only [lookupFrames] at h
    split at h
    · exact ih h
    · simp at h; exact h.symm
    · simp at h

theorem tGet_error (σ : State) (v : ClassId) (d : DescId) (k : Key) (e : Err)
    (h : tGet σ v d k = .error e) : e = .keyError := lookupFrames_error _ k e h

theorem iGet_error (σ : State) (f : Frame) (v : ClassId) (d : DescId) (k : Key) (e : Err)
    (h : iGet σ f v d k = .error e) : e = .keyError := by
  simp only [iGet] at h
  split at h
  · simp at h; exact h.symm
  · simp at h
  · exact tGet_error σ v d k e h

theorem itemsOf_tItems (σ : State) (v : ClassId) (d : DescId) (hd : σ.descOf v = some d) :
    ItemsOf (visible σ (.cls v)) (tItems σ v d) := by
  refine ⟨nodup_tItems σ v d, fun k x => ?_⟩
  simp only [visible, hd, ← get?_tItems]
  exact ⟨get?_of_mem_nodup _ k x (nodup_tItems σ v d), mem_of_get? _ k x⟩

/-- results of the order-free methods through a class view are those of a Python dict -/
theorem dict_result_class (σ : State) (v : ClassId) (hv : v < σ.classes.length)
    (d : DescId) (hd : σ.descOf v = some d) (o : Op) (r : Res)
    (h : dictResult o (visible σ (.cls v)) = some r) : (step σ (.op (.cls v) o)).2 = r := by
  have hvis : ∀ k, visible σ (.cls v) k = (tGet σ v d k).toOption := fun k => by simp [visible, hd]
  have hmem := mem_keys_tItems σ v d
  simp only [step, classOp, hv, if_true, hd]
  cases o <;> simp only [dictResult, Option.some.injEq, reduceCtorEq] at h <;>
    simp only [dictLikeRead, tReader, tWrite] <;> subst h
  case getitem k =>
    rcases except_cases (tGet σ v d k) with ⟨e, hg⟩ | ⟨x, hg⟩
    · have := tGet_error σ v d k e hg; subst this; simp [hvis, hg, Except.toOption]
    · simp [hvis, hg, Except.toOption]
  case setitem k x => rfl
  case delitem k =>
    rcases except_cases (tGet σ v d k) with ⟨e, hg⟩ | ⟨x, hg⟩
    · have := tGet_error σ v d k e hg; subst this; simp [hvis, hg, Except.toOption]
    · simp [hvis, hg, Except.toOption]
  case clear => rfl
  case pop k dflt =>
    rcases except_cases (tGet σ v d k) with ⟨e, hg⟩ | ⟨x, hg⟩
    · have := tGet_error σ v d k e hg; subst this; cases dflt <;> simp [hvis, hg, Except.toOption]
    · cases dflt <;> simp [hvis, hg, Except.toOption]
  case setdefault k dv =>
    rcases except_cases (tGet σ v d k) with ⟨e, hg⟩ | ⟨x, hg⟩ <;> simp [hvis, hg, Except.toOption]
  case update ps => rfl
  case get k dv =>
    rcases except_cases (tGet σ v d k) with ⟨e, hg⟩ | ⟨x, hg⟩ <;> simp [hvis, hg, Except.toOption]
  case contains k =>
    simp only [hvis, hmem]
    cases (tGet σ v d k).toOption <;> simp
  case popitem => rfl

/-- results of the iterating methods through a class view: those of a Python dict that lists
    the visible mapping in the order `items()` chose -/
theorem iter_result_class (σ : State) (v : ClassId) (hv : v < σ.classes.length)
    (d : DescId) (hd : σ.descOf v = some d) (o : Op) :
    ∃ l, ItemsOf (visible σ (.cls v)) l ∧
      ∀ r, iterResult l o = some r → (step σ (.op (.cls v) o)).2 = r := by
  refine ⟨tItems σ v d, itemsOf_tItems σ v d hd, fun r h => ?_⟩
  have hof := ofPairs_of_nodup (tItems σ v d) (nodup_tItems σ v d)
  simp only [step, classOp, hv, if_true, hd]
  cases o <;> simp only [iterResult, Option.some.injEq, reduceCtorEq] at h <;>
    simp only [dictLikeRead, tReader, hof] <;> exact h

/-! ## writes are visible below -/

/-- class `w` inherits from class `v` and nothing between them shadows key `k`: the MRO of `w`
    is some classes `pre` followed by the MRO of `v`; no class of `pre` restarts `properties`
    or holds `k` (value or tombstone) in its own frame -/
def Unshadowed (σ : State) (w v : ClassId) (k : Key) : Prop :=
  ∃ pre d, σ.mroOf w = pre ++ σ.mroOf v ∧ σ.descOf v = some d ∧
    ∀ x ∈ pre, σ.ownOf x = none ∧ AList.get? (σ.frameD (.cls d x)) k = none

theorem findSome?_append_none {α β : Type} (f : α → Option β) (a b : List α)
    (h : ∀ x ∈ a, f x = none) : (a ++ b).findSome? f = b.findSome? f := by
  induction a with
  | nil => rfl
  | cons x r ih =>
    simp only [List.cons_append, List.findSome?_cons, h x (List.mem_cons_self ..)]
    exact ih (fun y hy => h y (List.mem_cons_of_mem _ hy))

theorem lookup_walk_append (σ : State) (d : DescId) (pre rest : List ClassId) (k : Key)
    (h : ∀ x ∈ pre, σ.ownOf x = none ∧ AList.get? (σ.frameD (.cls d x)) k = none) :
    lookupFrames (σ.walk d (pre ++ rest)) k = lookupFrames (σ.walk d rest) k := by
  induction pre with
  | nil => rfl
  | cons x r ih =>
    have hx := h x (List.mem_cons_self ..)
    have ih' := ih (fun y hy => h y (List.mem_cons_of_mem _ hy))
    have ho : σ.owns x d = false := by simp [State.owns, hx.1]
    simp only [List.cons_append, State.walk, ho, Bool.false_eq_true, if_false]
    cases hg : AList.get? σ.frames (.cls d x) with
    | none => exact ih'
    | some f =>
      have : AList.get? f k = none := by simpa [State.frameD, hg] using hx.2
      simp only [lookupFrames, this, ih']

/-- a class shows, for an unshadowed key, exactly what the ancestor shows -/
theorem sees_ancestor (σ : State) (w v : ClassId) (k : Key) (h : Unshadowed σ w v k) :
    visible σ (.cls w) k = visible σ (.cls v) k := by
  obtain ⟨pre, d, hm, hd, hpre⟩ := h
  have hdw : σ.descOf w = some d := by
    unfold State.descOf at hd ⊢
    rw [hm, findSome?_append_none _ _ _ (fun x hx => (hpre x hx).1)]
    exact hd
  simp only [visible, hd, hdw, tGet, tFrames, hm, lookup_walk_append σ d pre _ k hpre]

/-- an instance shows, for a key its local storage does not hold, what its class shows -/
theorem inst_sees_class (σ : State) (i : InstId) (x : Inst) (f : Frame) (k : Key)
    (hx : σ.insts[i]? = some x) (hloc : x.loc = .storage f) (hk : AList.get? f k = none) :
    visible σ (.inst i) k = visible σ (.cls x.cls) k := by
  simp only [visible, hx, hloc]
  cases hd : σ.descOf x.cls with
  | none => rfl
  | some d => simp only [iGet, hk]

theorem unshadowed_step (σ : State) (hwf : WF σ) (w v : ClassId) (hv : v < σ.classes.length)
    (k : Key) (o : Op) (h : Unshadowed σ w v k) :
    Unshadowed (step σ (.op (.cls v) o)).1 w v k := by
  obtain ⟨pre, d, hm, hd, hpre⟩ := h
  simp only [step]
  rcases classOp_state σ v o with e | ⟨d', f, e⟩
  · rw [e]; exact ⟨pre, d, hm, hd, hpre⟩
  · rw [e]
    refine ⟨pre, d, hm, hd, fun x hx => ⟨(hpre x hx).1, ?_⟩⟩
    have hne : x ≠ v := by
      intro e'; subst e'
      obtain ⟨tail, hmv⟩ := hwf.mro_head x hv
      have hnd := hwf.mro_nodup w
      rw [hm, hmv] at hnd
      exact (List.nodup_append.1 hnd).2.2 x hx x (by simp) rfl
    rw [frameD_setFrame, if_neg]
    · exact (hpre x hx).2
    · unfold State.baseKey; split <;> simp [hne.symm]

/-- **Writes are visible below.**  After any method called through the view of class `v`,
    every class `w` that inherits from `v` without shadowing key `k` shows for `k` what a
    Python dict holding `v`'s previously visible mapping would hold after that method. -/
theorem write_visible_below (σ : State) (hwf : WF σ) (w v : ClassId) (hv : v < σ.classes.length)
    (k : Key) (o : Op) (h : Unshadowed σ w v k) :
    visible (step σ (.op (.cls v) o)).1 (.cls w) k = dictApply o (visible σ (.cls v)) k := by
  obtain ⟨_, d, _, hd, _⟩ := id h
  rw [sees_ancestor _ w v k (unshadowed_step σ hwf w v hv k o h),
    dict_semantics_class σ hwf v hv d hd o]

theorem classOp_insts (σ : State) (v : ClassId) (o : Op) : (classOp σ v o).1.insts = σ.insts := by
  rcases classOp_state σ v o with e | ⟨d, f, e⟩ <;> rw [e]; rfl

/-- … and so does every instance of such a class whose local storage does not hold `k` -/
theorem write_visible_below_inst (σ : State) (hwf : WF σ) (i : InstId) (x : Inst) (f : Frame)
    (v : ClassId) (hv : v < σ.classes.length) (k : Key) (o : Op)
    (hx : σ.insts[i]? = some x) (hloc : x.loc = .storage f) (hk : AList.get? f k = none)
    (h : Unshadowed σ x.cls v k) :
    visible (step σ (.op (.cls v) o)).1 (.inst i) k = dictApply o (visible σ (.cls v)) k := by
  have hx' : (step σ (.op (.cls v) o)).1.insts[i]? = some x := by
    simp only [step, classOp_insts]; exact hx
  rw [inst_sees_class _ i x f k hx' hloc hk]
  exact write_visible_below σ hwf x.cls v hv k o h

/-! ## detached instances -/

/-- the command is not addressed to instance `i` -/
def NotAddressed (i : InstId) : Cmd → Prop
  | .op (.inst j) _ => j ≠ i
  | .assign j _ => j ≠ i
  | _ => True

theorem step_insts_other (σ : State) (i : InstId) (x : Inst) (hx : σ.insts[i]? = some x)
    (cmd : Cmd) (hc : NotAddressed i cmd) : (step σ cmd).1.insts[i]? = some x := by
  have hlt := lt_of_getElem? _ _ _ hx
  cases cmd with
  | op V o =>
    cases V with
    | cls c => simp only [step, classOp_insts]; exact hx
    | inst j =>
      have hj : j ≠ i := hc
      simp only [step]
      rcases instOp_state σ j o with e | ⟨y, e⟩ <;> rw [e]
      · exact hx
      · simp only [setInst, List.getElem?_set_ne hj]; exact hx
  | subclass p => simp only [step]; split <;> exact hx
  | subclassMI t => simp only [step]; split <;> exact hx
  | usingProps p init => simp only [step]; split <;> exact hx
  | usingShared p ow init =>
    simp only [step]; split
    · split <;> exact hx
    · exact hx
  | withProps p ps =>
    simp only [step]; split
    · rw [classOp_insts]; exact hx
    · exact hx
  | newInst c =>
    simp only [step]; split
    · simp only [List.getElem?_append_left hlt]; exact hx
    · exact hx
  | newInstWith c m =>
    simp only [step]; split
    · simp only [List.getElem?_append_left hlt]; exact hx
    · exact hx
  | assign j m =>
    have hj : j ≠ i := hc
    simp only [step]; split
    · exact hx
    · simp only [setInst, List.getElem?_set_ne hj]; exact hx
  | newInstCompound c m =>
    simp only [step]; split
    · show (σ.insts ++ _)[i]? = _
      simp only [List.getElem?_append_left hlt]; exact hx
    · exact hx

/-- **Detached.**  An instance that was assigned a plain mapping shows that mapping and nothing
    else, and no command addressed to another view (any class, any other instance, any
    derivation or instantiation) changes it. -/
theorem detached (σ : State) (i : InstId) (x : Inst) (m : Dict Val)
    (hx : σ.insts[i]? = some x) (hloc : x.loc = .plain m) :
    visible σ (.inst i) = (fun k => AList.get? m k) ∧
    ∀ cmd, NotAddressed i cmd → visible (step σ cmd).1 (.inst i) = visible σ (.inst i) := by
  have h1 : ∀ σ' : State, σ'.insts[i]? = some x → visible σ' (.inst i) = (fun k => AList.get? m k) := by
    intro σ' h; funext k; simp only [visible, h, hloc]
  exact ⟨h1 σ hx, fun cmd hc => by rw [h1 _ (step_insts_other σ i x hx cmd hc), h1 σ hx]⟩

/-- lifted to histories: no sequence of commands addressed elsewhere changes a detached instance -/
theorem detached_history (i : InstId) (x : Inst) (m : Dict Val) (hloc : x.loc = .plain m) :
    ∀ (cmds : List Cmd) (σ : State), σ.insts[i]? = some x → (∀ c ∈ cmds, NotAddressed i c) →
      visible (run σ cmds).1 (.inst i) = (fun k => AList.get? m k)
  | [], σ, hx, _ => (detached σ i x m hx hloc).1
  | c :: cs, σ, hx, hall => by
    simp only [run]
    exact detached_history i x m hloc cs (step σ c).1
      (step_insts_other σ i x hx c (hall c (List.mem_cons_self ..)))
      (fun c' hc' => hall c' (List.mem_cons_of_mem _ hc'))

/-! ## invariants along histories -/

theorem classOp_state' (σ : State) (v : ClassId) (o : Op) :
    (classOp σ v o).1 = σ ∨ ∃ d f, v < σ.classes.length ∧ σ.descOf v = some d ∧
      (classOp σ v o).1 = σ.setFrame (σ.baseKey v d) f := by
  unfold classOp
  split
  · rename_i hv
    split
    · left; rfl
    · rename_i d hd
      split
      · left; rfl
      · rcases tWrite_state σ v d o with h | ⟨f, h⟩
        · left; exact h
        · right; exact ⟨d, f, hv, hd, h⟩
  · left; rfl

theorem instOp_state' (σ : State) (i : InstId) (o : Op) :
    (instOp σ i o).1 = σ ∨ ∃ x y, σ.insts[i]? = some x ∧ y.cls = x.cls ∧
      (instOp σ i o).1 = setInst σ i y := by
  unfold instOp
  split
  · left; rfl
  · rename_i x hx
    split
    · right; exact ⟨x, { x with loc := .plain _ }, hx, rfl, rfl⟩
    · split
      · left; rfl
      · split
        · left; rfl
        · right; exact ⟨x, { x with loc := .storage _ }, hx, rfl, rfl⟩

/-- side condition on the inputs the model takes from Python: a C3 linearisation lists no class twice -/
def CmdOK : Cmd → Prop
  | .subclassMI tail => tail.Nodup
  | _ => True

/-- formerly "the command does not hand one `Properties` object to a second class" (KF-C17-b).
    Since /repo 936c1b4 handing the same `Properties` object to a second class shares nothing
    (each class gets a copy of its initial mapping), so no command is excluded any more: the
    predicate is kept, as `True`, for the statements that carried it as a hypothesis. -/
def NoSharing : Cmd → Prop := fun _ => True

theorem WF_classOp (σ : State) (hwf : WF σ) (v : ClassId) (o : Op) : WF (classOp σ v o).1 := by
  rcases classOp_state' σ v o with e | ⟨d, f, hv, hd, e⟩ <;> rw [e]
  · exact hwf
  · exact WF_setFrame σ hwf _ f (baseKey_lt σ hwf v d hv hd)

theorem mro_tail_lt (σ : State) (hwf : WF σ) (p : ClassId) : ∀ x ∈ σ.mroOf p, x < σ.classes.length :=
  fun x hx => hwf.mro_lt p x hx

theorem WF_instOp (σ : State) (hwf : WF σ) (i : InstId) (o : Op) : WF (instOp σ i o).1 := by
  rcases instOp_state' σ i o with e | ⟨x, y, hx, hy, e⟩ <;> rw [e]
  · exact hwf
  · exact WF_setInst σ hwf i y (hy ▸ hwf.inst_lt i x hx)

/-- the store stays well formed along every history -/
theorem WF_step (σ : State) (hwf : WF σ) (cmd : Cmd) (hok : CmdOK cmd) : WF (step σ cmd).1 := by
  cases cmd with
  | op V o =>
    cases V with
    | cls c => exact WF_classOp σ hwf c o
    | inst i => exact WF_instOp σ hwf i o
  | subclass p =>
    simp only [step]; split
    · exact WF_addClass σ hwf _ none (fun x hx => hwf.mro_lt p x hx) (hwf.mro_nodup p) (by simp)
    · exact hwf
  | subclassMI tail =>
    simp only [step]; split
    · rename_i h
      exact WF_addClass σ hwf tail none (fun x hx => by simpa using List.all_eq_true.1 h x hx) hok (by simp)
    · exact hwf
  | usingProps p init =>
    simp only [step]; split
    · exact WF_usingPropsStep σ hwf p init
    · exact hwf
  | usingShared p ow init =>
    simp only [step]; split
    · split
      · exact WF_usingPropsStep σ hwf p init
      · exact hwf
    · exact hwf
  | withProps p ps =>
    simp only [step]; split
    · exact WF_classOp _ (WF_addClass σ hwf _ none (fun x hx => hwf.mro_lt p x hx) (hwf.mro_nodup p) (by simp)) _ _
    · exact hwf
  | newInst c =>
    simp only [step]; split
    · rename_i h; exact WF_addInst σ hwf _ h
    · exact hwf
  | newInstWith c m =>
    simp only [step]; split
    · rename_i h; exact WF_addInst σ hwf _ h
    · exact hwf
  | assign i m =>
    simp only [step]; split
    · exact hwf
    · rename_i x hx; exact WF_setInst σ hwf i _ (hwf.inst_lt i x hx)
  | newInstCompound c m =>
    simp only [step]; split
    · have h1 := WF_usingPropsStep σ hwf c m
      exact WF_addInst _ h1 ⟨σ.classes.length, .storage []⟩ (by simp [usingPropsStep, addClass])
    · exact hwf

theorem NoShared_addClass (σ : State) (hs : NoShared σ) (tail : List ClassId) (own : Option DescId)
    (hown : ∀ d, own = some d → ∀ c, σ.ownOf c ≠ some d) : NoShared (addClass σ tail own) := by
  intro c c' d h h'
  rw [ownOf_addClass] at h h'
  split at h <;> split at h'
  · rename_i e e'; rw [e, e']
  · exact absurd h' (hown d h c')
  · exact absurd h (hown d h' c)
  · exact hs c c' d h h'

theorem NoShared_congr {σ σ' : State} (hc : σ'.classes = σ.classes) (hs : NoShared σ) : NoShared σ' := by
  intro c c' d h h'
  rw [ownOf_congr hc] at h h'
  exact hs c c' d h h'

theorem NoShared_classOp (σ : State) (hs : NoShared σ) (v : ClassId) (o : Op) : NoShared (classOp σ v o).1 := by
  rcases classOp_state σ v o with e | ⟨d, f, e⟩ <;> rw [e]
  · exact hs
  · exact NoShared_congr rfl hs

theorem NoShared_usingPropsStep (σ : State) (hwf : WF σ) (hs : NoShared σ) (p : ClassId)
    (init : List (Key × Val)) : NoShared (usingPropsStep σ p init) := by
  apply NoShared_congr (σ := addClass σ (σ.mroOf p) (some σ.ndesc)) rfl
  apply NoShared_addClass σ hs
  intro d h c hc
  simp only [Option.some.injEq] at h; subst h
  exact Nat.lt_irrefl _ (hwf.own_lt c _ hc)

/-- no history without `using(properties=<shared Properties object>)` ever makes two classes share one -/
theorem NoShared_step (σ : State) (hwf : WF σ) (hs : NoShared σ) (cmd : Cmd) (hn : NoSharing cmd) :
    NoShared (step σ cmd).1 := by
  cases cmd with
  | op V o =>
    cases V with
    | cls c => exact NoShared_classOp σ hs c o
    | inst i =>
      simp only [step]
      rcases instOp_state σ i o with e | ⟨x, e⟩ <;> rw [e]
      · exact hs
      · exact NoShared_congr rfl hs
  | subclass p =>
    simp only [step]; split
    · exact NoShared_addClass σ hs _ none (by simp)
    · exact hs
  | subclassMI tail =>
    simp only [step]; split
    · exact NoShared_addClass σ hs _ none (by simp)
    · exact hs
  | usingProps p init =>
    simp only [step]; split
    · exact NoShared_usingPropsStep σ hwf hs p init
    · exact hs
  | usingShared p ow init =>
    simp only [step]; split
    · split
      · exact NoShared_usingPropsStep σ hwf hs p init
      · exact hs
    · exact hs
  | withProps p ps =>
    simp only [step]; split
    · exact NoShared_classOp _ (NoShared_addClass σ hs _ none (by simp)) _ _
    · exact hs
  | newInst c => simp only [step]; split <;> first | exact NoShared_congr rfl hs | exact hs
  | newInstWith c m => simp only [step]; split <;> first | exact NoShared_congr rfl hs | exact hs
  | assign i m => simp only [step]; split <;> first | exact hs | exact NoShared_congr rfl hs
  | newInstCompound c m =>
    simp only [step]; split
    · exact NoShared_congr (σ := usingPropsStep σ c m) rfl (NoShared_usingPropsStep σ hwf hs c m)
    · exact hs

theorem WF_initState (init : List (Key × Val)) : WF (initState init) where
  mro_lt := by
    intro c x hx
    cases c with
    | zero => simp [initState, State.mroOf] at hx; simp [initState, hx]
    | succ n => simp [initState, State.mroOf] at hx
  mro_head := by
    intro c hc
    have : c = 0 := by simp [initState] at hc; exact hc
    subst this; exact ⟨[], rfl⟩
  mro_nodup := by
    intro c
    cases c with
    | zero => simp [initState, State.mroOf]
    | succ n => simp [initState, State.mroOf]
  own_lt := by
    intro c d h
    cases c with
    | zero => simp [initState, State.ownOf] at h; simp [initState, ← h]
    | succ n => simp [initState, State.ownOf] at h
  key_lt := by
    intro key f h
    simp only [initState, List.mem_singleton, Prod.mk.injEq] at h
    rw [h.1]; simp [initState]
  inst_lt := by intro i x h; simp [initState] at h

theorem NoShared_initState (init : List (Key × Val)) : NoShared (initState init) := by
  intro c c' d h h'
  cases c <;> cases c' <;> simp_all [initState, State.ownOf]

/-! ## no upward leak, for whole histories -/

/-- the view exists in the store -/
def ValidView (σ : State) : View → Prop
  | .cls w => w < σ.classes.length
  | .inst i => i < σ.insts.length

theorem visible_congr_insts {σ σ' : State} (hc : σ'.classes = σ.classes) (hf : σ'.frames = σ.frames)
    (W : View) (hi : ∀ i, W = .inst i → σ'.insts[i]? = σ.insts[i]?) : visible σ' W = visible σ W := by
  funext k
  cases W with
  | cls w => simp only [visible, descOf_congr hc, tGet_congr hc hf]
  | inst i => simp only [visible, hi i rfl, descOf_congr hc, iGet_congr hc hf]

theorem viewMro_lt (σ : State) (hwf : WF σ) (W : View) : ∀ x ∈ viewMro σ W, x < σ.classes.length := by
  intro x hx
  cases W with
  | cls w => exact hwf.mro_lt w x hx
  | inst i =>
    simp only [viewMro] at hx
    split at hx
    · rename_i y _; exact hwf.mro_lt y.cls x hx
    · simp at hx

theorem ne_of_lt' {a b : Nat} (h : a < b) : a ≠ b := Nat.ne_of_lt h

/-- deriving a class (with any descriptor, any new frames under a *new* descriptor id) does not
    change what an existing view shows -/
theorem visible_extend (σ τ : State) (hwf : WF σ) (tail : List ClassId) (own : Option DescId)
    (hcl : τ.classes = (addClass σ tail own).classes) (hin : τ.insts = σ.insts)
    (hframes : ∀ key, (∀ d, key = FrameKey.init d → d < σ.ndesc) →
      (∀ d c, key = FrameKey.cls d c → d < σ.ndesc) → AList.get? τ.frames key = AList.get? σ.frames key)
    (W : View) (hW : ValidView σ W) : visible τ W = visible σ W := by
  have hm : ∀ c, c < σ.classes.length → τ.mroOf c = σ.mroOf c := by
    intro c hc
    exact (mroOf_congr (σ := addClass σ tail own) hcl c).trans
      (by rw [mroOf_addClass, if_neg (ne_of_lt' hc)])
  have ho : ∀ c, c < σ.classes.length → τ.ownOf c = σ.ownOf c := by
    intro c hc
    exact (ownOf_congr (σ := addClass σ tail own) hcl c).trans
      (by rw [ownOf_addClass, if_neg (ne_of_lt' hc)])
  have hfr : ∀ w d, σ.descOf w = some d → ∀ x,
      AList.get? τ.frames (σ.baseKey x d) = AList.get? σ.frames (σ.baseKey x d) := by
    intro w d hd x
    obtain ⟨y, _, hoy⟩ := descOf_owner σ w d hd
    have hlt := hwf.own_lt y d hoy
    apply hframes
    · intro d' e; unfold State.baseKey at e; split at e <;> simp at e; exact e ▸ hlt
    · intro d' c e; unfold State.baseKey at e; split at e <;> simp at e; exact e.1 ▸ hlt
  cases W with
  | cls w =>
    exact visible_cls_ext σ τ w (hm w hW) (fun x hx => ho x (hwf.mro_lt w x hx))
      (fun d hd x _ => hfr w d hd x)
  | inst i =>
    apply visible_inst_ext σ τ i (by rw [hin])
    intro x hx
    have hc := hwf.inst_lt i x hx
    exact ⟨hm x.cls hc, fun y hy => ho y (hwf.mro_lt x.cls y hy), fun d hd y _ => hfr x.cls d hd y⟩

theorem visible_addClass (σ : State) (hwf : WF σ) (tail : List ClassId) (own : Option DescId)
    (W : View) (hW : ValidView σ W) : visible (addClass σ tail own) W = visible σ W :=
  visible_extend σ _ hwf tail own rfl rfl (fun _ _ _ => rfl) W hW

theorem visible_usingPropsStep (σ : State) (hwf : WF σ) (p : ClassId) (init : List (Key × Val))
    (W : View) (hW : ValidView σ W) : visible (usingPropsStep σ p init) W = visible σ W := by
  apply visible_extend σ (usingPropsStep σ p init) hwf (σ.mroOf p) (some σ.ndesc) rfl rfl _ W hW
  intro key h1 h2
  show AList.get? (AList.set σ.frames (.init σ.ndesc) _) key = _
  rw [get?_set, if_neg]
  intro e
  exact Nat.lt_irrefl _ (h1 σ.ndesc e.symm)

theorem viewMro_addClass (σ : State) (hwf : WF σ) (tail : List ClassId) (own : Option DescId)
    (W : View) (hW : ValidView σ W) : viewMro (addClass σ tail own) W = viewMro σ W := by
  cases W with
  | cls w => simp only [viewMro, mroOf_addClass, if_neg (ne_of_lt' hW)]
  | inst i =>
    simp only [viewMro, show (addClass σ tail own).insts = σ.insts from rfl]
    split
    · rename_i x hx
      simp only [mroOf_addClass, if_neg (ne_of_lt' (hwf.inst_lt i x hx))]
    · rfl

/-- the command goes through a view that `W` inherits from, or rebinds `W` itself -/
def Touches (σ : State) (W : View) : Cmd → Prop
  | .op V _ => Inherits σ W V
  | .assign i _ => W = .inst i
  | _ => False

/-- **No upward leak, one step of any kind.**  A command that neither goes through a view `W`
    inherits from nor rebinds `W` leaves what `W` shows unchanged: operations through parents'
    siblings, cousins, other instances, every derivation and every instantiation. -/
theorem step_untouched (σ : State) (hwf : WF σ) (hs : NoShared σ) (W : View) (hW : ValidView σ W)
    (cmd : Cmd) (ht : ¬ Touches σ W cmd) : visible (step σ cmd).1 W = visible σ W := by
  have happ : ∀ y : Inst, ∀ i, W = .inst i → (σ.insts ++ [y])[i]? = σ.insts[i]? := by
    intro y i e; subst e; exact List.getElem?_append_left hW
  cases cmd with
  | op V o => exact no_upward_leak σ hs V W o ht
  | subclass p => simp only [step]; split <;> first | exact visible_addClass σ hwf _ _ W hW | rfl
  | subclassMI tail => simp only [step]; split <;> first | exact visible_addClass σ hwf _ _ W hW | rfl
  | usingProps p init =>
    simp only [step]; split <;> first | exact visible_usingPropsStep σ hwf p init W hW | rfl
  | usingShared p ow init =>
    simp only [step]; split
    · split <;> first | exact visible_usingPropsStep σ hwf p init W hW | rfl
    · rfl
  | withProps p ps =>
    simp only [step]; split
    · have hwf1 := WF_addClass σ hwf (σ.mroOf p) none (fun x hx => hwf.mro_lt p x hx) (hwf.mro_nodup p) (by simp)
      have hs1 := NoShared_addClass σ hs (σ.mroOf p) none (by simp)
      rcases classOp_state (addClass σ (σ.mroOf p) none) σ.classes.length (.update ps) with e | ⟨d, f, e⟩ <;> rw [e]
      · exact visible_addClass σ hwf _ _ W hW
      · rw [visible_setFrame _ hs1 _ d f W, visible_addClass σ hwf _ _ W hW]
        rw [viewMro_addClass σ hwf _ _ W hW]
        exact fun h => Nat.lt_irrefl _ (viewMro_lt σ hwf W _ h)
    · rfl
  | newInst c =>
    simp only [step]; split
    · exact visible_congr_insts (σ := σ) (σ' := { σ with insts := σ.insts ++ [_] }) rfl rfl W (happ _)
    · rfl
  | newInstWith c m =>
    simp only [step]; split
    · exact visible_congr_insts (σ := σ) (σ' := { σ with insts := σ.insts ++ [_] }) rfl rfl W (happ _)
    · rfl
  | assign i m =>
    simp only [step]; split
    · rfl
    · exact visible_setInst σ i _ W ht
  | newInstCompound c m =>
    simp only [step]; split
    · rw [← visible_usingPropsStep σ hwf c m W hW]
      refine visible_congr_insts (σ := usingPropsStep σ c m)
        (σ' := { usingPropsStep σ c m with insts := (usingPropsStep σ c m).insts ++ [_] }) rfl rfl W ?_
      intro i e; subst e
      exact List.getElem?_append_left (show i < σ.insts.length from hW)
    · rfl

theorem length_mono (σ : State) (cmd : Cmd) :
    σ.classes.length ≤ (step σ cmd).1.classes.length ∧ σ.insts.length ≤ (step σ cmd).1.insts.length := by
  cases cmd with
  | op V o =>
    cases V with
    | cls c =>
      simp only [step]
      rcases classOp_state σ c o with e | ⟨d, f, e⟩ <;> rw [e] <;> exact ⟨Nat.le_refl _, Nat.le_refl _⟩
    | inst i =>
      simp only [step]
      rcases instOp_state σ i o with e | ⟨x, e⟩ <;> rw [e]
      · exact ⟨Nat.le_refl _, Nat.le_refl _⟩
      · simp [setInst]
  | subclass p => simp only [step]; split <;> simp [addClass]
  | subclassMI tail => simp only [step]; split <;> simp [addClass]
  | usingProps p init => simp only [step]; split <;> simp [usingPropsStep, addClass]
  | usingShared p ow init =>
    simp only [step]; split
    · split <;> simp [usingPropsStep, addClass]
    · simp
  | withProps p ps =>
    simp only [step]; split
    · rcases classOp_state (addClass σ (σ.mroOf p) none) σ.classes.length (.update ps) with e | ⟨d, f, e⟩ <;>
        rw [e] <;> simp [addClass, State.setFrame]
    · simp
  | newInst c => simp only [step]; split <;> simp
  | newInstWith c m => simp only [step]; split <;> simp
  | assign i m => simp only [step]; split <;> simp [setInst]
  | newInstCompound c m => simp only [step]; split <;> simp [usingPropsStep, addClass]

theorem ValidView_step (σ : State) (W : View) (hW : ValidView σ W) (cmd : Cmd) :
    ValidView (step σ cmd).1 W := by
  have := length_mono σ cmd
  cases W with
  | cls w => exact Nat.lt_of_lt_of_le hW this.1
  | inst i => exact Nat.lt_of_lt_of_le hW this.2

/-- along the history, no command touches `W` (judged in the state it is executed in) -/
def Untouched (W : View) : State → List Cmd → Prop
  | _, [] => True
  | σ, c :: cs => ¬ Touches σ W c ∧ Untouched W (step σ c).1 cs

/-- **No upward leak, all histories.**  Whatever is done — in any order and any number of
    times — through views `W` does not inherit from, and whatever is derived or instantiated,
    `W` keeps showing the same mapping. -/
theorem no_upward_leak_history (W : View) :
    ∀ (cmds : List Cmd) (σ : State), WF σ → NoShared σ → ValidView σ W →
      (∀ c ∈ cmds, CmdOK c ∧ NoSharing c) → Untouched W σ cmds →
      visible (run σ cmds).1 W = visible σ W
  | [], _, _, _, _, _, _ => rfl
  | c :: cs, σ, hwf, hs, hW, hall, hu => by
    have hc := hall c (List.mem_cons_self ..)
    simp only [run]
    rw [no_upward_leak_history W cs (step σ c).1 (WF_step σ hwf c hc.1) (NoShared_step σ hwf hs c hc.2)
      (ValidView_step σ W hW c) (fun c' h' => hall c' (List.mem_cons_of_mem _ h')) hu.2]
    exact step_untouched σ hwf hs W hW c hu.1

/-! ## instance views: results of every method (the paths of fixes ee86233 and f6834ef) -/

theorem get?_localItems (f : Frame) (hn : (f.map (·.1)).Nodup) (k : Key) :
    AList.get? (localItems f) k = slotVal (AList.get? f k) := by
  induction f with
  | nil => rfl
  | cons p r ih =>
    obtain ⟨k0, s0⟩ := p
    simp only [List.map_cons, List.nodup_cons] at hn
    have ih' := ih hn.2
    by_cases e : k0 = k
    · subst e
      have hr : AList.get? r k0 = none := (get?_eq_none_iff r k0).2 hn.1
      cases s0 with
      | val v => simp [localItems, AList.get?, slotVal]
      | deleted =>
        have : localItems ((k0, Slot.deleted) :: r) = localItems r := by simp [localItems]
        rw [this, ih', hr]; simp [AList.get?, slotVal]
    · cases s0 with
      | val v =>
        have : localItems ((k0, Slot.val v) :: r) = (k0, v) :: localItems r := by simp [localItems]
        rw [this]; simp only [AList.get?, e, if_false, ih']
      | deleted =>
        have : localItems ((k0, Slot.deleted) :: r) = localItems r := by simp [localItems]
        rw [this]; simp only [AList.get?, e, if_false, ih']

theorem get?_filter_key (l : List (Key × Val)) (q : Key → Bool) (k : Key) :
    AList.get? (l.filter (fun kv => q kv.1)) k = if q k then AList.get? l k else none := by
  induction l with
  | nil => simp
  | cons p r ih =>
    obtain ⟨k0, v0⟩ := p
    simp only [List.filter_cons]
    by_cases e : k0 = k
    · subst e
      by_cases hq : q k0 = true
      · simp [hq, AList.get?]
      · simp only [hq, Bool.false_eq_true, if_false, ih]
    · by_cases hq : q k0 = true
      · simp only [hq, if_true, AList.get?, e, if_false, ih]
      · simp only [hq, Bool.false_eq_true, if_false, ih, AList.get?, e]

def iGetOf (x : Option Slot) (t : Except Err Val) : Except Err Val :=
  match x with
  | some .deleted => .error .keyError
  | some (.val v) => .ok v
  | none => t

theorem iGet_eq (σ : State) (f : Frame) (c : ClassId) (d : DescId) (k : Key) :
    iGet σ f c d k = iGetOf (AList.get? f k) (tGet σ c d k) := rfl

theorem iGetOf_aux (x : Option Slot) (t : Except Err Val) :
    (slotVal x).or (if (!x.isSome) = true then t.toOption else none) = (iGetOf x t).toOption := by
  cases x with
  | none => simp [slotVal, iGetOf]
  | some s => cases s <;> simp [slotVal, iGetOf, Except.toOption]

/-- `items()` of an instance view lists exactly what `__getitem__` finds -/
theorem get?_iItems (σ : State) (f : Frame) (c : ClassId) (d : DescId) (hn : (f.map (·.1)).Nodup) (k : Key) :
    AList.get? (iItems σ f c d) k = (iGet σ f c d k).toOption := by
  rw [iGet_eq]
  unfold iItems
  rw [get?_append, get?_localItems f hn, get?_filter_key (tItems σ c d) (fun k => !(AList.hasKey f k)) k,
    get?_tItems]
  simp only [AList.hasKey]
  exact iGetOf_aux _ _

theorem keys_localItems_sublist (f : Frame) : ((localItems f).map (·.1)).Sublist (f.map (·.1)) := by
  induction f with
  | nil => simp [localItems]
  | cons p r ih =>
    obtain ⟨k0, s0⟩ := p
    cases s0 with
    | val v =>
      have : localItems ((k0, Slot.val v) :: r) = (k0, v) :: localItems r := by simp [localItems]
      rw [this]; simpa using ih
    | deleted =>
      have : localItems ((k0, Slot.deleted) :: r) = localItems r := by simp [localItems]
      rw [this]; exact List.Sublist.cons _ ih

theorem nodup_iItems (σ : State) (f : Frame) (c : ClassId) (d : DescId) (hn : (f.map (·.1)).Nodup) :
    ((iItems σ f c d).map (·.1)).Nodup := by
  unfold iItems
  rw [List.map_append]
  refine List.nodup_append.2 ⟨hn.sublist (keys_localItems_sublist f), ?_, ?_⟩
  · exact (nodup_tItems σ c d).sublist (List.Sublist.map _ (List.filter_sublist))
  · intro a ha b hb e
    subst e
    have ha' : a ∈ f.map (·.1) := (keys_localItems_sublist f).subset ha
    obtain ⟨kv, hkv, rfl⟩ := List.mem_map.1 hb
    have := (List.mem_filter.1 hkv).2
    have hnone : AList.get? f kv.1 = none := by
      simpa [AList.hasKey] using this
    exact ((get?_eq_none_iff f kv.1).1 hnone) ha'

theorem itemsOf_iItems (σ : State) (i : InstId) (x : Inst) (f : Frame) (d : DescId)
    (hx : σ.insts[i]? = some x) (hloc : x.loc = .storage f) (hd : σ.descOf x.cls = some d)
    (hn : (f.map (·.1)).Nodup) : ItemsOf (visible σ (.inst i)) (iItems σ f x.cls d) := by
  refine ⟨nodup_iItems σ f x.cls d hn, fun k v => ?_⟩
  have hv : visible σ (.inst i) k = (iGet σ f x.cls d k).toOption := by simp [visible, hx, hloc, hd]
  rw [hv, ← get?_iItems σ f x.cls d hn]
  exact ⟨get?_of_mem_nodup _ k v (nodup_iItems σ f x.cls d hn), mem_of_get? _ k v⟩

theorem mem_keys_iItems (σ : State) (f : Frame) (c : ClassId) (d : DescId) (hn : (f.map (·.1)).Nodup) (k : Key) :
    k ∈ (iItems σ f c d).map (·.1) ↔ ((iGet σ f c d k).toOption).isSome := by
  rw [← get?_iItems σ f c d hn]
  have := get?_eq_none_iff (iItems σ f c d) k
  cases h : AList.get? (iItems σ f c d) k <;> simp_all

/-- results of the order-free methods through an instance view (`[]`, `get`, `in`, `pop`,
    `setdefault`, `del`, `popitem`, …) are those of a Python dict holding the visible mapping -/
theorem dict_result_inst (σ : State) (i : InstId) (x : Inst) (f : Frame) (d : DescId)
    (hx : σ.insts[i]? = some x) (hloc : x.loc = .storage f) (hd : σ.descOf x.cls = some d)
    (hn : (f.map (·.1)).Nodup) (o : Op) (r : Res)
    (h : dictResult o (visible σ (.inst i)) = some r) : (step σ (.op (.inst i) o)).2 = r := by
  have hvis : ∀ k, visible σ (.inst i) k = (iGet σ f x.cls d k).toOption := fun k => by
    simp [visible, hx, hloc, hd]
  have hmem := mem_keys_iItems σ f x.cls d hn
  simp only [step, instOp, hx, hloc, hd]
  cases o <;> simp only [dictResult, Option.some.injEq, reduceCtorEq] at h <;>
    simp only [dictLikeRead, iReader, iWrite] <;> subst h
  case getitem k =>
    rcases except_cases (iGet σ f x.cls d k) with ⟨e, hg⟩ | ⟨y, hg⟩
    · have := iGet_error σ f x.cls d k e hg; subst this; simp [hvis, hg, Except.toOption]
    · simp [hvis, hg, Except.toOption]
  case setitem k y => rfl
  case delitem k =>
    rcases except_cases (iGet σ f x.cls d k) with ⟨e, hg⟩ | ⟨y, hg⟩
    · have := iGet_error σ f x.cls d k e hg; subst this; simp [hvis, hg, Except.toOption]
    · simp [hvis, hg, Except.toOption]
  case clear => rfl
  case pop k dflt =>
    rcases except_cases (iGet σ f x.cls d k) with ⟨e, hg⟩ | ⟨y, hg⟩
    · have := iGet_error σ f x.cls d k e hg; subst this; cases dflt <;> simp [hvis, hg, Except.toOption]
    · cases dflt <;> simp [hvis, hg, Except.toOption]
  case setdefault k dv =>
    rcases except_cases (iGet σ f x.cls d k) with ⟨e, hg⟩ | ⟨y, hg⟩ <;> simp [hvis, hg, Except.toOption]
  case update ps => rfl
  case get k dv =>
    rcases except_cases (iGet σ f x.cls d k) with ⟨e, hg⟩ | ⟨y, hg⟩ <;> simp [hvis, hg, Except.toOption]
  case contains k =>
    simp only [hvis, hmem]
    cases (iGet σ f x.cls d k).toOption <;> simp
  case popitem => rfl

/-- results of the iterating methods through an instance view (`items`, `keys`, `values`, `copy`,
    `bool`, `==`, `!=`): computed on a listing with distinct keys of exactly the visible mapping -/
theorem iter_result_inst (σ : State) (i : InstId) (x : Inst) (f : Frame) (d : DescId)
    (hx : σ.insts[i]? = some x) (hloc : x.loc = .storage f) (hd : σ.descOf x.cls = some d)
    (hn : (f.map (·.1)).Nodup) (o : Op) :
    ∃ l, ItemsOf (visible σ (.inst i)) l ∧
      ∀ r, iterResult l o = some r → (step σ (.op (.inst i) o)).2 = r := by
  refine ⟨iItems σ f x.cls d, itemsOf_iItems σ i x f d hx hloc hd hn, fun r h => ?_⟩
  have hof := ofPairs_of_nodup (iItems σ f x.cls d) (nodup_iItems σ f x.cls d hn)
  simp only [step, instOp, hx, hloc, hd]
  cases o <;> simp only [iterResult, Option.some.injEq, reduceCtorEq] at h <;>
    simp only [dictLikeRead, iReader, hof] <;> exact h

/-- local storage is a Python dict: its keys stay distinct under every writing method -/
theorem iWrite_nodup (σ : State) (f : Frame) (c : ClassId) (d : DescId) (o : Op)
    (hn : (f.map (·.1)).Nodup) : (((iWrite σ f c d o).1).map (·.1)).Nodup := by
  have hfold : ∀ (ks : List Key) (g : Frame), (g.map (·.1)).Nodup →
      ((ks.foldl (fun g k => AList.set g k Slot.deleted) g).map (·.1)).Nodup := by
    intro ks
    induction ks with
    | nil => intro g hg; exact hg
    | cons k r ih => intro g hg; exact ih _ (nodup_set g k _ hg)
  cases o <;> simp only [iWrite] <;> first
    | exact hn
    | exact nodup_set _ _ _ hn
    | exact nodup_update _ _ hn
    | exact hfold _ [] (by simp)
    | (split <;> first | exact hn | exact nodup_set _ _ _ hn)

/-! ## the full statement, and where the code as it is falls short of it -/

/-- **Full statement** (sentence 1 of the property over all histories): after any history from a
    fresh root, every view reads exactly as the layered store of the property text would read
    after the same history — every write and deletion made through the views above it, overlaid
    from the most basic class down to the view. -/
def C17_Full : Prop :=
  ∀ (init : List (Key × Val)) (cmds : List Cmd) (v : View) (k : Key), (∀ c ∈ cmds, CmdOK c) →
    visible (run (initState init) cmds).1 v k
      = Spec.visible (Spec.run (abs (initState init)) cmds) v k

def kA : Key := ['a']

/-- KF-C17-a: `instance.properties.clear()` forgets the instance's own deletion of a key the
    class does not show; when the class later defines the key it shows through the instance -/
def witnessClear : List Cmd :=
  [.newInst 0, .op (.inst 0) (.setitem kA (.int 1)), .op (.inst 0) (.delitem kA),
   .op (.inst 0) .clear, .op (.cls 0) (.setitem kA (.int 2))]

theorem witnessClear_model : visible (run (initState []) witnessClear).1 (.inst 0) kA = some (.int 2) := by
  decide

theorem witnessClear_spec :
    Spec.visible (Spec.run (abs (initState [])) witnessClear) (.inst 0) kA = none := by
  decide

theorem C17_full_fails : ¬ C17_Full := by
  intro h
  have := h [] witnessClear (.inst 0) kA (by intro c hc; simp [witnessClear] at hc; rcases hc with rfl | rfl | rfl | rfl | rfl <;> trivial)
  rw [witnessClear_model, witnessClear_spec] at this
  exact absurd this (by decide)

def kS : Key := ['s']
def kT : Key := ['t']
def kB : Key := ['b']

/-- former KF-C17-b (closed by /repo 936c1b4): one `Properties` object handed to a second class.
    A write through the new class no longer shows through the class that held the object first,
    and the new class starts from the initial mapping the object was built with. -/
def witnessShared : List Cmd :=
  [.op (.cls 0) (.setitem kB (.int 9)), .usingShared 0 0 [(kS, .int 1)], .op (.cls 1) (.setitem kT (.int 2))]

theorem shared_object_shares_nothing :
    visible (run (initState [(kS, .int 1)]) witnessShared).1 (.cls 0) kT = none ∧
    visible (run (initState [(kS, .int 1)]) witnessShared).1 (.cls 1) kS = some (.int 1) ∧
    visible (run (initState [(kS, .int 1)]) witnessShared).1 (.cls 1) kB = none ∧
    Spec.visible (Spec.run (abs (initState [(kS, .int 1)])) witnessShared) (.cls 0) kT = none := by
  decide

/-- KF-C17-c: `class X(A, B)` where `B` restarts `properties` and `A` does not — `A`'s write is
    above `X` in its chain but does not show through `X` -/
def witnessMI : List Cmd :=
  [.subclass 0, .usingProps 0 [], .op (.cls 1) (.setitem kB (.int 1)), .subclassMI [1, 2, 0]]

theorem C17_full_fails_mi :
    visible (run (initState []) witnessMI).1 (.cls 3) kB = none ∧
    Spec.visible (Spec.run (abs (initState [])) witnessMI) (.cls 3) kB = some (.int 1) := by
  decide

instance (σ : State) (W V : View) : Decidable (Inherits σ W V) := by
  cases V <;> unfold Inherits <;> infer_instance
instance : DecidablePred CmdOK := fun c => by cases c <;> unfold CmdOK <;> infer_instance
instance : DecidablePred NoSharing := fun c => by cases c <;> unfold NoSharing <;> infer_instance

/-- the invariants hold in every state reached from a fresh root -/
theorem inv_run : ∀ (cmds : List Cmd) (σ : State), WF σ → NoShared σ →
    (∀ c ∈ cmds, CmdOK c ∧ NoSharing c) → WF (run σ cmds).1 ∧ NoShared (run σ cmds).1
  | [], _, hwf, hs, _ => ⟨hwf, hs⟩
  | c :: cs, σ, hwf, hs, hall => by
    have hc := hall c (List.mem_cons_self ..)
    simp only [run]
    exact inv_run cs _ (WF_step σ hwf c hc.1) (NoShared_step σ hwf hs c hc.2)
      (fun c' h' => hall c' (List.mem_cons_of_mem _ h'))

theorem WF_run (cmds : List Cmd) (σ : State) (hwf : WF σ) (hall : ∀ c ∈ cmds, CmdOK c) :
    WF (run σ cmds).1 := by
  induction cmds generalizing σ with
  | nil => exact hwf
  | cons c cs ih =>
    simp only [run]
    exact ih _ (WF_step σ hwf c (hall c (List.mem_cons_self ..))) (fun c' h' => hall c' (List.mem_cons_of_mem _ h'))

/-- `read_is_overlay` really needs `Coherent`: in the (well-formed) state reached by `witnessMI`
    class 3 does not read as the overlay of its chain -/
theorem read_is_overlay_fails_mi :
    ¬ ∀ (σ : State) (c : ClassId), WF σ → visible σ (.cls c) = Spec.visible (abs σ) (.cls c) := by
  intro h
  have hwf : WF (run (initState []) witnessMI).1 :=
    WF_run witnessMI _ (WF_initState []) (by decide)
  have := congrFun (h _ 3 hwf) kB
  revert this
  decide

/-! ## non-vacuity: the hypotheses of the main theorems hold in concrete, non-trivial stores -/

def kK : Key := ['k']

/-- R(0) ← A(1) ← B(2), sibling A2(3) of A, a detached class D(4) below A, two instances of B,
    one instance of A2, one detached instance of B -/
def exCmds : List Cmd :=
  [.subclass 0, .withProps 1 [(kB, .int 5)], .subclass 0, .usingProps 1 [(kT, .none)],
   .newInst 2, .newInst 2, .newInst 3, .newInstWith 2 [(kS, .int 7)],
   .op (.cls 1) (.setitem kA (.int 1)), .op (.inst 0) (.delitem kK)]

def exState : State := (run (initState [(kK, .int 0)]) exCmds).1

theorem exState_inv : WF exState ∧ NoShared exState :=
  inv_run exCmds _ (WF_initState _) (NoShared_initState _) (by decide)

/-- `no_upward_leak`: a `pop` through class A is not seen by the sibling A2 nor its instance … -/
example : visible (step exState (.op (.cls 1) (.pop kK none))).1 (.cls 3) = visible exState (.cls 3) :=
  no_upward_leak exState exState_inv.2 (.cls 1) (.cls 3) _ (by decide)
example : visible (step exState (.op (.cls 1) (.pop kK none))).1 (.inst 2) = visible exState (.inst 2) :=
  no_upward_leak exState exState_inv.2 (.cls 1) (.inst 2) _ (by decide)
/-- … while it does change what A itself shows (the theorem is not about a no-op) -/
example : visible (step exState (.op (.cls 1) (.pop kK none))).1 (.cls 1) kK = none ∧
    visible exState (.cls 1) kK = some (.int 0) := by decide
/-- an instance operation is invisible to the other instance of the same class and to the class -/
example : visible (step exState (.op (.inst 0) .clear)).1 (.inst 1) = visible exState (.inst 1) :=
  no_upward_leak exState exState_inv.2 (.inst 0) (.inst 1) _ (by decide)

/-- `read_is_overlay`: class B is coherent; its chain has three layers -/
example : Coherent exState 2 := ⟨0, by decide, by decide⟩
example : (chain (abs exState) 2).length = 3 := by decide
example : visible exState (.cls 2) = Spec.visible (abs exState) (.cls 2) :=
  read_is_overlay_class exState exState_inv.1 2 ⟨0, by decide, by decide⟩

/-- `write_visible_below`: key `k` written through the root is seen through B (two levels down) … -/
example : Unshadowed exState 2 0 kK := ⟨[2, 1], 0, by decide, by decide, by decide⟩
example : visible (step exState (.op (.cls 0) (.setitem kK (.int 9)))).1 (.cls 2) kK = some (.int 9) := by
  rw [write_visible_below exState exState_inv.1 2 0 (by decide) kK _ ⟨[2, 1], 0, by decide, by decide, by decide⟩]
  decide
/-- … but not through instance 0 of B, which deleted `k` itself (shadowed): the hypothesis matters -/
example : visible (step exState (.op (.cls 0) (.setitem kK (.int 9)))).1 (.inst 0) kK = none := by decide

/-- `detached`: instance 3 was created with `properties={…}` -/
example : visible exState (.inst 3) kS = some (.int 7) ∧ visible exState (.inst 3) kK = none := by decide

/-- `dict_semantics`: `setdefault` on a key deleted at this level revives it (fix f6834ef) -/
example : (step exState (.op (.inst 0) (.setdefault kK (.int 4)))).2 = .val (.int 4) := by decide

/-! # refinement of model A to the layered store B, lifted to histories -/

/-! ## one step of model A = one step of the layered store B -/

theorem SState.ext' {a b : SState} (h1 : a.nclasses = b.nclasses) (h2 : a.mro = b.mro)
    (h3 : a.fresh = b.fresh) (h4 : a.layer = b.layer) (h5 : a.insts = b.insts) : a = b := by
  cases a; cases b; simp_all

/-- every class of the store reads its `properties` coherently along its chain -/
def AllCoherent (σ : State) : Prop := ∀ c, c < σ.classes.length → Coherent σ c

theorem Coherent_of_coherentAt (σ : State) (c : ClassId) (h : coherentAt σ c = true) : Coherent σ c := by
  simp only [coherentAt, Bool.and_eq_true, List.all_eq_true, beq_iff_eq] at h
  obtain ⟨h1, h2⟩ := h
  obtain ⟨d, hd⟩ := Option.isSome_iff_exists.1 h1
  exact ⟨d, hd, fun x hx => (h2 x hx).trans hd⟩

theorem Coherent_congr {σ σ' : State} (hc : σ'.classes = σ.classes) (c : ClassId) (h : Coherent σ c) :
    Coherent σ' c := by
  obtain ⟨d, hd, hall⟩ := h
  have ho : σ'.ownOf = σ.ownOf := funext (ownOf_congr hc)
  refine ⟨d, (descOf_congr hc c).trans hd, fun x hx => ?_⟩
  rw [mroOf_congr hc, ho] at hx
  exact (descOf_congr hc x).trans (hall x hx)

theorem AllCoherent_congr {σ σ' : State} (hc : σ'.classes = σ.classes) (h : AllCoherent σ) :
    AllCoherent σ' := fun c hlt => Coherent_congr hc c (h c (hc ▸ hlt))

/-! ### operations through a class view -/

theorem absLayer_setFrame_ne (σ : State) (hs : NoShared σ) (v c' : ClassId) (d : DescId) (f : Frame)
    (hne : c' ≠ v) : absLayer (σ.setFrame (σ.baseKey v d) f) c' = absLayer σ c' := by
  simp only [absLayer, descOf_setFrame]
  cases σ.descOf c' with
  | none => rfl
  | some d' =>
    simp only [State.baseFrame, baseKey_congr (σ := σ) (σ' := σ.setFrame (σ.baseKey v d) f) rfl,
      frameD_setFrame, if_neg (Ne.symm (baseKey_ne σ hs c' v d d' hne))]

theorem classOp_eq_tWrite (σ : State) (v : ClassId) (d : DescId) (o : Op)
    (hv : v < σ.classes.length) (hd : σ.descOf v = some d) :
    (classOp σ v o).1 = (tWrite σ v d o).1 := by
  cases o <;> simp [classOp, hv, hd, dictLikeRead, tWrite]

theorem tWrite_insts (σ : State) (v : ClassId) (d : DescId) (o : Op) :
    (tWrite σ v d o).1.insts = σ.insts := by
  rcases tWrite_state σ v d o with e | ⟨f, e⟩ <;> rw [e]; rfl

theorem classVisible_abs (σ : State) (hwf : WF σ) (v : ClassId) (d : DescId)
    (hc : Coherent σ v) (hd : σ.descOf v = some d) :
    classVisible (abs σ) v = fun k => (tGet σ v d k).toOption := by
  have h := read_is_overlay_class σ hwf v hc
  rw [show classVisible (abs σ) v = Spec.visible (abs σ) (.cls v) from rfl, ← h]
  funext k
  simp only [visible, hd]

/-- a method called through a class view is recorded in that class's layer and nowhere else -/
theorem refine_classOp (σ : State) (hwf : WF σ) (hs : NoShared σ) (v : ClassId) (o : Op)
    (hv : v < σ.classes.length) (hc : Coherent σ v) :
    abs (classOp σ v o).1 = Spec.step (abs σ) (.op (.cls v) o) := by
  obtain ⟨d, hd, _⟩ := id hc
  have hvis := classVisible_abs σ hwf v d hc hd
  simp only [Spec.step]
  rw [if_pos (show v < (abs σ).nclasses from hv), classOp_eq_tWrite σ v d o hv hd]
  have hcl := tWrite_classes σ v d o
  apply SState.ext'
  · show (tWrite σ v d o).1.classes.length = σ.classes.length
    rw [hcl]
  · funext c; exact mroOf_congr hcl c
  · funext c
    show ((tWrite σ v d o).1.ownOf c).isSome = _
    rw [ownOf_congr hcl]; rfl
  · funext c'
    show absLayer (tWrite σ v d o).1 c' = fupd (absLayer σ) v (applyOp (classVisible (abs σ) v) (absLayer σ v) o) c'
    by_cases e : c' = v
    · subst e
      have h0 : absLayer σ c' = frameLayer (σ.baseFrame c' d) := by simp only [absLayer, hd]
      have h1 : absLayer (tWrite σ c' d o).1 c' = frameLayer ((tWrite σ c' d o).1.baseFrame c' d) := by
        simp only [absLayer, descOf_congr hcl, hd]
      simp only [fupd, if_true]
      rw [hvis, h0, h1, tWrite_layer]
    · simp only [fupd, if_neg e]
      rcases tWrite_state σ v d o with h | ⟨f, h⟩ <;> rw [h]
      exact absLayer_setFrame_ne σ hs v c' d f e
  · show (tWrite σ v d o).1.insts.map absInst = σ.insts.map absInst
    rw [tWrite_insts]

/-! ### operations through an instance view -/

theorem set_self_of_getElem? {α : Type} (l : List α) (i : Nat) (a : α) (h : l[i]? = some a) :
    l.set i a = l := by
  apply List.ext_getElem?
  intro j
  by_cases e : i = j
  · subst e
    rw [List.getElem?_set_self (lt_of_getElem? l i a h), h]
  · rw [List.getElem?_set_ne e]

theorem abs_setInst (σ : State) (i : InstId) (y : Inst) :
    abs (setInst σ i y) = { abs σ with insts := (abs σ).insts.set i (absInst y) } := by
  refine SState.ext' rfl rfl rfl rfl ?_
  show (σ.insts.set i y).map absInst = (σ.insts.map absInst).set i (absInst y)
  rw [List.map_set]

theorem abs_insts_get (σ : State) (i : InstId) : (abs σ).insts[i]? = (σ.insts[i]?).map absInst := by
  simp [abs]

/-- the state an `_InstanceLookup` method leaves: only `local` may have changed -/
theorem instOp_storage (σ : State) (i : InstId) (x : Inst) (f : Frame) (d : DescId) (o : Op)
    (hx : σ.insts[i]? = some x) (hloc : x.loc = .storage f) (hd : σ.descOf x.cls = some d) :
    abs (instOp σ i o).1
      = { abs σ with insts := (abs σ).insts.set i (.attached x.cls (frameLayer (iWrite σ f x.cls d o).1)) } := by
  have hself : abs σ = { abs σ with insts := (abs σ).insts.set i (.attached x.cls (frameLayer f)) } := by
    refine SState.ext' rfl rfl rfl rfl ?_
    symm
    apply set_self_of_getElem?
    rw [abs_insts_get, hx]
    simp [absInst, hloc]
  cases o <;> simp only [instOp, hx, hloc, hd, dictLikeRead, iWrite] <;>
    first
      | exact hself
      | (rw [abs_setInst]; rfl)
      | (split <;> first | exact hself | (rw [abs_setInst]; rfl))

theorem iWrite_clear_guarded (σ : State) (f : Frame) (c : ClassId) (d : DescId) (below : Mapping)
    (hb : below = fun k => (tGet σ c d k).toOption)
    (hg : f.any (fun kv => (tGet σ c d kv.1).toOption.isNone) = false) :
    frameLayer (iWrite σ f c d .clear).1
      = applyOp (overlay below (frameLayer f)) (frameLayer f) .clear := by
  rw [iWrite_clear_layer]
  funext k
  simp only [applyOp, overlay, frameLayer, hb]
  cases hl : AList.get? f k with
  | none => simp
  | some s =>
    have hmem := mem_of_get? f k s hl
    have hall := List.any_eq_false.1 hg (k, s) hmem
    simp only [Option.isNone_iff_eq_none] at hall
    cases hk : (tGet σ c d k).toOption with
    | none => exact absurd hk hall
    | some v => cases s <;> simp

theorem refine_instOp (σ : State) (hwf : WF σ) (hco : AllCoherent σ) (i : InstId) (o : Op)
    (hg : badClear σ (.op (.inst i) o) = false) :
    abs (instOp σ i o).1 = Spec.step (abs σ) (.op (.inst i) o) := by
  cases hx : σ.insts[i]? with
  | none =>
    have hi : (abs σ).insts[i]? = none := by rw [abs_insts_get, hx]; rfl
    simp only [Spec.step, hi, instOp, hx]
  | some x =>
    cases hloc : x.loc with
    | plain m =>
      have hi : (abs σ).insts[i]? = some (.detached x.cls m) := by
        rw [abs_insts_get, hx]; simp [absInst, hloc]
      simp only [Spec.step, hi, instOp, hx, hloc, abs_setInst]
      rfl
    | storage f =>
      have hcx := hco x.cls (hwf.inst_lt i x hx)
      obtain ⟨d, hd, _⟩ := id hcx
      have hvis := classVisible_abs σ hwf x.cls d hcx hd
      have hi : (abs σ).insts[i]? = some (.attached x.cls (frameLayer f)) := by
        rw [abs_insts_get, hx]; simp [absInst, hloc]
      rw [instOp_storage σ i x f d o hx hloc hd]
      simp only [Spec.step, hi]
      have key : frameLayer (iWrite σ f x.cls d o).1
          = applyOp (overlay (classVisible (abs σ) x.cls) (frameLayer f)) (frameLayer f) o := by
        by_cases hc : o = .clear
        · subst hc
          apply iWrite_clear_guarded σ f x.cls d _ hvis
          obtain ⟨c, l⟩ := x
          simp only at hloc hd
          subst hloc
          simpa [badClear, hx, hd] using hg
        · rw [iWrite_layer σ f x.cls d o hc, hvis]
          congr 1
          funext k
          exact iGet_overlay σ f x.cls d k
      rw [key]

/-! ### deriving a class -/

theorem descOf_ge (σ : State) (c : ClassId) (h : σ.classes.length ≤ c) : σ.descOf c = none := by
  simp [State.descOf, mroOf_ge σ c h]

theorem absLayer_ge (σ : State) (c : ClassId) (h : σ.classes.length ≤ c) : absLayer σ c = Layer.empty := by
  simp only [absLayer, descOf_ge σ c h]

/-- the layer of an existing class is not changed by a derivation: new class, possibly a new
    descriptor, new frames only under the new descriptor id -/
theorem absLayer_extend (σ τ : State) (hwf : WF σ) (tail : List ClassId) (own : Option DescId)
    (hcl : τ.classes = (addClass σ tail own).classes)
    (hframes : ∀ key, (∀ d, key = FrameKey.init d → d < σ.ndesc) →
      (∀ d c, key = FrameKey.cls d c → d < σ.ndesc) → AList.get? τ.frames key = AList.get? σ.frames key)
    (c : ClassId) (hc : c < σ.classes.length) : absLayer τ c = absLayer σ c := by
  have hm : ∀ c, c < σ.classes.length → τ.mroOf c = σ.mroOf c := by
    intro c hc
    exact (mroOf_congr (σ := addClass σ tail own) hcl c).trans
      (by rw [mroOf_addClass, if_neg (ne_of_lt' hc)])
  have ho : ∀ c, c < σ.classes.length → τ.ownOf c = σ.ownOf c := by
    intro c hc
    exact (ownOf_congr (σ := addClass σ tail own) hcl c).trans
      (by rw [ownOf_addClass, if_neg (ne_of_lt' hc)])
  have hd : τ.descOf c = σ.descOf c :=
    descOf_ext σ τ c (hm c hc) (fun x hx => ho x (hwf.mro_lt c x hx))
  simp only [absLayer, hd]
  cases hdc : σ.descOf c with
  | none => rfl
  | some d =>
    obtain ⟨y, _, hoy⟩ := descOf_owner σ c d hdc
    have hlt := hwf.own_lt y d hoy
    have hk : τ.baseKey c d = σ.baseKey c d := by
      unfold State.baseKey State.owns; rw [ho c hc]
    simp only [State.baseFrame, State.frameD, hk]
    rw [hframes]
    · intro d' e; unfold State.baseKey at e; split at e <;> simp at e; exact e ▸ hlt
    · intro d' c' e; unfold State.baseKey at e; split at e <;> simp at e; exact e.1 ▸ hlt

/-- deriving a class adds one class with one layer to the layered store and changes nothing else -/
theorem abs_extend (σ τ : State) (hwf : WF σ) (tail : List ClassId) (own : Option DescId)
    (hcl : τ.classes = (addClass σ tail own).classes) (hin : τ.insts = σ.insts)
    (hframes : ∀ key, (∀ d, key = FrameKey.init d → d < σ.ndesc) →
      (∀ d c, key = FrameKey.cls d c → d < σ.ndesc) → AList.get? τ.frames key = AList.get? σ.frames key)
    (l : Layer) (hl : absLayer τ σ.classes.length = l) :
    abs τ = Spec.addClass (abs σ) tail own.isSome l := by
  have hlen : τ.classes.length = σ.classes.length + 1 := by rw [hcl, length_addClass]
  apply SState.ext'
  · exact hlen
  · funext c
    show τ.mroOf c = fupd σ.mroOf σ.classes.length (σ.classes.length :: tail) c
    rw [mroOf_congr (σ := addClass σ tail own) hcl c, mroOf_addClass]; rfl
  · funext c
    show (τ.ownOf c).isSome = fupd (fun c => (σ.ownOf c).isSome) σ.classes.length own.isSome c
    rw [ownOf_congr (σ := addClass σ tail own) hcl c, ownOf_addClass]
    simp only [fupd]; split <;> rfl
  · funext c
    show absLayer τ c = fupd (absLayer σ) σ.classes.length l c
    simp only [fupd]
    rcases Nat.lt_trichotomy c σ.classes.length with h | h | h
    · rw [if_neg (ne_of_lt' h)]; exact absLayer_extend σ τ hwf tail own hcl hframes c h
    · rw [if_pos h, h]; exact hl
    · rw [if_neg (Nat.ne_of_gt h), absLayer_ge σ c (Nat.le_of_lt h), absLayer_ge τ c (by omega)]
  · show τ.insts.map absInst = σ.insts.map absInst
    rw [hin]

theorem frames_fresh_cls (σ : State) (hwf : WF σ) (d : DescId) :
    AList.get? σ.frames (.cls d σ.classes.length) = none := by
  rw [get?_eq_none_iff]
  intro h
  obtain ⟨p, hp, e⟩ := List.mem_map.1 h
  obtain ⟨key, f⟩ := p
  simp only at e
  subst e
  exact Nat.lt_irrefl _ (hwf.key_lt _ f hp).2

/-- a class derived without a `properties` argument starts with an empty layer -/
theorem abs_addClass_none (σ : State) (hwf : WF σ) (tail : List ClassId) :
    abs (addClass σ tail none) = Spec.addClass (abs σ) tail false Layer.empty := by
  apply abs_extend σ _ hwf tail none rfl rfl (fun _ _ _ => rfl)
  simp only [absLayer]
  cases hd : (addClass σ tail none).descOf σ.classes.length with
  | none => rfl
  | some d =>
    have ho : (addClass σ tail none).owns σ.classes.length d = false := by
      simp [State.owns, ownOf_addClass]
    simp only [State.baseFrame, State.baseKey, ho, Bool.false_eq_true, if_false, State.frameD]
    rw [show (addClass σ tail none).frames = σ.frames from rfl, frames_fresh_cls σ hwf d]
    rfl

/-- `using(properties={…})` starts a fresh mapping holding exactly the given pairs -/
theorem abs_usingPropsStep (σ : State) (hwf : WF σ) (p : ClassId) (init : List (Key × Val)) :
    abs (usingPropsStep σ p init) = Spec.addClass (abs σ) (σ.mroOf p) true (layerOfPairs init) := by
  apply abs_extend σ (usingPropsStep σ p init) hwf (σ.mroOf p) (some σ.ndesc) rfl rfl
  · intro key h1 h2
    show AList.get? (AList.set σ.frames (.init σ.ndesc) _) key = _
    rw [get?_set, if_neg]
    intro e
    exact Nat.lt_irrefl _ (h1 σ.ndesc e.symm)
  · have ho : (usingPropsStep σ p init).ownOf σ.classes.length = some σ.ndesc := by
      exact (ownOf_congr (σ := addClass σ (σ.mroOf p) (some σ.ndesc)) (σ' := usingPropsStep σ p init) rfl _).trans
        (by rw [ownOf_addClass, if_pos rfl])
    have hm : (usingPropsStep σ p init).mroOf σ.classes.length = σ.classes.length :: σ.mroOf p := by
      exact (mroOf_congr (σ := addClass σ (σ.mroOf p) (some σ.ndesc)) (σ' := usingPropsStep σ p init) rfl _).trans
        (by rw [mroOf_addClass, if_pos rfl])
    have hd := descOf_of_head _ _ _ _ hm ho
    have hown : (usingPropsStep σ p init).owns σ.classes.length σ.ndesc = true := by
      simp [State.owns, ho]
    simp only [absLayer, hd, State.baseFrame, State.baseKey, hown, if_true, State.frameD]
    rw [show (usingPropsStep σ p init).frames = AList.set σ.frames (.init σ.ndesc) (valFrame init) from rfl,
      get?_set, if_pos rfl, layerOfPairs_eq]
    rfl

/-! ### coherence is kept by every derivation except the mixed-descriptor `class X(A, B)` -/

theorem mem_cut {fr : ClassId → Bool} {l : List ClassId} {x : ClassId} (h : x ∈ cut fr l) : x ∈ l := by
  induction l with
  | nil => simp [cut] at h
  | cons a r ih =>
    simp only [cut] at h
    split at h
    · simp only [List.mem_singleton] at h; rw [h]; exact List.mem_cons_self ..
    · rcases List.mem_cons.1 h with h | h
      · rw [h]; exact List.mem_cons_self ..
      · exact List.mem_cons_of_mem _ (ih h)

theorem cut_congr (fr fr' : ClassId → Bool) (l : List ClassId) (h : ∀ x ∈ l, fr x = fr' x) :
    cut fr l = cut fr' l := by
  induction l with
  | nil => rfl
  | cons a r ih =>
    simp only [cut, h a (List.mem_cons_self ..), ih (fun x hx => h x (List.mem_cons_of_mem _ hx))]

section extend
set_option linter.unusedSectionVars false
variable (σ τ : State) (hwf : WF σ) (tail : List ClassId) (own : Option DescId)
  (hcl : τ.classes = (addClass σ tail own).classes)
include hwf hcl

theorem mroOf_extend (c : ClassId) (hc : c < σ.classes.length) : τ.mroOf c = σ.mroOf c :=
  (mroOf_congr (σ := addClass σ tail own) hcl c).trans (by rw [mroOf_addClass, if_neg (ne_of_lt' hc)])

theorem ownOf_extend (c : ClassId) (hc : c < σ.classes.length) : τ.ownOf c = σ.ownOf c :=
  (ownOf_congr (σ := addClass σ tail own) hcl c).trans (by rw [ownOf_addClass, if_neg (ne_of_lt' hc)])

theorem descOf_extend (c : ClassId) (hc : c < σ.classes.length) : τ.descOf c = σ.descOf c :=
  descOf_ext σ τ c (mroOf_extend σ τ hwf tail own hcl c hc)
    (fun x hx => ownOf_extend σ τ hwf tail own hcl x (hwf.mro_lt c x hx))

theorem cut_extend (l : List ClassId) (hl : ∀ x ∈ l, x < σ.classes.length) :
    cut (fun x => (τ.ownOf x).isSome) l = cut (fun x => (σ.ownOf x).isSome) l :=
  cut_congr _ _ l (fun x hx => by simp only [ownOf_extend σ τ hwf tail own hcl x (hl x hx)])

theorem Coherent_extend (c : ClassId) (hc : c < σ.classes.length) (h : Coherent σ c) : Coherent τ c := by
  obtain ⟨d, hd, hall⟩ := h
  refine ⟨d, (descOf_extend σ τ hwf tail own hcl c hc).trans hd, fun x hx => ?_⟩
  rw [mroOf_extend σ τ hwf tail own hcl c hc,
    cut_extend σ τ hwf tail own hcl _ (fun y hy => hwf.mro_lt c y hy)] at hx
  exact (descOf_extend σ τ hwf tail own hcl x (hwf.mro_lt c x (mem_cut hx))).trans (hall x hx)

theorem AllCoherent_extend (hco : AllCoherent σ) (hnew : Coherent τ σ.classes.length) : AllCoherent τ := by
  intro c hc
  rw [hcl, length_addClass] at hc
  rcases Nat.lt_or_ge c σ.classes.length with h | h
  · exact Coherent_extend σ τ hwf tail own hcl c h (hco c h)
  · have : c = σ.classes.length := by omega
    rw [this]; exact hnew

end extend

/-- a class derived from `p` without a `properties` argument continues `p`'s chain -/
theorem Coherent_new_none (σ : State) (hwf : WF σ) (p : ClassId)
    (h : Coherent σ p) : Coherent (addClass σ (σ.mroOf p) none) σ.classes.length := by
  obtain ⟨d, hd, hall⟩ := h
  have hm : (addClass σ (σ.mroOf p) none).mroOf σ.classes.length = σ.classes.length :: σ.mroOf p := by
    rw [mroOf_addClass, if_pos rfl]
  have ho : (addClass σ (σ.mroOf p) none).ownOf σ.classes.length = none := by
    rw [ownOf_addClass, if_pos rfl]
  have hlt : ∀ x ∈ σ.mroOf p, x < σ.classes.length := fun x hx => hwf.mro_lt p x hx
  have hdn : (addClass σ (σ.mroOf p) none).descOf σ.classes.length = some d := by
    unfold State.descOf
    rw [hm, List.findSome?_cons, ho]
    simp only
    rw [findSome?_ext _ σ.ownOf _ (fun x hx => ownOf_extend σ _ hwf _ none rfl x (hlt x hx))]
    exact hd
  refine ⟨d, hdn, fun x hx => ?_⟩
  rw [hm] at hx
  simp only [cut, ho, Option.isSome_none, Bool.false_eq_true, if_false] at hx
  rcases List.mem_cons.1 hx with e | hx
  · rw [e]; exact hdn
  · rw [cut_extend σ _ hwf _ none rfl _ hlt] at hx
    exact (descOf_extend σ _ hwf _ none rfl x (hlt x (mem_cut hx))).trans (hall x hx)

/-- a class made with `using(properties=…)` starts its own chain -/
theorem Coherent_new_some (σ τ : State) (tail : List ClassId) (d : DescId)
    (hcl : τ.classes = (addClass σ tail (some d)).classes) : Coherent τ σ.classes.length := by
  have hm : τ.mroOf σ.classes.length = σ.classes.length :: tail :=
    (mroOf_congr (σ := addClass σ tail (some d)) hcl _).trans (by rw [mroOf_addClass, if_pos rfl])
  have ho : τ.ownOf σ.classes.length = some d :=
    (ownOf_congr (σ := addClass σ tail (some d)) hcl _).trans (by rw [ownOf_addClass, if_pos rfl])
  have hd := descOf_of_head τ _ _ _ hm ho
  refine ⟨d, hd, fun x hx => ?_⟩
  rw [hm] at hx
  simp only [cut, ho, Option.isSome_some, if_true, List.mem_singleton] at hx
  rw [hx]; exact hd

theorem AllCoherent_initState (init : List (Key × Val)) : AllCoherent (initState init) := by
  intro c hc
  have : c = 0 := by simp [initState] at hc; exact hc
  subst this
  exact Coherent_new_some ⟨[], 0, [], []⟩ (initState init) [] 0 rfl

/-! ### the guards, the invariant, and the one-step refinement -/

/-- KF-C17-c excluded: a `class X(b1, b2, …)` statement must produce a class whose chain resolves
    `properties` to one descriptor (always the case unless one base line restarted `properties`
    with `using(properties=…)` and an earlier one did not) -/
def miGuard (σ : State) : Cmd → Bool
  | .subclassMI tail =>
    !(tail.all (· < σ.classes.length)) || coherentAt (addClass σ tail none) σ.classes.length
  | _ => true

/-- the guard of one command, judged in the state it is executed in: a legal MRO tail, no
    `Properties` object handed to a second class (KF-C17-b), no instance `clear()` while the
    instance holds a key its class does not show (KF-C17-a), no mixed-descriptor MRO (KF-C17-c) -/
def cmdGuard (σ : State) (c : Cmd) : Bool :=
  decide (CmdOK c) && decide (NoSharing c) && !(badClear σ c) && miGuard σ c

/-- the guard of a whole history -/
def histGuard : State → List Cmd → Bool
  | _, [] => true
  | σ, c :: cs => cmdGuard σ c && histGuard (step σ c).1 cs

theorem cmdGuard_iff (σ : State) (c : Cmd) :
    cmdGuard σ c = true ↔ CmdOK c ∧ NoSharing c ∧ badClear σ c = false ∧ miGuard σ c = true := by
  simp only [cmdGuard, Bool.and_eq_true, decide_eq_true_eq, Bool.not_eq_true', and_assoc]

/-- what the refinement needs of a state; holds initially and is kept by every guarded step -/
structure Inv (σ : State) : Prop where
  wf : WF σ
  ns : NoShared σ
  co : AllCoherent σ

theorem classOp_classes (σ : State) (v : ClassId) (o : Op) : (classOp σ v o).1.classes = σ.classes := by
  rcases classOp_state σ v o with e | ⟨d, f, e⟩ <;> rw [e]; rfl

theorem instOp_classes (σ : State) (i : InstId) (o : Op) : (instOp σ i o).1.classes = σ.classes := by
  rcases instOp_state σ i o with e | ⟨x, e⟩ <;> rw [e]; rfl

theorem AllCoherent_step (σ : State) (hwf : WF σ) (hco : AllCoherent σ) (cmd : Cmd)
    (hmi : miGuard σ cmd = true) : AllCoherent (step σ cmd).1 := by
  cases cmd with
  | op V o =>
    cases V with
    | cls c => exact AllCoherent_congr (classOp_classes σ c o) hco
    | inst i => exact AllCoherent_congr (instOp_classes σ i o) hco
  | subclass p =>
    simp only [step]; split
    · rename_i hp
      exact AllCoherent_extend σ _ hwf _ none rfl hco (Coherent_new_none σ hwf p (hco p hp))
    · exact hco
  | subclassMI tail =>
    simp only [step]; split
    · rename_i ht
      simp only [miGuard, ht, Bool.not_true, Bool.false_or] at hmi
      exact AllCoherent_extend σ _ hwf _ none rfl hco (Coherent_of_coherentAt _ _ hmi)
    · exact hco
  | usingProps p init =>
    simp only [step]; split
    · exact AllCoherent_extend σ (usingPropsStep σ p init) hwf _ (some σ.ndesc) rfl hco
        (Coherent_new_some σ _ _ σ.ndesc rfl)
    · exact hco
  | usingShared p ow init =>
    simp only [step]; split
    · split
      · exact AllCoherent_extend σ (usingPropsStep σ p init) hwf _ (some σ.ndesc) rfl hco
          (Coherent_new_some σ _ _ σ.ndesc rfl)
      · exact hco
    · exact hco
  | withProps p ps =>
    simp only [step]; split
    · rename_i hp
      exact AllCoherent_congr (classOp_classes _ _ _)
        (AllCoherent_extend σ _ hwf _ none rfl hco (Coherent_new_none σ hwf p (hco p hp)))
    · exact hco
  | newInst c => simp only [step]; split <;> first | exact AllCoherent_congr rfl hco | exact hco
  | newInstWith c m => simp only [step]; split <;> first | exact AllCoherent_congr rfl hco | exact hco
  | assign i m => simp only [step]; split <;> first | exact hco | exact AllCoherent_congr rfl hco
  | newInstCompound c m =>
    simp only [step]; split
    · exact AllCoherent_congr (σ := usingPropsStep σ c m) rfl
        (AllCoherent_extend σ (usingPropsStep σ c m) hwf _ (some σ.ndesc) rfl hco
          (Coherent_new_some σ _ _ σ.ndesc rfl))
    · exact hco

theorem Inv_step (σ : State) (h : Inv σ) (cmd : Cmd) (hg : cmdGuard σ cmd = true) : Inv (step σ cmd).1 := by
  obtain ⟨hok, hn, _, hmi⟩ := (cmdGuard_iff σ cmd).1 hg
  exact ⟨WF_step σ h.wf cmd hok, NoShared_step σ h.wf h.ns cmd hn, AllCoherent_step σ h.wf h.co cmd hmi⟩

theorem Inv_initState (init : List (Key × Val)) : Inv (initState init) :=
  ⟨WF_initState init, NoShared_initState init, AllCoherent_initState init⟩

theorem abs_addInst (σ : State) (y : Inst) :
    abs { σ with insts := σ.insts ++ [y] } = { abs σ with insts := (abs σ).insts ++ [absInst y] } := by
  refine SState.ext' rfl rfl rfl rfl ?_
  show (σ.insts ++ [y]).map absInst = σ.insts.map absInst ++ [absInst y]
  rw [List.map_append]; rfl

/-- **One step of model A is one step of the layered store.**  Under the guards, executing a
    command on the frames / descriptors / `__dict__` entries of the model and then reading off the
    layers gives the same layered store as recording the command in the layer of the view it was
    made through. -/
theorem refine_step (σ : State) (h : Inv σ) (cmd : Cmd) (hg : cmdGuard σ cmd = true) :
    abs (step σ cmd).1 = Spec.step (abs σ) cmd := by
  obtain ⟨_, hn, hbc, _⟩ := (cmdGuard_iff σ cmd).1 hg
  have hwf := h.wf
  have hnc : (abs σ).nclasses = σ.classes.length := rfl
  cases cmd with
  | op V o =>
    cases V with
    | cls c =>
      by_cases hc : c < σ.classes.length
      · exact refine_classOp σ hwf h.ns c o hc (h.co c hc)
      · simp only [step, classOp, Spec.step, hnc, hc, if_false]
    | inst i => exact refine_instOp σ hwf h.co i o hbc
  | subclass p =>
    simp only [step, Spec.step, hnc]; split
    · exact abs_addClass_none σ hwf _
    · rfl
  | subclassMI tail =>
    simp only [step, Spec.step, hnc]; split
    · exact abs_addClass_none σ hwf _
    · rfl
  | usingProps p init =>
    simp only [step, Spec.step, hnc]; split
    · exact abs_usingPropsStep σ hwf p init
    · rfl
  | usingShared p ow init =>
    simp only [step, Spec.step, hnc]
    by_cases hp : p < σ.classes.length
    · cases ho : σ.ownOf ow with
      | none => simp [hp, abs, ho]
      | some d =>
        have hlt : ow < σ.classes.length := by
          rcases Nat.lt_or_ge ow σ.classes.length with h' | h'
          · exact h'
          · rw [ownOf_ge σ ow h'] at ho; exact absurd ho (by simp)
        have hcond : p < σ.classes.length ∧ (abs σ).fresh ow = true ∧ ow < σ.classes.length :=
          ⟨hp, by simp [abs, ho], hlt⟩
        simp only [hp, if_true]
        rw [if_pos ⟨trivial, hcond.2.1, hcond.2.2⟩]
        exact abs_usingPropsStep σ hwf p init
    · simp [hp]
  | withProps p ps =>
    simp only [step, Spec.step, hnc]; split
    · rename_i hp
      have hwf1 := WF_addClass σ hwf (σ.mroOf p) none (fun x hx => hwf.mro_lt p x hx) (hwf.mro_nodup p) (by simp)
      have hs1 := NoShared_addClass σ h.ns (σ.mroOf p) none (by simp)
      have hc1 := Coherent_new_none σ hwf p (h.co p hp)
      rw [refine_classOp _ hwf1 hs1 σ.classes.length (.update ps) (by simp [addClass]) hc1,
        abs_addClass_none σ hwf]
      simp only [Spec.step, Spec.addClass, hnc, Nat.lt_succ_self, if_true]
      refine SState.ext' rfl rfl rfl ?_ rfl
      funext c
      simp only [fupd]
      split
      · simp only [applyOp, layerOfPairs, if_true]
      · rfl
    · rfl
  | newInst c =>
    simp only [step, Spec.step, hnc]; split
    · exact abs_addInst σ _
    · rfl
  | newInstWith c m =>
    simp only [step, Spec.step, hnc]; split
    · exact abs_addInst σ _
    · rfl
  | assign i m =>
    cases hx : σ.insts[i]? with
    | none =>
      have hi : (abs σ).insts[i]? = none := by rw [abs_insts_get, hx]; rfl
      simp only [step, Spec.step, hi, hx]
    | some x =>
      cases hloc : x.loc with
      | plain m' =>
        have hi : (abs σ).insts[i]? = some (.detached x.cls m') := by
          rw [abs_insts_get, hx]; simp [absInst, hloc]
        simp only [step, Spec.step, hi, hx, abs_setInst]; rfl
      | storage f =>
        have hi : (abs σ).insts[i]? = some (.attached x.cls (frameLayer f)) := by
          rw [abs_insts_get, hx]; simp [absInst, hloc]
        simp only [step, Spec.step, hi, hx, abs_setInst]; rfl
  | newInstCompound c m =>
    simp only [step, Spec.step, hnc]; split
    · have := abs_addInst (usingPropsStep σ c m) ⟨σ.classes.length, .storage []⟩
      rw [abs_usingPropsStep σ hwf c m] at this
      exact this
    · rfl

/-! ## whole histories -/

/-- the refinement and the invariant along every guarded history -/
theorem refine_run : ∀ (cmds : List Cmd) (σ : State), Inv σ → histGuard σ cmds = true →
    abs (run σ cmds).1 = Spec.run (abs σ) cmds ∧ Inv (run σ cmds).1
  | [], _, h, _ => ⟨rfl, h⟩
  | c :: cs, σ, h, hg => by
    simp only [histGuard, Bool.and_eq_true] at hg
    have ih := refine_run cs (step σ c).1 (Inv_step σ h c hg.1) hg.2
    simp only [run, Spec.run, List.foldl_cons]
    rw [← refine_step σ h c hg.1]
    exact ih

/-- in a well-formed coherent store every view — existing or not — reads as the overlay of the
    layers of its chain -/
theorem read_is_overlay_all (σ : State) (hwf : WF σ) (hco : AllCoherent σ) (v : View) :
    visible σ v = Spec.visible (abs σ) v := by
  cases v with
  | cls c =>
    by_cases hc : c < σ.classes.length
    · exact read_is_overlay_class σ hwf c (hco c hc)
    · have hge : σ.classes.length ≤ c := Nat.le_of_not_lt hc
      funext k
      simp only [visible, descOf_ge σ c hge, Spec.visible, classVisible, chain]
      rw [show (abs σ).mro c = σ.mroOf c from rfl, mroOf_ge σ c hge]
      rfl
  | inst i =>
    cases hx : σ.insts[i]? with
    | none =>
      have hi : (abs σ).insts[i]? = none := by rw [abs_insts_get, hx]; rfl
      funext k
      simp only [visible, hx, Spec.visible, hi]
      rfl
    | some x => exact read_is_overlay_inst σ hwf i x hx (hco x.cls (hwf.inst_lt i x hx))

/-- the guarded history form, from any store satisfying the invariant -/
theorem c17_histories_from (σ : State) (h : Inv σ) (cmds : List Cmd) (hg : histGuard σ cmds = true)
    (v : View) : visible (run σ cmds).1 v = Spec.visible (Spec.run (abs σ) cmds) v := by
  obtain ⟨hr, hi⟩ := refine_run cmds σ h hg
  rw [← hr]
  exact read_is_overlay_all _ hi.wf hi.co v

/-- `C17_Full` restricted to the histories that stay outside the three open findings -/
def C17_Partial : Prop :=
  ∀ (init : List (Key × Val)) (cmds : List Cmd) (v : View) (k : Key),
    histGuard (initState init) cmds = true →
    visible (run (initState init) cmds).1 v k
      = Spec.visible (Spec.run (abs (initState init)) cmds) v k

/-- **C17, sentence 1, over whole histories (guarded).**  After every history of commands from a
    fresh root that contains no instance `clear()` over a key unknown to the class (KF-C17-a), no
    `using(properties=<shared Properties object>)` (KF-C17-b) and no mixed-descriptor
    `class X(A, B)` (KF-C17-c), every view — class or instance, existing or not — reads exactly as
    the layered store of the property text reads after the same history: its own writes and
    tombstones over what its parents show, instances over their class, nothing flowing upward. -/
theorem c17_histories_partial : C17_Partial := fun init cmds v k hg =>
  congrFun (c17_histories_from (initState init) (Inv_initState init) cmds hg v) k

/-- the guard is what separates `C17_Partial` from the refuted `C17_Full`: each of the three
    negation witnesses is rejected by it -/
theorem histGuard_rejects_witnesses :
    histGuard (initState []) witnessClear = false ∧
    histGuard (initState []) witnessMI = false := by decide

/-- … and a history that hands one `Properties` object to a second class passes it (KF-C17-b closed) -/
theorem histGuard_accepts_shared : histGuard (initState [(kS, .int 1)]) witnessShared = true := by decide

/-! ### what the methods return along a history -/

/-- local storage of every attached instance is a Python dict: distinct keys -/
def LocalNodup (σ : State) : Prop :=
  ∀ (i : Nat) (x : Inst) (f : Frame), σ.insts[i]? = some x → x.loc = .storage f → (f.map (·.1)).Nodup

theorem LocalNodup_of (σ τ : State) (h : LocalNodup σ)
    (hi : ∀ (j : Nat) (y : Inst), τ.insts[j]? = some y →
      σ.insts[j]? = some y ∨ ∀ f : Frame, y.loc = .storage f → (f.map (·.1)).Nodup) : LocalNodup τ := by
  intro j y f hy hl
  rcases hi j y hy with h' | h'
  · exact h j y f h' hl
  · exact h' f hl

theorem LocalNodup_same (σ τ : State) (h : LocalNodup σ) (hi : τ.insts = σ.insts) : LocalNodup τ :=
  LocalNodup_of σ τ h (fun _ _ hy => Or.inl (hi ▸ hy))

theorem LocalNodup_setInst (σ : State) (h : LocalNodup σ) (i : InstId) (y : Inst)
    (hy : ∀ f : Frame, y.loc = .storage f → (f.map (·.1)).Nodup) : LocalNodup (setInst σ i y) := by
  apply LocalNodup_of σ _ h
  intro j z hz
  simp only [setInst] at hz
  by_cases e : i = j
  · subst e
    rcases Nat.lt_or_ge i σ.insts.length with hl | hl
    · rw [List.getElem?_set_self hl] at hz
      simp only [Option.some.injEq] at hz; subst hz; exact Or.inr hy
    · rw [List.getElem?_eq_none (by simp; omega)] at hz; simp at hz
  · rw [List.getElem?_set_ne e] at hz; exact Or.inl hz

theorem LocalNodup_addInst (σ : State) (h : LocalNodup σ) (y : Inst)
    (hy : ∀ f : Frame, y.loc = .storage f → (f.map (·.1)).Nodup) :
    LocalNodup { σ with insts := σ.insts ++ [y] } := by
  apply LocalNodup_of σ _ h
  intro j z hz
  simp only [getElem?_append_singleton] at hz
  split at hz
  · simp only [Option.some.injEq] at hz; subst hz; exact Or.inr hy
  · exact Or.inl hz

theorem LocalNodup_instOp (σ : State) (h : LocalNodup σ) (i : InstId) (o : Op) :
    LocalNodup (instOp σ i o).1 := by
  unfold instOp
  split
  · exact h
  · rename_i x hx
    split
    · exact LocalNodup_setInst σ h i _ (fun f hf => by simp at hf)
    · rename_i f hloc
      split
      · exact h
      · rename_i d hd
        split
        · exact h
        · apply LocalNodup_setInst σ h i
          intro f' hf'
          simp only [Local.storage.injEq] at hf'
          subst hf'
          exact iWrite_nodup σ f x.cls d o (h i x f hx hloc)

theorem LocalNodup_step (σ : State) (h : LocalNodup σ) (cmd : Cmd) : LocalNodup (step σ cmd).1 := by
  have hnil : ∀ (c : ClassId) (f : Frame), (Inst.mk c (.storage [])).loc = .storage f → (f.map (·.1)).Nodup := by
    intro c f hf; simp only [Local.storage.injEq] at hf; subst hf; simp
  have hplain : ∀ (c : ClassId) (m : Dict Val) (f : Frame),
      (Inst.mk c (.plain m)).loc = .storage f → (f.map (·.1)).Nodup := by
    intro c m f hf; simp at hf
  cases cmd with
  | op V o =>
    cases V with
    | cls c => exact LocalNodup_same σ _ h (classOp_insts σ c o)
    | inst i => exact LocalNodup_instOp σ h i o
  | subclass p => simp only [step]; split <;> first | exact LocalNodup_same σ _ h rfl | exact h
  | subclassMI t => simp only [step]; split <;> first | exact LocalNodup_same σ _ h rfl | exact h
  | usingProps p init => simp only [step]; split <;> first | exact LocalNodup_same σ _ h rfl | exact h
  | usingShared p ow =>
    simp only [step]; split
    · split <;> first | exact LocalNodup_same σ _ h rfl | exact h
    · exact h
  | withProps p ps =>
    simp only [step]; split
    · exact LocalNodup_same σ _ h (classOp_insts _ _ _)
    · exact h
  | newInst c => simp only [step]; split <;> first | exact LocalNodup_addInst σ h _ (hnil c) | exact h
  | newInstWith c m =>
    simp only [step]; split <;> first | exact LocalNodup_addInst σ h _ (hplain c _) | exact h
  | assign i m =>
    simp only [step]; split
    · exact h
    · exact LocalNodup_setInst σ h i _ (fun f hf => by simp at hf)
  | newInstCompound c m =>
    simp only [step]; split
    · exact LocalNodup_addInst (usingPropsStep σ c m) (LocalNodup_same σ _ h rfl) _ (hnil _)
    · exact h

theorem LocalNodup_run (cmds : List Cmd) (σ : State) (h : LocalNodup σ) : LocalNodup (run σ cmds).1 := by
  induction cmds generalizing σ with
  | nil => exact h
  | cons c cs ih => simp only [run]; exact ih _ (LocalNodup_step σ h c)

theorem LocalNodup_initState (init : List (Key × Val)) : LocalNodup (initState init) := by
  intro i x f hx; simp [initState] at hx

/-- the view goes through `_TypeLookup` / `_InstanceLookup` (an existing class, or an instance
    that still uses local storage) -/
def lookupView (σ : State) : View → Bool
  | .cls c => decide (c < σ.classes.length)
  | .inst i =>
    match σ.insts[i]? with
    | some ⟨_, .storage _⟩ => true
    | _ => false

/-- **Results along guarded histories.**  After any guarded history, whatever method is called
    next through a class view or an attached instance view returns what a Python dict holding the
    *reference* mapping of that view would return (order-free methods: `[]`, `get`, `in`, `del`,
    `pop`, `setdefault`, …), and the iterating methods (`items`, `keys`, `values`, `copy`, `bool`,
    `==`, `!=`) are computed on a duplicate-free listing of exactly the reference mapping. -/
theorem c17_results_partial (init : List (Key × Val)) (pre : List Cmd)
    (hg : histGuard (initState init) pre = true) (v : View) (o : Op)
    (hv : lookupView (run (initState init) pre).1 v = true) :
    let m := Spec.visible (Spec.run (abs (initState init)) pre) v
    (∀ r, dictResult o m = some r → (step (run (initState init) pre).1 (.op v o)).2 = r) ∧
    ∃ l, ItemsOf m l ∧ ∀ r, iterResult l o = some r → (step (run (initState init) pre).1 (.op v o)).2 = r := by
  obtain ⟨hr, hi⟩ := refine_run pre _ (Inv_initState init) hg
  have hn := LocalNodup_run pre _ (LocalNodup_initState init)
  have hm := read_is_overlay_all _ hi.wf hi.co v
  rw [hr] at hm
  simp only
  rw [← hm]
  generalize (run (initState init) pre).1 = σ at hi hn hv
  cases v with
  | cls c =>
    have hc : c < σ.classes.length := by simpa [lookupView] using hv
    obtain ⟨d, hd, _⟩ := hi.co c hc
    exact ⟨fun r h => dict_result_class σ c hc d hd o r h, iter_result_class σ c hc d hd o⟩
  | inst i =>
    cases hx : σ.insts[i]? with
    | none => simp [lookupView, hx] at hv
    | some x =>
      obtain ⟨c, loc⟩ := x
      cases loc with
      | plain m => simp [lookupView, hx] at hv
      | storage f =>
        obtain ⟨d, hd, _⟩ := hi.co c (hi.wf.inst_lt i _ hx)
        have hnf := hn i _ f hx rfl
        exact ⟨fun r h => dict_result_inst σ i _ f d hx rfl hd hnf o r h,
          iter_result_inst σ i _ f d hx rfl hd hnf o⟩

/-- each witness trips its own guard component and no other -/
theorem witnesses_trip_own_guard :
    (witnessClear.all (fun c => decide (CmdOK c) && decide (NoSharing c)) = true ∧
      badClear (run (initState []) (witnessClear.take 3)).1 (.op (.inst 0) .clear) = true) ∧
    (witnessMI.all (fun c => decide (CmdOK c) && decide (NoSharing c)) = true ∧
      miGuard (run (initState []) (witnessMI.take 3)).1 (.subclassMI [1, 2, 0]) = false) := by decide

/-! ### non-vacuity of `c17_histories_partial` -/

/-- parent P(0) with `{k: 0}`, children A(1) and B(2), grandchild G(3) of A, a class D(4) made by
    `A.using(properties={t: None})`, a diamond X(5) = `class X(A, B)`, instances of A (0) and G (1);
    then writes, deletions, `pop`, `setdefault`, `update`, `clear` on a class and on an instance,
    a wholesale assignment, and reads through class and instance views -/
def guardedHist : List Cmd :=
  [.subclass 0, .subclass 0, .subclass 1, .usingProps 1 [(kT, .none)], .subclassMI [1, 2, 0],
   .newInst 1, .newInst 3,
   .op (.cls 0) (.setitem kA (.int 1)),
   .op (.cls 1) (.setitem kB (.int 2)),
   .op (.cls 1) (.delitem kA),
   .op (.cls 2) (.pop kK none),
   .op (.inst 0) (.setdefault kA (.int 5)),
   .op (.cls 3) (.setdefault kB (.int 9)),
   .op (.inst 1) (.delitem kB),
   .op (.cls 3) (.update [(kS, .int 3), (kA, .int 4)]),
   .op (.inst 1) .clear,
   .op (.cls 1) .clear,
   .op (.cls 0) (.setitem kB (.int 7)),
   .op (.cls 4) (.pop kT (some (.int 0))),
   .withProps 2 [(kS, .int 8)],
   .newInstWith 6 [(kA, .int 6)],
   .op (.cls 0) .items, .op (.cls 1) (.getitem kB), .op (.cls 2) (.get kA .none),
   .op (.inst 0) .keys, .op (.inst 1) (.contains kS), .op (.cls 5) .items]

theorem guardedHist_ok : histGuard (initState [(kK, .int 0)]) guardedHist = true := by decide

/-- so every view reads as the layered reference after this history … -/
example (v : View) (k : Key) :
    visible (run (initState [(kK, .int 0)]) guardedHist).1 v k
      = Spec.visible (Spec.run (abs (initState [(kK, .int 0)])) guardedHist) v k :=
  c17_histories_partial _ _ v k guardedHist_ok

/-- … and the history is not a no-op: the views differ from each other in the expected ways
    (P keeps `k`, A was cleared and then sees only P's later write, B popped `k`, G's own `update`
    survives A's `clear`, the instance of A keeps its own `setdefault`, the diamond X sees A's
    tombstones before B and P, the `with_properties` class 6 adds `s`, its instance is detached) -/
example :
    let σ := (run (initState [(kK, .int 0)]) guardedHist).1
    visible σ (.cls 0) kK = some (.int 0) ∧ visible σ (.cls 0) kA = some (.int 1) ∧
    visible σ (.cls 1) kK = none ∧ visible σ (.cls 1) kA = none ∧ visible σ (.cls 1) kB = none ∧
    visible σ (.cls 2) kK = none ∧ visible σ (.cls 2) kA = some (.int 1) ∧ visible σ (.cls 2) kB = some (.int 7) ∧
    visible σ (.cls 3) kA = some (.int 4) ∧ visible σ (.cls 3) kS = some (.int 3) ∧
    visible σ (.cls 4) kT = none ∧ visible σ (.cls 4) kK = none ∧
    visible σ (.cls 5) kA = none ∧ visible σ (.cls 5) kB = none ∧
    visible σ (.cls 6) kS = some (.int 8) ∧ visible σ (.cls 6) kB = some (.int 7) ∧
    visible σ (.inst 0) kA = some (.int 5) ∧ visible σ (.inst 1) kS = none ∧
    visible σ (.inst 2) kA = some (.int 6) ∧ visible σ (.inst 2) kK = none := by decide

/-- `c17_results_partial`: after the history, `pop` through B returns the value inherited from P,
    and through the instance of G (cleared, then nothing written) `in` is false -/
example : (step (run (initState [(kK, .int 0)]) guardedHist).1 (.op (.cls 2) (.pop kA none))).2 = .val (.int 1) :=
  (c17_results_partial _ guardedHist guardedHist_ok (.cls 2) _ (by decide)).1 _ (by decide)
example : (step (run (initState [(kK, .int 0)]) guardedHist).1 (.op (.inst 1) (.contains kS))).2 = .bool false :=
  (c17_results_partial _ guardedHist guardedHist_ok (.inst 1) _ (by decide)).1 _ (by decide)

end Flatland.C17.Proofs
