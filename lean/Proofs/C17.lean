import Flatland.C17
import Flatland.Spec.C17
namespace Flatland.C17.Proofs
open Flatland.C17 Flatland.C17.Spec

end Flatland.C17.Proofs
