/-
C17 — properties is a layered mapping: inherited downward, never leaking upward.

Theorems about model A (`Flatland/C17.lean`) against spec B (`Flatland/Spec/C17.lean`).
-/
import Proofs.Lemmas.C17Layer
namespace Flatland.C17.Proofs
open Flatland.C17 Flatland.C17.Spec

/-! ## no upward leak (non-interference) -/

/-- the classes a view inherits properties from (its MRO; for an instance, that of its class) -/
def viewMro (σ : State) : View → List ClassId
  | .cls w => σ.mroOf w
  | .inst i => match σ.insts[i]? with | some x => σ.mroOf x.cls | none => []

/-- `W` inherits from `V`: `V` is `W` itself or a class in the MRO of `W` (of `W`'s class) -/
def Inherits (σ : State) (W V : View) : Prop :=
  match V with
  | .cls v => v ∈ viewMro σ W
  | .inst i => W = .inst i

theorem tGet_setFrame (σ : State) (hs : NoShared σ) (v w : ClassId) (d d' : DescId) (f : Frame)
    (h : v ∉ σ.mroOf w) (k : Key) :
    tGet (σ.setFrame (σ.baseKey v d) f) w d' k = tGet σ w d' k := by
  unfold tGet tFrames
  rw [mroOf_setFrame, walk_setFrame]
  intro c hc
  exact baseKey_ne σ hs c v d d' (fun e => h (e ▸ hc))

theorem visible_setFrame (σ : State) (hs : NoShared σ) (v : ClassId) (d : DescId) (f : Frame)
    (W : View) (h : v ∉ viewMro σ W) :
    visible (σ.setFrame (σ.baseKey v d) f) W = visible σ W := by
  funext k
  cases W with
  | cls w =>
    simp only [visible, descOf_setFrame]
    split
    · rfl
    · rw [tGet_setFrame σ hs v w d _ f h]
  | inst i =>
    simp only [visible, insts_setFrame, descOf_setFrame]
    split
    · rfl
    · rename_i x hx
      split
      · rfl
      · split
        · rfl
        · simp only [viewMro, hx] at h
          simp only [iGet, tGet_setFrame σ hs v x.cls d _ f h]

theorem tWrite_state (σ : State) (v : ClassId) (d : DescId) (o : Op) :
    (tWrite σ v d o).1 = σ ∨ ∃ f, (tWrite σ v d o).1 = σ.setFrame (σ.baseKey v d) f := by
  cases o <;> simp only [tWrite, State.writeBase] <;> first
    | (left; trivial)
    | (right; exact ⟨_, rfl⟩)
    | (split <;> first | (left; trivial) | (right; exact ⟨_, rfl⟩))

theorem classOp_state (σ : State) (v : ClassId) (o : Op) :
    (classOp σ v o).1 = σ ∨ ∃ d f, (classOp σ v o).1 = σ.setFrame (σ.baseKey v d) f := by
  unfold classOp
  split
  · split
    · left; rfl
    · rename_i d _
      split
      · left; rfl
      · rcases tWrite_state σ v d o with h | ⟨f, h⟩
        · left; exact h
        · right; exact ⟨d, f, h⟩
  · left; rfl

/-- an operation through an instance view changes that instance's `__dict__` entry only -/
theorem instOp_state (σ : State) (i : InstId) (o : Op) :
    (instOp σ i o).1 = σ ∨ ∃ x, (instOp σ i o).1 = setInst σ i x := by
  unfold instOp
  split
  · left; rfl
  · split
    · right; exact ⟨_, rfl⟩
    · split
      · left; rfl
      · split
        · left; rfl
        · right; exact ⟨_, rfl⟩

theorem visible_setInst (σ : State) (i : InstId) (x : Inst) (W : View) (h : W ≠ .inst i) :
    visible (setInst σ i x) W = visible σ W := by
  funext k
  have hd : ∀ c, (setInst σ i x).descOf c = σ.descOf c := descOf_congr rfl
  cases W with
  | cls w => simp only [visible, hd, tGet_congr (σ := σ) (σ' := setInst σ i x) rfl rfl]
  | inst j =>
    have hj : i ≠ j := fun e => h (e ▸ rfl)
    simp only [visible, hd, iGet_congr (σ := σ) (σ' := setInst σ i x) rfl rfl]
    simp only [setInst, List.getElem?_set_ne hj]

/-- **No upward leak.**  An operation made through view `V` never changes what a view `W`
    that does not inherit from `V` shows: parents, siblings, cousins, their instances, other
    instances of the same class, and (for an operation through an instance) every other view. -/
theorem no_upward_leak (σ : State) (hs : NoShared σ) (V W : View) (o : Op)
    (h : ¬ Inherits σ W V) : visible (step σ (.op V o)).1 W = visible σ W := by
  cases V with
  | cls v =>
    simp only [step]
    rcases classOp_state σ v o with e | ⟨d, f, e⟩
    · rw [e]
    · rw [e]; exact visible_setFrame σ hs v d f W h
  | inst i =>
    simp only [step]
    rcases instOp_state σ i o with e | ⟨x, e⟩
    · rw [e]
    · rw [e]; exact visible_setInst σ i x W h

/-! ## reading is the overlay of the chain's layers -/

/-- every class of the chain of `c` (MRO up to the nearest fresh start) resolves `properties`
    to the descriptor `c` resolves it to.  Always true with single inheritance
    (`coherent_of_single`); can fail for `class X(A, B)` — see `read_is_overlay_fails_mi`. -/
def Coherent (σ : State) (c : ClassId) : Prop :=
  ∃ d, σ.descOf c = some d ∧
    ∀ x ∈ cut (fun x => (σ.ownOf x).isSome) (σ.mroOf c), σ.descOf x = some d

theorem descOf_of_head (σ : State) (x : ClassId) (tail : List ClassId) (d : DescId)
    (hm : σ.mroOf x = x :: tail) (ho : σ.ownOf x = some d) : σ.descOf x = some d := by
  simp [State.descOf, hm, ho]

theorem walk_eq_chain (σ : State) (hwf : WF σ) (d : DescId) (l : List ClassId)
    (hl : ∀ x ∈ l, x < σ.classes.length)
    (h : ∀ x ∈ cut (fun x => (σ.ownOf x).isSome) l, σ.descOf x = some d) :
    overlayAll ((σ.walk d l).map frameLayer)
      = overlayAll ((cut (fun x => (σ.ownOf x).isSome) l).map (absLayer σ)) := by
  induction l with
  | nil => rfl
  | cons x rest ih =>
    have hx : x < σ.classes.length := hl x (List.mem_cons_self ..)
    obtain ⟨tail, hm⟩ := hwf.mro_head x hx
    simp only [State.walk, cut]
    by_cases ho : σ.owns x d = true
    · have ho' : σ.ownOf x = some d := by simpa [State.owns] using ho
      simp only [ho, if_true, ho', Option.isSome_some, List.map_cons, List.map_nil]
      have : absLayer σ x = frameLayer (σ.frameD (.init d)) := by
        simp [absLayer, descOf_of_head σ x tail d hm ho', State.baseFrame, State.baseKey, ho]
      rw [this]
    · have hdx : σ.descOf x = some d := by
        apply h; simp only [cut]; split <;> simp
      have hnone : σ.ownOf x = none := by
        cases hox : σ.ownOf x with
        | none => rfl
        | some d' =>
          have := descOf_of_head σ x tail d' hm hox
          rw [hdx] at this
          simp only [Option.some.injEq] at this
          subst this
          simp [State.owns, hox] at ho
      have hrest := ih (fun y hy => hl y (List.mem_cons_of_mem _ hy)) (fun y hy => by
        apply h; simp only [cut, hnone, Option.isSome_none]; exact List.mem_cons_of_mem _ hy)
      simp only [ho, hnone, Option.isSome_none, Bool.false_eq_true, if_false, List.map_cons, overlayAll]
      have hl' : absLayer σ x = frameLayer (σ.frameD (.cls d x)) := by
        simp [absLayer, hdx, State.baseFrame, State.baseKey, ho]
      rw [hl', ← hrest]
      cases hg : AList.get? σ.frames (.cls d x) with
      | none =>
        funext k
        simp [State.frameD, hg, overlay, frameLayer]
      | some f =>
        simp [State.frameD, hg, overlayAll]

/-- **Reading is the overlay.**  What a class view shows is the overlay, from the most basic
    class of its chain down to the class itself, of the layers held for those classes. -/
theorem read_is_overlay_class (σ : State) (hwf : WF σ) (c : ClassId) (hc : Coherent σ c) :
    visible σ (.cls c) = Spec.visible (abs σ) (.cls c) := by
  obtain ⟨d, hd, hall⟩ := hc
  funext k
  simp only [visible, hd, tGet, tFrames, lookupFrames_overlay, Spec.visible, classVisible, chain, abs]
  rw [walk_eq_chain σ hwf d (σ.mroOf c) (fun x hx => hwf.mro_lt c x hx) hall]

/-- … and an instance view adds the instance's own layer on top; an instance that was assigned
    a plain mapping shows that mapping. -/
theorem read_is_overlay_inst (σ : State) (hwf : WF σ) (i : InstId) (x : Inst)
    (hx : σ.insts[i]? = some x) (hc : Coherent σ x.cls) :
    visible σ (.inst i) = Spec.visible (abs σ) (.inst i) := by
  have hcls := read_is_overlay_class σ hwf x.cls hc
  obtain ⟨d, hd, _⟩ := hc
  funext k
  have hcls' := congrFun hcls k
  simp only [visible, hd, Spec.visible] at hcls'
  simp only [visible, hx, Spec.visible, abs, List.getElem?_map, Option.map_some, absInst]
  cases hloc : x.loc with
  | plain m => rfl
  | storage f =>
    simp only [hd, iGet, overlay, frameLayer]
    cases hg : AList.get? f k with
    | none => simpa [abs] using hcls'
    | some s => cases s <;> simp [Except.toOption]

/-! ## the mutating methods have `dict` semantics on the visible mapping -/

/-- what class `v` inherits: everything its walk finds above its own frame -/
def belowC (σ : State) (v : ClassId) (d : DescId) : Mapping :=
  if σ.owns v d then Mapping.empty
  else fun k => (lookupFrames (σ.walk d (σ.mroOf v).tail) k).toOption

theorem frameLayer_nil : frameLayer [] = Layer.empty := rfl

theorem overlay_empty_layer (below : Mapping) : overlay below Layer.empty = below := by
  funext k; simp [overlay, Layer.empty]

theorem tGet_decomp (σ : State) (v : ClassId) (d : DescId) (tail : List ClassId)
    (hm : σ.mroOf v = v :: tail) (k : Key) :
    (tGet σ v d k).toOption = overlay (belowC σ v d) (frameLayer (σ.baseFrame v d)) k := by
  simp only [tGet, tFrames, hm, State.walk, belowC, State.baseFrame, State.baseKey, List.tail_cons]
  by_cases ho : σ.owns v d = true
  · simp only [ho, if_true, lookupFrames_overlay, List.map_cons, List.map_nil, overlayAll]
  · simp only [ho, Bool.false_eq_true, if_false]
    cases hg : AList.get? σ.frames (.cls d v) with
    | none =>
      simp only [State.frameD, hg, Option.getD_none, frameLayer_nil, overlay_empty_layer]
    | some f =>
      simp only [State.frameD, hg, Option.getD_some, lookupFrames_overlay, List.map_cons, overlayAll]

theorem baseFrame_setFrame (σ : State) (v : ClassId) (d : DescId) (f : Frame) :
    (σ.setFrame (σ.baseKey v d) f).baseFrame v d = f := by
  simp [State.baseFrame, baseKey_congr (σ := σ) (σ' := σ.setFrame (σ.baseKey v d) f) rfl, frameD_setFrame]

theorem belowC_setFrame (σ : State) (hwf : WF σ) (v : ClassId) (d : DescId) (f : Frame) :
    belowC (σ.setFrame (σ.baseKey v d) f) v d = belowC σ v d := by
  simp only [belowC, owns_setFrame, mroOf_setFrame]
  by_cases ho : σ.owns v d = true
  · simp [ho]
  · simp only [ho, Bool.false_eq_true, if_false]
    funext k
    rw [walk_setFrame]
    intro c hc
    have hnd := hwf.mro_nodup v
    have hne : c ≠ v := by
      intro e; subst e
      cases hmv : σ.mroOf c with
      | nil => simp [hmv] at hc
      | cons a tl =>
        rw [hmv] at hc hnd
        simp only [List.tail_cons] at hc
        -- `c` occurs in the tail; it is also the head whenever the class exists
        by_cases hlt : c < σ.classes.length
        · obtain ⟨tl', e⟩ := hwf.mro_head c hlt
          rw [hmv] at e
          simp only [List.cons.injEq] at e
          obtain ⟨rfl, rfl⟩ := e
          exact (List.nodup_cons.1 hnd).1 hc
        · exact hlt (hwf.mro_lt c c (by rw [hmv]; exact List.mem_cons_of_mem _ hc))
    unfold State.baseKey
    simp only [ho, Bool.false_eq_true, if_false]
    split <;> simp [hne]

theorem except_cases {ε α : Type} (x : Except ε α) : (∃ e, x = .error e) ∨ (∃ a, x = .ok a) := by
  cases x <;> simp

/-- what `_TypeLookup`'s writing methods leave in the class's own frame, as a layer -/
theorem tWrite_layer (σ : State) (v : ClassId) (d : DescId) (o : Op) :
    frameLayer ((tWrite σ v d o).1.baseFrame v d)
      = applyOp (fun k => (tGet σ v d k).toOption) (frameLayer (σ.baseFrame v d)) o := by
  cases o <;> simp only [tWrite, applyOp, State.writeBase]
  case setitem k x => rw [baseFrame_setFrame, frameLayer_set]
  case delitem k =>
    rcases except_cases (tGet σ v d k) with ⟨e, hg⟩ | ⟨x, hg⟩
    · simp [hg, Except.toOption]
    · simp only [hg, Except.toOption, Option.isSome_some, if_true, baseFrame_setFrame, frameLayer_set]
  case clear =>
    rw [baseFrame_setFrame, frameLayer_foldl_deleted]
    funext k
    simp only [mem_keys_tItems]
  case pop k dflt =>
    rcases except_cases (tGet σ v d k) with ⟨e, hg⟩ | ⟨x, hg⟩
    · simp [hg, Except.toOption]
    · simp only [hg, Except.toOption, Option.isSome_some, if_true, baseFrame_setFrame, frameLayer_set]
  case setdefault k dv =>
    rcases except_cases (tGet σ v d k) with ⟨e, hg⟩ | ⟨x, hg⟩
    · simp only [hg, Except.toOption, Option.isSome_none, Bool.false_eq_true, if_false,
        baseFrame_setFrame, frameLayer_set]
    · simp [hg, Except.toOption]
  case update ps => rw [baseFrame_setFrame, frameLayer_update]

theorem belowC_tWrite (σ : State) (hwf : WF σ) (v : ClassId) (d : DescId) (o : Op) :
    belowC (tWrite σ v d o).1 v d = belowC σ v d := by
  rcases tWrite_state σ v d o with e | ⟨f, e⟩ <;> rw [e]
  exact belowC_setFrame σ hwf v d f

theorem tWrite_classes (σ : State) (v : ClassId) (d : DescId) (o : Op) :
    (tWrite σ v d o).1.classes = σ.classes := by
  rcases tWrite_state σ v d o with e | ⟨f, e⟩ <;> rw [e]; rfl

/-- **dict semantics, class views.**  After any method `o` called through the view of class
    `v`, that view shows exactly what a Python dict holding the previously visible mapping would
    hold after `o`. -/
theorem dict_semantics_class (σ : State) (hwf : WF σ) (v : ClassId) (hv : v < σ.classes.length)
    (d : DescId) (hd : σ.descOf v = some d) (o : Op) :
    visible (step σ (.op (.cls v) o)).1 (.cls v) = dictApply o (visible σ (.cls v)) := by
  obtain ⟨tail, hm⟩ := hwf.mro_head v hv
  have hvis : visible σ (.cls v) = overlay (belowC σ v d) (frameLayer (σ.baseFrame v d)) := by
    funext k; simp only [visible, hd]; exact tGet_decomp σ v d tail hm k
  simp only [step, classOp, hv, if_true, hd]
  cases hr : dictLikeRead (tReader σ v d) o with
  | some r =>
    simp only
    cases o <;> simp_all [dictLikeRead, dictApply]
  | none =>
    simp only
    have hcl := tWrite_classes σ v d o
    have hd' : (tWrite σ v d o).1.descOf v = some d := by rw [descOf_congr hcl]; exact hd
    have hm' : (tWrite σ v d o).1.mroOf v = v :: tail := by rw [mroOf_congr hcl]; exact hm
    have : visible (tWrite σ v d o).1 (.cls v)
        = overlay (belowC σ v d) (applyOp (visible σ (.cls v)) (frameLayer (σ.baseFrame v d)) o) := by
      funext k
      simp only [visible, hd']
      rw [tGet_decomp _ v d tail hm' k, belowC_tWrite σ hwf, tWrite_layer]
      congr 2
      funext k'; simp only [visible, hd]
    rw [this, hvis, overlay_applyOp]

end Flatland.C17.Proofs
