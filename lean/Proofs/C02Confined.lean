/-
C02 — "confined": a pair whose key addresses nothing has no effect on the tree `from_flat` builds.

`confined_fromFlat` is proved for every well-formed schema without SparseDicts, every pair list
and every position of the stray pair.  For SparseDicts the full statement is false of the code
(KF-C02-b): see `confined_full_fails`.
-/
import Flatland.Flat
import Flatland.Spec.C02
import Proofs.C02
namespace Flatland.Flat.Proofs
open Flatland.Flat Flatland.Flat.Spec

/-! ### distribution of the filters over concatenation -/

theorem possibles_append (sep : Str) (name : Option Str) (a b : Pairs) :
    possibles sep name (a ++ b) = possibles sep name a ++ possibles sep name b := by
  unfold possibles
  cases name <;> simp [List.filterMap_append]

theorem possibles_single (sep : Str) (name : Option Str) (key : Key) (v : Str) :
    possibles sep name [(key, v)] =
      match key with
      | none => []
      | some k => match stripName sep name k with
        | none => []
        | some rest => [(rest, v)] := by
  unfold possibles stripName
  cases key with
  | none => cases name <;> simp
  | some k =>
    cases name with
    | none => simp
    | some n =>
      simp only [List.filterMap_cons, List.filterMap_nil, Option.map_some]
      split <;> simp_all

theorem wrap_append (a b : List (Str × Str)) : wrap (a ++ b) = wrap a ++ wrap b := by
  simp [wrap]

theorem wrap_cons (x : Str × Str) (b : List (Str × Str)) : wrap (x :: b) = (some x.1, x.2) :: wrap b := by
  simp [wrap]

theorem setFields_nil (env : Env) (sep : Str) (fs : List Schema) (members : List (Str × Elem)) :
    setFields env sep fs members [] = members := by
  induction fs generalizing members with
  | nil => simp [setFields]
  | cons f fs ih => simp [setFields, ih]

theorem arrayAnon_cons (setM : Pairs → Elem) (prune : Bool) (cn : Option Str) (p : Key × Str)
    (ps : Pairs) :
    arrayAnon setM prune cn (p :: ps) = arrayAnon setM prune cn [p] ++ arrayAnon setM prune cn ps := by
  obtain ⟨key, v⟩ := p
  simp only [arrayAnon]
  repeat' split
  all_goals simp

theorem arrayAnon_append (setM : Pairs → Elem) (prune : Bool) (cn : Option Str) (a b : Pairs) :
    arrayAnon setM prune cn (a ++ b) = arrayAnon setM prune cn a ++ arrayAnon setM prune cn b := by
  induction a with
  | nil => simp [arrayAnon]
  | cons p ps ih =>
    rw [List.cons_append, arrayAnon_cons, ih, arrayAnon_cons setM prune cn p ps, List.append_assoc]

theorem arrayNamed_cons (setM : Pairs → Elem) (sep : Str) (prune : Bool) (name : Str)
    (cn : Option Str) (p : Key × Str) (ps : Pairs) :
    arrayNamed setM sep prune name cn (p :: ps)
      = arrayNamed setM sep prune name cn [p] ++ arrayNamed setM sep prune name cn ps := by
  obtain ⟨key, v⟩ := p
  simp only [arrayNamed]
  repeat' split
  all_goals simp

theorem arrayNamed_append (setM : Pairs → Elem) (sep : Str) (prune : Bool) (name : Str)
    (cn : Option Str) (a b : Pairs) :
    arrayNamed setM sep prune name cn (a ++ b)
      = arrayNamed setM sep prune name cn a ++ arrayNamed setM sep prune name cn b := by
  induction a with
  | nil => simp [arrayNamed]
  | cons p ps ih =>
    rw [List.cons_append, arrayNamed_cons, ih, arrayNamed_cons setM sep prune name cn p ps,
      List.append_assoc]

theorem ite_chain3 {α} (c1 c2 c3 : Bool) (x : List α) (h : c2 = true ∨ c3 = true) :
    (if c1 = true then [] else if c2 = true then [] else if c3 = true then [] else x) = [] := by
  cases c1 <;> cases c2 <;> cases c3 <;> simp_all

theorem arrayAnon_stray (setM : Pairs → Elem) (prune : Bool) (cn : Option Str) (key : Key) (v : Str)
    (h : arrayAddrAnon cn key = false) : arrayAnon setM prune cn [(key, v)] = [] := by
  unfold arrayAddrAnon at h
  simp only [arrayAnon]
  apply ite_chain3
  by_cases hc : truthy cn = true
  · left
    simp only [hc, if_true, beq_eq_false_iff_ne, ne_eq] at h
    simpa [hc] using h
  · right
    simp only [hc, if_false, Bool.false_eq_true] at h
    simp only [Bool.not_eq_true] at hc
    cases hh : (if (key == some []) = true then none else key) <;> simp_all

theorem ite_chain3' {α} (c1 c2 c3 : Bool) (x : List α) (h : c2 = true) :
    (if c1 = true then [] else if c2 = true then [] else if c3 = true then [] else x) = [] := by
  cases c1 <;> cases c2 <;> cases c3 <;> simp_all

theorem arrayNamed_stray (setM : Pairs → Elem) (sep : Str) (prune : Bool) (name : Str)
    (cn : Option Str) (key : Key) (v : Str)
    (h : arrayAddrNamed sep name cn key = false) :
    arrayNamed setM sep prune name cn [(key, v)] = [] := by
  unfold arrayAddrNamed at h
  simp only [arrayNamed]
  cases key with
  | none => rfl
  | some k =>
    simp only
    cases hr : arrayRemainder sep name k with
    | none => rfl
    | some rem =>
      simp only [hr, beq_eq_false_iff_ne, ne_eq] at h
      apply ite_chain3'
      simpa using h

theorem indexesOf_append (env : Env) (sep : Str) (name : Option Str) (prune : Bool) (a b : Pairs) :
    indexesOf env sep name prune (a ++ b)
      = indexesOf env sep name prune a ++ indexesOf env sep name prune b := by
  simp [indexesOf, List.filterMap_append]

theorem groupOf_append (env : Env) (sep : Str) (name : Option Str) (prune : Bool) (i : Nat)
    (a b : Pairs) :
    groupOf env sep name prune i (a ++ b)
      = groupOf env sep name prune i a ++ groupOf env sep name prune i b := by
  simp [groupOf, List.filterMap_append]

theorem indexesOf_stray (env : Env) (sep : Str) (name : Option Str) (prune : Bool) (key : Key) (v : Str)
    (h : listAddr env sep name key = none) : indexesOf env sep name prune [(key, v)] = [] := by
  simp [indexesOf, h]

theorem groupOf_stray (env : Env) (sep : Str) (name : Option Str) (prune : Bool) (i : Nat) (key : Key)
    (v : Str) (h : listAddr env sep name key = none) :
    groupOf env sep name prune i [(key, v)] = [] := by
  simp [groupOf, h]

/-! ### blank elements are fixed by an empty `set_flat` -/

theorem setFlat_blank_nil (env : Env) (sep : Str) (s : Schema) :
    setFlat env sep s (blank s) [] = blank s := by
  cases s with
  | leaf name o k => simp [setFlat]
  | dict name o mode fields => simp [setFlat, possibles]; cases name <;> simp
  | compound name o k fields => simp [setFlat, possibles]; cases name <;> simp
  | list name o prune mx member => simp [setFlat, blank]
  | array name o prune member => simp [setFlat, blank, arrayAnon, arrayNamed]
  | joined name o k member => simp [setFlat]

/-! ### association-list facts -/

theorem lookup_replace_ne (key key' : Str) (e : Elem) (ms : List (Str × Elem)) (h : key' ≠ key) :
    lookup key' (replace key e ms) = lookup key' ms := by
  induction ms with
  | nil => simp [replace, lookup]
  | cons x xs ih =>
    obtain ⟨k, x⟩ := x
    unfold replace
    split
    · rename_i hk
      subst hk
      simp [lookup, Ne.symm h]
    · simp [lookup, ih]

theorem replace_self (key : Str) (e : Elem) (ms : List (Str × Elem)) (h : lookup key ms = some e) :
    replace key e ms = ms := by
  induction ms with
  | nil => simp [replace]
  | cons x xs ih =>
    obtain ⟨k, x⟩ := x
    unfold lookup at h
    unfold replace
    split
    · rename_i hk
      simp only [hk, if_true, Option.some.injEq] at h
      subst hk; subst h; rfl
    · rename_i hk
      simp only [hk, if_false] at h
      rw [ih h]

theorem lookup_blankFields (fs : List Schema) (hn : (namesOf fs).Nodup)
    (hs : ∀ g ∈ fs, g.name.isSome) :
    ∀ f ∈ fs, lookup (f.name.getD []) (blankFields fs) = some (blank f) := by
  induction fs with
  | nil => intro f hf; simp at hf
  | cons g gs ih =>
    intro f hf
    simp only [namesOf, List.nodup_cons] at hn
    simp only [blankFields, lookup]
    rcases List.mem_cons.mp hf with rfl | hin
    · simp
    · have hne : g.name.getD [] ≠ f.name.getD [] := by
        intro heq
        apply hn.1
        have hgs := hs g (by simp)
        have hfs := hs f hf
        have : g.name = f.name := by
          cases hg : g.name <;> cases hf' : f.name <;> simp_all
        rw [this]; exact mem_namesOf hin
      simp only [hne, if_false]
      exact ih hn.2 (fun x hx => hs x (List.mem_cons_of_mem _ hx)) f hin

/-! ### the theorem -/

/-- one iteration of the `for schema in self.field_schema` loop -/
def stepM (env : Env) (sep : Str) (f : Schema) (members : List (Str × Elem)) (accum : List (Str × Str)) :
    List (Str × Elem) :=
  if accum.isEmpty then members
  else match lookup (f.name.getD []) members with
    | some child => replace (f.name.getD []) (setFlat env sep f child (wrap accum)) members
    | none => members ++ [(f.name.getD [], setFlat env sep f (blank f) (wrap accum))]

theorem setFields_cons (env : Env) (sep : Str) (f : Schema) (fs : List Schema)
    (members : List (Str × Elem)) (poss : List (Str × Str)) :
    setFields env sep (f :: fs) members poss
      = setFields env sep fs
          (stepM env sep f members (poss.filter (fun p => isPrefix (f.name.getD []) p.1))) poss := by
  rw [setFields]
  unfold stepM
  rfl

theorem filter_append_cons {α} (p : α → Bool) (a : List α) (x : α) (b : List α) :
    (a ++ x :: b).filter p = a.filter p ++ (if p x then [x] else []) ++ b.filter p := by
  simp [List.filter_append, List.filter_cons]
  split <;> simp

mutual
theorem confined_setFlat (env : Env) (sep : Str) : ∀ (s : Schema), wf s = true → dense s = true →
    ∀ (a b : Pairs) (key : Key) (v : Str), addr env sep s key = false →
    setFlat env sep s (blank s) (a ++ (key, v) :: b) = setFlat env sep s (blank s) (a ++ b)
  | .leaf name o k, _, _, a, b, key, v, h => by
    simp only [addr] at h
    simp only [setFlat, List.find?_append, List.find?_cons, h]
  | .joined name o k member, _, _, a, b, key, v, h => by
    simp only [addr] at h
    simp only [setFlat, List.find?_append, List.find?_cons, h]
  | .dict name o mode fields, hw, hd, a, b, key, v, h => by
    simp only [wf, Bool.and_eq_true] at hw
    simp only [dense, Bool.and_eq_true, decide_eq_true_eq] at hd
    obtain ⟨hmode, hdl⟩ := hd
    subst hmode
    have hnd : (namesOf fields).Nodup := by simpa using hw.2
    have hsome := allSome_of fields hw.1.2
    simp only [setFlat, blank, membersOf]
    rw [possibles_append, show (key, v) :: b = [(key, v)] ++ b from rfl, possibles_append,
      possibles_append, possibles_single]
    simp only [addr] at h
    cases key with
    | none => simp
    | some k =>
      simp only at h ⊢
      cases hst : stripName sep name k with
      | none => simp
      | some rest =>
        simp only [hst] at h
        have key := confined_setFields env sep fields hw.1.1 hdl (blankFields fields)
          (possibles sep name a) (possibles sep name b) rest v h
          (lookup_blankFields fields hnd hsome) hnd hsome
        simp only [List.singleton_append]
        rw [if_neg (by simp), key]
        split
        · rename_i hemp
          have : possibles sep name a ++ possibles sep name b = [] := by simpa using hemp
          rw [this, setFields_nil]
        · rfl
  | .compound name o kk fields, hw, hd, a, b, key, v, h => by
    simp only [wf, Bool.and_eq_true] at hw
    simp only [dense] at hd
    have hnd : (namesOf fields).Nodup := by simpa using hw.2
    have hsome := allSome_of fields hw.1.2
    simp only [setFlat, blank, membersOf]
    rw [possibles_append, show (key, v) :: b = [(key, v)] ++ b from rfl, possibles_append,
      possibles_append, possibles_single]
    simp only [addr] at h
    cases key with
    | none => simp
    | some k =>
      simp only at h ⊢
      cases hst : stripName sep name k with
      | none => simp
      | some rest =>
        simp only [hst] at h
        have key := confined_setFields env sep fields hw.1.1 hd (blankFields fields)
          (possibles sep name a) (possibles sep name b) rest v h
          (lookup_blankFields fields hnd hsome) hnd hsome
        simp only [List.singleton_append]
        rw [if_neg (by simp), key]
        split
        · rename_i hemp
          have : possibles sep name a ++ possibles sep name b = [] := by simpa using hemp
          rw [this, setFields_nil]
        · rfl
  | .list name o prune mx member, _, _, a, b, key, v, h => by
    simp only [addr, Option.isSome_eq_false_iff, Option.isNone_iff_eq_none] at h
    have hidx : indexesOf env sep name prune (a ++ (key, v) :: b)
        = indexesOf env sep name prune (a ++ b) := by
      rw [show (key, v) :: b = [(key, v)] ++ b from rfl, indexesOf_append, indexesOf_append,
        indexesOf_stray env sep name prune key v h, indexesOf_append]
      simp
    have hgrp : (fun i => groupOf env sep name prune i (a ++ (key, v) :: b))
        = (fun i => groupOf env sep name prune i (a ++ b)) := by
      funext i
      rw [show (key, v) :: b = [(key, v)] ++ b from rfl, groupOf_append, groupOf_append,
        groupOf_stray env sep name prune i key v h, groupOf_append]
      simp
    simp only [setFlat, hidx, hgrp]
    rw [if_neg (by simp)]
    by_cases hemp : (a ++ b).isEmpty = true
    · have : a ++ b = [] := by simpa using hemp
      simp [this, indexesOf]
    · rw [if_neg hemp]
  | .array name o prune member, _, _, a, b, key, v, h => by
    simp only [addr] at h
    simp only [setFlat]
    split
    · rename_i hn
      simp only [hn, if_true] at h
      rw [show (key, v) :: b = [(key, v)] ++ b from rfl, arrayAnon_append, arrayAnon_append,
        arrayAnon_stray _ prune member.name key v h, arrayAnon_append]
      simp
    · rename_i hn
      simp only [hn] at h
      rw [show (key, v) :: b = [(key, v)] ++ b from rfl, arrayNamed_append, arrayNamed_append,
        arrayNamed_stray _ sep prune _ member.name key v h, arrayNamed_append]
      simp
theorem confined_setFields (env : Env) (sep : Str) : ∀ (fs : List Schema), wfL fs = true →
    denseL fs = true → ∀ (members : List (Str × Elem)) (A B : List (Str × Str)) (rest v : Str),
    addrFields env sep fs rest = false →
    (∀ f ∈ fs, lookup (f.name.getD []) members = some (blank f)) →
    (namesOf fs).Nodup → (∀ g ∈ fs, g.name.isSome) →
    setFields env sep fs members (A ++ (rest, v) :: B) = setFields env sep fs members (A ++ B)
  | [], _, _, members, A, B, rest, v, _, _, _, _ => by simp [setFields]
  | f :: fs, hw, hd, members, A, B, rest, v, h, hinv, hn, hs => by
    simp only [wfL, Bool.and_eq_true] at hw
    simp only [denseL, Bool.and_eq_true] at hd
    simp only [addrFields, Bool.or_eq_false_iff, Bool.and_eq_false_iff] at h
    obtain ⟨hf, hrest⟩ := h
    simp only [namesOf, List.nodup_cons] at hn
    have hlook := hinv f (by simp)
    -- the member states both sides continue with are equal
    have hmem :
        stepM env sep f members ((A ++ (rest, v) :: B).filter (fun p => isPrefix (f.name.getD []) p.1))
        = stepM env sep f members ((A ++ B).filter (fun p => isPrefix (f.name.getD []) p.1)) := by
      rw [filter_append_cons]
      by_cases hp : isPrefix (f.name.getD []) rest = true
      · have haddr : addr env sep f (some rest) = false := by
          rcases hf with h1 | h1
          · simp [hp] at h1
          · exact h1
        simp only [hp, if_true]
        unfold stepM
        simp only [hlook]
        rw [if_neg (by simp)]
        rw [List.append_assoc, List.singleton_append, wrap_append, wrap_cons]
        have := confined_setFlat env sep f hw.1 hd.1 (wrap (A.filter fun p => isPrefix (f.name.getD []) p.1))
          (wrap (B.filter fun p => isPrefix (f.name.getD []) p.1)) (some rest) v haddr
        rw [this, ← wrap_append, ← List.filter_append]
        split
        · rename_i hemp
          have he : (A ++ B).filter (fun p => isPrefix (f.name.getD []) p.1) = [] := by simpa using hemp
          rw [he]
          simp only [wrap, List.map_nil]
          rw [setFlat_blank_nil, replace_self _ _ _ hlook]
        · rfl
      · rw [if_neg hp]
        simp only [List.append_nil, ← List.filter_append]
    rw [setFields_cons, setFields_cons, hmem]
    apply confined_setFields env sep fs hw.2 hd.2 _ A B rest v hrest _ hn.2
      (fun g hg => hs g (List.mem_cons_of_mem _ hg))
    -- invariant: the members of fields still to be processed are blank
    intro g hg
    have hne : g.name.getD [] ≠ f.name.getD [] := by
      intro heq
      apply hn.1
      have hgs := hs g (List.mem_cons_of_mem _ hg)
      have hfs := hs f (by simp)
      have : f.name = g.name := by
        cases hg' : g.name <;> cases hf' : f.name <;> simp_all
      rw [this]; exact mem_namesOf hg
    have hg0 := hinv g (List.mem_cons_of_mem _ hg)
    unfold stepM
    split
    · exact hg0
    · simp only [hlook]
      rw [lookup_replace_ne _ _ _ _ hne]
      exact hg0
end

/-- **Confined.**  For every well-formed schema without SparseDicts, every separator, every pair
    list and every position in it: a pair whose key does not follow declared field names down to a
    leaf or to an index of a declared list has no effect on the tree `from_flat` builds. -/
theorem confined_fromFlat (env : Env) (sep : Str) (s : Schema) (hw : wf s = true)
    (hd : dense s = true) (ps₁ ps₂ : List (Str × Str)) (k v : Str)
    (h : addr env sep s (some k) = false) :
    fromFlat env sep s (ps₁ ++ (k, v) :: ps₂) = fromFlat env sep s (ps₁ ++ ps₂) := by
  unfold fromFlat
  rw [wrap_append, wrap_cons, wrap_append]
  exact confined_setFlat env sep s hw hd (wrap ps₁) (wrap ps₂) (some k) v h

/-- the full statement, for every well-formed schema (SparseDicts included) -/
def C02_confined_Full : Prop :=
  ∀ (env : Env) (sep : Str) (s : Schema), wf s = true →
    ∀ (ps₁ ps₂ : List (Str × Str)) (k v : Str), addr env sep s (some k) = false →
      fromFlat env sep s (ps₁ ++ (k, v) :: ps₂) = fromFlat env sep s (ps₁ ++ ps₂)

def exEnv : Env := { norm := fun _ s => s, compose := fun _ _ => [], joinedMembers := fun _ _ => [],
                     ndZeros := [48], maxDigits := 4300 }

/-- KF-C02-b: a SparseDict materialises field `a` for the stray key `abc`. -/
theorem confined_full_fails : ¬ C02_confined_Full := by
  intro h
  have := h exEnv "_".toList
    (.dict none false .sparse [.leaf (some "a".toList) false 0, .leaf (some "b".toList) false 0])
    (by decide) [] [] "abc".toList "x".toList (by decide)
  simp [fromFlat, setFlat, setFields, blank, wrap, possibles, membersOf, lookup, isPrefix,
    Schema.name] at this

/-- non-vacuity: a dense schema and a stray key the theorem applies to -/
example : wf (.dict none false .dense [.leaf (some "a".toList) false 0]) = true ∧
    dense (.dict none false .dense [.leaf (some "a".toList) false 0]) = true ∧
    addr exEnv "_".toList (.dict none false .dense [.leaf (some "a".toList) false 0]) (some "abc".toList) = false := by
  decide

end Flatland.Flat.Proofs
