/-
C08 — `all_children`: the queue loop with its `seen` set (`acLoop`) lists, in a tree with unique
identities, exactly the proper descendants of the element, level by level (breadth-first),
each once.

* `reach_eq_levelOrder`: the plain queue walk is level order (same lemma as C05's `bfs_level`).
* `acLoop_eq_reach`: the `seen` test never fires when the identities met are distinct and new.
* `count_reach_le`: the walk meets every identity at most as often as the tree holds it.
* `mem_reach_iff`: the walk meets exactly the elements reachable through `children`.
* `allChildren_spec : UniqueIds root → AllChildrenSpec root`.
-/
import Flatland.C08
import Flatland.Spec.C08
namespace Flatland.C08.Proofs
open Flatland.Tree Flatland.PyList Flatland.C08 Flatland.C08.Spec

/-! ### the plain queue walk is level order -/

theorem reach_nil : reach [] = [] := by rw [reach]

theorem reach_cons (e : Node) (q : List Node) : reach (e :: q) = e :: reach (q ++ children e) := by
  rw [reach]

theorem reach_append (q r : List Node) :
    reach (q ++ r) = q ++ reach (r ++ q.flatMap children) := by
  induction q generalizing r with
  | nil => simp
  | cons e q ih =>
    simp only [List.cons_append, reach_cons, List.flatMap_cons]
    rw [List.append_assoc, ih]
    simp [List.append_assoc]

/-- one whole level first, then everything those elements put on the queue -/
theorem reach_level (q : List Node) : reach q = q ++ reach (q.flatMap children) := by
  have := reach_append q []
  simpa using this

theorem reach_eq_levelOrder (q : List Node) : reach q = levelOrder q := by
  induction h : sizeL q using Nat.strongRecOn generalizing q with
  | _ n ih =>
    cases q with
    | nil => simp [reach_nil, levelOrder]
    | cons e q =>
      rw [reach_level, levelOrder]
      congr 1
      have := sizeL_flatMap_children (e :: q)
      simp only [List.length_cons] at this
      exact ih _ (by omega) _ rfl

/-! ### the `seen` set never fires on distinct identities -/

theorem acLoop_nil (seen : List Nat) : acLoop seen [] = [] := by rw [acLoop]

theorem acLoop_cons (seen : List Nat) (e : Node) (q : List Node) :
    acLoop seen (e :: q) =
      if seen.contains e.id then acLoop seen q else e :: acLoop (e.id :: seen) (q ++ children e) := by
  rw [acLoop]

theorem sizeL_cons_children (e : Node) (q : List Node) : sizeL (q ++ children e) < sizeL (e :: q) := by
  have := sizeL_children_lt e
  simp only [sizeL, sizeL_append]; omega

theorem acLoop_eq_reach (q : List Node) : ∀ (seen : List Nat),
    (∀ x ∈ reach q, x.id ∉ seen) → ((reach q).map Node.id).Nodup → acLoop seen q = reach q := by
  induction h : sizeL q using Nat.strongRecOn generalizing q with
  | _ n ih =>
    intro seen hs hn
    cases q with
    | nil => rw [acLoop_nil, reach_nil]
    | cons e q =>
      rw [reach_cons] at hs hn ⊢
      rw [acLoop_cons]
      have he : seen.contains e.id = false := by
        have := hs e (by simp)
        simpa using this
      simp only [he, Bool.false_eq_true, if_false]
      congr 1
      simp only [List.map_cons, List.nodup_cons, List.mem_map, not_exists, not_and] at hn
      refine ih _ (by rw [← h]; exact sizeL_cons_children e q) _ rfl _ ?_ hn.2
      intro x hx hmem
      rcases List.mem_cons.mp hmem with h1 | h1
      · exact hn.1 x hx h1
      · exact hs x (List.mem_cons_of_mem _ hx) h1

/-! ### the walk meets every identity at most as often as the tree holds it -/

theorem nodesL_append (a b : List Node) : nodesL (a ++ b) = nodesL a ++ nodesL b := by
  induction a with
  | nil => simp [nodesL]
  | cons k ks ih => simp [nodesL, ih]

theorem nodes_eq (n : Node) : nodes n = n :: nodesL n.kids := by cases n; rw [nodes]; rfl

theorem nodesL_flatMap_kids_sublist (ks : List Node) : (nodesL (ks.flatMap Node.kids)).Sublist (nodesL ks) := by
  induction ks with
  | nil => simp [nodesL]
  | cons k ks ih =>
    rw [List.flatMap_cons, nodesL_append, nodesL, nodes_eq]
    exact List.Sublist.append (List.sublist_cons_self _ _) ih

/-- the elements `children` yields, with everything below them, are part of what is stored below the node -/
theorem nodesL_children_sublist (n : Node) : (nodesL (children n)).Sublist (nodesL n.kids) := by
  unfold children
  split
  · exact nodesL_flatMap_kids_sublist _
  · exact List.Sublist.refl _
  · exact List.Sublist.refl _
  · exact List.Sublist.refl _
  · exact List.Sublist.refl _
  · simp [nodesL]

theorem count_reach_le (a : Nat) (q : List Node) :
    ((reach q).map Node.id).count a ≤ ((nodesL q).map Node.id).count a := by
  induction h : sizeL q using Nat.strongRecOn generalizing q with
  | _ n ih =>
    cases q with
    | nil => simp [reach_nil]
    | cons e q =>
      have h1 := ih _ (by rw [← h]; exact sizeL_cons_children e q) (q ++ children e) rfl
      have h2 := ((nodesL_children_sublist e).map Node.id).count_le a
      rw [reach_cons, nodesL, nodes_eq]
      rw [nodesL_append] at h1
      simp only [List.map_cons, List.map_append, List.count_cons, List.count_append,
        List.cons_append] at h1 ⊢
      omega

/-! ### the walk meets exactly the reachable elements -/

theorem reach_trans {a b c : Node} (hab : Reach a b) (hbc : Reach b c) : Reach a c := by
  induction hbc with
  | root => exact hab
  | child _ hc ih => exact .child ih hc

theorem mem_reach_iff (q : List Node) (x : Node) : x ∈ reach q ↔ ∃ y ∈ q, Reach y x := by
  induction h : sizeL q using Nat.strongRecOn generalizing q with
  | _ n ih =>
    cases q with
    | nil => simp [reach_nil]
    | cons e q =>
      have h1 := ih _ (by rw [← h]; exact sizeL_cons_children e q) (q ++ children e) rfl
      rw [reach_cons, List.mem_cons, h1]
      constructor
      · rintro (rfl | ⟨y, hy, hr⟩)
        · exact ⟨x, by simp, .root⟩
        · rcases List.mem_append.mp hy with hy | hy
          · exact ⟨y, by simp [hy], hr⟩
          · exact ⟨e, by simp, reach_trans (.child .root hy) hr⟩
      · rintro ⟨y, hy, hr⟩
        rcases List.mem_cons.mp hy with rfl | hy
        · -- first step of the chain from `y`
          have : x = y ∨ ∃ c ∈ children y, Reach c x := by
            clear h1 hy ih h
            induction hr with
            | root => exact .inl rfl
            | @child p c hp hc ih =>
              rcases ih with rfl | ⟨c', hc', hr'⟩
              · exact .inr ⟨c, hc, .root⟩
              · exact .inr ⟨c', hc', .child hr' hc⟩
          rcases this with rfl | ⟨c, hc, hr'⟩
          · exact .inl rfl
          · exact .inr ⟨c, List.mem_append.mpr (.inr hc), hr'⟩
        · exact .inr ⟨y, List.mem_append.mpr (.inl hy), hr⟩

/-- reachable from a child = reachable from the node, and not the node's own start -/
theorem below_iff (root x : Node) : Below root x ↔ ∃ c ∈ children root, Reach c x := by
  constructor
  · rintro ⟨p, hp, hx⟩
    -- split the chain root → p at its first step
    have : p = root ∨ ∃ c ∈ children root, Reach c p := by
      clear hx
      induction hp with
      | root => exact .inl rfl
      | @child p' c' _ hc ih =>
        rcases ih with rfl | ⟨c, hc1, hr⟩
        · exact .inr ⟨c', hc, .root⟩
        · exact .inr ⟨c, hc1, .child hr hc⟩
    rcases this with rfl | ⟨c, hc, hr⟩
    · exact ⟨x, hx, .root⟩
    · exact ⟨c, hc, .child hr hx⟩
  · rintro ⟨c, hc, hr⟩
    induction hr with
    | root => exact ⟨root, .root, hc⟩
    | @child p c' hp hc' ih => exact ⟨p, (by
        obtain ⟨p0, hp0, hx0⟩ := ih
        exact .child hp0 hx0), hc'⟩

/-! ### the theorem -/

theorem ids_eq (n : Node) : ids n = n.id :: (nodesL n.kids).map Node.id := by
  rw [ids, nodes_eq]; rfl

/-- **all_children.**  In a tree with unique identities `all_children` is the breadth-first
    (level-order) list of the proper descendants: each identity once, never the element itself,
    and an element is listed iff it is reachable through `children` and is not the element. -/
theorem allChildren_spec {root : Node} (hu : UniqueIds root) : AllChildrenSpec root := by
  unfold UniqueIds at hu
  rw [ids_eq, List.nodup_cons] at hu
  -- identities met by the plain walk: at most once each, and never the root's
  have hcnt : ∀ a, ((reach (children root)).map Node.id).count a ≤ ((nodesL root.kids).map Node.id).count a :=
    fun a => Nat.le_trans (count_reach_le a _) (((nodesL_children_sublist root).map Node.id).count_le a)
  have hnd : ((reach (children root)).map Node.id).Nodup :=
    List.nodup_iff_count.mpr (fun a => Nat.le_trans (hcnt a) (List.nodup_iff_count.mp hu.2 a))
  have hroot : ∀ x ∈ reach (children root), x.id ≠ root.id := by
    intro x hx hid
    have h1 : 0 < ((reach (children root)).map Node.id).count root.id :=
      List.count_pos_iff.mpr (List.mem_map.mpr ⟨x, hx, hid⟩)
    have h2 := List.count_eq_zero.mpr hu.1
    have := hcnt root.id
    omega
  have heq : allChildren root = reach (children root) := by
    unfold allChildren
    apply acLoop_eq_reach _ _ _ hnd
    intro x hx hm
    simp only [List.mem_singleton] at hm
    exact hroot x hx hm
  have hmem : ∀ x, x ∈ allChildren root ↔ Below root x := by
    intro x; rw [heq, mem_reach_iff, below_iff]
  refine ⟨by rw [heq, reach_eq_levelOrder], by rw [heq]; exact hnd, by rw [heq]; exact hroot, hmem, ?_⟩
  intro x
  rw [hmem]
  constructor
  · rintro ⟨p, hp, hx⟩
    refine ⟨.child hp hx, ?_⟩
    rintro rfl
    exact hroot x (by rw [← heq, hmem]; exact ⟨p, hp, hx⟩) rfl
  · rintro ⟨hr, hne⟩
    cases hr with
    | root => exact absurd rfl hne
    | child hp hc => exact ⟨_, hp, hc⟩

end Flatland.C08.Proofs
