import Flatland.Generated.ClassTable
import Flatland.Flat
namespace Flatland.ClassTable
open Flatland.Generated.ClassTable

example : classTable.length = 32 := by decide
end Flatland.ClassTable
