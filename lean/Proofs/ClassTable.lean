/-
The translator half of the model–code tie for CLASS-LEVEL CONSTANTS.

`Flatland.Generated.ClassTable` is rewritten on every run by harness/extractors/classtable.py from the current
/repo source: one row per element class with every class-level data attribute (resolved through the MRO of the
imported class and cross-checked with the literal in the source text), the class that defines each method, and
the model kinds the harness instantiates the class for.

Every theorem below says: a constant that a hand-written model (or the harness code feeding it) hard-codes is
what the source says NOW.  Each has two parts where the constant lives inside a model function:
  * a lemma about the MODEL for all inputs (`resolve_flags`, `validateUp_reads`, `isEmpty_*`, …) that reads the
    constant off the model's definition, and
  * the instantiation on the generated table by `decide`.
A source edit of such a constant breaks `lake build Proofs.ClassTable` at the named theorem.
Which theorem belongs to which property: `OBLIGATIONS` in harness/extractors/classtable.py.
-/
import Flatland.Generated.ClassTable
import Flatland.Generated.C04Tables
import Flatland.Flat
import Flatland.Tree
import Flatland.C05
import Flatland.C06
import Flatland.Scalar
import Flatland.C18
import Flatland.Spec.C04
/-! ### reading the table -/
namespace Flatland.Generated.ClassTable

def Row.flag (r : Row) (a : String) : Option Bool :=
  match r.get a.toList with | some (.bool b) => some b | _ => none

def Row.text (r : Row) (a : String) : Option Str :=
  match r.get a.toList with | some (.str s) => some s | _ => none

/-- `none` = the attribute is `None`; `some s` = it is the text `s` -/
def Row.optText (r : Row) (a : String) : Option (Option Str) :=
  match r.get a.toList with | some (.str s) => some (some s) | some .none => some none | _ => none

def Row.has (r : Row) (a : String) : Bool := (r.get a.toList).isSome

def Row.is (r : Row) (c : String) : Bool := r.isa c.toList

end Flatland.Generated.ClassTable

namespace Flatland.ClassTable
open Flatland.Generated.ClassTable

def row? (n : String) : Option Row := classTable.find? (fun r => r.name == n.toList)

/-- classes nobody instantiates: the abstract roots (their flags are the inherited defaults) -/
def abstractRoots : List Str := ["Element".toList, "Slot".toList]

/-! ## flat core (C01, C02, C07; C12's `embed`): which nodes emit a pair, which let their children emit,
    which interpose slot indexes -/

inductive FK | leaf | dict | compound | list | array | joined
  deriving DecidableEq, Repr

def FK.ofStr (k : Str) : Option FK :=
  if k == "leaf".toList then some .leaf else if k == "dict".toList then some .dict
  else if k == "compound".toList then some .compound else if k == "list".toList then some .list
  else if k == "array".toList then some .array else if k == "multi".toList then some .array   -- MultiValue runs as `.array`
  else if k == "joined".toList then some .joined else none

def ctorKind : Flat.Schema → FK
  | .leaf .. => .leaf | .dict .. => .dict | .compound .. => .compound
  | .list .. => .list | .array .. => .array | .joined .. => .joined

/-- (emits a pair, lets its children flatten, children are slots named by index) -/
def flagsOf (n : Flat.FNode) : Bool × Bool × Bool := (n.fl, n.cfl, n.slots)

def kindFlags : FK → Bool × Bool × Bool
  | .leaf => (true, true, false)
  | .dict => (false, true, false)
  | .compound => (true, true, false)
  | .list => (false, true, true)
  | .array => (false, true, false)
  | .joined => (true, false, false)

/-- the MODEL side: `Flat.resolve` gives every node of a schema constructor exactly these three flags, whatever the
    environment and the element -/
theorem resolve_flags (env : Flat.Env) (s : Flat.Schema) (e : Flat.Elem) :
    flagsOf (Flat.resolve env s e) = kindFlags (ctorKind s) := by
  cases s <;> (unfold Flat.resolve; rfl)

/-- the flat-model constructor a class falls under BY INHERITANCE (most specific first); `Ref` and the abstract
    classes without a `_set_flat` of their own kind are outside the flat model -/
def familyKind (r : Row) : Option FK :=
  if r.is "JoinedString" then some .joined
  else if r.is "Compound" then some .compound
  else if r.is "List" then some .list
  else if r.is "Array" then some .array
  else if r.is "Mapping" then some .dict
  else if r.is "Ref" then none
  else if r.is "Sequence" || r.is "Container" then none
  else if r.is "Scalar" then some .leaf
  else none

def rowFlags (r : Row) : Option (Bool × Bool × Bool) :=
  match r.flag "flattenable", r.flag "children_flattenable" with
  | some f, some c => some (f, c, r.has "slot_type")
  | _, _ => none

/-- the harness (flatlib.build_class) builds every class for the constructor of its family -/
theorem flat_kinds_cover : ∀ r ∈ classTable, ∀ k ∈ r.flatKinds, FK.ofStr k = familyKind r ∧ (FK.ofStr k).isSome := by
  decide

/-- `flattenable` / `children_flattenable` / presence of `slot_type` of EVERY class of a family (not only the ones the
    harness instantiates: Constrained, Number, Schema, Form, SparseSchema, Compound, Mapping … too) are the flags
    `Flat.resolve` gives the nodes of that constructor -/
theorem flat_flags_table : ∀ r ∈ classTable, ∀ k, familyKind r = some k → rowFlags r = some (kindFlags k) := by
  decide

theorem flat_flags_agree (env : Flat.Env) (s : Flat.Schema) (e : Flat.Elem) :
    ∀ r ∈ classTable, familyKind r = some (ctorKind s) → rowFlags r = some (flagsOf (Flat.resolve env s e)) := by
  intro r hr hk
  rw [resolve_flags]
  exact flat_flags_table r hr _ hk

/-- non-vacuity: all six constructors are inhabited by a class the harness builds -/
example : ∀ k ∈ [FK.leaf, .dict, .compound, .list, .array, .joined],
    classTable.any (fun r => r.flatKinds.any (fun s => FK.ofStr s == some k)) = true := by decide

/-- what is outside the flat model never emits a pair of its own: `Ref.flattenable = False` -/
theorem ref_defaults : ∀ r ∈ classTable, r.is "Ref" = true →
    r.flag "flattenable" = some false ∧ r.text "writable" = some "ignore".toList ∧
    r.get "target_path".toList = some .none := by decide

/-- the three flags are only ever declared by the classes the model knows about: a new override anywhere in the
    hierarchy shows up here -/
theorem flags_closed_under_mro : ∀ r ∈ classTable,
    (r.definedBy "flattenable".toList).all (fun c => c ∈ ["Element", "Scalar", "Ref", "Array", "JoinedString"].map String.toList) = true ∧
    (r.definedBy "children_flattenable".toList).all (fun c => c ∈ ["Element", "JoinedString"].map String.toList) = true ∧
    (r.definedBy "slot_type".toList).all (fun c => c == "List".toList) = true := by decide

/-! ## defaults the flat / tree / set models take as inputs and the generators fill in from "the documented default" -/

/-- `List.maximum_set_flat_members` default: the ceiling the C01 assumption text, the C02 generator (`1023, 1024`
    boundary indexes) and every hand-written example use -/
def assumedListCeiling : Int := 1024

theorem list_ceiling_default : ∀ r ∈ classTable, r.is "List" = true →
    r.get "maximum_set_flat_members".toList = some (.int assumedListCeiling) := by decide

example : (row? "List").isSome = true := by decide

/-- `prune_empty` is `True` on every sequence class (Sequence declares it, Array repeats it) -/
theorem sequence_prune_default : ∀ r ∈ classTable, r.is "Sequence" = true → r.flag "prune_empty" = some true := by decide

/-- every class is non-optional unless told otherwise: the runners read a missing `"opt"` as `false`
    (`Run/FlatCommon.lean`, `Run/C03.lean`), `flatlib.build_class` only ever calls `using(optional=True)`;
    `Tree.SInfo.optional := false` -/
theorem optional_default : ∀ r ∈ classTable, r.is "Element" = true →
    r.flag "optional" = some ({ cid := 0, kind := .dict : Tree.SInfo }).optional := by decide

/-- `Dict.policy = 'subset'`: `Tree.SInfo.policy := .subset`, `Run/C06.lean` `cval` ("subset" when the class has no
    own value), "the default 'subset' policy" of C03's quantifier -/
def policyName : Tree.Policy → Option Str
  | .strict => some "strict".toList | .subset => some "subset".toList | .duck => some "duck".toList | .off => none

theorem dict_policy_default : ∀ r ∈ classTable, r.is "Dict" = true →
    r.optText "policy" = some (policyName ({ cid := 0, kind := .dict : Tree.SInfo }).policy) := by decide

/-- `SparseDict.minimum_fields = None`: `Tree.SInfo.minreq := false`, `Flat.DictMode.sparse` is what a plain
    `SparseDict` runs as (flatlib passes `minimum_fields='required'` only for `sparseReq`) -/
theorem sparse_minimum_default : ∀ r ∈ classTable, r.is "SparseDict" = true →
    r.optText "minimum_fields" =
      some (if ({ cid := 0, kind := .sparse : Tree.SInfo }).minreq then some "required".toList else none) := by decide

/-! ## C05: the two `_validate` variants -/

/-- the attribute names the model's `Info.down` / `Info.up` stand for (doc comment of `C05.Info`; `_dress` of
    harness/props/c05.py installs the outcome lists under exactly these names) -/
def c05Down (container : Bool) : Option Str :=
  some (if container then "descent_validators".toList else "validators".toList)
def c05Up (container : Bool) : Option Str :=
  if container then some "validators".toList else none

/-- the MODEL side: a non-container never reads `up` (its `validates_up` is `None`: `Unevaluated`, no call) … -/
theorem validateUp_reads (i : C05.Info) :
    (c05Up i.container = none → C05.validateUp i = (.uneval, 0)) ∧
    (c05Up i.container ≠ none → C05.validateUp i = C05.validateElement i i.up) := by
  cases h : i.container <;> simp [c05Up, C05.validateUp, h]

/-- … and `down` is read by both, a container returning `Unevaluated` for an empty list (`Container._validate`) -/
theorem validateDown_reads (i : C05.Info) :
    (i.container = false → C05.validateDown i = C05.validateElement i i.down) ∧
    (i.container = true → i.down = [] → C05.validateDown i = (.uneval, 0)) ∧
    (i.container = true → i.down ≠ [] → C05.validateDown i = C05.validateElement i i.down) := by
  refine ⟨?_, ?_, ?_⟩
  · intro h; simp [C05.validateDown, h]
  · intro h hd; simp [C05.validateDown, h, hd]
  · intro h hd; cases hl : i.down with
    | nil => exact absurd hl hd
    | cons a b => simp [C05.validateDown, h, hl]

/-- EVERY class except the abstract roots is one of the two cases the model distinguishes, with the attribute names
    the harness installs its validators under: containers (`isinstance(el, Container)`: Compound, MultiValue and
    JoinedString included — `Container` precedes `Scalar` in their MROs) descend with `descent_validators` and
    ascend with `validators`; everything else descends with `validators` and does not ascend -/
theorem validates_agree : ∀ r ∈ classTable, r.is "Element" = true → r.name ∉ abstractRoots →
    r.optText "validates_down" = some (c05Down (r.is "Container")) ∧
    r.optText "validates_up" = some (c05Up (r.is "Container")) := by decide

/-- … and the `_validate` they run is `Container._validate` (empty descent list → `Unevaluated`) resp.
    `Element._validate`; `validate` itself is never overridden -/
theorem validate_definers : ∀ r ∈ classTable, r.is "Element" = true →
    r.definer "_validate".toList = some (if r.is "Container" then "Container".toList else "Element".toList) ∧
    r.definer "validate".toList = some "Element".toList ∧
    (r.is "Container" = true → r.get "descent_validators".toList = some (.tuple [])) ∧
    r.get "validators".toList = some (.tuple []) := by decide

/-- the node kinds harness/props/c05.py builds are on the side of the split the case says (`"c"`) -/
theorem c05_kinds_agree : ∀ r ∈ classTable, ∀ k ∈ r.c05Kinds,
    r.is "Container" = (k != "s".toList) := by decide

def sentinel? (n : String) : Option Sentinel := sentinels.find? (fun s => s.name == n.toList)

/-- truthiness of the named ints as `C05.Ret.truthy` has it (`bool(validated)`), and `Skip` is truthy (the loop turns it
    into `True`) -/
theorem sentinel_truthiness :
    (sentinel? "Unevaluated").map (·.truthy) = some (C05.Ret.truthy .uneval) ∧
    (sentinel? "SkipAll").map (·.truthy) = some (C05.Ret.truthy .skipAll) ∧
    (sentinel? "SkipAllFalse").map (·.truthy) = some (C05.Ret.truthy .skipAllFalse) ∧
    (sentinel? "Skip").map (·.truthy) = some (C05.Ret.truthy (C05.runValidators [.skip]).1) := by decide

/-- `is` comparisons tell them apart (and from `True` / `False` / `None`) -/
theorem sentinels_distinct : sentinelsDistinct = true ∧ sentinels.length = 4 := by decide

/-! ## element tree model (C08, C09, C10, C13, C20 through `Flatland.Tree`) -/

def skindName : Tree.SKind → String
  | .integer => "integer" | .string => "string" | .list => "list" | .array => "array" | .multi => "multi"
  | .dict => "dict" | .sparse => "sparse" | .slot => "slot"

/-- the class whose `is_empty` body `Tree.isEmpty` follows for each kind -/
def isEmptyDefiner : Tree.SKind → String
  | .integer => "Element" | .string => "String" | .list | .array | .multi => "Sequence"
  | .dict => "Mapping" | .sparse => "SparseDict" | .slot => "Element"

/-- the MODEL side: `Mapping.is_empty` is `False`; `Sequence.is_empty` / `SparseDict.is_empty` are "no member" -/
theorem isEmpty_dict (n : Tree.Node) (h : n.kind = .dict) : Tree.isEmpty n = false := by
  simp [Tree.isEmpty, h]

theorem isEmpty_members (n : Tree.Node) (h : n.kind = .list ∨ n.kind = .array ∨ n.kind = .multi ∨ n.kind = .sparse) :
    Tree.isEmpty n = n.kids.isEmpty := by
  rcases h with h | h | h | h <;> simp [Tree.isEmpty, h]

def allSKinds : List Tree.SKind := [.integer, .string, .list, .array, .multi, .dict, .sparse, .slot]

theorem tree_is_empty_definers : ∀ r ∈ classTable, ∀ k ∈ allSKinds, (skindName k).toList ∈ r.treeKinds → k ≠ .slot →
    r.definer "is_empty".toList = some (isEmptyDefiner k).toList := by decide

/-- the kinds the builders instantiate a class for agree with its ancestry -/
theorem tree_kinds_agree : ∀ r ∈ classTable, ∀ k ∈ allSKinds, (skindName k).toList ∈ r.treeKinds →
    (match k with
     | .integer => r.is "Integer" | .string => r.is "String" && !r.is "Container"
     | .list => r.is "List" | .array => r.is "Array" && !r.is "Scalar" | .multi => r.is "MultiValue"
     | .dict => r.is "Dict" && !r.is "SparseDict" | .sparse => r.is "SparseDict"
     | .slot => r.is "Slot" && r.is "Container") = true := by decide

/-- a fresh element: `value = None`, `u = ''` (`Tree.NInfo` defaults), not optional, `default = None` -/
theorem tree_defaults_agree : ∀ r ∈ classTable, r.treeKinds ≠ [] → r.name ≠ "ListSlot".toList →
    r.flag "optional" = some ({ cid := 0, kind := .dict : Tree.SInfo }).optional ∧
    r.get "default".toList = some .none ∧ r.get "default_factory".toList = some .none ∧
    r.get "name".toList = some .none ∧
    (r.is "Container" = false →
      r.get "u".toList = some (.str ({ id := 0, parent := none : Tree.NInfo }).u) ∧
      r.get "value".toList = some .none) := by decide

/-- `List.slot_type` is ListSlot, a Container that is a Slot (the model's `.slot` nodes, `Tree.slotSchema`) -/
theorem list_slot_type :
    (∀ r ∈ classTable, r.is "List" = true → r.get "slot_type".toList = some (.ref "ListSlot".toList)) ∧
    (∀ r ∈ classTable, r.has "slot_type" = true → r.is "List" = true) ∧
    (row? "ListSlot").map (fun r => (r.is "Container", r.is "Slot", r.is "Sequence" || r.is "Mapping" || r.is "Scalar")) =
      some (true, true, false) ∧
    Tree.slotSchema.kind = .slot := by decide

/-! ## scalars (C04, C18, C12, C20 through `Flatland.Scalar`) -/

def boolKind (r : Row) : Option Scalar.Kind :=
  match r.get "true".toList, r.get "false".toList, r.get "true_synonyms".toList, r.get "false_synonyms".toList with
  | some (.str t), some (.str f), some (.tuple ts), some (.tuple fs) => some (.boolean t f ts fs)
  | _, _, _, _ => none

def kindBoolParts : Scalar.Kind → Option (Str × Str × List Str × List Str)
  | .boolean t f ts fs => some (t, f, ts, fs)
  | _ => none

/-- the `Boolean` the C04 runner uses for `"boolean_default"` (regenerated by extractors/c04.py) is the class
    default of this table: `true`, `false` and both synonym tuples, in order -/
theorem boolean_default_agrees :
    ((row? "Boolean").bind boolKind).bind kindBoolParts = kindBoolParts Flatland.Generated.C04.booleanDefault ∧
    ((row? "Boolean").bind boolKind).isSome = true := by decide

/-- the class-default Boolean satisfies the side conditions (`Coherent`, `CoherentNone`) of the C04 theorems that are
    partial in them (`reset_text`; KF-C04-c is about Booleans configured otherwise): they apply to `flatland.Boolean` -/
theorem boolean_default_coherent :
    ((row? "Boolean").bind boolKind).map (fun k => Scalar.Spec.Coherent k && Scalar.Spec.CoherentNone k) = some true := by
  decide

/-- change detector for the documented literal defaults (`true = '1'`, `false = ''`, the two synonym tuples).  The C04
    model itself takes them REGENERATED (so `boolean_default_agrees` only says that the two extractors agree); this pin
    is for everything written by hand against the documented defaults (corpus cases, C12's checkbox texts, docs) -/
theorem boolean_synonyms_pinned :
    ((row? "Boolean").bind boolKind).bind kindBoolParts =
      some ("1".toList, [], ["on".toList, "true".toList, "True".toList, "1".toList],
            ["off".toList, "false".toList, "False".toList, "0".toList, []]) := by decide

/-- `String.strip`, `Temporal.strip`: `True` (the kind `.string true` that `Run/C20.lean` falls back to, `.date true` in
    `C18.composeDate`); inherited unchanged by every subclass -/
theorem scalar_strip_defaults : ∀ r ∈ classTable, (r.is "String" || r.is "Temporal") = true →
    r.flag "strip" = some true := by decide

/-- number types: `signed = True`; `format` is `'%i'` for Integer/Long (`Scalar.Kind.integer _ 0`), `'%f'` for
    Float/Decimal; `type_` as the recognisers assume -/
theorem number_defaults : ∀ r ∈ classTable, r.is "Number" = true → r.name ≠ "Number".toList →
    r.flag "signed" = some true ∧
    (r.text "format", r.get "type_".toList) =
      (if r.is "Integer" || r.is "Long" then (some "%i".toList, some (.ref "int".toList))
       else if r.is "Float" then (some "%f".toList, some (.ref "float".toList))
       else (some "%f".toList, some (.ref "decimal.Decimal".toList))) := by decide

/-- the regex / format / used triples the hand-written recognisers (`Scalar.adaptTemporalText`, `C18.composeDate`,
    `C18.DateCfg` member names) implement -/
def temporalTriple (r : Row) : Option (List Char × List Char × List (List Char)) :=
  match r.get "regex".toList, r.get "format".toList, r.get "used".toList with
  | some (.regex p), some (.str f), some (.tuple u) => some (p, f, u)
  | _, _, _ => none

/-- the member names a generated DateYYYYMMDD has in the C18 model -/
def dateMemberNames : List (List Char) :=
  let c : C18.DateCfg := {}
  [c.ny, c.nm, c.nd]

theorem temporal_triples_agree :
    (row? "Date").bind temporalTriple =
      some ("^(?P<year>\\d{4})-(?P<month>\\d{2})-(?P<day>\\d{2})$".toList, "%(year)04i-%(month)02i-%(day)02i".toList,
            dateMemberNames) ∧
    (row? "Time").bind temporalTriple =
      some ("^(?P<hour>\\d{2}):(?P<minute>\\d{2}):(?P<second>\\d{2})$".toList, "%(hour)02i:%(minute)02i:%(second)02i".toList,
            ["hour".toList, "minute".toList, "second".toList]) ∧
    (row? "DateTime").bind temporalTriple =
      some ("^(?P<year>\\d{4})-(?P<month>\\d{2})-(?P<day>\\d{2}) (?P<hour>\\d{2}):(?P<minute>\\d{2}):(?P<second>\\d{2})$".toList,
            "%(year)04i-%(month)02i-%(day)02i %(hour)02i:%(minute)02i:%(second)02i".toList,
            ["year".toList, "month".toList, "day".toList, "hour".toList, "minute".toList, "second".toList]) ∧
    ((row? "DateYYYYMMDD").bind temporalTriple) = (row? "Date").bind temporalTriple :=
  ⟨by decide, by decide, by decide, by decide⟩

/-- `JoinedString`: `separator = ','`, no `separator_regex`, members are `String`s, pruning on -/
theorem joined_defaults : ∀ r ∈ classTable, r.is "JoinedString" = true →
    r.text "separator" = some ",".toList ∧ r.get "separator_regex".toList = some .none ∧
    r.get "member_schema".toList = some (.ref "String".toList) ∧ r.flag "prune_empty" = some true := by decide

/-! ## C06: which attributes a class of a kind has, and their built-in values -/

def c06Kind (k : Str) : Option C06.Kind :=
  if k == "scalar".toList then some .scalar else if k == "enum".toList then some .enum
  else if k == "ref".toList then some .ref else if k == "dict".toList then some .dict
  else if k == "seq".toList then some .seq else if k == "compound".toList then some .compound else none

def c06Attrs : List (C06.Attr × String) :=
  [(.name, "name"), (.optional, "optional"), (.default, "default"), (.validators, "validators"),
   (.descentValidators, "descent_validators"), (.memberSchema, "member_schema"), (.fieldSchema, "field_schema"),
   (.validValues, "valid_values"), (.targetPath, "target_path"), (.policy, "policy")]

/-- `C06.kindHas` (the model's `hasattr(cls, a)`: `using(a=…)` is accepted iff it holds) is `hasattr` of the real class
    for every class harness/props/c06.py runs and every attribute the model knows -/
theorem c06_kind_has_agrees : ∀ r ∈ classTable, ∀ ks ∈ r.c06Kinds, ∀ ap ∈ c06Attrs,
    (c06Kind ks).map (fun k => C06.kindHas k ap.1) = some (r.has ap.2) := by decide

/-- the built-in values of those attributes, as the runner's `cval` presents a class without own values -/
theorem c06_builtin_defaults : ∀ r ∈ classTable, r.c06Kinds ≠ [] →
    r.flag "optional" = some (C06.optionalOf (C06.initState .scalar []) 0) ∧
    r.get "name".toList = some .none ∧ r.get "default".toList = some .none ∧
    r.get "validators".toList = some (.tuple []) ∧
    (r.has "descent_validators" = true → r.get "descent_validators".toList = some (.tuple [])) ∧
    (r.has "valid_values" = true → r.get "valid_values".toList = some (.tuple [])) ∧
    (r.has "target_path" = true → r.get "target_path".toList = some .none) ∧
    (r.has "policy" = true → r.text "policy" = some "subset".toList) ∧
    (r.has "field_schema" = true → r.name ≠ "DateYYYYMMDD".toList → r.get "field_schema".toList = some (.tuple [])) := by
  decide

end Flatland.ClassTable
