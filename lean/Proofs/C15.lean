/-
C15 — built-in validators decide their documented predicate and explain failures.
-/
import Flatland.C15
import Flatland.Spec.C15
namespace Flatland.C15.Proofs
open Flatland.C16 Flatland.C15 Flatland.C15.Spec

end Flatland.C15.Proofs
