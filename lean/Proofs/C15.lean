/-
C15 — built-in validators decide their documented predicate and explain failures.

Model A: `Flatland/C15.lean`; specification B: `Flatland/Spec/C15.lean`.

Main theorem `C15_partial` (= `decides_partial`): whenever the documentation makes a promise about a
validator on an element view (`documented v e = some d`), the validator returns exactly the
verdict `d` without raising and notes a message iff the verdict is false — for every class,
including the three URL validators (decided over the opaque parse record, `Proofs/C15Url.lean`),
with ONE side condition: not (`HTTPURLValidator` on an element without a value that is promised
False) — KF-C15-a, where the code returns True.  The full statement `C15_Full` is refuted by that
witness (`C15_full_fails`).  `IsEmail` is decided relative to the opaque idna conversion
(`isEmail_length_on_idna`: every length assertion is on the converted domain).
-/
import Flatland.C15
import Flatland.Spec.C15
import Proofs.Lemmas.C15Luhn
import Proofs.Lemmas.C15Order
import Proofs.Lemmas.C15Sets
import Proofs.C16
import Proofs.Lemmas.C15Messages
import Proofs.Lemmas.C15Email
import Proofs.C15Url
namespace Flatland.C15.Proofs
open Flatland.C16 Flatland.C15 Flatland.C15.Spec

/-! ### scalars.py -/

theorem decides_present (e : View) (d) (hd : documented .present e = some d) :
    Decides .present e d := by
  simp only [documented, Option.some.injEq] at hd
  subst hd
  cases hu : e.u with
  | nil => exact decides_fail _ _ "missing" [] (by simp [verdict, hu])
  | cons c cs => exact decides_pass _ _ (by simp [verdict, hu])

theorem decides_isTrue (e : View) (d) (hd : documented .isTrue e = some d) :
    Decides .isTrue e d := by
  simp only [documented, Option.some.injEq] at hd
  subst hd
  cases h : truthy e.value with
  | false => exact decides_fail _ _ "false" [] (by simp [verdict, h])
  | true => exact decides_pass _ _ (by simp [verdict, h])

theorem decides_isFalse (e : View) (d) (hd : documented .isFalse e = some d) :
    Decides .isFalse e d := by
  simp only [documented, Option.some.injEq] at hd
  subst hd
  cases h : truthy e.value with
  | true => exact decides_fail _ _ "true" [] (by simp [verdict, h])
  | false => exact decides_pass _ _ (by simp [verdict, h])

theorem decides_converted (e : View) (d) (hd : documented .converted e = some d) :
    Decides .converted e d := by
  simp only [documented, Option.some.injEq] at hd
  subst hd
  cases h : (e.value != .none) with
  | false => exact decides_fail _ _ "incorrect" [] (by simp [verdict, h])
  | true => exact decides_pass _ _ (by simp [verdict, h])

theorem decides_valueIn (o) (e : View) (d) (hd : documented (.valueIn o) e = some d) :
    Decides (.valueIn o) e d := by
  simp only [documented, Option.some.injEq] at hd
  subst hd
  have : (o.any fun x => pyEq e.value x) = (o.any fun x => same e.value x) := by
    congr; funext x; exact pyEq_same _ _
  cases h : (o.any fun x => same e.value x) with
  | false => exact decides_fail _ _ "fail" [] (by simp [verdict, this, h])
  | true => exact decides_pass _ _ (by simp [verdict, this, h])

theorem isPrefixOf_eq_take (s l : Str) : s.isPrefixOf l = (l.take s.length == s) := by
  induction s generalizing l with
  | nil => simp
  | cons a as ih =>
    cases l with
    | nil => simp [List.isPrefixOf]
    | cons b bs =>
      simp only [List.isPrefixOf, List.length_cons, List.take_succ_cons, ih bs]
      by_cases hab : a = b
      · subst hab; simp
      · have : (a == b) = false := by simpa using hab
        have h2 : ¬ b = a := fun h => hab h.symm
        simp [this, h2]

theorem any_range_succ (n : Nat) (f : Nat → Bool) :
    (List.range (n + 1)).any f = (f 0 || (List.range n).any (fun i => f (i + 1))) := by
  rw [List.range_succ_eq_map]
  simp [List.any_map, Function.comp_def]

/-- the substring scan = "occurs at some offset" -/
theorem infixOf_eq (s c : Str) :
    infixOf s c = (List.range (c.length + 1)).any (fun i => (c.drop i).take s.length == s) := by
  induction c with
  | nil =>
    cases s <;> simp [infixOf]
  | cons x xs ih =>
    rw [infixOf, ih, isPrefixOf_eq_take]
    rw [show (x :: xs).length + 1 = (xs.length + 1) + 1 from rfl, any_range_succ (xs.length + 1)]
    simp

theorem decides_valueInText (c) (e : View) (d) (hd : documented (.valueInText c) e = some d) :
    Decides (.valueInText c) e d := by
  simp only [documented] at hd
  cases hv : e.value with
  | str s =>
    rw [hv] at hd
    simp only [Option.some.injEq] at hd
    subst hd
    rw [← infixOf_eq]
    cases h : infixOf s c with
    | true => exact decides_pass _ _ (by simp [verdict, hv, h])
    | false => exact decides_fail _ _ "fail" [] (by simp [verdict, hv, h])
  | none => rw [hv] at hd; cases hd; exact decides_fail _ _ "fail" [] (by simp [verdict, hv])
  | int i => rw [hv] at hd; cases hd; exact decides_fail _ _ "fail" [] (by simp [verdict, hv])
  | bool b => rw [hv] at hd; cases hd; exact decides_fail _ _ "fail" [] (by simp [verdict, hv])
  | elem u => rw [hv] at hd; cases hd; exact decides_fail _ _ "fail" [] (by simp [verdict, hv])
  | method o n => rw [hv] at hd; cases hd; exact decides_fail _ _ "fail" [] (by simp [verdict, hv])

theorem decides_shorterThan (m) (e : View) (d) (hd : documented (.shorterThan m) e = some d) :
    Decides (.shorterThan m) e d := by
  simp only [documented, Option.some.injEq] at hd
  subst hd
  by_cases h : (e.u.length : Int) ≤ m
  · have h' : ¬ (e.u.length : Int) > m := by omega
    simp only [h, decide_true]
    exact decides_pass _ _ (by simp [verdict, h'])
  · have h' : (e.u.length : Int) > m := by omega
    simp only [h, decide_false]
    exact decides_fail _ _ "exceeded" [] (by simp [verdict, h'])

theorem decides_longerThan (m) (e : View) (d) (hd : documented (.longerThan m) e = some d) :
    Decides (.longerThan m) e d := by
  simp only [documented, Option.some.injEq] at hd
  subst hd
  by_cases h : m ≤ (e.u.length : Int)
  · have h' : ¬ (e.u.length : Int) < m := by omega
    simp only [h, decide_true]
    exact decides_pass _ _ (by simp [verdict, h'])
  · have h' : (e.u.length : Int) < m := by omega
    simp only [h, decide_false]
    exact decides_fail _ _ "short" [] (by simp [verdict, h'])

theorem decides_lengthBetween (lo hi) (e : View) (d)
    (hd : documented (.lengthBetween lo hi) e = some d) : Decides (.lengthBetween lo hi) e d := by
  simp only [documented, Option.some.injEq] at hd
  subst hd
  by_cases h : lo ≤ (e.u.length : Int) ∧ (e.u.length : Int) ≤ hi
  · have h1 : ¬ (e.u.length : Int) < lo := by omega
    have h2 : ¬ (e.u.length : Int) > hi := by omega
    simp only [h, decide_true]
    exact decides_pass _ _ (by simp [verdict, h1, h2])
  · simp only [h, decide_false]
    by_cases h1 : (e.u.length : Int) < lo
    · exact decides_fail _ _ "breached" [] (by simp [verdict, h1])
    · have h2 : (e.u.length : Int) > hi := by omega
      exact decides_fail _ _ "breached" [] (by simp [verdict, h2])

/-- shared shape of the four one-bound comparisons: the model compares with `op`, which the
    order lemmas identify with a test `t` on the specification's three-valued order -/
theorem decides_compare (v : V) (e : View) (bound : Val) (d : Bool)
    (op : Except Raise Bool) (t : Ordering → Bool)
    (hop : ∀ o, cmp e.value bound = some o → op = .ok (t o))
    (hverdict : verdict v e =
      if e.value == .none then fail "failure"
      else op >>= fun r => if !r then fail "failure" else pass)
    (hdoc : (if e.value == .none then some false else (cmp e.value bound).map t) = some d) :
    Decides v e d := by
  by_cases hv : (e.value == .none) = true
  · simp only [hv, if_true, Option.some.injEq] at hdoc
    subst hdoc
    exact decides_fail _ _ "failure" [] (by rw [hverdict]; simp [hv])
  · simp only [hv, Bool.false_eq_true, if_false] at hdoc
    cases hc : cmp e.value bound with
    | none => rw [hc] at hdoc; cases hdoc
    | some o =>
      rw [hc] at hdoc
      simp only [Option.map, Option.some.injEq] at hdoc
      subst hdoc
      have := hop o hc
      cases ht : t o with
      | true =>
        exact decides_pass _ _ (by
          rw [hverdict, this]; simp [hv, ht, bind, Except.bind])
      | false =>
        exact decides_fail _ _ "failure" [] (by
          rw [hverdict, this]; simp [hv, ht, bind, Except.bind])

theorem decides_valueLessThan (b) (e : View) (d)
    (hd : documented (.valueLessThan b) e = some d) : Decides (.valueLessThan b) e d :=
  decides_compare _ e b d (pyLt e.value b) (· == .lt) (fun o h => pyLt_cmp _ _ o h)
    (by simp only [verdict]) (by simpa [documented] using hd)

theorem decides_valueAtMost (b) (e : View) (d)
    (hd : documented (.valueAtMost b) e = some d) : Decides (.valueAtMost b) e d :=
  decides_compare _ e b d (pyLe e.value b) (· != .gt) (fun o h => pyLe_cmp _ _ o h)
    (by simp only [verdict]) (by simpa [documented] using hd)

theorem decides_valueGreaterThan (b) (e : View) (d)
    (hd : documented (.valueGreaterThan b) e = some d) : Decides (.valueGreaterThan b) e d :=
  decides_compare _ e b d (pyLt b e.value) (· == .gt) (fun o h => pyGt_cmp _ _ o h)
    (by simp only [verdict]) (by simpa [documented] using hd)

theorem decides_valueAtLeast (b) (e : View) (d)
    (hd : documented (.valueAtLeast b) e = some d) : Decides (.valueAtLeast b) e d :=
  decides_compare _ e b d (pyLe b e.value) (· != .lt) (fun o h => pyGe_cmp _ _ o h)
    (by simp only [verdict]) (by simpa [documented] using hd)

theorem decides_valueBetween (lo hi inc) (e : View) (d)
    (hd : documented (.valueBetween lo hi inc) e = some d) :
    Decides (.valueBetween lo hi inc) e d := by
  simp only [documented] at hd
  by_cases hv : (e.value == .none) = true
  · simp only [hv, if_true, Option.some.injEq] at hd
    subst hd
    cases inc
    · exact decides_fail _ _ "failure_exclusive" [] (by simp [verdict, hv])
    · exact decides_fail _ _ "failure_inclusive" [] (by simp [verdict, hv])
  · simp only [hv, Bool.false_eq_true, if_false] at hd
    cases ha : cmp lo e.value with
    | none => rw [ha] at hd; simp at hd
    | some a =>
      rw [ha] at hd
      cases inc with
      | true =>
        have h1 := pyLe_cmp lo e.value a ha
        cases hta : (a != .gt) with
        | false =>
          have hd' : d = false := by
            cases hb : cmp e.value hi with
            | some b => rw [hb] at hd; simp [hta] at hd; first | exact hd | exact hd.symm
            | none => rw [hb] at hd; simp [hta] at hd; first | exact hd | exact hd.symm
          subst hd'
          exact decides_fail _ _ "failure_inclusive" [] (by
            simp only [verdict, hv, if_true, Bool.false_eq_true, if_false, h1, hta, chained,
              Bool.not_false])
        | true =>
          cases hb : cmp e.value hi with
          | none => rw [hb] at hd; simp [hta] at hd
          | some b =>
            rw [hb] at hd
            simp only [if_true, hta, Bool.true_and, Option.some.injEq] at hd
            subst hd
            have h2 := pyLe_cmp e.value hi b hb
            cases htb : (b != .gt) with
            | true =>
              exact decides_pass _ _ (by
                simp only [verdict, hv, if_true, Bool.false_eq_true, if_false, h1, hta, chained,
                  h2, htb, Bool.not_true])
            | false =>
              exact decides_fail _ _ "failure_inclusive" [] (by
                simp only [verdict, hv, if_true, Bool.false_eq_true, if_false, h1, hta, chained,
                  h2, htb, Bool.not_false])
      | false =>
        have h1 := pyLt_cmp lo e.value a ha
        cases hta : (a == .lt) with
        | false =>
          have hd' : d = false := by
            cases hb : cmp e.value hi with
            | some b => rw [hb] at hd; simp [hta] at hd; first | exact hd | exact hd.symm
            | none => rw [hb] at hd; simp [hta] at hd; first | exact hd | exact hd.symm
          subst hd'
          exact decides_fail _ _ "failure_exclusive" [] (by
            simp only [verdict, hv, Bool.false_eq_true, if_false, h1, hta, chained,
              Bool.not_false, if_true])
        | true =>
          cases hb : cmp e.value hi with
          | none => rw [hb] at hd; simp [hta] at hd
          | some b =>
            rw [hb] at hd
            simp only [Bool.false_eq_true, if_false, hta, Bool.true_and,
              Option.some.injEq] at hd
            subst hd
            have h2 := pyLt_cmp e.value hi b hb
            cases htb : (b == .lt) with
            | true =>
              exact decides_pass _ _ (by
                simp only [verdict, hv, Bool.false_eq_true, if_false, h1, hta, chained,
                  h2, htb, Bool.not_true])
            | false =>
              exact decides_fail _ _ "failure_exclusive" [] (by
                simp only [verdict, hv, Bool.false_eq_true, if_false, h1, hta, chained,
                  h2, htb, Bool.not_false, if_true])

/-! ### containers.py -/

theorem resolveFields_of_allResolved (fields : List (Option FieldView)) (l : List FieldView)
    (h : allResolved fields = some l) : resolveFields fields = .ok l := by
  induction fields generalizing l with
  | nil => simp [allResolved] at h; subst h; rfl
  | cons f rest ih =>
    cases f with
    | none => simp [allResolved] at h
    | some f =>
      simp only [allResolved] at h
      cases hr : allResolved rest with
      | none => rw [hr] at h; simp at h
      | some l' =>
        rw [hr] at h
        simp at h
        subst h
        simp [resolveFields, ih l' hr]

theorem mem_of_allResolved (fields : List (Option FieldView)) (l : List FieldView)
    (h : allResolved fields = some l) (g : FieldView) (hg : g ∈ l) : some g ∈ fields := by
  induction fields generalizing l with
  | nil => simp [allResolved] at h; subst h; cases hg
  | cons f rest ih =>
    cases f with
    | none => simp [allResolved] at h
    | some f =>
      simp only [allResolved] at h
      cases hr : allResolved rest with
      | none => rw [hr] at h; simp at h
      | some l' =>
        rw [hr] at h
        simp at h
        subst h
        rcases List.mem_cons.1 hg with rfl | hg'
        · simp
        · exact List.mem_cons_of_mem _ (ih l' hr hg')

theorem labelsJoin_ok (l : List Val) (h : ∀ v ∈ l, ∃ s, v = .str s) :
    ∃ r, labelsJoin l = .ok r := by
  induction l with
  | nil => exact ⟨[], rfl⟩
  | cons v rest ih =>
    obtain ⟨s, hs⟩ := h v (by simp)
    subst hs
    obtain ⟨r, hr⟩ := ih (fun v hv => h v (by simp [hv]))
    cases rest with
    | nil => exact ⟨s, rfl⟩
    | cons w ws =>
      exact ⟨s ++ [',', ' '] ++ r, by simp [labelsJoin, hr, bind, Except.bind, pure, Except.pure]⟩

theorem decides_mapEqual (k : EqKind) (e : View) (d)
    (hd : documented (.mapEqual k) e = some d) : Decides (.mapEqual k) e d := by
  cases k with
  | element =>
    simp only [documented] at hd
    cases hm : allResolved e.fields with
    | none => rw [hm] at hd; cases hd
    | some l =>
      rw [hm] at hd
      cases l with
      | nil => cases hd
      | cons first rest =>
        simp only at hd
        cases htl : textLabels (first :: rest) with
        | false => rw [htl] at hd; simp at hd
        | true =>
          rw [htl] at hd
          simp only [Bool.not_true, Bool.false_eq_true, if_false, Option.some.injEq] at hd
          have hres := resolveFields_of_allResolved e.fields (first :: rest) hm
          subst hd
          simp only [← pyEq_same]
          cases hall : rest.all (fun f => pyEq f.value first.value && f.u == first.u) with
          | true =>
            refine decides_pass _ _ ?_
            simp only [verdict, hres, bind, Except.bind, hall]
            rfl
          | false =>
            have hmem : ∀ g ∈ first :: rest, ∃ s, g.label = .str s := by
              intro g hg
              have := List.all_eq_true.1 htl g hg
              cases hl : g.label <;> simp [hl] at this
              exact ⟨_, rfl⟩
            obtain ⟨r, hr⟩ := labelsJoin_ok (((first :: rest).dropLast).map (·.label)) (by
              intro v hv
              simp only [List.mem_map] at hv
              obtain ⟨g, hg, rfl⟩ := hv
              exact hmem g (List.dropLast_subset _ hg))
            exact decides_fail _ _ "unequal" _ (by
              simp only [verdict, hres, bind, Except.bind, hall, hr]
              rfl)
  | value =>
    simp only [documented] at hd
    cases hm : allResolved e.fields with
    | none => rw [hm] at hd; cases hd
    | some l =>
      rw [hm] at hd
      cases l with
      | nil => cases hd
      | cons first rest =>
        simp only at hd
        cases htl : textLabels (first :: rest) with
        | false => rw [htl] at hd; simp at hd
        | true =>
          rw [htl] at hd
          simp only [Bool.not_true, Bool.false_eq_true, if_false, Option.some.injEq] at hd
          have hres := resolveFields_of_allResolved e.fields (first :: rest) hm
          subst hd
          simp only [← pyEq_same]
          cases hall : rest.all (fun f => pyEq f.value first.value) with
          | true =>
            refine decides_pass _ _ ?_
            simp only [verdict, hres, bind, Except.bind, hall]
            rfl
          | false =>
            have hmem : ∀ g ∈ first :: rest, ∃ s, g.label = .str s := by
              intro g hg
              have := List.all_eq_true.1 htl g hg
              cases hl : g.label <;> simp [hl] at this
              exact ⟨_, rfl⟩
            obtain ⟨r, hr⟩ := labelsJoin_ok (((first :: rest).dropLast).map (·.label)) (by
              intro v hv
              simp only [List.mem_map] at hv
              obtain ⟨g, hg, rfl⟩ := hv
              exact hmem g (List.dropLast_subset _ hg))
            exact decides_fail _ _ "unequal" _ (by
              simp only [verdict, hres, bind, Except.bind, hall, hr]
              rfl)
  | u =>
    simp only [documented] at hd
    cases hm : allResolved e.fields with
    | none => rw [hm] at hd; cases hd
    | some l =>
      rw [hm] at hd
      cases l with
      | nil => cases hd
      | cons first rest =>
        simp only at hd
        cases htl : textLabels (first :: rest) with
        | false => rw [htl] at hd; simp at hd
        | true =>
          rw [htl] at hd
          simp only [Bool.not_true, Bool.false_eq_true, if_false, Option.some.injEq] at hd
          have hres := resolveFields_of_allResolved e.fields (first :: rest) hm
          subst hd
          cases hall : rest.all (fun f => f.u == first.u) with
          | true =>
            refine decides_pass _ _ ?_
            simp only [verdict, hres, bind, Except.bind, hall]
            rfl
          | false =>
            have hmem : ∀ g ∈ first :: rest, ∃ s, g.label = .str s := by
              intro g hg
              have := List.all_eq_true.1 htl g hg
              cases hl : g.label <;> simp [hl] at this
              exact ⟨_, rfl⟩
            obtain ⟨r, hr⟩ := labelsJoin_ok (((first :: rest).dropLast).map (·.label)) (by
              intro v hv
              simp only [List.mem_map] at hv
              obtain ⟨g, hg, rfl⟩ := hv
              exact hmem g (List.dropLast_subset _ hg))
            exact decides_fail _ _ "unequal" _ (by
              simp only [verdict, hres, bind, Except.bind, hall, hr]
              rfl)

theorem decides_notDuplicated (e : View) (d)
    (hd : documented .notDuplicated e = some d) : Decides .notDuplicated e d := by
  simp only [documented] at hd
  cases hp : e.hasParent with
  | false => rw [hp] at hd; simp at hd
  | true =>
    cases hpos : e.pos with
    | none => rw [hp, hpos] at hd; simp at hd
    | some p =>
      rw [hp, hpos] at hd
      simp only [Option.some.injEq] at hd
      have hloop := dupLoop_valid (e.value, e.u) p e.siblings 0 true (Nat.zero_le _)
      simp only [Bool.true_and, Nat.sub_zero] at hloop
      have hsame : (e.siblings.take p).any (fun s => pyEq e.value s.1 && e.u == s.2) =
          (e.siblings.take p).any (fun s => same e.value s.1 && e.u == s.2) := by
        congr; funext s; rw [pyEq_same]
      rw [hsame] at hloop
      subst hd
      cases hr : dupLoop (e.value, e.u) (some p) e.siblings 0 true with
      | mk valid position =>
        rw [hr] at hloop
        simp only at hloop
        cases hv : valid with
        | true =>
          rw [hv] at hloop
          rw [← hloop]
          exact decides_pass _ _ (by simp [verdict, hp, hpos, hr, hv])
        | false =>
          rw [hv] at hloop
          rw [← hloop]
          exact decides_fail _ _ "failure" _ (by simp [verdict, hp, hpos, hr, hv] <;> rfl)

/-- **notdup_first_kept**: an element none of whose *earlier* siblings compares equal is never
    reported, whatever follows it — only second and later occurrences are marked -/
theorem notdup_first_kept (e : View) (p : Nat) (hp : e.hasParent = true) (hpos : e.pos = some p)
    (hfirst : ∀ s ∈ e.siblings.take p, (same e.value s.1 && e.u == s.2) = false) :
    verdict .notDuplicated e = pass := by
  have hd : documented .notDuplicated e = some true := by
    simp only [documented, hp, hpos, Option.some.injEq, Bool.not_eq_true']
    rw [List.any_eq_false]
    intro s hs
    simpa using hfirst s hs
  obtain ⟨note, hv, hn⟩ := decides_notDuplicated e true hd
  have : note = none := hn.1 rfl
  subst this
  exact hv

theorem decides_hasAtLeast (m) (e : View) (d)
    (hd : documented (.hasAtLeast m) e = some d) : Decides (.hasAtLeast m) e d := by
  simp only [documented] at hd
  cases hs : e.isSequence with
  | false => rw [hs] at hd; simp at hd
  | true =>
    rw [hs] at hd
    simp only [Bool.not_true, Bool.false_eq_true, if_false] at hd
    cases hl : e.valueLen with
    | none => rw [hl] at hd; cases hd
    | some n =>
      rw [hl] at hd
      simp only [Option.some.injEq] at hd
      subst hd
      by_cases h0 : m = 0
      · subst h0
        have : (0 : Int) ≤ (n : Int) := by omega
        simp only [this, decide_true]
        exact decides_pass _ _ (by simp [verdict, hs])
      · have hm : (m == 0) = false := by simp [h0]
        by_cases h : m ≤ (n : Int)
        · have h' : ¬ (n : Int) < m := by omega
          simp only [h, decide_true]
          exact decides_pass _ _ (by simp [verdict, hs, hm, hl, h'])
        · have h' : (n : Int) < m := by omega
          simp only [h, decide_false]
          exact decides_fail _ _ "failure" _ (by simp [verdict, hs, hm, hl, h'] <;> rfl)

theorem decides_hasAtMost (m) (e : View) (d)
    (hd : documented (.hasAtMost m) e = some d) : Decides (.hasAtMost m) e d := by
  simp only [documented] at hd
  cases hs : e.isSequence with
  | false => rw [hs] at hd; simp at hd
  | true =>
    rw [hs] at hd
    by_cases hneg : m < 0
    · simp [hneg] at hd
    · simp only [Bool.not_true, Bool.false_or, hneg, decide_false, Bool.false_eq_true,
        if_false] at hd
      cases hl : e.valueLen with
      | none =>
        rw [hl] at hd
        simp only [Option.some.injEq] at hd
        subst hd
        exact decides_pass _ _ (by simp [verdict, hs, hl])
      | some n =>
        rw [hl] at hd
        simp only [Option.some.injEq] at hd
        subst hd
        by_cases h : (n : Int) ≤ m
        · have h' : ¬ (n : Int) > m := by omega
          simp only [h, decide_true]
          exact decides_pass _ _ (by simp [verdict, hs, hl, h'])
        · have h' : (n : Int) > m := by omega
          have hn0 : (n != 0) = true := by
            have : n ≠ 0 := by omega
            simp [this]
          simp only [h, decide_false]
          exact decides_fail _ _ "failure" _ (by simp [verdict, hs, hl, h', hn0] <;> rfl)

theorem decides_hasBetween_len (lo hi : Int) (e : View) (n : Int)
    (hs : e.isSequence = true)
    (hn : lenOrZero e.valueLen = n) :
    Decides (.hasBetween lo hi) e (decide (lo ≤ n ∧ n ≤ hi)) := by
  by_cases h : lo ≤ n ∧ n ≤ hi
  · rw [decide_eq_true h]
    have : (decide (lo ≤ n) && decide (n ≤ hi)) = true := by simp [h.1, h.2]
    exact decides_pass _ _ (by
      simp only [verdict, hs, Bool.not_true, Bool.false_eq_true, if_false, hn, this, if_true])
  · rw [decide_eq_false h]
    have : (decide (lo ≤ n) && decide (n ≤ hi)) = false := by
      by_cases h1 : lo ≤ n
      · by_cases h2 : n ≤ hi
        · exact absurd ⟨h1, h2⟩ h
        · simp [h2]
      · simp [h1]
    exact decides_fail _ _ (if lo == hi then "exact" else "range") _ (by
      simp only [verdict, hs, Bool.not_true, Bool.false_eq_true, if_false, hn, this]
      rfl)

theorem decides_hasBetween (lo hi) (e : View) (d)
    (hd : documented (.hasBetween lo hi) e = some d) : Decides (.hasBetween lo hi) e d := by
  simp only [documented] at hd
  cases hs : e.isSequence with
  | false => rw [hs] at hd; simp at hd
  | true =>
    rw [hs] at hd
    simp only [Bool.not_true, Bool.false_eq_true, if_false, Option.some.injEq] at hd
    subst hd
    exact decides_hasBetween_len lo hi e _ hs rfl

theorem memKey_schema (keys : List Str) (k : Val) :
    memKey k (schemaVals keys) = declared keys k := by
  unfold memKey schemaVals declared
  rw [List.any_map]
  congr; funext a; simp [pyEq_same]

theorem memKey_given (ks : List Val) (a : Str) : memKey (.str a) ks = given ks a := by
  unfold memKey given
  congr; funext k; exact pyEq_same _ _

theorem all_schema_given (keys : List Str) (ks : List Val) :
    (schemaVals keys).all (fun k => memKey k ks) = keys.all (given ks) := by
  induction keys with
  | nil => rfl
  | cons a rest ih =>
    simp only [schemaVals, List.map_cons, List.all_cons, memKey_given] at ih ⊢
    rw [ih]

theorem decides_setWithKnownFields (e : View) (d)
    (hd : documented .setWithKnownFields e = some d) : Decides .setWithKnownFields e d := by
  simp only [documented] at hd
  cases hr : e.raw with
  | unset => rw [hr] at hd; cases hd; exact decides_pass _ _ (by simp [verdict, hr])
  | iterator => rw [hr] at hd; cases hd; exact decides_pass _ _ (by simp [verdict, hr])
  | none => rw [hr] at hd; cases hd; exact decides_pass _ _ (by simp [verdict, hr])
  | notIterable => rw [hr] at hd; cases hd; exact decides_pass _ _ (by simp [verdict, hr])
  | badPairs => rw [hr] at hd; cases hd; exact decides_pass _ _ (by simp [verdict, hr])
  | pairs ks =>
    rw [hr] at hd
    simp only [Option.some.injEq] at hd
    subst hd
    have := diffKeys_isEmpty ks (schemaVals e.schemaKeys)
    simp only [memKey_schema] at this
    cases hall : ks.all (declared e.schemaKeys) with
    | true =>
      rw [hall] at this
      exact decides_pass _ _ (by simp [verdict, hr, this])
    | false =>
      rw [hall] at this
      exact decides_fail _ _ "unexpected" _ (by simp [verdict, hr, this] <;> rfl)

theorem decides_setWithAllFields (e : View) (d)
    (hd : documented .setWithAllFields e = some d) : Decides .setWithAllFields e d := by
  simp only [documented] at hd
  cases hr : e.raw with
  | unset => rw [hr] at hd; cases hd; exact decides_pass _ _ (by simp [verdict, hr])
  | iterator => rw [hr] at hd; cases hd; exact decides_pass _ _ (by simp [verdict, hr])
  | none => rw [hr] at hd; cases hd; exact decides_pass _ _ (by simp [verdict, hr])
  | notIterable => rw [hr] at hd; cases hd; exact decides_pass _ _ (by simp [verdict, hr])
  | badPairs => rw [hr] at hd; cases hd; exact decides_pass _ _ (by simp [verdict, hr])
  | pairs ks =>
    rw [hr] at hd
    simp only [Option.some.injEq] at hd
    subst hd
    have h1 := diffKeys_isEmpty ks (schemaVals e.schemaKeys)
    have h2 := diffKeys_isEmpty (schemaVals e.schemaKeys) ks
    simp only [memKey_schema] at h1
    rw [all_schema_given] at h2
    have hsk : sameKeySet ks (schemaVals e.schemaKeys) =
        (ks.all (declared e.schemaKeys) && e.schemaKeys.all (given ks)) := by
      unfold sameKeySet
      simp only [memKey_schema, all_schema_given]
    cases hsame : sameKeySet ks (schemaVals e.schemaKeys) with
    | true =>
      rw [← hsk, hsame]
      exact decides_pass _ _ (by simp [verdict, hr, hsame])
    | false =>
      rw [← hsk, hsame]
      have hf : (ks.all (declared e.schemaKeys) && e.schemaKeys.all (given ks)) = false := by
        rw [← hsk]; exact hsame
      have : ((diffKeys (schemaVals e.schemaKeys) ks).isEmpty &&
          (diffKeys ks (schemaVals e.schemaKeys)).isEmpty) = false := by
        rw [h1, h2, Bool.and_comm]; exact hf
      exact decides_fail _ _ _ _ (by
        simp only [verdict, hr, Bool.false_eq_true, if_false, hsame, this]
        rfl)

/-! ### number.py -/

theorem decides_luhn10 (e : View) (d) (hd : documented .luhn10 e = some d) :
    Decides .luhn10 e d := by
  simp only [documented] at hd
  cases hv : e.value with
  | none =>
    rw [hv] at hd
    cases hd
    exact decides_fail _ _ "invalid" [] (by simp [verdict, hv])
  | str s => rw [hv] at hd; simp [numOf] at hd
  | elem s => rw [hv] at hd; simp [numOf] at hd
  | method o n => rw [hv] at hd; simp [numOf] at hd
  | int i =>
    rw [hv] at hd
    simp only [numOf, Option.some.injEq] at hd
    subst hd
    rw [← luhn10Check_eq]
    cases h : luhn10Check i with
    | true => exact decides_pass _ _ (by simp [verdict, hv, numOf, h])
    | false => exact decides_fail _ _ "invalid" [] (by simp [verdict, hv, numOf, h])
  | bool b =>
    rw [hv] at hd
    simp only [numOf, Option.some.injEq] at hd
    subst hd
    rw [← luhn10Check_eq]
    cases h : luhn10Check (if b then 1 else 0) with
    | true => exact decides_pass _ _ (by simp [verdict, hv, numOf, h])
    | false => exact decides_fail _ _ "invalid" [] (by simp [verdict, hv, numOf, h])

/-! ### network.py: IsEmail (idna conversion opaque, order of checks specified) -/

theorem decides_isEmail (nl : Bool) (e : View) (d)
    (hd : documented (.isEmail nl) e = some d) : Decides (.isEmail nl) e d := by
  simp only [documented] at hd
  cases hv : e.value with
  | none =>
    rw [hv] at hd; cases hd
    exact decides_fail _ _ "invalid" [] (by simp [verdict, hv])
  | str addr =>
    rw [hv] at hd
    simp only [Option.some.injEq] at hd
    subst hd
    have := verdict_isEmail_str nl e addr hv
    cases hdoc : emailDocumented nl addr e.localOk e.idna with
    | true => rw [hdoc] at this; exact decides_pass _ _ (by simpa using this)
    | false => rw [hdoc] at this; exact decides_fail _ _ "invalid" [] (by simpa using this)
  | int i => rw [hv] at hd; cases hd
  | bool b => rw [hv] at hd; cases hd
  | elem u => rw [hv] at hd; cases hd
  | method o n => rw [hv] at hd; cases hd

/-- **isEmail_length_on_idna**: the length assertions are applied to the *converted* domain.
    Whatever the address looks like as text (in particular however short its domain is before
    conversion), if the IDN form is longer than 253 characters — or one of its dot-separated
    components longer than 63 — the verdict is false with the `invalid` message. -/
theorem isEmail_length_on_idna (nl : Bool) (e : View) (addr d : Str)
    (hv : e.value = .str addr) (hi : e.idna = some d)
    (hlong : 253 < d.length ∨ ∃ l ∈ splitOnChar '.' d, 63 < l.length) :
    verdict (.isEmail nl) e = fail "invalid" := by
  rw [verdict_isEmail_str nl e addr hv]
  have : emailDocumented nl addr e.localOk e.idna = false := by
    unfold emailDocumented
    rw [hi]
    rcases hlong with h | ⟨l, hl, h⟩
    · have : ¬ d.length ≤ 253 := by omega
      simp [this]
    · have : (splitOnChar '.' d).all (fun l => decide (l.length ≤ 63)) = false := by
        rw [List.all_eq_false]
        exact ⟨l, hl, by simp; omega⟩
      simp [this]
  simp [this]

/-- conversely an accepted address has a converted domain of at most 253 characters whose
    components have at most 63 -/
theorem isEmail_accepts_short_idna (nl : Bool) (e : View) (addr : Str)
    (hv : e.value = .str addr) (hp : verdict (.isEmail nl) e = pass) :
    ∃ d, e.idna = some d ∧ d.length ≤ 253 ∧ ∀ l ∈ splitOnChar '.' d, l.length ≤ 63 := by
  rw [verdict_isEmail_str nl e addr hv] at hp
  cases hdoc : emailDocumented nl addr e.localOk e.idna with
  | false => rw [hdoc] at hp; simp [pass, fail] at hp
  | true =>
    unfold emailDocumented at hdoc
    cases hi : e.idna with
    | none => rw [hi] at hdoc; simp at hdoc
    | some d =>
      rw [hi] at hdoc
      simp only [Bool.and_eq_true, decide_eq_true_eq, List.all_eq_true] at hdoc
      exact ⟨d, rfl, hdoc.2.1.1.1, fun l hl => hdoc.2.2 l hl⟩

/-- non-vacuity: a 8-character text domain whose (supposed) conversion has 254 characters -/
example :
    verdict (.isEmail true)
      { value := .str "bob@snow.com".toList, idna := some (List.replicate 254 'a') } =
      fail "invalid" :=
  isEmail_length_on_idna true _ "bob@snow.com".toList (List.replicate 254 'a') rfl rfl
    (Or.inl (by rw [List.length_replicate]; omega))

/-! ### the property theorem -/

/-- **decides** — for every validator class, every parameterisation and every element view:
    whenever the documentation makes a promise (`documented v e = some d`), the validator
    returns exactly the verdict `d`, without raising, and calls `note_error` iff `d` is false —
    except for `HTTPURLValidator` on an element without a value that is promised False
    (KF-C15-a) and the other open finding collected in `Spec.excluded` (KF-C15-g: `''` listed in
    `allowed_schemes`). -/
theorem decides_partial (v : V) (e : View) (d : Bool) (hd : documented v e = some d)
    (hk : Excluded v e d = false) : Decides v e d := by
  cases v with
  | present => exact decides_present e d hd
  | isTrue => exact decides_isTrue e d hd
  | isFalse => exact decides_isFalse e d hd
  | converted => exact decides_converted e d hd
  | valueIn o => exact decides_valueIn o e d hd
  | valueInText c => exact decides_valueInText c e d hd
  | shorterThan m => exact decides_shorterThan m e d hd
  | longerThan m => exact decides_longerThan m e d hd
  | lengthBetween a b => exact decides_lengthBetween a b e d hd
  | valueLessThan b => exact decides_valueLessThan b e d hd
  | valueAtMost b => exact decides_valueAtMost b e d hd
  | valueGreaterThan b => exact decides_valueGreaterThan b e d hd
  | valueAtLeast b => exact decides_valueAtLeast b e d hd
  | valueBetween a b i => exact decides_valueBetween a b i e d hd
  | mapEqual k => exact decides_mapEqual k e d hd
  | notDuplicated => exact decides_notDuplicated e d hd
  | hasAtLeast m => exact decides_hasAtLeast m e d hd
  | hasAtMost m => exact decides_hasAtMost m e d hd
  | hasBetween a b => exact decides_hasBetween a b e d hd
  | setWithKnownFields => exact decides_setWithKnownFields e d hd
  | setWithAllFields => exact decides_setWithAllFields e d hd
  | luhn10 => exact decides_luhn10 e d hd
  | isEmail nl => exact decides_isEmail nl e d hd
  | urlValidator s p => exact decides_urlValidator_partial s p e d hd hk
  | httpURL ap r f => exact decides_httpURL_partial ap r f e d hd hk
  | urlCanonicalizer ds => exact decides_urlCanonicalizer ds e d hd

/-- non-vacuity: an Integer that did not convert (`value None`, text kept in `u`) against
    `ValueLessThan(4)` — documented false, and the model says so -/
example :
    let e : View := { value := .none, u := "abc".toList, label := .str "n".toList }
    documented (.valueLessThan (.int 4)) e = some false ∧
    (verdict (.valueLessThan (.int 4)) e).toOption.map (·.1) = some false := by decide

/-- the property as stated, with no side condition -/
def C15_Full : Prop :=
  ∀ (v : V) (e : View) (d : Bool), documented v e = some d → Decides v e d

/-- the strongest true restriction: everything but KF-C15-a -/
theorem C15_partial :
    ∀ (v : V) (e : View) (d : Bool), documented v e = some d → Excluded v e d = false →
      Decides v e d := decides_partial

/-- the full statement is false of the code as it is: `HTTPURLValidator()` on an element without
    a value returns True although the required scheme and hostname cannot be there (KF-C15-a) -/
theorem C15_full_fails : ¬ C15_Full := fun h =>
  C15_HttpFull_fails (fun ap req forb e d hd => h _ e d hd)

/-- … and stays false with KF-C15-a set aside: KF-C15-g (`C15_empty_scheme_always_blocked`)
    refutes it on an element that holds a text -/
theorem C15_full_fails_with_value :
    ¬ (∀ (v : V) (e : View) (d : Bool), e.value ≠ .none → documented v e = some d → Decides v e d) :=
  fun h => C15_UrlFull_fails (fun s p e d hd => by
    cases hv : e.value with
    | none => simp [documented, hv] at hd; subst hd; exact decides_fail _ _ "bad_format" [] (by simp [verdict, hv])
    | _ => exact h _ e d (by simp [hv]) hd)

/-- witness of the fixed D-C15-7: `MapEqual` with its own default transform on two equal
    fields now returns True -/
example :
    let f : FieldView := { value := .str "x".toList, u := "x".toList, label := .str "a".toList }
    (verdict (.mapEqual .element) { fields := [some f, some f] }).toOption.map (·.1) = some true := by
  decide

/-- witness of the fixed D-C15-6: a raw key that is not text is reported as unexpected, by its
    `str()` -/
theorem setWith_nontext_key_reported :
    (verdict .setWithKnownFields { raw := .pairs [.int 1], schemaKeys := ["a".toList] }).toOption.map
      (fun r => (r.1, r.2.map (·.info))) =
    some (false, some [("unexpected".toList, .str ['1']), ("n_unexpected".toList, .int 1)]) := by
  decide

/-- witness of the fixed D-C15-5: raw items that are not pairs are treated like a raw value that
    is not iterable — deemed valid, no exception -/
theorem setWith_bad_pairs_valid (e : View) (h : e.raw = .badPairs) :
    verdict .setWithKnownFields e = pass ∧ verdict .setWithAllFields e = pass := by
  simp [verdict, h]

/-- **value_preserved**: apart from the canonicalising URL validator no validator changes the
    element's value — for the values the model follows the code on (`inModel`: `HTTPURLValidator`
    on a text or no value; every other class on every value) -/
theorem value_preserved (v : V) (e : View) (_hm : inModel v e = true) (h : ∀ ds, v ≠ .urlCanonicalizer ds) :
    valueAfter v e = e.value := by
  cases v <;> first | rfl | exact absurd rfl (h _)

/-! ### messages -/

theorem addError_spec (errors : List Str) (s : Str) :
    addError errors s = if s ∈ errors then errors else errors ++ [s] := by
  unfold addError
  by_cases h : s ∈ errors
  · simp [h]
  · simp [h]

/-- the model's environment has no translator: `find_transformer` yields `None` -/
theorem envOf_no_translator (v : V) (e : View) (info : List (Str × Val)) :
    findTransformer (envOf v e info).uState (envOf v e info).uAnc (envOf v e info).uBuiltin =
      .ok none := rfl

/-- whatever `expand_message` returns in the model's environment is the complete expansion of
    the text chosen *for this message* (for a plain message: the message itself; for a triple:
    the form selected by the count) -/
theorem expansion_of_chosen (v : V) (e : View) (info : List (Str × Val)) (msg : Msg) (s : Str)
    (hx : expandMessage (envOf v e info) msg = .ok s) :
    ∃ text segs, chooseMessage (envOf v e info) none msg = .ok text ∧
      (∀ t, msg = .plain t → text = t) ∧
      parseFmt text = .ok segs ∧
      (∀ k ∈ placeholdersOf segs, (rawLookup (envOf v e info).targets k).isSome = true) ∧
      s = Flatland.C16.Proofs.expansion
        (fun k => (rawLookup (envOf v e info).targets k).getD .none) segs := by
  obtain ⟨u, text, segs, hu, hc, hp, hdef, hs⟩ :=
    Flatland.C16.Proofs.expandMessage_ok_expansion _ _ _ hx
  rw [envOf_no_translator] at hu
  have hu' : u = none := by injection hu with h; exact h.symm
  subst hu'
  refine ⟨text, segs, hc, ?_, hp, hdef, hs⟩
  intro t ht
  subst ht
  simp only [chooseMessage] at hc
  injection hc with h
  exact h.symm

/-- **messages**: a run that returns records nothing on a true verdict; on a false verdict it
    looks up the validator's own message attribute `n.key` in the table and — unless that
    message is the empty text, in which case nothing is recorded — records exactly the complete
    expansion `s` of the text chosen for *that* message (every placeholder resolved in the
    validator's environment and replaced), `add_error` dropping it only if the very same text
    is already there. -/
theorem messages (table : List BuiltinMsg) (v : V) (e : View) (errors : List Str) (o : Outcome)
    (h : runWith table v e errors = .ok o) :
    ∃ note, verdict v e = .ok (o.verdict, note) ∧ o.value = valueAfter v e ∧
      (note = none → o.errors = errors) ∧
      (∀ n, note = some n → ∃ msg, messageOf table v.className n.key = some msg ∧
        ((msg.truthy = false ∧ o.errors = errors) ∨
         (msg.truthy = true ∧ ∃ s text segs, expandMessage (envOf v e n.info) msg = .ok s ∧
           chooseMessage (envOf v e n.info) none msg = .ok text ∧
           (∀ t, msg = .plain t → text = t) ∧
           parseFmt text = .ok segs ∧
           (∀ k ∈ placeholdersOf segs, (rawLookup (envOf v e n.info).targets k).isSome = true) ∧
           s = Flatland.C16.Proofs.expansion
             (fun k => (rawLookup (envOf v e n.info).targets k).getD .none) segs ∧
           o.errors = (if s ∈ errors then errors else errors ++ [s])))) := by
  unfold runWith at h
  cases hv : verdict v e with
  | error r => rw [hv] at h; cases h
  | ok p =>
    obtain ⟨b, note⟩ := p
    rw [hv] at h
    simp only [bind, Except.bind] at h
    cases note with
    | none =>
      cases h
      exact ⟨none, rfl, rfl, (fun _ => rfl), (fun n hn => by cases hn)⟩
    | some n =>
      simp only at h
      cases hm : messageOf table v.className n.key with
      | none => rw [hm] at h; cases h
      | some msg =>
        rw [hm] at h
        simp only at h
        cases hn : noteError (envOf v e n.info) errors msg with
        | error r => rw [hn] at h; cases h
        | ok errs =>
          rw [hn] at h
          cases h
          refine ⟨some n, rfl, rfl, (fun hc => by cases hc), ?_⟩
          intro n' hn'
          cases hn'
          refine ⟨msg, hm, ?_⟩
          unfold noteError at hn
          cases ht : msg.truthy with
          | false =>
            simp only [ht, Bool.false_or, Bool.false_eq_true, if_false] at hn
            cases hn
            exact Or.inl ⟨rfl, rfl⟩
          | true =>
            simp only [ht, Bool.or_true, if_true, bind, Except.bind, pure, Except.pure] at hn
            cases hx : expandMessage (envOf v e n.info) msg with
            | error r => rw [hx] at hn; cases hn
            | ok s =>
              rw [hx] at hn
              cases hn
              obtain ⟨text, segs, hc, hpl, hp, hdef, hs⟩ := expansion_of_chosen v e n.info msg s hx
              exact Or.inr ⟨rfl, s, text, segs, rfl, hc, hpl, hp, hdef, hs, addError_spec errors s⟩

/-- **exactly one message on failure** (shipped templates): a documented false verdict always
    completes; the validator's own message attribute exists in the regenerated table, and the
    error list afterwards is the old one plus exactly the complete expansion `s` of the text
    chosen for that message — unless the very same text `s` was already recorded. -/
theorem false_verdict_records_one (v : V) (e : View) (errors : List Str)
    (hd : documented v e = some false) (hk : Excluded v e false = false) :
    ∃ n o msg text segs s, verdict v e = .ok (false, some n) ∧
      messageOf Flatland.Generated.C16.builtinMessages v.className n.key = some msg ∧
      chooseMessage (envOf v e n.info) none msg = .ok text ∧
      (∀ t, msg = .plain t → text = t) ∧
      parseFmt text = .ok segs ∧
      (∀ k ∈ placeholdersOf segs, (rawLookup (envOf v e n.info).targets k).isSome = true) ∧
      s = Flatland.C16.Proofs.expansion
        (fun k => (rawLookup (envOf v e n.info).targets k).getD .none) segs ∧
      run v e errors = .ok o ∧ o.verdict = false ∧ o.value = valueAfter v e ∧
      o.errors = (if s ∈ errors then errors else errors ++ [s]) := by
  obtain ⟨note, hv, hiff⟩ := decides_partial v e false hd hk
  cases note with
  | none => exact absurd (hiff.2 rfl) (by simp)
  | some n =>
    obtain ⟨o, msg, s, hm, hx, ho, hb, hval, herr⟩ := messages_total v e errors false n hv
    obtain ⟨text, segs, hc, hpl, hp, hdef, hs⟩ := expansion_of_chosen v e n.info msg s hx
    exact ⟨n, o, msg, text, segs, s, hv, hm, hc, hpl, hp, hdef, hs, ho, hb, hval,
      by rw [herr]; exact addError_spec errors s⟩

/-- a true verdict records nothing (corollary of `messages` + the note/verdict link) -/
theorem true_verdict_records_nothing (table : List BuiltinMsg) (v : V) (e : View)
    (errors : List Str) (o : Outcome) (d : Bool)
    (hd : documented v e = some d) (hk : Excluded v e d = false)
    (h : runWith table v e errors = .ok o) (ht : o.verdict = true) :
    o.errors = errors := by
  obtain ⟨note, hv, _, hnone, _⟩ := messages table v e errors o h
  obtain ⟨note', hv', hiff⟩ := decides_partial v e d hd hk
  rw [hv] at hv'
  cases hv'
  exact hnone (hiff.1 ht)

/-- **independence from validation state**: whatever `.valid` flags and recorded errors the
    siblings (earlier list members, sibling fields) carry, every validator's verdict, message and
    resulting value are the same — in particular `NotDuplicated` judges by the siblings' VALUES
    only (a sibling rejected earlier, by this or another validator, still counts as the first
    occurrence) -/
theorem verdict_ignores_validation_state (v : V) (e : View) (st : List (Option Bool × Nat)) :
    verdict v { e with siblingState := st } = verdict v e ∧
    valueAfter v { e with siblingState := st } = valueAfter v e ∧
    documented v { e with siblingState := st } = documented v e := by
  refine ⟨?_, ?_, ?_⟩ <;> cases v <;> rfl

/-- `notdup_ignores_valid`: the `NotDuplicated` instance -/
theorem notdup_ignores_valid (e : View) (st : List (Option Bool × Nat)) :
    verdict .notDuplicated { e with siblingState := st } = verdict .notDuplicated e :=
  (verdict_ignores_validation_state .notDuplicated e st).1

/-- **note_warning**: a validator reporting through `note_warning` does to the warnings list
    exactly what it would do to the errors list through `note_error` — so `messages`,
    `messages_total` and `false_verdict_records_one` hold verbatim for warnings -/
theorem warn_eq_error (table : List BuiltinMsg) (v : V) (e : View) (l : List Str) :
    runWarnWith table v e l = runWith table v e l := rfl

end Flatland.C15.Proofs
