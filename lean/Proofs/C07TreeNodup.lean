/-
C07 — the uniqueness clause ("keys are unique except for the repeated members of an Array /
MultiValue") on the TREE model, for the trees histories reach.

The flat development proves the clause on `Flat.Schema × Flat.Elem` by reducing it to node-level
lemmas about resolved nodes (`Proofs/Lemmas/C07Paths.lean`: `nodup_paths_own`,
`nodup_paths_mapping`, `nodup_paths_slots`, `nodup_paths_le1`, `tokens_mk`).  Here the same lemmas are
applied along `toFNode`, and the bridge `flattenTree_eq_flat` (h1) carries the result to
`flattenTree`, `c07_code_flat_histories` to the literal rendering `flattenCode`.

What the schema-level hypotheses (`wf`, `dense`, `OkP`) provide in the flat development is, on a
tree, a decidable check of the tree itself:

  `distinctNames n`  the children of every Dict / SparseDict of the tree carry pairwise distinct
                     names, none of them None;
  `arrLe1T n`        every Array / MultiValue holds at most one member  (`noArrayT n`: there is none).

`distinctNames` is NOT an invariant of histories in the model (nor in the library): a SparseDict
accepts an instance of the field class constructed with a different `name=` under the field's key
(the KF-C10-a / KF-C13-c state) — `distinctNames_not_invariant` is the witness: two such
assignments make `flatten()` emit one key twice.  The history theorems therefore carry it as a
decidable hypothesis on the state reached and are named `…_partial`; the statement without it is
kept visible (`Tree_Keys_Nodup_Histories_Full`) and refuted.
-/
import Proofs.C07Nodup
import Proofs.C07TreeCodeExamples
namespace Flatland.C07Tree.Proofs
open Flatland.Tree Flatland.PyList Flatland.C08 Flatland.C08.Spec Flatland.C08.Proofs Flatland.C07Tree
open Flatland.Flat (FNode SepSafe natStr)
open Flatland.Flat.Proofs (paths nodup_paths_own nodup_paths_mapping nodup_paths_slots nodup_paths_le1 tokens_mk
  nodup_map_of_inj_on joinSep_inj)

/-! ### the decidable checks -/

def isArr : SKind → Bool
  | .array | .multi => true
  | _ => false

mutual
/-- the children of every mapping of the tree carry pairwise distinct names, none of them None -/
def distinctNames : Node → Bool
  | .mk _ s kids =>
    (!isMap s.kind || (kids.all (fun k => k.name.isSome) && decide ((kids.map Node.name).Nodup))) && distinctNamesL kids
def distinctNamesL : List Node → Bool
  | [] => true
  | k :: ks => distinctNames k && distinctNamesL ks
end

mutual
/-- every Array / MultiValue of the tree holds at most one member -/
def arrLe1T : Node → Bool
  | .mk _ s kids => (!isArr s.kind || decide (kids.length ≤ 1)) && arrLe1TL kids
def arrLe1TL : List Node → Bool
  | [] => true
  | k :: ks => arrLe1T k && arrLe1TL ks
end

mutual
/-- the tree has no Array / MultiValue -/
def noArrayT : Node → Bool
  | .mk _ s kids => !isArr s.kind && noArrayTL kids
def noArrayTL : List Node → Bool
  | [] => true
  | k :: ks => noArrayT k && noArrayTL ks
end

mutual
theorem arrLe1T_of_noArrayT : ∀ n : Node, noArrayT n = true → arrLe1T n = true
  | .mk _ s kids, h => by
    rw [noArrayT] at h; rw [arrLe1T]
    simp only [Bool.and_eq_true, Bool.or_eq_true] at h ⊢
    exact ⟨.inl h.1, arrLe1TL_of_noArrayTL kids h.2⟩
theorem arrLe1TL_of_noArrayTL : ∀ ks : List Node, noArrayTL ks = true → arrLe1TL ks = true
  | [], _ => by rw [arrLe1TL]
  | k :: ks, h => by
    rw [noArrayTL] at h; rw [arrLe1TL]
    simp only [Bool.and_eq_true] at h ⊢
    exact ⟨arrLe1T_of_noArrayT k h.1, arrLe1TL_of_noArrayTL ks h.2⟩
end

/-! ### name paths of the abstracted tree: pairwise distinct, made of names and indexes -/

/-- what is proved of every resolved node: distinct token paths, every token a name of the tree
    (`T`) or a decimal index -/
def PathsOK (T : Str → Prop) (m : FNode) : Prop :=
  (paths m).Nodup ∧ ∀ π ∈ paths m, ∀ t ∈ π, T t

theorem pathsOK_leaf (T : Str → Prop) (hidx : ∀ i, T (natStr i)) (nm : Option Str) (fl : Bool) (u : Str)
    (hnm : ∀ x, nm = some x → T x) : PathsOK T (.mk nm fl true u false []) :=
  ⟨nodup_paths_own _ _ _ _ _ _ (Or.inr rfl), tokens_mk T hidx _ _ _ _ _ _ hnm (by intro k hk; cases hk)⟩

mutual
theorem pathsOK_toFNode (T : Str → Prop) (hidx : ∀ i, T (natStr i)) : ∀ n : Node,
    distinctNames n = true → arrLe1T n = true → (∀ x ∈ nodes n, ∀ nm, x.name = some nm → T nm) →
    PathsOK T (toFNode n)
  | .mk i s kids, hd, ha, hn => by
    have hnm : ∀ x, Node.name (.mk i s kids) = some x → T x := fun x hx => hn _ (self_mem_nodes _) x hx
    have hkids : ∀ x ∈ nodesL kids, ∀ nm, x.name = some nm → T nm := by
      intro x hx; exact hn x (by rw [nodes]; exact List.mem_cons_of_mem _ hx)
    rw [distinctNames] at hd
    rw [arrLe1T] at ha
    simp only [Bool.and_eq_true, Bool.or_eq_true, Bool.not_eq_true', decide_eq_true_eq, List.all_eq_true] at hd ha
    have hL := pathsOK_toFNodeL T hidx kids hd.2 ha.2 hkids
    have hS := pathsOK_toFSlots T hidx kids hd.2 ha.2 hkids
    have mapping : isMap s.kind = true →
        PathsOK T (.mk (Node.name (.mk i s kids)) false true [] false (toFNodeL kids)) := by
      intro hm
      have h1 : (kids.all (fun k => k.name.isSome) = true) ∧ (kids.map Node.name).Nodup := by
        rcases hd.1 with h | h
        · rw [hm] at h; cases h
        · simpa [List.all_eq_true] using h
      refine ⟨nodup_paths_mapping _ _ _ _ _ ?_ ?_ (fun k hk => (hL k hk).1),
        tokens_mk T hidx _ _ _ _ _ _ hnm (fun k hk => (hL k hk).2)⟩
      · intro k hk
        rw [toFNodeL_eq] at hk
        obtain ⟨x, hx, rfl⟩ := List.mem_map.mp hk
        rw [toFNode_name]
        exact List.all_eq_true.mp h1.1 x hx
      · rw [toFNodeL_eq, List.map_map]
        have : (Flatland.Flat.FNode.name ∘ toFNode) = Node.name := by funext x; exact toFNode_name x
        rw [this]; exact h1.2
    have arr : isArr s.kind = true →
        PathsOK T (.mk (Node.name (.mk i s kids)) false true [] false (toFNodeL kids)) := by
      intro hm
      have h1 : kids.length ≤ 1 := by
        rcases ha.1 with h | h
        · rw [hm] at h; cases h
        · exact h
      refine ⟨nodup_paths_le1 _ _ _ _ (by rw [toFNodeL_eq]; simpa using h1) (fun k hk => (hL k hk).1),
        tokens_mk T hidx _ _ _ _ _ _ hnm (fun k hk => (hL k hk).2)⟩
    rw [toFNode]
    cases hk : s.kind with
    | integer => exact pathsOK_leaf T hidx _ _ _ hnm
    | string => exact pathsOK_leaf T hidx _ _ _ hnm
    | slot => exact pathsOK_leaf T hidx _ _ _ hnm
    | list =>
      exact ⟨nodup_paths_slots _ _ _ _ (fun k hk => (hS k hk).1),
        tokens_mk T hidx _ _ _ _ _ _ hnm (fun k hk => (hS k hk).2)⟩
    | array => exact arr (by rw [hk]; rfl)
    | multi => exact arr (by rw [hk]; rfl)
    | dict => exact mapping (by rw [hk]; rfl)
    | sparse => exact mapping (by rw [hk]; rfl)
theorem pathsOK_toFNodeL (T : Str → Prop) (hidx : ∀ i, T (natStr i)) : ∀ ks : List Node,
    distinctNamesL ks = true → arrLe1TL ks = true → (∀ x ∈ nodesL ks, ∀ nm, x.name = some nm → T nm) →
    ∀ k ∈ toFNodeL ks, PathsOK T k
  | [], _, _, _, k, hk => by rw [toFNodeL] at hk; cases hk
  | t :: ts, hd, ha, hn, k, hk => by
    rw [distinctNamesL] at hd
    rw [arrLe1TL] at ha
    simp only [Bool.and_eq_true] at hd ha
    rw [toFNodeL] at hk
    rcases List.mem_cons.mp hk with h | h
    · rw [h]
      exact pathsOK_toFNode T hidx t hd.1 ha.1 (fun x hx => hn x (by rw [nodesL]; exact List.mem_append.mpr (.inl hx)))
    · exact pathsOK_toFNodeL T hidx ts hd.2 ha.2
        (fun x hx => hn x (by rw [nodesL]; exact List.mem_append.mpr (.inr hx))) k h
theorem pathsOK_toFSlots (T : Str → Prop) (hidx : ∀ i, T (natStr i)) : ∀ ks : List Node,
    distinctNamesL ks = true → arrLe1TL ks = true → (∀ x ∈ nodesL ks, ∀ nm, x.name = some nm → T nm) →
    ∀ k ∈ toFSlots ks, PathsOK T k
  | [], _, _, _, k, hk => by rw [toFSlots] at hk; cases hk
  | .mk i s [] :: ts, hd, ha, hn, k, hk => by
    rw [distinctNamesL] at hd
    rw [arrLe1TL] at ha
    simp only [Bool.and_eq_true] at hd ha
    rw [toFSlots] at hk
    rcases List.mem_cons.mp hk with h | h
    · rw [h]
      exact pathsOK_leaf T hidx none false [] (by intro x hx; cases hx)
    · exact pathsOK_toFSlots T hidx ts hd.2 ha.2
        (fun x hx => hn x (by rw [nodesL]; exact List.mem_append.mpr (.inr hx))) k h
  | .mk i s (el :: rest) :: ts, hd, ha, hn, k, hk => by
    rw [distinctNamesL, distinctNames] at hd
    rw [arrLe1TL, arrLe1T] at ha
    simp only [Bool.and_eq_true] at hd ha
    rw [toFSlots] at hk
    rcases List.mem_cons.mp hk with h | h
    · rw [h]
      have hd' := hd.1.2
      have ha' := ha.1.2
      rw [distinctNamesL] at hd'
      rw [arrLe1TL] at ha'
      simp only [Bool.and_eq_true] at hd' ha'
      refine pathsOK_toFNode T hidx el hd'.1 ha'.1 (fun x hx => hn x ?_)
      rw [nodesL, nodes, nodesL]
      exact List.mem_append.mpr (.inl (List.mem_cons_of_mem _ (List.mem_append.mpr (.inl hx))))
    · exact pathsOK_toFSlots T hidx ts hd.2 ha.2
        (fun x hx => hn x (by rw [nodesL]; exact List.mem_append.mpr (.inr hx))) k h
end

/-! ### from paths to keys -/

/-- the keys the flat model's `flatten` emits for a resolved node are the joined token paths -/
theorem flattenNode_keys (sep : Str) (m : FNode) :
    (Flatland.Flat.flattenNode sep m).map Prod.fst = (paths m).map (Flatland.Flat.joinSep sep) := by
  unfold paths Flatland.Flat.Proofs.relFlat
  rw [Flatland.Flat.flattenNode_eq, ← Flatland.Flat.bfsFlat_single sep ([], m),
    Flatland.Flat.bfsFlat_eq_map, List.map_map, List.map_map]
  rfl

/-- the names a separator has to be safe for: every `.name` in the tree, and the decimal indexes -/
def TokT (n : Node) (t : Str) : Prop := (∃ x ∈ nodes n, x.name = some t) ∨ ∃ i, t = natStr i

/-- **uniqueness on a tree (general form).**  In a deep-positional tree whose mappings' children
    carry distinct names and whose Arrays / MultiValues hold at most one member, for a separator
    that is `SepSafe` for the names of the tree: the keys `flatten()` emits are pairwise distinct. -/
theorem tree_keys_nodup_arrLe1 {env : Flatland.Flat.Env} (sep : Str) (n : Node) (hs : SepSafe env sep (TokT n))
    (hp : dp n = true) (hd : distinctNames n = true) (ha : arrLe1T n = true) :
    ((flattenTree sep n).map Prod.fst).Nodup := by
  have h := pathsOK_toFNode (TokT n) (fun i => .inr ⟨i, rfl⟩) n hd ha (fun x hx nm hnm => .inl ⟨x, hx, hnm⟩)
  rw [flattenTree_eq_flat sep n hp, flattenNode_keys]
  apply nodup_map_of_inj_on _ _ _ h.1
  intro a ha' b hb hab
  exact joinSep_inj hs a b (h.2 a ha') (h.2 b hb) hab

/-- **U1 on trees**: no Array / MultiValue in the tree ⇒ keys pairwise distinct -/
theorem tree_keys_nodup_noArray {env : Flatland.Flat.Env} (sep : Str) (n : Node) (hs : SepSafe env sep (TokT n))
    (hp : dp n = true) (hd : distinctNames n = true) (hna : noArrayT n = true) :
    ((flattenTree sep n).map Prod.fst).Nodup :=
  tree_keys_nodup_arrLe1 sep n hs hp hd (arrLe1T_of_noArrayT n hna)

end Flatland.C07Tree.Proofs
