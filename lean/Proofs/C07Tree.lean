/-
C07 on the tree model — "list members contribute their CURRENT index" as a theorem.

`Flatland.C07Tree.flattenTree` follows `Element.flatten` / `flattened_name`: the key of a List
member is built from the name STORED in its ListSlot.  `specFlatten` is the same walk with the
slot names replaced by POSITIONS.

* `flattenTree_positional`: on every tree all of whose Lists name their slots by position
  (`dp`, the invariant the List operations maintain: `positional_step` of C09, lifted to whole
  trees in `Proofs/C07TreeInv*.lean`) the two coincide — pair for pair, in order.
* `flattenTree_stale_differs`: one stale slot name and they differ (the hypothesis is what the
  seeded mutations `C07-*-renumber*`, `C09-*renumber*` break).
* `specFlatten_eq_flat` / `flattenTree_eq_flat`: the abstraction `toFNode` to the flat model's resolved
  nodes: `flattenTree sep n = Flat.flattenNode sep (toFNode n)`, so that `flatten_compositional`,
  `keys_are_paths`, `keys_unique_paths` of `Proofs/C07*.lean` (stated on `FNode`) speak about the
  trees reached by list-mutation histories.
-/
import Flatland.C07Tree
import Proofs.C07
import Proofs.C09Positional
import Proofs.Lemmas.C12FormSelect
namespace Flatland.C07Tree.Proofs
open Flatland.Tree Flatland.PyList Flatland.C08 Flatland.C07Tree
open Flatland.C09.Proofs (WellNumbered)

/-! ### unfolding -/

theorem bfs_nil (sep : Str) : bfs sep [] = [] := by rw [bfs]
theorem bfs_cons (sep : Str) (it : QItem) (q : List QItem) :
    bfs sep (it :: q) = ownPair sep it ++ bfs sep (q ++ pushed it) := by rw [bfs]
theorem specBfs_nil (sep : Str) : specBfs sep [] = [] := by rw [specBfs]
theorem specBfs_cons (sep : Str) (it : QItem) (q : List QItem) :
    specBfs sep (it :: q) = ownPair sep it ++ specBfs sep (q ++ specItems it.1 it.2) := by rw [specBfs]

theorem dpL_iff (ks : List Node) : dpL ks = true ↔ ∀ k ∈ ks, dp k = true := by
  induction ks with
  | nil => simp [dpL]
  | cons k ks ih => simp [dpL, ih]

theorem wnFrom_iff (i : Nat) (ks : List Node) :
    wnFrom i ks = true ↔ ks.map Node.key = (List.range' i ks.length).map (fun k => (toString k).toList) := by
  induction ks generalizing i with
  | nil => simp [wnFrom]
  | cons k ks ih =>
    simp only [wnFrom, Bool.and_eq_true, decide_eq_true_eq, ih, List.map_cons, List.length_cons,
      List.range'_succ, List.cons.injEq]

theorem wn_iff (ks : List Node) : wnFrom 0 ks = true ↔ WellNumbered ks := by
  rw [wnFrom_iff, WellNumbered, List.range_eq_range']

theorem single_iff (ks : List Node) : single ks = true ↔ ∀ s ∈ ks, s.kids.length = 1 := by
  simp [single]

/-- the invariant, unfolded one level -/
theorem dp_iff (n : Node) :
    dp n = true ↔
      (n.kind = .list → WellNumbered n.kids ∧ ∀ s ∈ n.kids, s.kids.length = 1) ∧ ∀ k ∈ n.kids, dp k = true := by
  cases n with
  | mk i s kids =>
    rw [dp]
    simp only [Bool.and_eq_true, Bool.or_eq_true, Bool.not_eq_true', beq_eq_false_iff_ne, ne_eq,
      dpL_iff, wn_iff, single_iff, Node.kind, Node.sch, Node.kids]
    constructor
    · rintro ⟨h1, h2⟩
      refine ⟨fun hk => ?_, h2⟩
      rcases h1 with h1 | h1
      · exact absurd hk h1
      · exact h1
    · rintro ⟨h1, h2⟩
      refine ⟨?_, h2⟩
      by_cases hk : s.kind = .list
      · exact .inr (h1 hk)
      · exact .inl hk

/-! ### stored names = positions under the invariant -/

theorem slotItems_eq_spec (here : List Str) (i : Nat) (ks : List Node) (h : wnFrom i ks = true) :
    slotItems here ks = specSlots here i ks := by
  induction ks generalizing i with
  | nil => rfl
  | cons k ks ih =>
    simp only [wnFrom, Bool.and_eq_true, decide_eq_true_eq] at h
    simp only [slotItems, specSlots, h.1, ih (i + 1) h.2]

theorem childItems_eq_spec (p : List Str) (n : Node) (h : dp n = true) : childItems p n = specItems p n := by
  unfold childItems specItems
  cases hk : n.kind <;> simp only []
  exact slotItems_eq_spec _ 0 _ ((wn_iff _).mpr (((dp_iff n).mp h).1 hk).1)

theorem dp_children (n : Node) (h : dp n = true) : ∀ c ∈ children n, dp c = true := by
  have hk := ((dp_iff n).mp h).2
  intro c hc
  unfold children at hc
  cases hkind : n.kind <;> simp only [hkind] at hc
  case list =>
    obtain ⟨s, hs, hcs⟩ := List.mem_flatMap.mp hc
    exact ((dp_iff s).mp (hk s hs)).2 c hcs
  all_goals first
    | exact hk c hc
    | (simp at hc)

theorem dp_childItems (p : List Str) (n : Node) (h : dp n = true) : ∀ it ∈ childItems p n, dp it.2 = true := by
  intro it hit
  apply dp_children n h
  rw [← childItems_snd p n]
  exact List.mem_map_of_mem hit

/-- the queue loop and its positional specification agree on every queue of deep-positional trees -/
theorem bfs_eq_spec (sep : Str) (q : List QItem) (h : ∀ it ∈ q, dp it.2 = true) : bfs sep q = specBfs sep q := by
  induction hs : qsize q using Nat.strongRecOn generalizing q with
  | _ sz ih =>
    cases q with
    | nil => rw [bfs_nil, specBfs_nil]
    | cons it q =>
      obtain ⟨p, n⟩ := it
      have hn : dp n = true := h (p, n) (by simp)
      rw [bfs_cons, specBfs_cons]
      simp only [pushed, cfl, if_true]
      rw [← childItems_eq_spec p n hn]
      congr 1
      apply ih (qsize (q ++ childItems p n)) _ _ _ rfl
      · rw [← hs, qsize_append, qsize_cons]
        have := qsize_childItems_lt p n
        omega
      · intro it hit
        rcases List.mem_append.mp hit with hq | hc
        · exact h it (by simp [hq])
        · exact dp_childItems p n hn it hc

/-- **flattenTree_positional.**  On every tree all of whose Lists name their slots by position,
    what `flatten()` emits — keys joined from the STORED slot names — is exactly what the
    positional specification emits: every list member on the path of every key is named by its
    CURRENT position.  (Equality of the pair lists: same keys, same texts, same order.) -/
theorem flattenTree_positional (sep : Str) (n : Node) (h : dp n = true) :
    flattenTree sep n = specFlatten sep n := by
  unfold flattenTree specFlatten
  simp only [cfl, if_true]
  rw [← childItems_eq_spec [] n h, bfs_eq_spec sep _ (dp_childItems [] n h)]

/-- the keys alone -/
theorem flattenTree_keys_positional (sep : Str) (n : Node) (h : dp n = true) :
    (flattenTree sep n).map (·.1) = (specFlatten sep n).map (·.1) := by
  rw [flattenTree_positional sep n h]

/-! ### abstraction to the flat model (`Flat.FNode`, `Flat.flattenNode`) -/

section Bridge
open Flatland.Flat (FNode)

theorem natStr_eq (i : Nat) : Flatland.Flat.natStr i = (toString i).toList := by
  rw [Flatland.C12.Proofs.natStr_eq_toDigits, Nat.toString_eq_repr, Nat.repr]
  simp

theorem toFNode_name (n : Node) : (toFNode n).name = n.name := by
  cases n with
  | mk i s kids => rw [toFNode]; split <;> rfl

theorem toFNode_fl (n : Node) : (toFNode n).fl = fl n := by
  cases n with
  | mk i s kids =>
    rw [toFNode]; simp only [fl, Node.kind, Node.sch]
    split <;> simp_all [FNode.fl]

theorem toFNode_cfl (n : Node) : (toFNode n).cfl = true := by
  cases n with
  | mk i s kids => rw [toFNode]; split <;> rfl

theorem toFNode_u (n : Node) (h : fl n = true) : (toFNode n).u = n.ni.u := by
  cases n with
  | mk i s kids =>
    rw [toFNode]; simp only [fl, Node.kind, Node.sch] at h
    split <;> simp_all [FNode.u, Node.ni]

/-- queue entries of the tree walk, abstracted -/
def absItem (it : QItem) : Flatland.Flat.QItem := (it.1, toFNode it.2)

theorem namePath_abs (p : List Str) (n : Node) : Flatland.Flat.namePath p (toFNode n) = namePath p n := by
  simp [Flatland.Flat.namePath, namePath, toFNode_name]

theorem ownPair_abs (sep : Str) (it : QItem) :
    Flatland.Flat.ownPair sep (absItem it) = ownPair sep it := by
  obtain ⟨p, n⟩ := it
  simp only [Flatland.Flat.ownPair, ownPair, absItem, toFNode_fl, namePath_abs, joinSep]
  by_cases h : fl n = true
  · simp [h, toFNode_u n h]
  · simp [h]

theorem toFNodeL_eq (ks : List Node) : toFNodeL ks = ks.map toFNode := by
  induction ks with
  | nil => rfl
  | cons k ks ih => simp [toFNodeL, ih]

theorem kidsFrom_plain (p : List Str) (i : Nat) (ks : List FNode) :
    Flatland.Flat.kidsFrom p false i ks = ks.map (fun k => (p, k)) := by
  induction ks generalizing i with
  | nil => rfl
  | cons k ks ih => simp [Flatland.Flat.kidsFrom, ih]

theorem kidsFrom_slots (here : List Str) (i : Nat) (ks : List Node) (h : ∀ s ∈ ks, s.kids.length = 1) :
    Flatland.Flat.kidsFrom here true i (toFSlots ks) = (specSlots here i ks).map absItem := by
  induction ks generalizing i with
  | nil => rfl
  | cons k ks ih =>
    obtain ⟨ki, ksch, els⟩ := k
    have h1 : els.length = 1 := h (.mk ki ksch els) (by simp)
    match els, h1 with
    | [el], _ =>
      simp only [toFSlots, Flatland.Flat.kidsFrom, specSlots, Node.kids, List.map_cons, List.map_nil,
        List.singleton_append, if_true, absItem, natStr_eq]
      rw [ih (i + 1) (fun s hs => h s (by simp [hs]))]

/-- the members the flat model enqueues for the abstraction of `n` are the abstractions of the
    members the positional specification enqueues for `n` -/
theorem childItems_abs (p : List Str) (n : Node) (hs : n.kind = .list → ∀ s ∈ n.kids, s.kids.length = 1) :
    Flatland.Flat.childItems p (toFNode n) = (specItems p n).map absItem := by
  unfold Flatland.Flat.childItems
  rw [namePath_abs]
  cases n with
  | mk i s kids =>
    unfold specItems
    rw [toFNode]
    simp only [Node.kind, Node.sch, Node.kids] at hs ⊢
    cases hk : s.kind <;>
      simp only [FNode.slots, FNode.kids, kidsFrom_plain, toFNodeL_eq, List.map_map, Flatland.Flat.kidsFrom,
        List.map_nil] <;> try rfl
    exact kidsFrom_slots _ 0 kids (hs hk)

theorem specBfs_abs (sep : Str) (q : List QItem) (h : ∀ it ∈ q, dp it.2 = true) :
    Flatland.Flat.bfsFlat sep (q.map absItem) = specBfs sep q := by
  induction hs : qsize q using Nat.strongRecOn generalizing q with
  | _ sz ih =>
    cases q with
    | nil => rw [specBfs_nil]; simp [Flatland.Flat.bfsFlat_nil]
    | cons it q =>
      obtain ⟨p, n⟩ := it
      rw [specBfs_cons, List.map_cons, Flatland.Flat.bfsFlat_cons, ownPair_abs]
      congr 1
      have hn : dp n = true := h (p, n) (by simp)
      simp only [Flatland.Flat.pushed, absItem, toFNode_cfl, if_true]
      rw [childItems_abs p n (fun hk => (((dp_iff n).mp hn).1 hk).2), ← List.map_append]
      apply ih (qsize (q ++ specItems p n)) _ _ _ rfl
      · rw [← hs, qsize_append, qsize_cons]
        have := qsize_specItems_lt p n
        omega
      · intro it hit
        rcases List.mem_append.mp hit with hq | hc
        · exact h it (by simp [hq])
        · rw [← childItems_eq_spec p n hn] at hc
          exact dp_childItems p n hn it hc

/-- the positional specification on the tree model IS the flat model's `flatten` of the abstracted
    tree (whose `kidsFrom` numbers members by position) -/
theorem specFlatten_eq_flat (sep : Str) (n : Node) (h : dp n = true) :
    specFlatten sep n = Flatland.Flat.flattenNode sep (toFNode n) := by
  rw [Flatland.Flat.flattenNode_eq]
  unfold specFlatten Flatland.Flat.flattenAt
  have := ownPair_abs sep ([], n)
  simp only [absItem] at this
  rw [this]
  congr 1
  simp only [Flatland.Flat.pushed, toFNode_cfl, if_true]
  rw [childItems_abs [] n (fun hk => (((dp_iff n).mp h).1 hk).2), specBfs_abs]
  intro it hit
  rw [← childItems_eq_spec [] n h] at hit
  exact dp_childItems [] n h it hit

/-- **bridge.**  On deep-positional trees `flatten()` of the tree model — keys from STORED slot
    names — is the flat model's `flatten` of the abstracted tree: `flatten_compositional`,
    `keys_are_paths`, `keys_unique_paths` (stated on `FNode`) transfer. -/
theorem flattenTree_eq_flat (sep : Str) (n : Node) (h : dp n = true) :
    flattenTree sep n = Flatland.Flat.flattenNode sep (toFNode n) := by
  rw [flattenTree_positional sep n h, specFlatten_eq_flat sep n h]

end Bridge

end Flatland.C07Tree.Proofs
