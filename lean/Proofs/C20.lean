/-
C20 — Dict.slice / update_object / set_by_object move exactly the selected fields.

Model A: Flatland/C20.lean.  Spec B: Flatland/Spec/C20.lean.  All theorems are for every value
type `V`, every field list, every include/omit/rename and every key function `Str → Str`.
-/
import Flatland.C20
import Flatland.Spec.C20
import Proofs.Lemmas.C20Dict
namespace Flatland.C20.Proofs
open Flatland.C20 Flatland.C20.Spec

variable {V : Type}

/-! ### keyslice_pairs = the reference selection -/

theorem keysliceOne_eq_outKey (a : Args) (k : Str) : keysliceOne a k = outKey a k := by
  unfold keysliceOne outKey renameTo selected
  cases a.key <;> simp only <;> split <;> rename_i heq <;> rw [heq] <;>
    by_cases h1 : a.inc.isEmpty <;> by_cases h2 : a.om.isEmpty <;> simp [h1, h2]

theorem not_exclusive_iff (a : Args) : ¬ Exclusive a ↔ (!a.inc.isEmpty && !a.om.isEmpty) = true := by
  unfold Exclusive
  cases a.inc <;> cases a.om <;> simp

theorem keyslicePairs_ok (a : Args) (h : Exclusive a) (ps : List (Str × V)) :
    keyslicePairs a ps = .ok (ps.filterMap fun p => (outKey a p.1).map (·, p.2)) := by
  unfold keyslicePairs
  have : (!a.inc.isEmpty && !a.om.isEmpty) = false := by
    cases hb : (!a.inc.isEmpty && !a.om.isEmpty) with
    | false => rfl
    | true => exact absurd h ((not_exclusive_iff a).mpr hb)
  simp only [this, Bool.false_eq_true, if_false]
  congr 2
  funext p
  rw [keysliceOne_eq_outKey]

theorem mem_fm (g : Str → Option Str) (s : List (Str × V)) (k' : Str) (v : V) :
    (k', v) ∈ s.filterMap (fun p => (g p.1).map (·, p.2)) ↔ ∃ n, (n, v) ∈ s ∧ g n = some k' := by
  simp only [List.mem_filterMap, Option.map_eq_some_iff, Prod.mk.injEq]
  constructor
  · rintro ⟨⟨n, w⟩, hm, k'', hg, hk, hv⟩
    subst hk; subst hv; exact ⟨n, hm, hg⟩
  · rintro ⟨n, hm, hg⟩
    exact ⟨(n, v), hm, k', hg, rfl, rfl⟩

/-- the value `dict()` keeps for `k'` out of the emitted pairs of a key-sorted list is that of the
    greatest field landing on `k'` -/
theorem dictGet_fm_sorted (g : Str → Option Str) (s : List (Str × V)) (hs : SortedKeys s)
    (k' : Str) (v : V) :
    dictGet (s.filterMap (fun p => (g p.1).map (·, p.2))) k' = some v ↔
      ∃ n, (n, v) ∈ s ∧ g n = some k' ∧
        ∀ n' v', (n', v') ∈ s → g n' = some k' → n' = n ∨ strLt n' n = true := by
  induction s with
  | nil => simp [dictGet]
  | cons x rest ih =>
    obtain ⟨xn, xv⟩ := x
    have hs' := List.pairwise_cons.mp hs
    have ih := ih hs'.2
    -- what dictGet says about the tail
    have tail_none : dictGet (rest.filterMap (fun p => (g p.1).map (·, p.2))) k' = none ↔
        ∀ n' v', (n', v') ∈ rest → g n' ≠ some k' := by
      constructor
      · intro hnone n' v' hm hg
        have : (dictGet (rest.filterMap (fun p => (g p.1).map (·, p.2))) k').isSome = true :=
          (dictGet_isSome _ _).mpr ⟨v', (mem_fm g rest k' v').mpr ⟨n', hm, hg⟩⟩
        simp [hnone] at this
      · intro hall
        cases hd : dictGet (rest.filterMap (fun p => (g p.1).map (·, p.2))) k' with
        | none => rfl
        | some w =>
          obtain ⟨n, hm, hg⟩ := (mem_fm g rest k' w).mp (dictGet_mem _ _ _ hd)
          exact absurd hg (hall n w hm)
    -- dictGet on the whole list
    have step : dictGet ((xn, xv) :: rest |>.filterMap (fun p => (g p.1).map (·, p.2))) k' =
        (match dictGet (rest.filterMap (fun p => (g p.1).map (·, p.2))) k' with
         | some w => some w
         | none => if g xn = some k' then some xv else none) := by
      simp only [List.filterMap_cons]
      cases hg : g xn with
      | none => simp; cases dictGet (rest.filterMap (fun p => (g p.1).map (·, p.2))) k' <;> rfl
      | some kx =>
        simp only [Option.map_some, dictGet]
        cases dictGet (rest.filterMap (fun p => (g p.1).map (·, p.2))) k' with
        | some w => rfl
        | none => by_cases h : kx = k' <;> simp [h]
    rw [step]
    constructor
    · intro h
      cases hd : dictGet (rest.filterMap (fun p => (g p.1).map (·, p.2))) k' with
      | some w =>
        rw [hd] at h; simp only [Option.some.injEq] at h; subst h
        obtain ⟨n, hm, hg, hmax⟩ := ih.mp hd
        refine ⟨n, List.mem_cons_of_mem _ hm, hg, ?_⟩
        intro n' v' hm' hg'
        rcases List.mem_cons.mp hm' with h' | h'
        · cases h'; exact Or.inr (hs'.1 (n, w) hm)
        · exact hmax n' v' h' hg'
      | none =>
        rw [hd] at h
        by_cases hgx : g xn = some k'
        · simp only [hgx, if_true, Option.some.injEq] at h; subst h
          refine ⟨xn, List.mem_cons_self, hgx, ?_⟩
          intro n' v' hm' hg'
          rcases List.mem_cons.mp hm' with h' | h'
          · cases h'; exact Or.inl rfl
          · exact absurd hg' (tail_none.mp hd n' v' h')
        · simp [hgx] at h
    · rintro ⟨n, hm, hg, hmax⟩
      rcases List.mem_cons.mp hm with h' | h'
      · cases h'
        have : dictGet (rest.filterMap (fun p => (g p.1).map (·, p.2))) k' = none := by
          apply tail_none.mpr
          intro n' v' hm' hg'
          have hlt := hs'.1 (n', v') hm'
          simp only at hlt
          rcases hmax n' v' (List.mem_cons_of_mem _ hm') hg' with h | h
          · rw [h, strLt_irrefl] at hlt; simp at hlt
          · have := strLt_trans _ _ _ hlt h; simp [strLt_irrefl] at this
        simp [this, hg]
      · have : dictGet (rest.filterMap (fun p => (g p.1).map (·, p.2))) k' = some v :=
          ih.mpr ⟨n, h', hg, fun n' v' hm' hg' => hmax n' v' (List.mem_cons_of_mem _ hm') hg'⟩
        simp [this]

/-- **slice_spec** — `Dict.slice` returns exactly the reference selection: a `dict` (distinct
    keys) that holds under `k'` the native value of the field that the reference destination
    function sends to `k'` (the greatest such field when several collide); renamed fields are
    always present under their new key, the key function is applied before everything. -/
theorem slice_spec (e : Elem V) (a : Args) (hn : (keys e).Nodup) (hx : Exclusive a) :
    ∃ m, slice e a = .ok m ∧ (keys m).Nodup ∧
      ∀ k' v, lookup m k' = some v ↔ ∃ n, IsWinner e a k' n v := by
  refine ⟨dictOf ((sortByKey e).filterMap fun p => (outKey a p.1).map (·, p.2)),
    by simp only [slice, keyslicePairs_ok a hx], keys_dictOf_nodup _, ?_⟩
  intro k' v
  have hs : SortedKeys (sortByKey e) := sorted_sortByKey e hn
  rw [lookup_dictOf, dictGet_fm_sorted (outKey a) _ hs]
  unfold IsWinner
  simp only [mem_sortByKey]

/-- the key set of the slice is the image of the destination function -/
theorem slice_keys (e : Elem V) (a : Args) (hx : Exclusive a) (m : List (Str × V))
    (h : slice e a = .ok m) (k' : Str) :
    k' ∈ keys m ↔ ∃ p ∈ e, outKey a p.1 = some k' := by
  simp only [slice, keyslicePairs_ok a hx, Except.ok.injEq] at h
  subst h
  rw [mem_keys_iff_lookup, lookup_dictOf, dictGet_isSome]
  constructor
  · rintro ⟨v, hv⟩
    obtain ⟨n, hm, hg⟩ := (mem_fm _ _ _ _).mp hv
    exact ⟨(n, v), (mem_sortByKey _ _).mp hm, hg⟩
  · rintro ⟨⟨n, v⟩, hm, hg⟩
    exact ⟨v, (mem_fm _ _ _ _).mpr ⟨n, (mem_sortByKey _ _).mpr hm, hg⟩⟩

/-- without collisions the slice holds, under the destination of each moved field, that field's
    own value — no ordering involved -/
theorem slice_spec_injective (e : Elem V) (a : Args) (hn : (keys e).Nodup) (hx : Exclusive a)
    (hinj : ∀ p ∈ e, ∀ q ∈ e, (outKey a p.1).isSome → outKey a p.1 = outKey a q.1 → p.1 = q.1)
    (m : List (Str × V)) (h : slice e a = .ok m) (n : Str) (v : V) (k' : Str)
    (hm : (n, v) ∈ e) (hk : outKey a n = some k') : lookup m k' = some v := by
  obtain ⟨m', hm', _, hspec⟩ := slice_spec e a hn hx
  rw [h] at hm'; cases hm'
  apply (hspec k' v).mpr
  refine ⟨n, hm, hk, ?_⟩
  intro n' v' hm2 hk2
  exact Or.inl (hinj (n', v') hm2 (n, v) hm (by simp [hk2]) (by simp [hk, hk2]))

example :
    slice (V := Nat) [("b".toList, 2), ("a".toList, 1), ("c".toList, 3)]
      { om := ["a".toList, "c".toList], ren := [("a".toList, "z".toList)] } =
      .ok [("z".toList, 1), ("b".toList, 2)] := by rfl

/-! ### include and omit are mutually exclusive -/

/-- **include_omit_exclusive** — with both `include` and `omit` non-empty all three methods fail
    with `TypeError`; the object is not written, nothing is read from it, the element keeps its
    state. -/
theorem include_omit_exclusive (S : Schema V) (e : Elem V) (o : Obj V) (a : Args)
    (h : ¬ Exclusive a) :
    slice e a = .error .typeError ∧ updateObject e o a = .error .typeError ∧
    (setByObject S e o a).exc = some .typeError ∧ (setByObject S e o a).reads = [] ∧
    (setByObject S e o a).elem = e := by
  have hb := (not_exclusive_iff a).mp h
  have h1 : slice e a = .error .typeError := by simp [slice, keyslicePairs, hb]
  refine ⟨h1, by simp [updateObject, h1], ?_, ?_, ?_⟩ <;> simp [setByObject, hb]

/-- and only then -/
theorem slice_total (e : Elem V) (a : Args) (h : Exclusive a) : ∃ m, slice e a = .ok m :=
  ⟨dictOf ((sortByKey e).filterMap fun p => (outKey a p.1).map (·, p.2)),
    by simp only [slice, keyslicePairs_ok a h]⟩

example : ¬ Exclusive { inc := ["a".toList], om := ["b".toList] } := by decide

/-! ### update_object writes the slice and nothing else -/

/-- **update_object_frame** — after `update_object` every attribute named by the slice holds the
    slice's value and every other attribute is what it was. -/
theorem update_object_frame (e : Elem V) (o o' : Obj V) (a : Args)
    (h : updateObject e o a = .ok o') :
    ∃ m, slice e a = .ok m ∧ ∀ x, o'.get x = (match lookup m x with
                                              | some v => some v
                                              | none => o.get x) := by
  unfold updateObject at h
  cases hs : slice e a with
  | error x => simp [hs] at h
  | ok m =>
    simp only [hs, Except.ok.injEq] at h
    refine ⟨m, rfl, ?_⟩
    intro x
    have hn : (keys m).Nodup := by
      unfold slice at hs
      cases hk : keyslicePairs a (sortByKey e) with
      | error y => simp [hk] at hs
      | ok sl => simp only [hk, Except.ok.injEq] at hs; subst hs; exact keys_dictOf_nodup _
    rw [← h, get_foldl_set, lookup_eq_dictGet_of_nodup m hn]
    cases dictGet m x <;> rfl

theorem update_object_untouched (e : Elem V) (o o' : Obj V) (a : Args) (m : List (Str × V))
    (h : updateObject e o a = .ok o') (hs : slice e a = .ok m) (x : Str) (hx : x ∉ keys m) :
    o'.get x = o.get x := by
  obtain ⟨m', hm', hget⟩ := update_object_frame e o o' a h
  rw [hs] at hm'; cases hm'
  have : lookup m x = none := by
    cases hl : lookup m x with
    | none => rfl
    | some v => exact absurd ((mem_keys_iff_lookup m x).mpr (by simp [hl])) hx
  simp [hget x, this]

example :
    updateObject (V := Nat) [("a".toList, 1), ("b".toList, 2)] [("q".toList, some 9), ("a".toList, none)]
      { inc := ["a".toList] } = .ok [("q".toList, some 9), ("a".toList, some 1)] := by rfl

/-! ### set_by_object reads exactly the attributes that map to declared fields -/

theorem mem_sortStrs (l : List Str) (x : Str) : x ∈ sortStrs l ↔ x ∈ l := by
  unfold sortStrs
  simp only [List.mem_map]
  constructor
  · rintro ⟨⟨y, u⟩, hm, rfl⟩
    have := (mem_sortByKey _ _).mp hm
    simpa using this
  · intro h
    exact ⟨(x, ()), (mem_sortByKey _ _).mpr (List.mem_map.mpr ⟨x, h, rfl⟩), rfl⟩

theorem reads_eq (S : Schema V) (e : Elem V) (o : Obj V) (a : Args) (hx : Exclusive a) :
    (setByObject S e o a).reads = candidates S.fields a := by
  have hb : (!a.inc.isEmpty && !a.om.isEmpty) = false := by
    cases hb : (!a.inc.isEmpty && !a.om.isEmpty) with
    | false => rfl
    | true => exact absurd hx ((not_exclusive_iff a).mpr hb)
  have hx' : Exclusive { a with key := none } := hx
  simp only [setByObject, hb, Bool.false_eq_true, if_false, keyslicePairs_ok _ hx']

/-- membership in a built dict = what `dict(pairs)[k]` returns -/
theorem mem_dictOf_iff {β : Type} (ps : List (Str × β)) (k : Str) (v : β) :
    (k, v) ∈ dictOf ps ↔ dictGet ps k = some v := by
  have hn := keys_dictOf_nodup ps
  constructor
  · intro h
    rw [← lookup_dictOf, lookup_eq_dictGet_of_nodup _ hn]
    exact dictGet_of_nodup _ hn k v h
  · intro h
    rw [← lookup_dictOf, lookup_eq_dictGet_of_nodup _ hn] at h
    exact dictGet_mem _ k v h

theorem mem_keys_dictOf (ren : List (Str × Str)) (x : Str) :
    x ∈ keys (dictOf ren) ↔ (dictGet ren x).isSome = true := by
  rw [mem_keys_iff_lookup, lookup_dictOf]

/-- the candidate attributes before `omit`: unrenamed field names, and names renamed to a field -/
theorem mem_renAttrs (fields : List Str) (ren : List (Str × Str)) (x : Str) :
    x ∈ renAttrs fields ren ↔
      (x ∈ fields ∧ dictGet ren x = none) ∨ ∃ f, dictGet ren x = some f ∧ f ∈ fields := by
  unfold renAttrs
  simp only [List.mem_append, List.mem_map, List.mem_filter, Bool.not_eq_true', List.contains_eq_mem,
    decide_eq_false_iff_not, decide_eq_true_eq, mem_keys_dictOf]
  constructor
  · rintro (⟨h1, h2⟩ | ⟨⟨k, v⟩, ⟨hm, hv⟩, rfl⟩)
    · left; refine ⟨h1, ?_⟩
      cases hd : dictGet ren x with
      | none => rfl
      | some w => simp [hd] at h2
    · exact Or.inr ⟨v, (mem_dictOf_iff _ _ _).mp hm, hv⟩
  · rintro (⟨h1, h2⟩ | ⟨f, hd, hf⟩)
    · exact Or.inl ⟨h1, by simp [h2]⟩
    · exact Or.inr ⟨(x, f), ⟨(mem_dictOf_iff _ _ _).mpr hd, hf⟩, rfl⟩

/-- **set_by_object_reads** (full since fixes 2460dd6 / 786474b) — the attributes looked at on the
    object are exactly those whose destination (rename target, else own name) is a declared field,
    minus the omitted ones that are not renamed; for Dict and SparseDict alike (fix 29e8575). -/
theorem set_by_object_reads (S : Schema V) (e : Elem V) (o : Obj V) (a : Args)
    (hx : Exclusive a) (x : Str) :
    x ∈ (setByObject S e o a).reads ↔ readSet S.fields a x := by
  rw [reads_eq S e o a hx, candidates, mem_sortStrs, List.mem_filter, mem_renAttrs]
  unfold readSet dest renameTo
  simp only [Bool.not_eq_true', Bool.and_eq_false_iff, List.contains_eq_mem, decide_eq_false_iff_not,
    Bool.not_eq_false', decide_eq_true_eq, mem_keys_dictOf]
  cases hd : dictGet a.ren x with
  | none => simp
  | some t => simp

/-- the third clause of the property, as a closed statement -/
def C20_Full : Prop :=
  ∀ (S : Schema Unit) (e : Elem Unit) (o : Obj Unit) (a : Args), Exclusive a →
    ∀ x, x ∈ (setByObject S e o a).reads ↔ readSet S.fields a x

theorem C20_full_holds : C20_Full := fun S e o a hx x => set_by_object_reads S e o a hx x

/-- the former witness of KF-C20-a: with rename `[(x, a), (y, x)]` and the single field `a`, only
    `a` and `x` are looked at; `y` maps to `x`, which is not a field -/
example :
    (setByObject (V := Unit) { fields := ["a".toList], blank := (), setF := fun _ _ => () } [("a".toList, ())] []
      { ren := [("x".toList, "a".toList), ("y".toList, "x".toList)] }).reads = ["a".toList, "x".toList] := by
  decide

/-- the former witness of KF-C20-b: a fresh SparseDict with the declared field `a` looks at `a` -/
example :
    (setByObject (V := Unit) { fields := ["a".toList], blank := (), setF := fun _ _ => (), sparse := true } [] [] {}).reads
      = ["a".toList] := by
  decide

/-! ### write to an object, read back with the inverse renaming -/

def swapPairs (ren : List (Str × Str)) : List (Str × Str) := ren.map fun p => (p.2, p.1)

/-- the arguments of the read-back: the inverse renaming, nothing else -/
def inverseArgs (a : Args) : Args := { ren := swapPairs a.ren }

theorem mem_swapPairs (ren : List (Str × Str)) (x k : Str) : (x, k) ∈ swapPairs ren ↔ (k, x) ∈ ren := by
  unfold swapPairs
  simp only [List.mem_map, Prod.mk.injEq]
  constructor
  · rintro ⟨⟨a, b⟩, hm, h1, h2⟩; subst h1; subst h2; exact hm
  · intro h; exact ⟨(k, x), h, rfl, rfl⟩

theorem keys_swapPairs (ren : List (Str × Str)) : keys (swapPairs ren) = ren.map (·.2) := by
  simp [keys, swapPairs]

theorem dictGet_none_iff {β : Type} (ps : List (Str × β)) (k : Str) :
    dictGet ps k = none ↔ ∀ v, (k, v) ∉ ps := by
  constructor
  · intro h v hm
    have := (dictGet_isSome ps k).mpr ⟨v, hm⟩
    simp [h] at this
  · intro h
    cases hd : dictGet ps k with
    | none => rfl
    | some w => exact absurd (dictGet_mem ps k w hd) (h w)

theorem dictGet_unique {β : Type} (ps : List (Str × β)) (k : Str) (v : β)
    (hall : ∀ w, (k, w) ∈ ps → w = v) (hex : ∃ w, (k, w) ∈ ps) : dictGet ps k = some v := by
  cases hd : dictGet ps k with
  | none => exact absurd hex (fun ⟨w, hw⟩ => (dictGet_none_iff ps k).mp hd w hw)
  | some w => rw [hall w (dictGet_mem ps k w hd)]

/-- the dict handed to `Dict.set` by `set_by_object` -/
def finalOf (S : Schema V) (o : Obj V) (a : Args) : List (Str × V) :=
  dictOf (((readable o (candidates S.fields a)).filterMap
    (fun p => (outKey { a with key := none } p.1).map (·, p.2))).filter fun p => S.fields.contains p.1)

theorem setByObject_ok (S : Schema V) (e : Elem V) (o : Obj V) (a : Args) (hx : Exclusive a) :
    setByObject S e o a =
      ⟨candidates S.fields a, (dictSetValue S (finalOf S o a)).1, (dictSetValue S (finalOf S o a)).2⟩ := by
  have hb : (!a.inc.isEmpty && !a.om.isEmpty) = false := by
    cases hb : (!a.inc.isEmpty && !a.om.isEmpty) with
    | false => rfl
    | true => exact absurd hx ((not_exclusive_iff a).mpr hb)
  have hx' : Exclusive { a with key := none } := hx
  simp only [setByObject, hb, Bool.false_eq_true, if_false, keyslicePairs_ok _ hx', finalOf]

/-- which pairs `Dict.set` receives for a key: values of readable candidate attributes landing on it -/
theorem finalOf_lookup_mem (S : Schema V) (o : Obj V) (a : Args) (n : Str) (hn : n ∈ S.fields) (w : V) :
    (n, w) ∈ ((readable o (candidates S.fields a)).filterMap
        (fun p => (outKey { a with key := none } p.1).map (·, p.2))).filter (fun p => S.fields.contains p.1) ↔
      ∃ x, x ∈ candidates S.fields a ∧ o.get x = some w ∧ outKey { a with key := none } x = some n := by
  rw [List.mem_filter, mem_fm]
  unfold readable
  simp only [List.mem_filterMap, Option.map_eq_some_iff, Prod.mk.injEq]
  constructor
  · rintro ⟨⟨x, ⟨x', hxc, w', hg, rfl, rfl⟩, hox⟩, _⟩
    exact ⟨x', hxc, hg, hox⟩
  · rintro ⟨x, hxc, hg, hox⟩
    exact ⟨⟨x, ⟨x, hxc, w, hg, rfl, rfl⟩, hox⟩, by simpa using hn⟩

theorem dictSetValue_nonstrict (S : Schema V) (final : List (Str × V)) (hpol : S.policy ≠ .strict)
    (hs : S.sparse = false) :
    dictSetValue S final = (none, S.fields.map fun f => (f, match lookup final f with
                                                            | some x => S.setF f x
                                                            | none => S.blank)) := by
  have hpol' : (S.policy == Policy.strict) = false := by
    cases hp : S.policy <;> simp_all
  simp [dictSetValue, hpol', hs]
  intro f _
  cases lookup final f <;> rfl

/-! ### what set_by_object stores -/

theorem renAttrs_nodup (fields : List Str) (ren : List (Str × Str)) (h : fields.Nodup) : (renAttrs fields ren).Nodup := by
  unfold renAttrs
  rw [List.nodup_append]
  refine ⟨h.filter _, ?_, ?_⟩
  · have hk := keys_dictOf_nodup ren
    unfold keys at hk
    exact List.Nodup.sublist (List.Sublist.map _ List.filter_sublist) hk
  · intro a ha b hb hab
    subst hab
    obtain ⟨p, hp, rfl⟩ := List.mem_map.mp hb
    have hk : p.1 ∈ keys (dictOf ren) := List.mem_map_of_mem (f := (·.1)) (List.mem_filter.mp hp).1
    have := (List.mem_filter.mp ha).2
    simp [hk] at this

theorem candidates_sorted (fields : List Str) (a : Args) (hf : fields.Nodup) :
    (candidates fields a).Pairwise (fun x y => strLt x y = true) := by
  unfold candidates sortStrs
  generalize (fun x => !(a.om.contains x && !(keys (dictOf a.ren)).contains x)) = keep
  have hn : ((renAttrs fields a.ren).filter keep).Nodup := (renAttrs_nodup fields a.ren hf).filter _
  have hs := sorted_sortByKey (((renAttrs fields a.ren).filter keep).map fun s => (s, ()))
    (by simpa [keys, List.map_map, Function.comp_def] using hn)
  unfold SortedKeys at hs
  exact List.Pairwise.map _ (fun _ _ h => h) hs

theorem readable_sorted (o : Obj V) (cand : List Str) (h : cand.Pairwise (fun x y => strLt x y = true)) :
    SortedKeys (readable o cand) := by
  unfold SortedKeys readable
  apply List.Pairwise.filterMap _ _ h
  intro x y hxy b hb b' hb'
  simp only [Option.map_eq_some_iff] at hb hb'
  obtain ⟨_, _, rfl⟩ := hb
  obtain ⟨_, _, rfl⟩ := hb'
  exact hxy

theorem mem_readable (o : Obj V) (cand : List Str) (x : Str) (v : V) :
    (x, v) ∈ readable o cand ↔ x ∈ cand ∧ o.get x = some v := by
  unfold readable
  simp only [List.mem_filterMap, Option.map_eq_some_iff, Prod.mk.injEq]
  constructor
  · rintro ⟨x', hx', v', hg, rfl, rfl⟩; exact ⟨hx', hg⟩
  · rintro ⟨hx, hg⟩; exact ⟨x, hx, v, hg, rfl, rfl⟩

theorem dictGet_filter_key {β : Type} (l : List (Str × β)) (p : Str → Bool) (k : Str) (hk : p k = true) :
    dictGet (l.filter fun q => p q.1) k = dictGet l k := by
  induction l with
  | nil => rfl
  | cons q rest ih =>
    obtain ⟨qk, qv⟩ := q
    by_cases hq : p qk = true
    · simp only [List.filter_cons, hq, if_true, dictGet, ih]
    · simp only [List.filter_cons, hq, Bool.false_eq_true, if_false, dictGet, ih]
      have : qk ≠ k := fun h => hq (h ▸ hk)
      cases dictGet rest k <;> simp [this]

/-- `(x, v)` is the attribute that provides the value for field `f`: a candidate, readable, sent to
    `f` by the reference destination function, and greater than every other such attribute -/
def IsAttrWinner (S : Schema V) (o : Obj V) (a : Args) (f x : Str) (v : V) : Prop :=
  x ∈ candidates S.fields a ∧ o.get x = some v ∧ outKey { a with key := none } x = some f ∧
  ∀ x' v', x' ∈ candidates S.fields a → o.get x' = some v' → outKey { a with key := none } x' = some f →
    x' = x ∨ strLt x' x = true

/-- **set_by_object_values** — after `set_by_object` every declared field holds `member.set(v)` for
    the value `v` of the attribute that maps to it (the greatest attribute name when several do),
    and is blank when no readable candidate attribute maps to it. -/
theorem set_by_object_values (S : Schema V) (e : Elem V) (o : Obj V) (a : Args) (hx : Exclusive a)
    (hf : S.fields.Nodup) (hpol : S.policy ≠ .strict) (hs : S.sparse = false) :
    (setByObject S e o a).exc = none ∧
    ∃ val : Str → Option V,
      (setByObject S e o a).elem = S.fields.map (fun f => (f, match val f with
                                                              | some v => S.setF f v
                                                              | none => S.blank)) ∧
      ∀ f ∈ S.fields, ∀ v, val f = some v ↔ ∃ x, IsAttrWinner S o a f x v := by
  rw [setByObject_ok S e o a hx, dictSetValue_nonstrict S _ hpol hs]
  refine ⟨rfl, fun f => lookup (finalOf S o a) f, rfl, ?_⟩
  intro f hfm v
  show lookup (finalOf S o a) f = some v ↔ _
  unfold finalOf
  rw [lookup_dictOf, dictGet_filter_key _ (fun k => S.fields.contains k) f (by simpa using hfm),
    dictGet_fm_sorted _ _ (readable_sorted o _ (candidates_sorted S.fields a hf))]
  unfold IsAttrWinner
  simp only [mem_readable]
  constructor
  · rintro ⟨x, ⟨hc, hg⟩, hk, hmax⟩
    exact ⟨x, hc, hg, hk, fun x' v' hc' hg' hk' => hmax x' v' ⟨hc', hg'⟩ hk'⟩
  · rintro ⟨x, hc, hg, hk, hmax⟩
    exact ⟨x, ⟨hc, hg⟩, hk, fun x' v' h' hk' => hmax x' v' h'.1 h'.2 hk'⟩

/-- core of the round trip: after `update_object`, the dict that `set_by_object` with the inverse
    renaming hands to `Dict.set` holds, for each member of the source element, its value if it was
    selected and nothing otherwise -/
theorem object_roundtrip_final (S : Schema V) (e : Elem V) (o : Obj V) (a : Args)
    (hne : (keys e).Nodup) (hmemF : ∀ p ∈ e, p.1 ∈ S.fields) (hkey : a.key = none) (hx : Exclusive a)
    (hsrcN : (a.ren.map (·.1)).Nodup) (htgtN : (a.ren.map (·.2)).Nodup)
    (hsrcF : ∀ p ∈ a.ren, p.1 ∈ S.fields) (htgtF : ∀ p ∈ a.ren, p.2 ∉ S.fields)
    (hfresh : ∀ x, (x ∈ S.fields ∨ x ∈ a.ren.map (·.2)) → o.get x = none) :
    ∃ o', updateObject e o a = .ok o' ∧
      ∀ n v, (n, v) ∈ e →
        lookup (finalOf S o' (inverseArgs a)) n = if (outKey a n).isSome then some v else none := by
  obtain ⟨m, hm, hmn, hspec⟩ := slice_spec e a hne hx
  -- the destination function, with the identity key function
  have hout : ∀ n, outKey a n = (match dictGet a.ren n with
      | some t => some t | none => if selected a n then some n else none) := by
    intro n; unfold outKey renameTo; rw [hkey]; rfl
  -- no two fields share a destination
  have hinj : ∀ p ∈ e, ∀ q ∈ e, (outKey a p.1).isSome → outKey a p.1 = outKey a q.1 → p.1 = q.1 := by
    intro p hp q hq _ heq
    rw [hout, hout] at heq
    cases hdp : dictGet a.ren p.1 with
    | some t =>
      have hpt := dictGet_mem _ _ _ hdp
      cases hdq : dictGet a.ren q.1 with
      | some t' =>
        simp only [hdp, hdq, Option.some.injEq] at heq
        subst heq
        have hqt := dictGet_mem _ _ _ hdq
        have h1 := dictGet_of_nodup (swapPairs a.ren) (keys_swapPairs a.ren ▸ htgtN) t p.1
          ((mem_swapPairs _ _ _).mpr hpt)
        have h2 := dictGet_of_nodup (swapPairs a.ren) (keys_swapPairs a.ren ▸ htgtN) t q.1
          ((mem_swapPairs _ _ _).mpr hqt)
        rw [h1] at h2; exact Option.some.inj h2
      | none =>
        simp only [hdp, hdq] at heq
        split at heq
        · simp only [Option.some.injEq] at heq
          exact absurd (heq ▸ hmemF q hq) (htgtF _ hpt)
        · simp at heq
    | none =>
      cases hdq : dictGet a.ren q.1 with
      | some t' =>
        have hqt := dictGet_mem _ _ _ hdq
        simp only [hdp, hdq] at heq
        split at heq
        · simp only [Option.some.injEq] at heq
          exact absurd (heq ▸ hmemF p hp) (htgtF _ hqt)
        · simp at heq
      | none =>
        simp only [hdp, hdq] at heq
        split at heq <;> split at heq <;> simp_all
  -- claim A: the slice holds each moved field's own value under its destination
  have hA : ∀ n v k', (n, v) ∈ e → outKey a n = some k' → lookup m k' = some v :=
    fun n v k' hnv hk => slice_spec_injective e a hne hx hinj m hm n v k' hnv hk
  have hupd : updateObject e o a = .ok (m.foldl (fun o p => o.set p.1 p.2) o) := by
    simp [updateObject, hm]
  refine ⟨_, hupd, ?_⟩
  obtain ⟨m', hm', hget⟩ := update_object_frame e o _ a hupd
  rw [hm] at hm'; cases hm'
  generalize m.foldl (fun o p => o.set p.1 p.2) o = o' at hget hupd
  -- the read-back
  generalize ha2 : inverseArgs a = a2
  have ha2i : a2.inc = [] := by rw [← ha2]; rfl
  have ha2o : a2.om = [] := by rw [← ha2]; rfl
  have ha2r : a2.ren = swapPairs a.ren := by rw [← ha2]; rfl
  have hx2 : Exclusive a2 := Or.inl ha2i
  have hout2 : ∀ x, outKey { a2 with key := none } x = (match dictGet (swapPairs a.ren) x with
      | some k => some k | none => some x) := by
    intro x; unfold outKey renameTo selected; simp only [ha2i, ha2o, ha2r]
    cases dictGet (swapPairs a.ren) x <;> simp
  have hswapN : (keys (swapPairs a.ren)).Nodup := keys_swapPairs a.ren ▸ htgtN
  -- candidates
  have hcand : ∀ x, x ∈ candidates S.fields a2 ↔ x ∈ S.fields ∨ x ∈ a.ren.map (·.2) := by
    intro x
    rw [candidates, ha2r, mem_sortStrs, List.mem_filter, mem_renAttrs]
    simp only [ha2o, List.contains_nil, Bool.false_and, Bool.not_false, and_true]
    constructor
    · rintro (h | ⟨f, hd, _⟩)
      · exact Or.inl h.1
      · exact Or.inr (List.mem_map_of_mem (f := (·.2)) ((mem_swapPairs _ _ _).mp (dictGet_mem _ _ _ hd)))
    · rintro (h | h)
      · refine Or.inl ⟨h, (dictGet_none_iff _ _).mpr ?_⟩
        intro k hk
        exact htgtF _ ((mem_swapPairs _ _ _).mp hk) h
      · obtain ⟨⟨k, t⟩, hkt, rfl⟩ := List.mem_map.mp h
        exact Or.inr ⟨k, dictGet_of_nodup _ hswapN t k ((mem_swapPairs _ _ _).mpr hkt), hsrcF _ hkt⟩
  -- what a pair of `final` with a field key can be
  have hfinal : ∀ n v, (n, v) ∈ e → ∀ x w,
      (x ∈ S.fields ∨ x ∈ a.ren.map (·.2)) → o'.get x = some w →
      outKey { a2 with key := none } x = some n → w = v ∧ (outKey a n).isSome = true := by
    intro n v hnv x w hxc hgw hox
    rw [hout2] at hox
    cases hd : dictGet (swapPairs a.ren) x with
    | some k =>
      simp only [hd, Option.some.injEq] at hox
      subst hox
      have hkx : (k, x) ∈ a.ren := (mem_swapPairs _ _ _).mp (dictGet_mem _ _ _ hd)
      have hon : outKey a k = some x := by rw [hout, dictGet_of_nodup a.ren hsrcN k x hkx]
      have := hA k v x hnv hon
      rw [hget x, this] at hgw
      exact ⟨(Option.some.inj hgw).symm, by simp [hon]⟩
    | none =>
      simp only [hd, Option.some.injEq] at hox
      subst hox
      cases hl : lookup m x with
      | none =>
        rw [hget x, hl, hfresh x hxc] at hgw
        simp at hgw
      | some w' =>
        obtain ⟨g, hgw', hgk, _⟩ := (hspec x w').mp hl
        -- g lands on x: g renamed to x is impossible (x is a field), so g = x
        have hgx : g = x := by
          rw [hout] at hgk
          cases hdg : dictGet a.ren g with
          | some t =>
            simp only [hdg, Option.some.injEq] at hgk
            exact absurd (hgk ▸ hmemF _ hnv) (htgtF _ (dictGet_mem _ _ _ hdg))
          | none =>
            simp only [hdg] at hgk
            split at hgk
            · exact Option.some.inj hgk
            · simp at hgk
        subst hgx
        have hlv := hA g v g hnv hgk
        rw [hget g, hlv] at hgw
        exact ⟨(Option.some.inj hgw).symm, by simp [hgk]⟩
  -- the value Dict.set receives for each field
  have hLk : ∀ n v, (n, v) ∈ e →
      lookup (finalOf S o' a2) n = if (outKey a n).isSome then some v else none := by
    intro n v hp
    unfold finalOf
    rw [lookup_dictOf]
    by_cases hmoved : (outKey a n).isSome = true
    · simp only [hmoved, if_true]
      apply dictGet_unique
      · intro w hw
        obtain ⟨x, hxc, hg, hox⟩ := (finalOf_lookup_mem S o' a2 n (hmemF _ hp) w).mp hw
        exact (hfinal n v hp x w ((hcand x).mp hxc) hg hox).1
      · obtain ⟨k', hk'⟩ := Option.isSome_iff_exists.mp hmoved
        refine ⟨v, (finalOf_lookup_mem S o' a2 n (hmemF _ hp) v).mpr ⟨k', ?_, ?_, ?_⟩⟩
        · apply (hcand k').mpr
          rw [hout] at hk'
          cases hd : dictGet a.ren n with
          | some t =>
            simp only [hd, Option.some.injEq] at hk'
            exact Or.inr (hk' ▸ List.mem_map_of_mem (f := (·.2)) (dictGet_mem _ _ _ hd))
          | none =>
            simp only [hd] at hk'
            split at hk'
            · exact Or.inl (Option.some.inj hk' ▸ hmemF _ hp)
            · simp at hk'
        · rw [hget k', hA n v k' hp hk']
        · rw [hout2]
          rw [hout] at hk'
          cases hd : dictGet a.ren n with
          | some t =>
            simp only [hd, Option.some.injEq] at hk'
            subst hk'
            rw [dictGet_of_nodup (swapPairs a.ren) hswapN t n
              ((mem_swapPairs _ _ _).mpr (dictGet_mem _ _ _ hd))]
          | none =>
            simp only [hd] at hk'
            split at hk'
            · have hk'' := Option.some.inj hk'
              subst hk''
              have : dictGet (swapPairs a.ren) n = none := by
                apply (dictGet_none_iff _ _).mpr
                intro k hk
                exact htgtF _ ((mem_swapPairs _ _ _).mp hk) (hmemF _ hp)
              simp [this]
            · simp at hk'
    · simp only [hmoved, Bool.false_eq_true, if_false]
      apply (dictGet_none_iff _ n).mpr
      intro w hw
      obtain ⟨x, hxc, hg, hox⟩ := (finalOf_lookup_mem S o' a2 n (hmemF _ hp) w).mp hw
      exact hmoved (hfinal n v hp x w ((hcand x).mp hxc) hg hox).2
  exact hLk

/-- **object_roundtrip** — write an element to an object with `update_object(include/omit,
    rename)` and read the object back into a blank element with the inverse renaming: every
    selected field (renamed, or selected by include/omit) gets `member.set(old value)`, every
    other field stays unset.  Hypotheses: identity key function; the renaming is injective, renames
    declared fields to names that are not fields; the object had no readable attribute called like
    a field or a rename target; non-strict policy (strict demands all fields). -/
theorem object_roundtrip (S : Schema V) (e : Elem V) (o : Obj V) (a : Args)
    (he : keys e = S.fields) (hf : S.fields.Nodup) (hkey : a.key = none) (hx : Exclusive a)
    (hsrcN : (a.ren.map (·.1)).Nodup) (htgtN : (a.ren.map (·.2)).Nodup)
    (hsrcF : ∀ p ∈ a.ren, p.1 ∈ S.fields) (htgtF : ∀ p ∈ a.ren, p.2 ∉ S.fields)
    (hfresh : ∀ x, (x ∈ S.fields ∨ x ∈ a.ren.map (·.2)) → o.get x = none)
    (hpol : S.policy ≠ .strict) (hs : S.sparse = false) :
    ∃ o', updateObject e o a = .ok o' ∧
      (setByObject S (S.fields.map (·, S.blank)) o' (inverseArgs a)).exc = none ∧
      (setByObject S (S.fields.map (·, S.blank)) o' (inverseArgs a)).elem =
        e.map (fun p => (p.1, if (outKey a p.1).isSome then S.setF p.1 p.2 else S.blank)) := by
  obtain ⟨o', hupd, hLk⟩ := object_roundtrip_final S e o a (he ▸ hf)
    (fun p hp => he ▸ List.mem_map_of_mem (f := (·.1)) hp) hkey hx hsrcN htgtN hsrcF htgtF hfresh
  refine ⟨o', hupd, ?_⟩
  rw [setByObject_ok S _ o' (inverseArgs a) (Or.inl rfl), dictSetValue_nonstrict S _ hpol hs]
  refine ⟨rfl, ?_⟩
  refine (congrArg (List.map _) he.symm).trans ?_
  simp only [keys, List.map_map]
  apply List.map_congr_left
  intro p hp
  obtain ⟨n, v⟩ := p
  simp only [Function.comp, hLk n v hp]
  by_cases hmoved : (outKey a n).isSome = true <;> simp [hmoved]

theorem lookup_map_setF (S : Schema V) (l : List (Str × V)) (n : Str) :
    lookup (l.map fun p => (p.1, S.setF p.1 p.2)) n = (lookup l n).map (S.setF n) := by
  induction l with
  | nil => rfl
  | cons p rest ih =>
    obtain ⟨k, x⟩ := p
    simp only [List.map_cons, lookup]
    by_cases h : k = n
    · subst h; simp
    · simp [h, ih]

/-- **object_roundtrip** for a SparseDict (since fix 29e8575): the members of the source element
    that were selected come back with `member.set(old value)`; no other member is created. -/
theorem object_roundtrip_sparse (S : Schema V) (e : Elem V) (o : Obj V) (a : Args)
    (hne : (keys e).Nodup) (hmemF : ∀ p ∈ e, p.1 ∈ S.fields) (hkey : a.key = none) (hx : Exclusive a)
    (hsrcN : (a.ren.map (·.1)).Nodup) (htgtN : (a.ren.map (·.2)).Nodup)
    (hsrcF : ∀ p ∈ a.ren, p.1 ∈ S.fields) (htgtF : ∀ p ∈ a.ren, p.2 ∉ S.fields)
    (hfresh : ∀ x, (x ∈ S.fields ∨ x ∈ a.ren.map (·.2)) → o.get x = none)
    (hpol : S.policy ≠ .strict) (hs : S.sparse = true) :
    ∃ o', updateObject e o a = .ok o' ∧
      (setByObject S [] o' (inverseArgs a)).exc = none ∧
      ∀ n v, (n, v) ∈ e →
        lookup (setByObject S [] o' (inverseArgs a)).elem n =
          if (outKey a n).isSome then some (S.setF n v) else none := by
  obtain ⟨o', hupd, hLk⟩ := object_roundtrip_final S e o a hne hmemF hkey hx hsrcN htgtN hsrcF htgtF hfresh
  refine ⟨o', hupd, ?_⟩
  have hpol' : (S.policy == Policy.strict) = false := by
    cases hp : S.policy <;> simp_all
  rw [setByObject_ok S _ o' (inverseArgs a) (Or.inl rfl)]
  simp only [dictSetValue, hs, if_true, hpol', Bool.false_and, Bool.false_eq_true, if_false]
  refine ⟨trivial, ?_⟩
  intro n v hnv
  rw [lookup_map_setF, hLk n v hnv]
  by_cases hmoved : (outKey a n).isSome = true <;> simp [hmoved]

example : swapPairs [("b".toList, "bee".toList)] = [("bee".toList, "b".toList)] := rfl

/-- the hypotheses of `object_roundtrip` are satisfiable: fields a, b; include a, rename b → bee;
    an object that only has an unrelated attribute -/
example :
    let S : Schema Nat := { fields := ["a".toList, "b".toList], blank := 0, setF := fun _ x => x + 1 }
    ∃ o', updateObject [("a".toList, 1), ("b".toList, 2)] [("q".toList, some 9)]
            { inc := ["a".toList], ren := [("b".toList, "bee".toList)] } = .ok o' ∧
      (setByObject S (S.fields.map (·, S.blank)) o'
          (inverseArgs { inc := ["a".toList], ren := [("b".toList, "bee".toList)] })).elem =
        [("a".toList, 2), ("b".toList, 3)] := by
  intro S
  obtain ⟨o', h1, _, h3⟩ := object_roundtrip S [("a".toList, 1), ("b".toList, 2)] [("q".toList, some 9)]
    { inc := ["a".toList], ren := [("b".toList, "bee".toList)] } rfl (by decide) rfl (Or.inr rfl)
    (by decide) (by decide) (by decide) (by decide)
    (by
      intro x hx
      have : x ≠ "q".toList := by
        rintro rfl
        revert hx
        decide
      have h' : ¬ ("q".toList = x) := fun h => this h.symm
      simp only [Obj.get, h', if_false])
    (by decide) rfl
  exact ⟨o', h1, by rw [h3]; rfl⟩

end Flatland.C20.Proofs
