import Flatland.C20
namespace Flatland.C20.Proofs
end Flatland.C20.Proofs
