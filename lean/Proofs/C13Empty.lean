/-
C13 with EMPTY path steps at any depth (05c4adc): an unnamed child of a mapping (stored under the key
`None`) is spelled by the empty step — `'//x'`, `'/l/0//'`, `'///y'` — and `find` looks the empty step
up under the key `None`.

* `tokenize_fqName_empty`  `tokenize(fq_name(pos)) = [TOP] ++ [stepOp seg ...]`: `NAME None` for an empty
                      segment, `NAME unescape(seg)` otherwise, under `SpellOK'` (a Dict name on the way
                      that is not the last does not end in a backslash; EMPTY names admitted, at any depth,
                      consecutive ones and a trailing one included);
* `find_fq_empty`     the inverse law at every `PathOK'` position (the empty step's lookup under `None`
                      hits the child itself);
* `find_fq_addressable`, `find_fq_iff`, `C13_key_mismatch_fails`  the general theorems WITHOUT the
                      hypothesis `namedFrom`; the old statements (`*_named`) are corollaries.
-/
import Proofs.C13
import Proofs.Lemmas.PathScanEmpty
namespace Flatland.C13.Proofs
open Flatland.Path Flatland.C13.Spec Flatland.Path.Lemmas Flatland.Generated.C14 Flatland.C14.Proofs

/-! ### the restriction, empty names admitted -/

/-- the `_index` argument of the step `fq_name` emits for a mapping child named `nm`: the empty step
    is `None` -/
def nameKey (nm : Str) : Option Str := if nm.isEmpty then none else some nm

def stepOK' (k : Kind) (kids : List Node) (i : Nat) (c : Node) (lastStep : Bool) : Bool :=
  match k with
  | .scalar => false
  | .map => findName (nameKey c.name) kids == some i && (lastStep || !endsWithBackslash c.name)
  | _ => decide ((natStr i).length ≤ intMaxDigits ∨ intMaxDigits = 0)

def PathOK' : Node → Pos → Bool
  | _, [] => true
  | .mk k _ _ kids, i :: p =>
    match kids[i]? with
    | none => false
    | some c => stepOK' k kids i c p.isEmpty && PathOK' c p

/-- spelling alone: only the last Dict name on the way may end in a backslash (the empty name does not) -/
def stepSpell' (k : Kind) (i : Nat) (c : Node) (lastStep : Bool) : Bool :=
  match k with
  | .scalar => false
  | .map => lastStep || !endsWithBackslash c.name
  | _ => decide ((natStr i).length ≤ intMaxDigits ∨ intMaxDigits = 0)

def SpellOK' : Node → Pos → Bool
  | _, [] => true
  | .mk k _ _ kids, i :: p =>
    match kids[i]? with
    | none => false
    | some c => stepSpell' k i c p.isEmpty && SpellOK' c p

theorem stepSpell'_of_stepOK' (k : Kind) (kids : List Node) (i : Nat) (c : Node) (lastStep : Bool)
    (h : stepOK' k kids i c lastStep = true) : stepSpell' k i c lastStep = true := by
  cases k with
  | scalar => simp [stepOK'] at h
  | list => exact h
  | array => exact h
  | map =>
    simp only [stepOK', Bool.and_eq_true] at h
    exact h.2

theorem spellOK'_of_pathOK' : ∀ (pos : Pos) (n : Node), PathOK' n pos = true → SpellOK' n pos = true
  | [], _, _ => rfl
  | i :: p, .mk k ky nm kids, h => by
    simp only [PathOK'] at h
    simp only [SpellOK']
    cases hk : kids[i]? with
    | none => rw [hk] at h; simp at h
    | some c =>
      rw [hk] at h
      simp only [Bool.and_eq_true] at h ⊢
      exact ⟨stepSpell'_of_stepOK' k kids i c _ h.1, spellOK'_of_pathOK' p c h.2⟩

/-- the old restrictions are special cases -/
theorem stepSpell'_of_stepSpell (k : Kind) (i : Nat) (c : Node) (lastStep : Bool)
    (h : stepSpell k i c lastStep = true) : stepSpell' k i c lastStep = true := by
  cases k with
  | scalar => simp [stepSpell] at h
  | list => exact h
  | array => exact h
  | map =>
    simp only [stepSpell, Bool.and_eq_true] at h
    exact h.2

theorem spellOK'_of_spellOK : ∀ (pos : Pos) (n : Node), SpellOK n pos = true → SpellOK' n pos = true
  | [], _, _ => rfl
  | i :: p, .mk k ky nm kids, h => by
    simp only [SpellOK] at h
    simp only [SpellOK']
    cases hk : kids[i]? with
    | none => rw [hk] at h; simp at h
    | some c =>
      rw [hk] at h
      simp only [Bool.and_eq_true] at h ⊢
      exact ⟨stepSpell'_of_stepSpell k i c _ h.1, spellOK'_of_spellOK p c h.2⟩

theorem escapeName_nil : escapeName [] = [] := by decide

/-- facts about one emitted segment, the empty one included -/
theorem segText_facts' (k : Kind) (i : Nat) (c : Node) (lastStep : Bool)
    (h : stepSpell' k i c lastStep = true) :
    cleanB lastStep (segText k i c) = true ∧ (segText k i c = [] ∨ PlainSeg (segText k i c)) ∧
      stepData (segText k i c) = (if k == .list || k == .array then some (natStr i) else nameKey c.name) := by
  have hnat : stepData (natStr i) = some (natStr i) := by
    have hf := natStr_facts lastStep i
    have : (natStr i).isEmpty = false := by
      cases hn : natStr i with
      | nil => exact absurd hn hf.1
      | cons _ _ => rfl
    simp only [stepData, this, Bool.false_eq_true, if_false, hf.2.2.2]
  cases k with
  | scalar => simp [stepSpell'] at h
  | list =>
    simp only [segText]
    have := natStr_facts lastStep i
    exact ⟨this.2.1, Or.inr this.2.2.1, by simpa using hnat⟩
  | array =>
    simp only [segText]
    have := natStr_facts lastStep i
    exact ⟨this.2.1, Or.inr this.2.2.1, by simpa using hnat⟩
  | map =>
    simp only [stepSpell', Bool.or_eq_true, Bool.not_eq_true'] at h
    by_cases hne : c.name = []
    · have hs : segText .map i c = [] := by simp [segText, hne, escapeName_nil]
      rw [hs]
      exact ⟨cleanB_nil' lastStep, Or.inl rfl, by simp [stepData, nameKey, hne]⟩
    · have := escapeName_facts lastStep c.name hne h
      have hs : segText .map i c = escapeName c.name := by simp [segText]
      rw [hs]
      refine ⟨this.2.1, Or.inr this.2.2.1, ?_⟩
      have e1 : (escapeName c.name).isEmpty = false := by
        cases hn : escapeName c.name with
        | nil => exact absurd hn this.1
        | cons _ _ => rfl
      have e2 : c.name.isEmpty = false := by
        cases hn : c.name with
        | nil => exact absurd hn hne
        | cons _ _ => rfl
      simp [stepData, nameKey, e1, e2, this.2.2.2]

theorem segs_nil_iff' (n : Node) (pos : Pos) (h : SpellOK' n pos = true) : segs n pos = [] ↔ pos = [] := by
  cases pos with
  | nil => simp [segs]
  | cons i p =>
    cases n with | mk k ky nm kids =>
    simp only [SpellOK'] at h
    simp only [segs]
    cases hk : kids[i]? with
    | none => rw [hk] at h; simp at h
    | some c => simp

theorem segs_sufOK : ∀ (pos : Pos) (n : Node), SpellOK' n pos = true →
    SufOK (segs n pos) ∧ ∀ x ∈ segs n pos, x = [] ∨ PlainSeg x
  | [], _, _ => by simp [segs, SufOK]
  | i :: p, .mk k ky nm kids, hok => by
    simp only [SpellOK'] at hok
    simp only [segs]
    cases hk : kids[i]? with
    | none => rw [hk] at hok; simp at hok
    | some c =>
      rw [hk] at hok
      simp only [Bool.and_eq_true] at hok ⊢
      obtain ⟨hstep, hrest⟩ := hok
      have hf := segText_facts' k i c p.isEmpty hstep
      cases p with
      | nil =>
        simp only [segs, List.isEmpty_nil] at hf ⊢
        exact ⟨hf.1, by intro x hx; simp at hx; subst hx; exact hf.2.1⟩
      | cons j p' =>
        have ih := segs_sufOK (j :: p') c hrest
        have hne : segs c (j :: p') ≠ [] := by
          intro e
          have := (segs_nil_iff' c (j :: p') hrest).1 e
          simp at this
        simp only [List.isEmpty_cons] at hf
        cases hs : segs c (j :: p') with
        | nil => exact absurd hs hne
        | cons s2 rest =>
          rw [hs] at ih
          refine ⟨⟨hf.1, ih.1⟩, ?_⟩
          intro x hx
          simp only [List.mem_cons] at hx
          rcases hx with hx | hx
          · subst hx; exact hf.2.1
          · exact ih.2 x (by simp only [List.mem_cons]; exact hx)

/-! ### `tokenize` of the emitted path -/

/-- **`tokenize(fq_name(pos))` with empty steps at any depth**: TOP and one op per step — `NAME None` for
    an empty segment (an unnamed mapping child), `NAME unescape(seg)` otherwise -/
theorem tokenize_fqName_empty (root : Node) (pos : Pos) (hok : SpellOK' root pos = true) :
    tokenize (fqName root pos) = .ok (Op.top :: (segs root pos).map stepOp) := by
  cases pos with
  | nil => simp [fqName, segs, tokenize_slash]
  | cons i p =>
    have hso := segs_sufOK (i :: p) root hok
    simp only [fqName, List.isEmpty_cons, Bool.false_eq_true, if_false, fqParts_chain]
    rw [List.cons_append, joinSlash_sufJoin]
    exact tokenize_sufJoin _ hso.1 hso.2

/-- on segments without an empty one the ops are the old ones -/
theorem map_stepOp_of_ne : ∀ l : List Str, (∀ s ∈ l, s ≠ []) →
    l.map stepOp = l.map (fun s => Op.name (some (unescape s)))
  | [], _ => rfl
  | a :: r, h => by
    have ha : a.isEmpty = false := by
      cases hn : a with
      | nil => exact absurd hn (h a (by simp))
      | cons _ _ => rfl
    simp only [List.map_cons, map_stepOp_of_ne r (fun s hs => h s (by simp [hs]))]
    simp [stepOp, stepData, ha]

/-! ### evaluation of the emitted steps -/

/-- the step `fq_name` emits looks up exactly that child -/
theorem index_segText' (k : Kind) (ky : Option Str) (nm : Str) (kids : List Node) (i : Nat) (c : Node) (lastStep : Bool)
    (hk : kids[i]? = some c) (h : stepOK' k kids i c lastStep = true) :
    (Node.mk k ky nm kids).index (stepData (segText k i c)) = some i := by
  rw [(segText_facts' k i c lastStep (stepSpell'_of_stepOK' k kids i c lastStep h)).2.2]
  have hi : i < kids.length := by
    rcases Nat.lt_or_ge i kids.length with h | h
    · exact h
    · rw [List.getElem?_eq_none h] at hk; cases hk
  cases k with
  | scalar => simp [stepOK'] at h
  | map =>
    simp only [stepOK', Bool.and_eq_true, beq_iff_eq] at h
    simp [Node.index, Node.kind, Node.kids, h.1]
  | list =>
    simp only [stepOK', decide_eq_true_eq] at h
    simp [Node.index, Node.kind, Node.kids, pyInt_natStr i h, pyListIndex_nat _ _ hi]
  | array =>
    simp only [stepOK', decide_eq_true_eq] at h
    simp [Node.index, Node.kind, Node.kids, pyInt_natStr i h, pyListIndex_nat _ _ hi]

theorem runCtx_segs' (root : Node) (strict : Bool) : ∀ (pos : Pos) (n : Node) (el : Pos),
    PathOK' n pos = true → root.get? el = some n →
    runCtx root strict ((segs n pos).map stepOp) el = .ok (.found (el ++ pos))
  | [], n, el, _, _ => by simp [segs, runCtx]
  | i :: p, .mk k ky nm kids, el, hok, hg => by
    simp only [PathOK'] at hok
    simp only [segs]
    cases hk : kids[i]? with
    | none => rw [hk] at hok; simp at hok
    | some c =>
      rw [hk] at hok
      simp only [Bool.and_eq_true] at hok
      obtain ⟨hstep, hrest⟩ := hok
      simp only [List.map_cons, stepOp, runCtx, indexAt, hg, index_segText' k ky nm kids i c p.isEmpty hk hstep]
      have hg' : root.get? (el ++ [i]) = some c := by
        rw [get?_append_single el root _ i hg]
        simp [Node.kids, hk]
      rw [runCtx_segs' root strict p c (el ++ [i]) hrest hg']
      simp

theorem steps_noZero : ∀ l : List Str, Flatland.C14.Proofs.NoZero (l.map stepOp) = true
  | [] => rfl
  | a :: r => by
    have := steps_noZero r
    simp only [Flatland.C14.Proofs.NoZero, List.map_cons, List.all_cons, Bool.and_eq_true] at this ⊢
    exact ⟨rfl, this⟩

theorem steps_afterSlice : ∀ l : List Str, Flatland.C14.Proofs.afterSlice (l.map stepOp) = none
  | [] => rfl
  | a :: r => by simpa [Flatland.C14.Proofs.afterSlice, stepOp] using steps_afterSlice r

theorem eval_fq' (root : Node) (start pos : Pos) (strict : Bool) (hok : PathOK' root pos = true) :
    evalOps root strict (Op.top :: (segs root pos).map stepOp) start = .ok [pos] := by
  have hz : Flatland.C14.Proofs.NoZero (Op.top :: (segs root pos).map stepOp) = true := by
    have := steps_noZero (segs root pos)
    simp only [Flatland.C14.Proofs.NoZero, List.all_cons, Bool.and_eq_true] at this ⊢
    exact ⟨rfl, this⟩
  have hw := Flatland.C14.Proofs.work_level root strict _ _ (Nat.le_refl _) (Or.inl hz) [start]
  simp only [List.map_cons, List.map_nil] at hw
  unfold evalOps
  rw [hw]
  simp only [Flatland.C14.Spec.flatMapM, Flatland.C14.Proofs.denOps_of_runCtx, runCtx]
  rw [runCtx_segs' root strict pos root [] hok rfl]
  simp

/-- **the inverse law at one position, empty steps included**, from any start element, strict or not -/
theorem find_fq_empty (root : Node) (start pos : Pos) (strict : Bool) (hok : PathOK' root pos = true) :
    find root start (fqName root pos) false strict = .many [pos] := by
  unfold find
  rw [tokenize_fqName_empty root pos (spellOK'_of_pathOK' pos root hok)]
  simp only [eval_fq' root start pos strict hok]
  rfl

/-! ### from spec B's `addressable` and the library's tree invariants — no `namedFrom` -/

theorem pathOK'_of_addressableFrom (root : Node) (hinv : TreeInv root) : ∀ (pos : Pos) (n : Node) (el : Pos),
    root.get? el = some n → addressableFrom n pos = true → PathOK' n pos = true
  | [], _, _, _, _ => rfl
  | i :: p, .mk k ky nm kids, el, hg, ha => by
    simp only [addressableFrom] at ha
    simp only [PathOK']
    cases hk : kids[i]? with
    | none => rw [hk] at ha; simp at ha
    | some c =>
      rw [hk] at ha
      simp only [Bool.and_eq_true] at ha ⊢
      obtain ⟨hname, hrest⟩ := ha
      obtain ⟨h1, h2, h3⟩ := hinv el k ky nm kids hg
      have hi : i < kids.length := by
        rcases Nat.lt_or_ge i kids.length with h | h
        · exact h
        · rw [List.getElem?_eq_none h] at hk; cases hk
      have hg' : root.get? (el ++ [i]) = some c := by
        rw [get?_append_single el root _ i hg]
        simp [Node.kids, hk]
      refine ⟨?_, pathOK'_of_addressableFrom root hinv p c (el ++ [i]) hg' hrest⟩
      cases k with
      | scalar => have := h1 rfl; subst this; simp at hk
      | list => simp only [stepOK', decide_eq_true_eq]; exact h3 (Or.inl rfl) i hi
      | array => simp only [stepOK', decide_eq_true_eq]; exact h3 (Or.inr rfl) i hi
      | map =>
        have hf := h2 rfl i c hk
        simp only [bne_self_eq_false, Bool.false_or, Bool.or_eq_true, Bool.and_eq_true, beq_iff_eq,
          Bool.not_eq_true'] at hname
        simp only [stepOK', Bool.and_eq_true, beq_iff_eq, Bool.or_eq_true, Bool.not_eq_true']
        rcases hname with h | h
        · have e : nameKey c.name = c.key := by simp [nameKey, h.1.2, h.1.1]
          exact ⟨e ▸ hf, h.2⟩
        · have hnil : c.name = [] := by simpa using h.2
          have e : nameKey c.name = c.key := by simp [nameKey, hnil, h.1]
          exact ⟨e ▸ hf, Or.inr (by simp [hnil, endsWithBackslash])⟩

/-- **spec B's restriction suffices** — unnamed fields on the way included: on a tree with the library's
    invariants every `addressable` element is found, alone, by its `fq_name()` from every start -/
theorem find_fq_addressable (root : Node) (hinv : TreeInv root) (start pos : Pos) (strict : Bool)
    (ha : addressable root pos = true) :
    find root start (fqName root pos) false strict = .many [pos] :=
  find_fq_empty root start pos strict (pathOK'_of_addressableFrom root hinv pos root [] rfl ha)

/-! ### the converse -/

/-- a context over NAME ops only (any data, `None` included) ends where it started plus one index per op -/
theorem runCtx_datas_found (root : Node) (strict : Bool) : ∀ (ds : List (Option Str)) (el p : Pos),
    runCtx root strict (ds.map Op.name) el = .ok (.found p) →
    ∃ t, p = el ++ t ∧ t.length = ds.length
  | [], el, p, h => by
    simp only [List.map_nil, runCtx, Except.ok.injEq, CtxRes.found.injEq] at h
    exact ⟨[], by simp [h], rfl⟩
  | s :: r, el, p, h => by
    simp only [List.map_cons, runCtx] at h
    cases hi : indexAt root el s with
    | none => rw [hi] at h; cases strict <;> simp at h
    | some j =>
      rw [hi] at h
      obtain ⟨t, ht, hl⟩ := runCtx_datas_found root strict r (el ++ [j]) p h
      exact ⟨j :: t, by simp [ht], by simp [hl]⟩

theorem pathOK'_of_found (root : Node) (strict : Bool) : ∀ (pos : Pos) (n : Node) (el : Pos),
    SpellOK' n pos = true → root.get? el = some n →
    runCtx root strict ((segs n pos).map stepOp) el = .ok (.found (el ++ pos)) →
    PathOK' n pos = true
  | [], _, _, _, _, _ => rfl
  | i :: p, .mk k ky nm kids, el, hs, hg, hr => by
    simp only [SpellOK'] at hs
    simp only [PathOK']
    simp only [segs] at hr
    cases hk : kids[i]? with
    | none => rw [hk] at hs; simp at hs
    | some c =>
      rw [hk] at hs hr
      simp only [Bool.and_eq_true] at hs ⊢
      obtain ⟨hstep, hrest⟩ := hs
      simp only [List.map_cons, stepOp, runCtx] at hr
      cases hi : indexAt root el (stepData (segText k i c)) with
      | none => rw [hi] at hr; cases strict <;> simp at hr
      | some j =>
        rw [hi] at hr
        simp only [] at hr
        have hr' : runCtx root strict (((segs c p).map stepData).map Op.name) (el ++ [j])
            = .ok (.found (el ++ i :: p)) := by
          rw [List.map_map]; exact hr
        obtain ⟨t, ht, _⟩ := runCtx_datas_found root strict _ (el ++ [j]) _ hr'
        have hij : i = j := by
          have : i :: p = j :: t := by
            have h2 : el ++ (i :: p) = el ++ (j :: t) := by rw [ht]; simp
            exact List.append_cancel_left h2
          exact (List.cons.inj this).1
        subst hij
        have hg' : root.get? (el ++ [i]) = some c := by
          rw [get?_append_single el root _ i hg]
          simp [Node.kids, hk]
        have hr2 : runCtx root strict ((segs c p).map stepOp) (el ++ [i])
            = .ok (.found ((el ++ [i]) ++ p)) := by
          rw [hr]; simp
        refine ⟨?_, pathOK'_of_found root strict p c (el ++ [i]) hrest hg' hr2⟩
        cases k with
        | scalar => simp [stepSpell'] at hstep
        | list => exact hstep
        | array => exact hstep
        | map =>
          simp only [stepOK', Bool.and_eq_true, beq_iff_eq]
          refine ⟨?_, by simpa [stepSpell'] using hstep⟩
          rw [(segText_facts' .map i c p.isEmpty hstep).2.2] at hi
          simpa [indexAt, hg, Node.index, Node.kind, Node.kids] using hi

/-- `find(fq_name(pos)) = [pos]` forces `PathOK'`, on `SpellOK'` positions -/
theorem pathOK'_of_find_fq (root : Node) (start pos : Pos) (strict : Bool) (hs : SpellOK' root pos = true)
    (hf : find root start (fqName root pos) false strict = .many [pos]) : PathOK' root pos = true := by
  unfold find at hf
  rw [tokenize_fqName_empty root pos hs] at hf
  have hz : Flatland.C14.Proofs.NoZero (Op.top :: (segs root pos).map stepOp) = true := by
    have := steps_noZero (segs root pos)
    simp only [Flatland.C14.Proofs.NoZero, List.all_cons, Bool.and_eq_true] at this ⊢
    exact ⟨rfl, this⟩
  have hw := Flatland.C14.Proofs.work_level root strict _ _ (Nat.le_refl _) (Or.inl hz) [start]
  simp only [List.map_cons, List.map_nil] at hw
  simp only [evalOps, hw] at hf
  simp only [Flatland.C14.Spec.flatMapM, Flatland.C14.Proofs.denOps_of_runCtx, runCtx] at hf
  apply pathOK'_of_found root strict pos root [] hs rfl
  cases hr : runCtx root strict ((segs root pos).map stepOp) [] with
  | error e => rw [hr] at hf; simp at hf
  | ok r =>
    rw [hr] at hf
    cases r with
    | found p =>
      simp only [Bool.not_false, if_true, FindRes.many.injEq, List.cons.injEq, and_true,
        List.append_nil] at hf
      simp [hf]
    | dead => simp at hf
    | spawn rest kids =>
      have := Flatland.C14.Proofs.runCtx_shape root strict ((segs root pos).map stepOp) []
      rw [hr, steps_afterSlice] at this
      exact absurd this (by simp)

theorem addressableFrom_of_pathOK' : ∀ (pos : Pos) (n : Node), PathOK' n pos = true → addressableFrom n pos = true
  | [], _, _ => rfl
  | i :: p, .mk k ky nm kids, h => by
    simp only [PathOK'] at h
    simp only [addressableFrom]
    cases hk : kids[i]? with
    | none => rw [hk] at h; simp at h
    | some c =>
      rw [hk] at h
      simp only [Bool.and_eq_true] at h ⊢
      refine ⟨?_, addressableFrom_of_pathOK' p c h.2⟩
      cases k with
      | scalar => simp [stepOK'] at h
      | list => simp
      | array => simp
      | map =>
        have h1 := h.1
        simp only [stepOK', Bool.and_eq_true, beq_iff_eq] at h1
        obtain ⟨c', hc', hkey⟩ := findName_some_key (nameKey c.name) kids i h1.1
        rw [hk] at hc'
        simp only [Option.some.injEq] at hc'
        subst hc'
        simp only [bne_self_eq_false, Bool.false_or, Bool.or_eq_true, Bool.and_eq_true, beq_iff_eq]
        by_cases hne : c.name = []
        · right
          exact ⟨by simpa [nameKey, hne] using hkey, by simp [hne]⟩
        · left
          have e2 : c.name.isEmpty = false := by
            cases hn : c.name with
            | nil => exact absurd hn hne
            | cons _ _ => rfl
          exact ⟨⟨by simpa [nameKey, e2] using hkey, by simp [e2]⟩, by simpa using h1.2⟩

theorem spellOK'_of_spellableFrom (root : Node) (hinv : TreeInv root) : ∀ (pos : Pos) (n : Node) (el : Pos),
    root.get? el = some n → spellableFrom n pos = true → SpellOK' n pos = true
  | [], _, _, _, _ => rfl
  | i :: p, .mk k ky nm kids, el, hg, ha => by
    simp only [spellableFrom] at ha
    simp only [SpellOK']
    cases hk : kids[i]? with
    | none => rw [hk] at ha; simp at ha
    | some c =>
      rw [hk] at ha
      simp only [Bool.and_eq_true] at ha ⊢
      obtain ⟨hname, hrest⟩ := ha
      obtain ⟨h1, _, h3⟩ := hinv el k ky nm kids hg
      have hi : i < kids.length := by
        rcases Nat.lt_or_ge i kids.length with h | h
        · exact h
        · rw [List.getElem?_eq_none h] at hk; cases hk
      have hg' : root.get? (el ++ [i]) = some c := by
        rw [get?_append_single el root _ i hg]
        simp [Node.kids, hk]
      refine ⟨?_, spellOK'_of_spellableFrom root hinv p c (el ++ [i]) hg' hrest⟩
      cases k with
      | scalar => have := h1 rfl; subst this; simp at hk
      | list => simp only [stepSpell', decide_eq_true_eq]; exact h3 (Or.inl rfl) i hi
      | array => simp only [stepSpell', decide_eq_true_eq]; exact h3 (Or.inr rfl) i hi
      | map =>
        simp only [bne_self_eq_false, Bool.false_or, Bool.or_eq_true, Bool.and_eq_true, beq_iff_eq] at hname
        simp only [stepSpell', Bool.or_eq_true]
        rcases hname with h | h
        · exact h.2
        · have hnil : c.name = [] := by simpa using h.2
          exact Or.inr (by simp [hnil, endsWithBackslash])

/-- **`addressable` is exact on spellable positions — unnamed fields on the way included**: on a tree with
    the library's invariants, for a position whose Dict names can be spelled (non-empty or unnamed, no
    backslash at the end of a non-final one), `find(fq_name(pos))` from any start returns exactly `[pos]`
    IF AND ONLY IF the position is `addressable`. -/
theorem find_fq_iff (root : Node) (hinv : TreeInv root) (start pos : Pos) (strict : Bool)
    (hs : spellable root pos = true) :
    find root start (fqName root pos) false strict = .many [pos] ↔ addressable root pos = true := by
  have hsp := spellOK'_of_spellableFrom root hinv pos root [] rfl hs
  constructor
  · intro hf
    exact addressableFrom_of_pathOK' pos root (pathOK'_of_find_fq root start pos strict hsp hf)
  · exact find_fq_addressable root hinv start pos strict

/-- the general form of KF-C13-c, unnamed fields on the way included -/
theorem C13_key_mismatch_fails (root : Node) (hinv : TreeInv root) (start pos : Pos)
    (hs : spellable root pos = true) (hna : addressable root pos = false) :
    isInverseAt root start pos = false := by
  unfold isInverseAt
  have h : ¬ find root start (fqName root pos) false true = .many [pos] := by
    intro hf
    have := (find_fq_iff root hinv start pos true hs).1 hf
    rw [hna] at this; cases this
  cases hf : find root start (fqName root pos) false true with
  | many l =>
    match l with
    | [] => rfl
    | [p] =>
      simp only [beq_eq_false_iff_ne, ne_eq]
      intro e; subst e; exact h hf
    | _ :: _ :: _ => rfl
  | one _ => rfl
  | err _ => rfl

/-! ### the old statements (hypothesis `namedFrom`: no unnamed field on the way) are corollaries -/

theorem find_fq_addressable_named (root : Node) (hinv : TreeInv root) (start pos : Pos) (strict : Bool)
    (_hnm : namedFrom root pos = true) (ha : addressable root pos = true) :
    find root start (fqName root pos) false strict = .many [pos] :=
  find_fq_addressable root hinv start pos strict ha

theorem find_fq_iff_named (root : Node) (hinv : TreeInv root) (start pos : Pos) (strict : Bool)
    (_hnm : namedFrom root pos = true) (hs : spellable root pos = true) :
    find root start (fqName root pos) false strict = .many [pos] ↔ addressable root pos = true :=
  find_fq_iff root hinv start pos strict hs

theorem C13_key_mismatch_fails_named (root : Node) (hinv : TreeInv root) (start pos : Pos)
    (_hnm : namedFrom root pos = true) (hs : spellable root pos = true) (hna : addressable root pos = false) :
    isInverseAt root start pos = false :=
  C13_key_mismatch_fails root hinv start pos hs hna

/-- the old tokenizer theorem is the case without empty segments -/
theorem tokenize_fqName_of_empty (root : Node) (pos : Pos) (hok : SpellOK root pos = true) :
    tokenize (fqName root pos)
      = .ok (Op.top :: (segs root pos).map (fun s => Op.name (some (unescape s)))) := by
  rw [tokenize_fqName_empty root pos (spellOK'_of_spellOK pos root hok)]
  cases pos with
  | nil => simp [segs]
  | cons i p =>
    have hso := segs_ok (i :: p) root hok (by simp)
    have hall : ∀ l : List Str, SegsOK l → ∀ s ∈ l, s ≠ [] := by
      intro l
      induction l with
      | nil => intro _ s hs; cases hs
      | cons a r ih =>
        intro h s hs
        cases r with
        | nil =>
          simp only [List.mem_singleton] at hs
          subst hs; exact h.1
        | cons b r' =>
          simp only [List.mem_cons] at hs
          rcases hs with hs | hs
          · subst hs; exact h.1
          · exact ih h.2.2 s (by simp only [List.mem_cons]; exact hs)
    rw [map_stepOp_of_ne _ (hall _ hso.1)]

/-! ### the general theorems instantiated -/

/-- KF-C13-c as an INSTANCE of the general theorem (no evaluation of the tokenizer needed): the
    witness position is spellable and not addressable -/
theorem C13_full_fails_key_general : ¬ Inverse witnessKey := by
  intro h
  have h1 := h.2 [] [0] rfl rfl
  rw [C13_key_mismatch_fails witnessKey witnessKey_inv [] [0] (by decide) (by decide)] at h1
  cases h1

/-- non-vacuity of `find_fq_iff` in both directions on one tree: the root is spellable and addressable
    (the law holds), the list member `[0,0,1]` is spellable and NOT addressable (the law fails, from the
    start `[0]`) -/
example : (find witnessKeyDeep [0] (fqName witnessKeyDeep []) false true = .many [[]]) ∧
    ¬ (find witnessKeyDeep [0] (fqName witnessKeyDeep [0, 0, 1]) false true = .many [[0, 0, 1]]) :=
  ⟨(find_fq_iff witnessKeyDeep witnessKeyDeep_inv [0] [] true (by decide)).2 (by decide),
   fun h => by
     have := (find_fq_iff witnessKeyDeep witnessKeyDeep_inv [0] [0, 0, 1] true (by decide)).1 h
     revert this; decide⟩

/-! ### non-vacuity: unnamed fields below unnamed fields, and below a List member -/

/-- `Dict{None: Dict{None: Dict{y}}}`: `d[None][None]['y'].fq_name() == '///y'` -/
def witnessUnnamed3 : Node :=
  .mk .map none [] [.mk .map none [] [.mk .map none [] [.mk .scalar (some ['y']) ['y'] []]]]

/-- `Dict{l: List[Dict{None: Dict{z}}]}`: `d['l'][0][None]['z'].fq_name() == '/l/0//z'` -/
def witnessUnnamedList : Node :=
  .mk .map none [] [.mk .list (some ['l']) ['l'] [.mk .map none [] [.mk .map none [] [.mk .scalar (some ['z']) ['z'] []]]]]

theorem witnessUnnamed3_inv : TreeInv witnessUnnamed3 := by
  intro p k ky nm kids h
  match p, h with
  | [], h =>
    simp only [witnessUnnamed3, Node.get?, Option.some.injEq, Node.mk.injEq] at h
    obtain ⟨rfl, rfl, rfl, rfl⟩ := h
    refine ⟨by simp, ?_, by simp⟩
    intro _ i c hc
    match i, hc with
    | 0, hc => simp at hc; subst hc; simp [findName, Node.key]
  | [0], h =>
    simp only [witnessUnnamed3, Node.get?, List.getElem?_cons_zero, Option.some.injEq, Node.mk.injEq] at h
    obtain ⟨rfl, rfl, rfl, rfl⟩ := h
    refine ⟨by simp, ?_, by simp⟩
    intro _ i c hc
    match i, hc with
    | 0, hc => simp at hc; subst hc; simp [findName, Node.key]
  | [0, 0], h =>
    simp only [witnessUnnamed3, Node.get?, List.getElem?_cons_zero, Option.some.injEq, Node.mk.injEq] at h
    obtain ⟨rfl, rfl, rfl, rfl⟩ := h
    refine ⟨by simp, ?_, by simp⟩
    intro _ i c hc
    match i, hc with
    | 0, hc => simp at hc; subst hc; simp [findName, Node.key]
  | [0, 0, 0], h =>
    simp only [witnessUnnamed3, Node.get?, List.getElem?_cons_zero, Option.some.injEq, Node.mk.injEq] at h
    obtain ⟨rfl, rfl, rfl, rfl⟩ := h
    exact ⟨by simp, by simp, by simp⟩
  | 0 :: 0 :: 0 :: _ :: _, h => simp [witnessUnnamed3, Node.get?] at h
  | 0 :: 0 :: (_ + 1) :: _, h => simp [witnessUnnamed3, Node.get?] at h
  | 0 :: (_ + 1) :: _, h => simp [witnessUnnamed3, Node.get?] at h
  | (_ + 1) :: _, h => simp [witnessUnnamed3, Node.get?] at h

theorem witnessUnnamedList_inv : TreeInv witnessUnnamedList := by
  intro p k ky nm kids h
  match p, h with
  | [], h =>
    simp only [witnessUnnamedList, Node.get?, Option.some.injEq, Node.mk.injEq] at h
    obtain ⟨rfl, rfl, rfl, rfl⟩ := h
    refine ⟨by simp, ?_, by simp⟩
    intro _ i c hc
    match i, hc with
    | 0, hc => simp at hc; subst hc; simp [findName, Node.key]
  | [0], h =>
    simp only [witnessUnnamedList, Node.get?, List.getElem?_cons_zero, Option.some.injEq, Node.mk.injEq] at h
    obtain ⟨rfl, rfl, rfl, rfl⟩ := h
    refine ⟨by simp, by simp, ?_⟩
    intro _ i hi
    left
    simp only [List.length_cons, List.length_nil] at hi
    match i, hi with
    | 0, _ => simp [natStr, intMaxDigits]
  | [0, 0], h =>
    simp only [witnessUnnamedList, Node.get?, List.getElem?_cons_zero, Option.some.injEq, Node.mk.injEq] at h
    obtain ⟨rfl, rfl, rfl, rfl⟩ := h
    refine ⟨by simp, ?_, by simp⟩
    intro _ i c hc
    match i, hc with
    | 0, hc => simp at hc; subst hc; simp [findName, Node.key]
  | [0, 0, 0], h =>
    simp only [witnessUnnamedList, Node.get?, List.getElem?_cons_zero, Option.some.injEq, Node.mk.injEq] at h
    obtain ⟨rfl, rfl, rfl, rfl⟩ := h
    refine ⟨by simp, ?_, by simp⟩
    intro _ i c hc
    match i, hc with
    | 0, hc => simp at hc; subst hc; simp [findName, Node.key]
  | [0, 0, 0, 0], h =>
    simp only [witnessUnnamedList, Node.get?, List.getElem?_cons_zero, Option.some.injEq, Node.mk.injEq] at h
    obtain ⟨rfl, rfl, rfl, rfl⟩ := h
    exact ⟨by simp, by simp, by simp⟩
  | 0 :: 0 :: 0 :: 0 :: _ :: _, h => simp [witnessUnnamedList, Node.get?] at h
  | 0 :: 0 :: 0 :: (_ + 1) :: _, h => simp [witnessUnnamedList, Node.get?] at h
  | 0 :: 0 :: (_ + 1) :: _, h => simp [witnessUnnamedList, Node.get?] at h
  | 0 :: (_ + 1) :: _, h => simp [witnessUnnamedList, Node.get?] at h
  | (_ + 1) :: _, h => simp [witnessUnnamedList, Node.get?] at h

/-- `'///y'`: two consecutive empty segments; NOT `namedFrom`; tokenized to `[TOP, NAME None, NAME None,
    NAME y]` and found, alone, from a start below the root -/
example : fqName witnessUnnamed3 [0, 0, 0] = ['/', '/', '/', 'y'] ∧
    namedFrom witnessUnnamed3 [0, 0, 0] = false ∧
    tokenize (fqName witnessUnnamed3 [0, 0, 0]) = .ok [.top, .name none, .name none, .name (some ['y'])] ∧
    find witnessUnnamed3 [0, 0] (fqName witnessUnnamed3 [0, 0, 0]) false true = .many [[0, 0, 0]] :=
  ⟨by decide, by decide,
   by rw [tokenize_fqName_empty witnessUnnamed3 [0, 0, 0] (by decide)]; decide,
   find_fq_addressable witnessUnnamed3 witnessUnnamed3_inv [0, 0] [0, 0, 0] true (by decide)⟩

/-- a trailing empty segment below an empty one: `d[None][None].fq_name() == '///'` -/
example : fqName witnessUnnamed3 [0, 0] = ['/', '/', '/'] ∧
    find witnessUnnamed3 [] (fqName witnessUnnamed3 [0, 0]) false true = .many [[0, 0]] :=
  ⟨by decide, find_fq_addressable witnessUnnamed3 witnessUnnamed3_inv [] [0, 0] true (by decide)⟩

/-- `'/l/0//z'`: an empty segment between two slashes, below a List member -/
example : fqName witnessUnnamedList [0, 0, 0, 0] = ['/', 'l', '/', '0', '/', '/', 'z'] ∧
    namedFrom witnessUnnamedList [0, 0, 0, 0] = false ∧
    find witnessUnnamedList [0] (fqName witnessUnnamedList [0, 0, 0, 0]) false true = .many [[0, 0, 0, 0]] :=
  ⟨by simp [witnessUnnamedList, fqName, chain, fqParts, pathSegment, joinSlash, lastEmpty, natStr, escapeName,
      escapeBody, Node.name],
   by decide,
   find_fq_addressable witnessUnnamedList witnessUnnamedList_inv [0] [0, 0, 0, 0] true (by decide)⟩

/-- `'/l/0//'`: the trailing empty segment with its extra slash, below a List member; and the iff in the
    direction law → addressable on the same position -/
example : fqName witnessUnnamedList [0, 0, 0] = ['/', 'l', '/', '0', '/', '/'] ∧
    (find witnessUnnamedList [] (fqName witnessUnnamedList [0, 0, 0]) false false = .many [[0, 0, 0]]
      ↔ addressable witnessUnnamedList [0, 0, 0] = true) :=
  ⟨by simp [witnessUnnamedList, fqName, chain, fqParts, pathSegment, joinSlash, lastEmpty, natStr, escapeName,
      escapeBody, Node.name],
   find_fq_iff witnessUnnamedList witnessUnnamedList_inv [] [0, 0, 0] false (by decide)⟩

/-! ### the law on every tokenizable position; KF-C13-b at any depth -/

/-- **the law is equivalent to `PathOK'` wherever the emitted path can be tokenized** (`SpellOK'`: no
    hypothesis on the tree, a field named `''` and unnamed fields included) -/
theorem find_fq_iff_pathOK (root : Node) (start pos : Pos) (strict : Bool) (hs : SpellOK' root pos = true) :
    find root start (fqName root pos) false strict = .many [pos] ↔ PathOK' root pos = true :=
  ⟨pathOK'_of_find_fq root start pos strict hs, find_fq_empty root start pos strict⟩

theorem isInverseAt_false_of_not_find (root : Node) (start pos : Pos)
    (h : ¬ find root start (fqName root pos) false true = .many [pos]) : isInverseAt root start pos = false := by
  unfold isInverseAt
  cases hf : find root start (fqName root pos) false true with
  | many l =>
    match l with
    | [] => rfl
    | [p] =>
      simp only [beq_eq_false_iff_ne, ne_eq]
      intro e; subst e; exact h hf
    | _ :: _ :: _ => rfl
  | one _ => rfl
  | err _ => rfl

/-- a Dict child on the way emits the empty step (its name is `''`) but is not the child stored under
    the key `None` (KF-C13-b: e.g. a field NAMED `''`, stored under `''`) -/
def emptyNamedFrom : Node → Pos → Bool
  | _, [] => false
  | .mk k _ _ kids, i :: p =>
    match kids[i]? with
    | none => false
    | some c => (k == .map && c.name.isEmpty && findName none kids != some i) || emptyNamedFrom c p

theorem not_pathOK'_of_emptyNamed : ∀ (pos : Pos) (n : Node), emptyNamedFrom n pos = true → PathOK' n pos = false
  | [], _, h => by simp [emptyNamedFrom] at h
  | i :: p, .mk k ky nm kids, h => by
    simp only [emptyNamedFrom] at h
    simp only [PathOK']
    cases hk : kids[i]? with
    | none => rfl
    | some c =>
      rw [hk] at h
      simp only [Bool.or_eq_true, Bool.and_eq_true, beq_iff_eq, bne_iff_ne, ne_eq] at h
      simp only [Bool.and_eq_false_iff]
      rcases h with h | h
      · left
        obtain ⟨⟨rfl, hn⟩, hf⟩ := h
        simp only [stepOK', nameKey, hn, if_true, Bool.and_eq_false_iff, beq_eq_false_iff_ne, ne_eq]
        exact Or.inl hf
      · exact Or.inr (not_pathOK'_of_emptyNamed p c h)

/-- **KF-C13-b at ANY depth, for every tree**: every element at or below a Dict child that emits the empty
    step without being the child stored under `None` breaks the inverse law, from every start (wherever
    the emitted path can be tokenized at all: `SpellOK'`) -/
theorem C13_empty_name_fails (root : Node) (start pos : Pos) (hs : SpellOK' root pos = true)
    (he : emptyNamedFrom root pos = true) : isInverseAt root start pos = false := by
  apply isInverseAt_false_of_not_find
  intro hf
  have := pathOK'_of_find_fq root start pos true hs hf
  rw [not_pathOK'_of_emptyNamed pos root he] at this
  cases this

/-- non-vacuity: `Dict{a: Dict{'': Dict{x}}}` — the field named `''` (`'/a//'`) and the one below it
    (`'/a//x'`) both fail, from a start below the root -/
example :
    let t : Node := .mk .map none [] [.mk .map (some ['a']) ['a'] [.mk .map (some []) [] [.mk .scalar (some ['x']) ['x'] []]]]
    isInverseAt t [0] [0, 0] = false ∧ isInverseAt t [0] [0, 0, 0] = false :=
  ⟨C13_empty_name_fails _ [0] [0, 0] (by decide) (by decide),
   C13_empty_name_fails _ [0] [0, 0, 0] (by decide) (by decide)⟩

end Flatland.C13.Proofs
