import Flatland.C06
import Flatland.Spec.C06
namespace Flatland.C06.Proofs
open Flatland.C06 Flatland.C06.Spec

end Flatland.C06.Proofs
