/-
C06 — deriving or instantiating a schema never alters the schema it came from.
-/
import Flatland.C06
import Flatland.Spec.C06
namespace Flatland.C06.Proofs
open Flatland.C06 Flatland.C06.Spec

/-! ## declarative Schema fields -/

theorem firstWith_append (n : Option Str) (a b : List Field) :
    firstWith n (a ++ b) = (firstWith n a).or (firstWith n b) := by
  induction a with
  | nil => simp [firstWith]
  | cons f r ih => simp only [List.cons_append, firstWith]; split <;> simp [ih]

theorem firstWith_none_iff (n : Option Str) (a : List Field) :
    firstWith n a = none ↔ ¬ (a.map (·.1)).contains n := by
  induction a with
  | nil => simp [firstWith]
  | cons f r ih =>
    simp only [firstWith, List.map_cons, List.contains_cons]
    split
    · rename_i e; simp [e]
    · rename_i e
      have : (n == f.1) = false := beq_eq_false_iff_ne.2 (fun h => e h.symm)
      simp [this, ih]

/-- `add_unseen`: names stay distinct; a name keeps its first-seen element -/
theorem addUnseen_spec (els fs : List Field) (hn : (els.map (·.1)).Nodup) :
    ((addUnseen els fs).map (·.1)).Nodup ∧
    ∀ n, firstWith n (addUnseen els fs) = (firstWith n els).or (firstWith n fs) := by
  induction fs generalizing els with
  | nil => simp [addUnseen, hn, firstWith]
  | cons f rest ih =>
    simp only [addUnseen]
    split
    · rename_i hc
      obtain ⟨h1, h2⟩ := ih els hn
      refine ⟨h1, fun n => ?_⟩
      rw [h2 n]
      simp only [firstWith]
      split
      · rename_i e
        have : firstWith n els ≠ none := by
          rw [Ne, firstWith_none_iff]; simpa [e] using hc
        cases h : firstWith n els <;> simp_all
      · rfl
    · rename_i hc
      have hn' : ((els ++ [f]).map (·.1)).Nodup := by
        simp only [List.map_append, List.map_cons, List.map_nil]
        refine List.nodup_append.2 ⟨hn, by simp, ?_⟩
        intro a ha b hb
        simp only [List.mem_singleton] at hb
        subst hb
        intro e; subst e
        exact hc (by simpa using ha)
      obtain ⟨h1, h2⟩ := ih (els ++ [f]) hn'
      refine ⟨h1, fun n => ?_⟩
      rw [h2 n, firstWith_append]
      simp only [firstWith]
      cases firstWith n els <;> simp <;> split <;> simp

theorem keys_removeFirst (n : Option Str) (els : List Field) (hn : (els.map (·.1)).Nodup) :
    ((removeFirst n els).map (·.1)).Nodup ∧ ¬ ((removeFirst n els).map (·.1)).contains n ∧
    ∀ m, m ≠ n → firstWith m (removeFirst n els) = firstWith m els := by
  induction els with
  | nil => simp [removeFirst, firstWith]
  | cons f r ih =>
    simp only [List.map_cons, List.nodup_cons] at hn
    simp only [removeFirst]
    split
    · rename_i e
      refine ⟨hn.2, ?_, fun m hm => ?_⟩
      · rw [← e]; simpa using hn.1
      · simp only [firstWith]; rw [if_neg]; rw [e]; exact fun h => hm h.symm
    · rename_i e
      obtain ⟨h1, h2, h3⟩ := ih hn.2
      refine ⟨?_, ?_, fun m hm => ?_⟩
      · simp only [List.map_cons, List.nodup_cons]
        refine ⟨fun h => hn.1 ?_, h1⟩
        clear h2 h3 ih h1
        induction r with
        | nil => simp [removeFirst] at h
        | cons g r' ih' =>
          simp only [removeFirst] at h
          split at h
          · exact List.mem_cons_of_mem _ h
          · simp only [List.map_cons, List.mem_cons] at h ⊢
            rcases h with h | h
            · exact Or.inl h
            · exact Or.inr (ih' (by
                simp only [List.map_cons, List.mem_cons, not_or] at hn
                exact ⟨hn.1.2, (List.nodup_cons.1 hn.2).2⟩) h)
      · simp only [List.map_cons, List.contains_cons]
        have : (n == f.1) = false := beq_eq_false_iff_ne.2 (fun h => e h.symm)
        simpa [this] using h2
      · simp only [firstWith, h3 m hm]

theorem firstWith_contains (n : Option Str) (a : List Field) (h : (a.map (·.1)).contains n) :
    ∃ t, firstWith n a = some t := by
  cases hf : firstWith n a with
  | none => exact absurd h ((firstWith_none_iff n a).1 hf)
  | some t => exact ⟨t, rfl⟩

/-- `add_and_overwrite`: names stay distinct; the last declaration of a name wins, other names
    keep what they had -/
theorem addAndOverwrite_spec (els fs : List Field) (hn : (els.map (·.1)).Nodup) :
    ((addAndOverwrite els fs).map (·.1)).Nodup ∧
    ∀ n, firstWith n (addAndOverwrite els fs) = (lastWith n fs).or (firstWith n els) := by
  induction fs generalizing els with
  | nil => simp [addAndOverwrite, hn, lastWith]
  | cons f rest ih =>
    simp only [addAndOverwrite]
    have hstep : ∀ els' : List Field, ((els'.map (·.1)).Nodup) → ¬ (els'.map (·.1)).contains f.1 →
        (∀ m, m ≠ f.1 → firstWith m els' = firstWith m els) →
        ((addAndOverwrite (els' ++ [f]) rest).map (·.1)).Nodup ∧
        ∀ n, firstWith n (addAndOverwrite (els' ++ [f]) rest)
          = (lastWith n (f :: rest)).or (firstWith n els) := by
      intro els' hn' hc' hsame
      have hn2 : ((els' ++ [f]).map (·.1)).Nodup := by
        simp only [List.map_append, List.map_cons, List.map_nil]
        refine List.nodup_append.2 ⟨hn', by simp, ?_⟩
        intro a ha b hb
        simp only [List.mem_singleton] at hb
        subst hb
        intro e; subst e
        exact hc' (by simpa using ha)
      obtain ⟨h1, h2⟩ := ih (els' ++ [f]) hn2
      refine ⟨h1, fun n => ?_⟩
      rw [h2 n, firstWith_append]
      simp only [lastWith, firstWith]
      cases hl : lastWith n rest with
      | some t => simp
      | none =>
        simp only [Option.none_or]
        by_cases e : f.1 = n
        · subst e
          have : firstWith f.1 els' = none := (firstWith_none_iff _ _).2 hc'
          simp [this]
        · simp only [e, if_false, Option.or_none]
          rw [hsame n (fun h => e h.symm)]
          cases firstWith n els <;> simp
    split
    · obtain ⟨k1, k2, k3⟩ := keys_removeFirst f.1 els hn
      exact hstep (removeFirst f.1 els) k1 k2 k3
    · rename_i hc
      exact hstep els hn hc (fun _ _ => rfl)

theorem foldl_addUnseen_spec (bases : List (List Field)) (els : List Field) (hn : (els.map (·.1)).Nodup) :
    ((bases.foldl addUnseen els).map (·.1)).Nodup ∧
    ∀ n, firstWith n (bases.foldl addUnseen els) = (firstWith n els).or (firstWith n bases.flatten) := by
  induction bases generalizing els with
  | nil => simp [hn, firstWith]
  | cons b rest ih =>
    obtain ⟨h1, h2⟩ := addUnseen_spec els b hn
    obtain ⟨h3, h4⟩ := ih (addUnseen els b) h1
    refine ⟨h3, fun n => ?_⟩
    simp only [List.foldl_cons, h4 n, h2 n, List.flatten_cons, firstWith_append]
    cases firstWith n els <;> simp

/-- **Schema fields.**  For every declarative Schema — any number of bases with any overlapping
    field names, any explicit `field_schema` member, any attribute declarations — each field name
    appears exactly once in the generated `field_schema`, and the element under a name is the
    class's own attribute declaration, else its own `field_schema` entry, else that of the first
    base (left to right) that has one. -/
theorem schema_fields (bases : List (List Field)) (explicit declared : List Field) :
    ((metaSchemaNew bases explicit declared).map (·.1)).Nodup ∧
    ∀ n, firstWith n (metaSchemaNew bases explicit declared) = specField bases explicit declared n := by
  obtain ⟨a1, a2⟩ := foldl_addUnseen_spec bases [] (by simp)
  obtain ⟨b1, b2⟩ := addAndOverwrite_spec _ explicit a1
  obtain ⟨c1, c2⟩ := addAndOverwrite_spec _ declared b1
  refine ⟨c1, fun n => ?_⟩
  simp only [metaSchemaNew, c2 n, b2 n, a2 n, specField, firstWith, Option.none_or]
  cases lastWith n declared <;> cases lastWith n explicit <;> simp

/-- non-vacuity: two bases overlapping in `b`, an explicit `field_schema` overriding `a`, a
    declaration overriding `c` -/
example :
    metaSchemaNew [[(some ['b'], ['B']), (some ['c'], ['S'])], [(some ['a'], ['S']), (some ['b'], ['I'])]]
        [(some ['a'], ['I'])] [(some ['c'], ['B'])]
      = [(some ['b'], ['B']), (some ['a'], ['I']), (some ['c'], ['B'])] := by decide

/-! ## the frame theorem -/

/-- ids in range: MRO entries name existing classes, references name existing heap objects -/
structure WF (σ : State) : Prop where
  mro_lt : ∀ c x, x ∈ σ.mroOf c → x < σ.classes.length
  ref_lt : ∀ c a r, (assoc (σ.ownOf c) a = some (.list r) ∨ assoc (σ.ownOf c) a = some (.tuple r) ∨
      assoc (σ.ownOf c) a = some (.anonDict r)) → r < σ.heap.length

/-- `σ'` extends `σ`: every class and every list object of `σ` is still there, untouched -/
structure Pre (σ σ' : State) : Prop where
  cls : ∀ c, c < σ.classes.length → σ'.classes[c]? = σ.classes[c]?
  heap : ∀ r, r < σ.heap.length → σ'.heap[r]? = σ.heap[r]?
  clsLen : σ.classes.length ≤ σ'.classes.length
  heapLen : σ.heap.length ≤ σ'.heap.length

theorem Pre.refl (σ : State) : Pre σ σ := ⟨fun _ _ => rfl, fun _ _ => rfl, Nat.le_refl _, Nat.le_refl _⟩

theorem Pre.trans {a b c : State} (h1 : Pre a b) (h2 : Pre b c) : Pre a c :=
  ⟨fun x hx => (h2.cls x (Nat.lt_of_lt_of_le hx h1.clsLen)).trans (h1.cls x hx),
   fun r hr => (h2.heap r (Nat.lt_of_lt_of_le hr h1.heapLen)).trans (h1.heap r hr),
   Nat.le_trans h1.clsLen h2.clsLen, Nat.le_trans h1.heapLen h2.heapLen⟩

theorem Pre_clone (σ : State) (p : ClassId) : Pre σ (clone σ p).1 :=
  ⟨fun c hc => by simp [clone, List.getElem?_append_left hc], fun _ _ => rfl,
   by simp [clone], Nat.le_refl _⟩

theorem Pre_alloc (σ : State) (xs : List Item) : Pre σ (alloc σ xs).1 :=
  ⟨fun _ _ => rfl, fun r hr => by simp [alloc, List.getElem?_append_left hr], Nat.le_refl _,
   by simp [alloc]⟩

/-- rewriting a class with index ≥ the old number of classes does not touch the old ones -/
theorem Pre_updCls (σ0 σ : State) (hp : Pre σ0 σ) (n : ClassId) (hn : σ0.classes.length ≤ n)
    (f : Cls → Cls) : Pre σ0 (updCls σ n f) := by
  unfold updCls
  split
  · exact hp
  · refine ⟨fun c hc => ?_, hp.heap, by simpa using hp.clsLen, hp.heapLen⟩
    have : n ≠ c := fun e => Nat.lt_irrefl _ (Nat.lt_of_lt_of_le (e ▸ hc) hn)
    simp only [List.getElem?_set_ne this]
    exact hp.cls c hc

theorem Pre_setOwn (σ0 σ : State) (hp : Pre σ0 σ) (n : ClassId) (hn : σ0.classes.length ≤ n)
    (a : Attr) (v : Val) : Pre σ0 (setOwn σ n a v) := Pre_updCls σ0 σ hp n hn _

theorem Pre_usingBody (σ0 : State) (n : ClassId) (hn : σ0.classes.length ≤ n) :
    ∀ (kw : List (KwName × KwVal)) (σ1 σ2 : State), Pre σ0 σ1 → usingBody σ1 n kw = some σ2 → Pre σ0 σ2
  | [], σ1, σ2, hp, h => by simp only [usingBody, Option.some.injEq] at h; exact h ▸ hp
  | (.bogus, _) :: _, _, _, _, h => by simp [usingBody] at h
  | (.properties, v) :: rest, σ1, σ2, hp, h => by
    cases v <;> simp only [usingBody, reduceCtorEq] at h
    exact Pre_usingBody σ0 n hn rest _ σ2 (Pre_updCls σ0 σ1 hp n hn _) h
  | (.attr a, v) :: rest, σ1, σ2, hp, h => by
    simp only [usingBody] at h
    split at h
    · cases v <;> simp only [] at h
      case labels ls =>
        exact Pre_usingBody σ0 n hn rest _ σ2
          (Pre_setOwn σ0 _ (hp.trans (Pre_alloc σ1 _)) n hn a _) h
      case members ms =>
        exact Pre_usingBody σ0 n hn rest _ σ2
          (Pre_setOwn σ0 _ (hp.trans (Pre_alloc σ1 _)) n hn a _) h
      case memberRefs ms =>
        exact Pre_usingBody σ0 n hn rest _ σ2
          (Pre_setOwn σ0 _ (hp.trans (Pre_alloc σ1 _)) n hn a _) h
      all_goals exact Pre_usingBody σ0 n hn rest _ σ2 (Pre_setOwn σ0 σ1 hp n hn a _) h
    · simp at h

theorem Pre_compoundInit (σ0 σ : State) (hp : Pre σ0 σ) (n : ClassId) (hn : σ0.classes.length ≤ n) :
    Pre σ0 (compoundInit σ n).1 := by
  unfold compoundInit
  simp only []
  split
  · exact hp
  · split
    · exact Pre_updCls σ0 σ hp n hn _
    · exact Pre_updCls σ0 _ (Pre_setOwn σ0 _ (hp.trans (Pre_alloc σ _)) n hn _ _) n hn _

theorem clone_snd (σ : State) (p : ClassId) : (clone σ p).2 = σ.classes.length := rfl

/-- every step that is not the lazy preparation of a compound class only *adds* classes and
    list objects (and writes into the class it has just added) -/
theorem step_pre (σ : State) (s : Step) (hl : lazyPrep σ s = none) : Pre σ (step σ s).1 := by
  have hle := Nat.le_refl σ.classes.length
  cases s with
  | named c name =>
    simp only [step]; split
    · exact Pre_setOwn σ _ (Pre_clone σ c) _ hle _ _
    · exact Pre.refl σ
  | «using» c kw =>
    simp only [step]; split
    · split
      · rename_i σ2 h; exact Pre_usingBody σ _ hle kw _ σ2 (Pre_clone σ c) h
      · exact Pre.refl σ
    · exact Pre.refl σ
  | validatedBy descent c vs =>
    simp only [step]; split
    · split
      · exact Pre.refl σ
      · exact Pre_setOwn σ _ ((Pre_clone σ c).trans (Pre_alloc _ _)) _ hle _ _
    · exact Pre.refl σ
  | includingValidators descent c vs position =>
    simp only [step]; split
    · split
      · exact Pre.refl σ
      · exact Pre_setOwn σ _ ((Pre_clone σ c).trans (Pre_alloc _ _)) _ hle _ _
    · exact Pre.refl σ
  | withProperties c pairs =>
    simp only [step]; split
    · exact Pre_updCls σ _ (Pre_clone σ c) _ hle _
    · exact Pre.refl σ
  | «of» c members =>
    simp only [step]; split
    · split
      · split
        · exact Pre.refl σ
        · exact Pre_setOwn σ _ (Pre_clone σ c) _ hle _ _
        · split
          · exact Pre.refl σ
          · exact Pre_setOwn σ _ ((Pre_clone σ c).trans (Pre_alloc _ _)) _ hle _ _
      · split
        · exact Pre.refl σ
        · exact Pre_setOwn σ _ ((Pre_clone σ c).trans (Pre_alloc _ _)) _ hle _ _
      all_goals exact Pre.refl σ
    · exact Pre.refl σ
  | valued c values =>
    simp only [step]; split
    · split
      · exact Pre.refl σ
      · exact Pre_setOwn σ _ ((Pre_clone σ c).trans (Pre_alloc _ _)) _ hle _ _
    · exact Pre.refl σ
  | «to» c path =>
    simp only [step]; split
    · split
      · exact Pre.refl σ
      · exact Pre_setOwn σ _ (Pre_clone σ c) _ hle _ _
    · exact Pre.refl σ
  | inst c kw =>
    simp only [step]; split
    · split
      · rename_i hk
        split
        · split
          · exact Pre.refl σ
          · rename_i σ2 h
            have h2 := Pre_usingBody σ _ hle _ _ σ2 (Pre_clone σ c) h
            have h3 := Pre_compoundInit σ σ2 h2 σ.classes.length hle
            simp only [clone_snd] at *
            by_cases e1 : ((compoundInit σ2 σ.classes.length).snd != Res.ok) = true
            · simp only [e1, if_true]; exact Pre.refl σ
            · simp only [e1, if_false]
              by_cases e2 : (List.filter (fun p => p.fst == KwName.bogus) kw).isEmpty = true
              · simp only [e2, if_true]; exact h3
              · simp only [e2, if_false]; exact Pre.refl σ
        · -- plain instantiation of a compound: only allowed here when already prepared
          rename_i hov
          have hprep : isPrepared σ c = true := by
            simp only [lazyPrep, hk, Bool.true_and] at hl
            have hov' : (kw.filter (fun p => p.1 != .bogus)).isEmpty = true := by simpa using hov
            simp only [hov', Bool.true_and] at hl
            cases hp : isPrepared σ c with
            | true => rfl
            | false => simp [hp] at hl
          have : σ.isPrepared c = true := hprep
          simp only [this, if_true]
          split <;> (try split) <;> exact Pre.refl σ
      · split
        · exact Pre.refl σ
        · split
          · exact Pre.refl σ
          · split <;> split <;> exact Pre.refl σ
    · exact Pre.refl σ

theorem findSome?_ext' {α β : Type} (f g : α → Option β) (l : List α) (h : ∀ x ∈ l, f x = g x) :
    l.findSome? f = l.findSome? g := by
  induction l with
  | nil => rfl
  | cons x r ih =>
    simp only [List.findSome?_cons, h x (List.mem_cons_self ..)]
    rw [ih (fun y hy => h y (List.mem_cons_of_mem _ hy))]

theorem propsWalk_pre (σ σ' : State) (hp : Pre σ σ') (l : List ClassId)
    (hl : ∀ x ∈ l, x < σ.classes.length) (acc : List (Str × Int)) :
    propsWalk σ' l acc = propsWalk σ l acc := by
  induction l generalizing acc with
  | nil => rfl
  | cons x r ih =>
    simp only [propsWalk, hp.cls x (hl x (List.mem_cons_self ..))]
    cases σ.classes[x]? with
    | none => rfl
    | some cl =>
      simp only []
      split
      · rfl
      · exact ih (fun y hy => hl y (List.mem_cons_of_mem _ hy)) _

/-- what can be read off an old class in an extension of the store is what could be read before -/
theorem frame_of_pre (σ σ' : State) (hwf : WF σ) (hp : Pre σ σ') (c : ClassId)
    (hc : c < σ.classes.length) :
    (∀ a, deepLookup σ' c a = deepLookup σ c a) ∧ propsOf σ' c = propsOf σ c := by
  have hm : σ'.mroOf c = σ.mroOf c := by simp [State.mroOf, hp.cls c hc]
  have hown : ∀ x ∈ σ.mroOf c, σ'.ownOf x = σ.ownOf x := by
    intro x hx; simp [State.ownOf, hp.cls x (hwf.mro_lt c x hx)]
  refine ⟨fun a => ?_, ?_⟩
  · have hl : σ'.lookup c a = σ.lookup c a := by
      unfold State.lookup
      rw [hm]
      exact findSome?_ext' _ _ _ (fun x hx => by rw [hown x hx])
    unfold deepLookup
    rw [hl]
    cases hv : σ.lookup c a with
    | none => rfl
    | some v =>
      obtain ⟨x, _, hx⟩ := List.exists_of_findSome?_eq_some hv
      have hitems : ∀ r, (assoc (σ.ownOf x) a = some (.list r) ∨ assoc (σ.ownOf x) a = some (.tuple r) ∨
          assoc (σ.ownOf x) a = some (.anonDict r)) → σ'.items r = σ.items r := by
        intro r hr
        simp [State.items, hp.heap r (hwf.ref_lt x a r hr)]
      cases v <;> simp only [deref]
      case list r => rw [hitems r (Or.inl hx)]
      case tuple r => rw [hitems r (Or.inr (Or.inl hx))]
      case anonDict r => rw [hitems r (Or.inr (Or.inr hx))]
  · unfold propsOf
    rw [hm]
    exact propsWalk_pre σ σ' hp _ (fun x hx => hwf.mro_lt c x hx) []

/-- **Frame.**  No constructor call (named, using, validated_by, including_validators,
    descent_validated_by, including_descent_validators, with_properties, of, valued, to) and no
    instantiation — plain or overriding; successful or raising — other than the lazy preparation
    of a compound type changes any observable attribute (lists followed to their contents) or
    any property of any class that existed before the call. -/
theorem frame (σ : State) (hwf : WF σ) (s : Step) (hl : lazyPrep σ s = none) (c : ClassId)
    (hc : c < σ.classes.length) :
    (∀ a, deepLookup (step σ s).1 c a = deepLookup σ c a) ∧ propsOf (step σ s).1 c = propsOf σ c :=
  frame_of_pre σ _ hwf (step_pre σ s hl) c hc

/-- the strongest true restriction of `C06_Full` (below): the explicit, decidable guard is
    "the step is not the first plain instantiation of an unprepared compound class" -/
theorem frame_partial (σ : State) (hwf : WF σ) (s : Step) (hl : lazyPrep σ s = none) (c : ClassId)
    (a : Attr) (hc : c < σ.classes.length) : deepLookup (step σ s).1 c a = deepLookup σ c a :=
  (frame σ hwf s hl c hc).1 a

/-- … and the same as the runner's decidable check -/
theorem frame_observe (σ : State) (hwf : WF σ) (s : Step) (hl : lazyPrep σ s = none) (c : ClassId)
    (hc : c < σ.classes.length) : observe (step σ s).1 c = observe σ c := by
  obtain ⟨h1, h2⟩ := frame σ hwf s hl c hc
  simp only [observe, h2]
  congr 1
  exact List.map_congr_left (fun a _ => h1 a)

/-- **Instance-local.**  Instantiating a non-compound schema — with any keyword overrides —
    leaves the class store exactly as it was: the overrides live in the instance only. -/
theorem instance_local (σ : State) (c : ClassId) (kw : List (KwName × KwVal))
    (hk : σ.kindOf c ≠ .compound) : (step σ (.inst c kw)).1 = σ := by
  have : (σ.kindOf c == Kind.compound) = false := by simpa using hk
  simp only [step, this]
  split
  · simp only [Bool.false_eq_true, if_false]
    split
    · rfl
    · split
      · rfl
      · split <;> split <;> rfl
  · rfl

/-! ## the regeneration rule of `DateYYYYMMDD.__compound_init__`: history independence

As of /repo 33c5842 the rule is by list *identity*: a `field_schema` list that was built by the
preparation of the class owning it (`_compound_built[0] is field_schema`) is rebuilt from the
members that preparation started from (`_compound_built[1]`); any other list — in particular one
supplied by the user, whatever members it reuses — is taken as it is. -/

/-- the member list class `c` gets when it is prepared: a function of the members it is
    supplied with (`suppliedOf`) and its own `optional` only -/
def preparedOf (σ : State) (c : ClassId) : List Item :=
  preparedFields (suppliedOf σ c) (optionalOf σ c)

theorem classes_updCls (σ : State) (c x : ClassId) (f : Cls → Cls) :
    (updCls σ c f).classes[x]? = if x = c then (σ.classes[x]?).map f else σ.classes[x]? := by
  unfold updCls
  by_cases e : x = c
  · subst e
    cases h : σ.classes[x]? with
    | none => simp [h]
    | some cl =>
      have hlt : x < σ.classes.length := by
        rcases Nat.lt_or_ge x σ.classes.length with h' | h'
        · exact h'
        · simp [List.getElem?_eq_none h'] at h
      simp [List.getElem?_set_self hlt]
  · simp only [e, if_false]
    cases h : σ.classes[c]? with
    | none => rfl
    | some cl => simp [List.getElem?_set_ne (Ne.symm e)]

theorem assoc_assocSet {α β : Type} [DecidableEq α] (l : List (α × β)) (a a' : α) (b : β) :
    assoc (assocSet l a b) a' = if a = a' then some b else assoc l a' := by
  induction l with
  | nil => simp [assocSet, assoc]
  | cons p r ih =>
    obtain ⟨a0, b0⟩ := p
    simp only [assocSet]
    split <;> simp only [assoc] <;> grind

/-- what preparing class `p` does to the store: nothing, or only the flag, or — when members
    have to be generated — a fresh list bound to `p.field_schema` and remembered in `_compound_built` -/
structure PreparedFrom (σ τ : State) (p : ClassId) : Prop where
  mro : ∀ x, τ.mroOf x = σ.mroOf x
  own_ne : ∀ x, x ≠ p → τ.ownOf x = σ.ownOf x
  built_ne : ∀ x, x ≠ p → builtOf τ x = builtOf σ x
  own_p : (((seqOf σ p .fieldSchema).length ≥ 4 ∨ (suppliedOf σ p).length = 3) ∧
      τ.ownOf p = σ.ownOf p ∧ builtOf τ p = builtOf σ p) ∨
    (∃ r, (∀ a, assoc (τ.ownOf p) a = if Attr.fieldSchema = a then some (.list r) else assoc (σ.ownOf p) a) ∧
      τ.items r = preparedOf σ p ∧ builtOf τ p = some (r, suppliedOf σ p))
  heap : ∀ r, r < σ.heap.length → τ.items r = σ.items r

theorem mroOf_updCls (σ : State) (c x : ClassId) (f : Cls → Cls) (hf : ∀ cl, (f cl).mro = cl.mro) :
    (updCls σ c f).mroOf x = σ.mroOf x := by
  simp only [State.mroOf, classes_updCls]
  by_cases e : x = c
  · simp only [e, if_true]; cases σ.classes[c]? <;> simp [hf]
  · simp [e]

theorem ownOf_updCls_ne (σ : State) (c x : ClassId) (f : Cls → Cls) (h : x ≠ c) :
    (updCls σ c f).ownOf x = σ.ownOf x := by
  simp [State.ownOf, classes_updCls, h]

theorem ownOf_updCls_self (σ : State) (c : ClassId) (f : Cls → Cls) (cl : Cls) (h : σ.classes[c]? = some cl) :
    (updCls σ c f).ownOf c = (f cl).own := by
  simp [State.ownOf, classes_updCls, h]

theorem mroOf_setOwn (σ : State) (c x : ClassId) (a : Attr) (v : Val) :
    (setOwn σ c a v).mroOf x = σ.mroOf x :=
  mroOf_updCls σ c x (fun cl => { cl with own := assocSet cl.own a v }) (fun _ => rfl)

theorem ownOf_setOwn_ne (σ : State) (c x : ClassId) (a : Attr) (v : Val) (h : x ≠ c) :
    (setOwn σ c a v).ownOf x = σ.ownOf x := ownOf_updCls_ne σ c x _ h

theorem builtOf_updCls_ne (σ : State) (c x : ClassId) (f : Cls → Cls) (h : x ≠ c) :
    builtOf (updCls σ c f) x = builtOf σ x := by
  simp [builtOf, classes_updCls, h]

theorem builtOf_updCls_self (σ : State) (c : ClassId) (f : Cls → Cls) (cl : Cls) (h : σ.classes[c]? = some cl) :
    builtOf (updCls σ c f) c = (f cl).built := by
  simp [builtOf, classes_updCls, h]

def setPrepared (cl : Cls) : Cls := { cl with prepared := true }
def setBuilt (r : Ref) (supplied : List Item) (cl : Cls) : Cls :=
  { cl with prepared := true, built := some (r, supplied) }

theorem compoundInit_fst (σ : State) (p : ClassId) :
    (compoundInit σ p).1 =
      if (seqOf σ p .fieldSchema).length ≥ 4 then σ
      else if (suppliedOf σ p).length = 3 then updCls σ p setPrepared
      else updCls (setOwn { σ with heap := σ.heap ++ [preparedOf σ p] } p .fieldSchema (.list σ.heap.length))
        p (setBuilt σ.heap.length (suppliedOf σ p)) := by
  unfold compoundInit
  simp only []
  split
  · rfl
  · split <;> rfl

theorem heap_updCls (σ : State) (c : ClassId) (f : Cls → Cls) : (updCls σ c f).heap = σ.heap := by
  unfold updCls; split <;> rfl

theorem compoundInit_preparedFrom (σ : State) (p : ClassId) (hp : p < σ.classes.length) :
    PreparedFrom σ (compoundInit σ p).1 p := by
  obtain ⟨cl, hcl⟩ : ∃ cl, σ.classes[p]? = some cl := ⟨σ.classes[p], by simp [hp]⟩
  rw [compoundInit_fst]
  split
  · rename_i h4
    exact ⟨fun _ => rfl, fun _ _ => rfl, fun _ _ => rfl, Or.inl ⟨Or.inl h4, rfl, rfl⟩, fun _ _ => rfl⟩
  · split
    · rename_i h3
      refine ⟨fun x => mroOf_updCls σ p x setPrepared (fun _ => rfl), fun x hx => ownOf_updCls_ne σ p x _ hx,
        fun x hx => builtOf_updCls_ne σ p x _ hx, Or.inl ⟨Or.inr h3, ?_, ?_⟩,
        fun r _ => by simp [State.items, heap_updCls]⟩
      · rw [ownOf_updCls_self σ p _ cl hcl]; simp [State.ownOf, hcl, setPrepared]
      · rw [builtOf_updCls_self σ p _ cl hcl]; simp [builtOf, hcl, setPrepared]
    · -- members are generated: a fresh list, bound to p.field_schema, remembered, and the flag
      obtain ⟨σ1, hσ1⟩ : ∃ σ1 : State, σ1 = { σ with heap := σ.heap ++ [preparedOf σ p] } := ⟨_, rfl⟩
      rw [← hσ1]
      have hcl1 : σ1.classes[p]? = some cl := by rw [hσ1]; exact hcl
      have hm1 : ∀ x, σ1.mroOf x = σ.mroOf x := fun x => by rw [hσ1]; rfl
      have ho1 : ∀ x, σ1.ownOf x = σ.ownOf x := fun x => by rw [hσ1]; rfl
      have hb1 : ∀ x, builtOf σ1 x = builtOf σ x := fun x => by rw [hσ1]; rfl
      have h2 : (setOwn σ1 p .fieldSchema (.list σ.heap.length)).classes[p]?
          = some { cl with own := assocSet cl.own .fieldSchema (.list σ.heap.length) } := by
        unfold setOwn; rw [classes_updCls]; simp [hcl1]
      have hheap : (updCls (setOwn σ1 p .fieldSchema (.list σ.heap.length)) p
          (setBuilt σ.heap.length (suppliedOf σ p))).heap = σ.heap ++ [preparedOf σ p] := by
        rw [heap_updCls]; unfold setOwn; rw [heap_updCls, hσ1]
      refine ⟨fun x => ?_, fun x hx => ?_, fun x hx => ?_, Or.inr ⟨σ.heap.length, fun a => ?_, ?_, ?_⟩,
        fun r hr => ?_⟩
      · rw [mroOf_updCls _ p x (setBuilt _ _) (fun _ => rfl), mroOf_setOwn, hm1]
      · rw [ownOf_updCls_ne _ p x _ hx, ownOf_setOwn_ne _ _ _ _ _ hx, ho1]
      · rw [builtOf_updCls_ne _ p x _ hx]
        unfold setOwn
        rw [builtOf_updCls_ne _ p x _ hx, hb1]
      · rw [ownOf_updCls_self _ p _ _ h2]
        simp only [setBuilt, assoc_assocSet]
        simp [State.ownOf, hcl]
      · simp [State.items, hheap]
      · rw [builtOf_updCls_self _ p _ _ h2]; rfl
      · simp only [State.items, hheap, List.getElem?_append_left hr]

theorem own_attr_preparedFrom {σ τ : State} {p : ClassId} (h : PreparedFrom σ τ p) (x : ClassId) (a : Attr)
    (hxa : x ≠ p ∨ a ≠ .fieldSchema) : assoc (τ.ownOf x) a = assoc (σ.ownOf x) a := by
  by_cases e : x = p
  · subst e
    rcases h.own_p with ⟨_, h1, _⟩ | ⟨r, h1, _, _⟩
    · rw [h1]
    · rw [h1 a, if_neg]
      rcases hxa with hx | ha
      · exact absurd rfl hx
      · exact fun e => ha e.symm
  · rw [h.own_ne x e]

/-- preparing `p` changes no attribute other than `field_schema`, of any class -/
theorem lookup_ne_preparedFrom {σ τ : State} {p : ClassId} (h : PreparedFrom σ τ p) (c : ClassId) (a : Attr)
    (ha : a ≠ .fieldSchema) : τ.lookup c a = σ.lookup c a := by
  unfold State.lookup
  rw [h.mro c]
  exact findSome?_ext' _ _ _ (fun x _ => own_attr_preparedFrom h x a (Or.inr ha))

theorem seqOf_of_lookup_eq {σ τ : State} (hwf : WF σ) (hheap : ∀ r, r < σ.heap.length → τ.items r = σ.items r)
    (c : ClassId) (a : Attr) (hl : τ.lookup c a = σ.lookup c a) : seqOf τ c a = seqOf σ c a := by
  unfold seqOf
  rw [hl]
  cases hv : σ.lookup c a with
  | none => rfl
  | some v =>
    obtain ⟨x, _, hx⟩ := List.exists_of_findSome?_eq_some hv
    cases v <;> simp only []
    case list r => exact hheap r (hwf.ref_lt x a r (Or.inl hx))
    case tuple r => exact hheap r (hwf.ref_lt x a r (Or.inr (Or.inl hx)))

theorem findSome?_append' {α β : Type} (f : α → Option β) (a b : List α) :
    (a ++ b).findSome? f = (a.findSome? f).or (b.findSome? f) := by
  induction a with
  | nil => simp
  | cons x r ih => simp only [List.cons_append, List.findSome?_cons]; cases f x <;> simp [ih]

/-- the members a preparation starts from, given the owner of the `field_schema` attribute -/
def suppliedFrom (σ : State) : Option (ClassId × Val) → List Item
  | none => []
  | some (x, v) =>
    match builtOf σ x with
    | some (r, supplied) => if v = .list r then supplied else itemsOfVal σ v
    | none => itemsOfVal σ v

theorem suppliedOf_eq (σ : State) (c : ClassId) :
    suppliedOf σ c = suppliedFrom σ (ownerOf σ c .fieldSchema) := by
  unfold suppliedOf suppliedFrom
  cases ownerOf σ c .fieldSchema with
  | none => rfl
  | some xv => rfl

def ownerFn (σ : State) (a : Attr) (x : ClassId) : Option (ClassId × Val) :=
  (assoc (σ.ownOf x) a).map (fun v => (x, v))

theorem ownerOf_eq (σ : State) (c : ClassId) (a : Attr) :
    ownerOf σ c a = (σ.mroOf c).findSome? (ownerFn σ a) := rfl

theorem ownerFn_some {σ : State} {a : Attr} {l : List ClassId} {x : ClassId} {v : Val}
    (h : l.findSome? (ownerFn σ a) = some (x, v)) : x ∈ l ∧ assoc (σ.ownOf x) a = some v := by
  obtain ⟨y, hy, hyv⟩ := List.exists_of_findSome?_eq_some h
  unfold ownerFn at hyv
  cases hh : assoc (σ.ownOf y) a with
  | none => simp [hh] at hyv
  | some w =>
    simp only [hh, Option.map_some, Option.some.injEq, Prod.mk.injEq] at hyv
    obtain ⟨rfl, rfl⟩ := hyv
    exact ⟨hy, hh⟩

theorem itemsOfVal_eq {σ τ : State} (hwf : WF σ) (hheap : ∀ r, r < σ.heap.length → τ.items r = σ.items r)
    (x : ClassId) (a : Attr) (v : Val) (hx : assoc (σ.ownOf x) a = some v) :
    itemsOfVal τ v = itemsOfVal σ v := by
  cases v <;> simp only [itemsOfVal]
  case list r => exact hheap r (hwf.ref_lt x a r (Or.inl hx))
  case tuple r => exact hheap r (hwf.ref_lt x a r (Or.inr (Or.inl hx)))

theorem suppliedFrom_eq {σ τ : State} (hwf : WF σ) (hheap : ∀ r, r < σ.heap.length → τ.items r = σ.items r)
    (x : ClassId) (v : Val) (hb : builtOf τ x = builtOf σ x) (hx : assoc (σ.ownOf x) .fieldSchema = some v) :
    suppliedFrom τ (some (x, v)) = suppliedFrom σ (some (x, v)) := by
  simp only [suppliedFrom, hb, itemsOfVal_eq hwf hheap x _ v hx]

/-- the members a class is supplied with are the same before and after an ancestor (or the class
    itself) was prepared -/
theorem suppliedOf_preparedFrom {σ τ : State} {p : ClassId} (h : PreparedFrom σ τ p) (hwf : WF σ)
    (c : ClassId) (pre tl : List ClassId) (hm : σ.mroOf c = pre ++ σ.mroOf p) (hp : σ.mroOf p = p :: tl)
    (hpre : p ∉ pre) : suppliedOf τ c = suppliedOf σ c := by
  rw [suppliedOf_eq, suppliedOf_eq, ownerOf_eq, ownerOf_eq, h.mro c]
  rcases h.own_p with ⟨_, h1, hb1⟩ | ⟨r, h1, hitems, hbuilt⟩
  · -- nothing was bound: owners, `_compound_built` and list contents are all unchanged
    have hfn : ∀ x ∈ σ.mroOf c, ownerFn τ .fieldSchema x = ownerFn σ .fieldSchema x := by
      intro x _
      unfold ownerFn
      by_cases e : x = p
      · rw [e, h1]
      · rw [h.own_ne x e]
    rw [findSome?_ext' _ _ _ hfn]
    cases hfound : (σ.mroOf c).findSome? (ownerFn σ .fieldSchema) with
    | none => rfl
    | some xv =>
      obtain ⟨x, v⟩ := xv
      have hx := (ownerFn_some hfound).2
      apply suppliedFrom_eq hwf h.heap x v _ hx
      by_cases e : x = p
      · rw [e, hb1]
      · exact h.built_ne x e
  · have hprefn : ∀ x ∈ pre, ownerFn τ .fieldSchema x = ownerFn σ .fieldSchema x := by
      intro x hx
      unfold ownerFn
      rw [h.own_ne x (fun e => hpre (e ▸ hx))]
    rw [hm, findSome?_append', findSome?_append', findSome?_ext' _ _ pre hprefn]
    cases hfound : pre.findSome? (ownerFn σ .fieldSchema) with
    | some xv =>
      obtain ⟨x, v⟩ := xv
      obtain ⟨hxin, hx⟩ := ownerFn_some hfound
      simp only [Option.some_or]
      exact suppliedFrom_eq hwf h.heap x v (h.built_ne x (fun e => hpre (e ▸ hxin))) hx
    | none =>
      simp only [Option.none_or]
      -- τ: the owner is p with the freshly built list; σ: whatever p resolves to
      have hτ : (σ.mroOf p).findSome? (ownerFn τ .fieldSchema) = some (p, .list r) := by
        rw [hp]; simp [List.findSome?_cons, ownerFn, h1]
      rw [hτ]
      have : suppliedFrom τ (some (p, .list r)) = suppliedOf σ p := by
        simp [suppliedFrom, hbuilt]
      rw [this, suppliedOf_eq, ownerOf_eq]

/-- … and for a class that does not have `p` in its MRO at all -/
theorem suppliedOf_preparedFrom_unrelated {σ τ : State} {p : ClassId} (h : PreparedFrom σ τ p) (hwf : WF σ)
    (c : ClassId) (hnot : p ∉ σ.mroOf c) : suppliedOf τ c = suppliedOf σ c := by
  rw [suppliedOf_eq, suppliedOf_eq, ownerOf_eq, ownerOf_eq, h.mro c]
  have hfn : ∀ x ∈ σ.mroOf c, ownerFn τ .fieldSchema x = ownerFn σ .fieldSchema x := by
    intro x hx
    unfold ownerFn
    rw [h.own_ne x (fun e => hnot (e ▸ hx))]
  rw [findSome?_ext' _ _ _ hfn]
  cases hfound : (σ.mroOf c).findSome? (ownerFn σ .fieldSchema) with
  | none => rfl
  | some xv =>
    obtain ⟨x, v⟩ := xv
    obtain ⟨hxin, hx⟩ := ownerFn_some hfound
    exact suppliedFrom_eq hwf h.heap x v (h.built_ne x (fun e => hnot (e ▸ hxin))) hx

/-- **Regeneration rule / history independence of compound members.**  Let class `c` inherit
    from compound class `p` (or be `p` itself).  The member list `c` gets when it is prepared —
    the members it is supplied with (its own or inherited user list taken as it is; a list built
    by an ancestor's preparation replaced by what that preparation started from) followed by
    year/month/day generated from `c`'s own `optional` for the positions left open — is the same
    whether or not `p` was prepared (instantiated) before. -/
theorem compound_fields_history_independent (σ : State) (hwf : WF σ) (p c : ClassId)
    (hp : p < σ.classes.length) (pre tl : List ClassId) (hm : σ.mroOf c = pre ++ σ.mroOf p)
    (hmp : σ.mroOf p = p :: tl) (hpre : p ∉ pre) :
    preparedOf (compoundInit σ p).1 c = preparedOf σ c := by
  have h := compoundInit_preparedFrom σ p hp
  unfold preparedOf optionalOf
  rw [suppliedOf_preparedFrom h hwf c pre tl hm hmp hpre,
    lookup_ne_preparedFrom h c .optional (by decide)]

/-- what `compoundInit` binds to `field_schema` is `preparedOf` (so the theorem above is about
    the list the class really gets), whenever members have to be generated -/
theorem compoundInit_stores (σ : State) (c : ClassId) (hc : c < σ.classes.length) (tl : List ClassId)
    (hm : σ.mroOf c = c :: tl)
    (h4 : (seqOf σ c .fieldSchema).length < 4) (h3 : (suppliedOf σ c).length ≠ 3) :
    seqOf (compoundInit σ c).1 c .fieldSchema = preparedOf σ c := by
  have h := compoundInit_preparedFrom σ c hc
  rcases h.own_p with ⟨h', _⟩ | ⟨r, h1, hitems, _⟩
  · rcases h' with h' | h'
    · exact absurd h4 (Nat.not_lt.2 h')
    · exact absurd h' h3
  · unfold seqOf State.lookup
    rw [h.mro c, hm]
    simp [List.findSome?_cons, h1, hitems]

/-- with three supplied members nothing is generated: the supplied list is the prepared list -/
theorem preparedOf_three (σ : State) (c : ClassId) (h3 : (suppliedOf σ c).length = 3) :
    preparedOf σ c = suppliedOf σ c := by
  unfold preparedOf preparedFields
  rw [h3]
  simp [generatedDefaults]

/-! ## what the lazy preparation of a compound class preserves (KF-C06-a, the guarded part) -/

theorem deref_preparedFrom {σ τ : State} {p : ClassId} (h : PreparedFrom σ τ p) (hwf : WF σ) (c : ClassId) (a : Attr)
    (hl : τ.lookup c a = σ.lookup c a) : deepLookup τ c a = deepLookup σ c a := by
  unfold deepLookup
  rw [hl]
  cases hv : σ.lookup c a with
  | none => rfl
  | some v =>
    obtain ⟨x, _, hx⟩ := List.exists_of_findSome?_eq_some hv
    cases v <;> simp only [deref]
    case list r => rw [h.heap r (hwf.ref_lt x a r (Or.inl hx))]
    case tuple r => rw [h.heap r (hwf.ref_lt x a r (Or.inr (Or.inl hx)))]
    case anonDict r => rw [h.heap r (hwf.ref_lt x a r (Or.inr (Or.inr hx)))]

/-- the state after a lazily preparing instantiation of `p` is the store itself (the call raised
    before preparing) or `compoundInit σ p` -/
theorem step_lazy_state (σ : State) (s : Step) (p : ClassId) (hl : lazyPrep σ s = some p) :
    (step σ s).1 = σ ∨ (p < σ.classes.length ∧ (step σ s).1 = (compoundInit σ p).1) := by
  cases s with
  | inst c kw =>
    simp only [lazyPrep] at hl
    split at hl
    · rename_i hcond
      simp only [Option.some.injEq] at hl
      subst hl
      simp only [Bool.and_eq_true, Bool.not_eq_true', beq_iff_eq] at hcond
      obtain ⟨⟨hk, hov⟩, hprep⟩ := hcond
      have hprep' : σ.isPrepared c = false := hprep
      simp only [step]
      split
      · rename_i hc
        simp only [hk, beq_self_eq_true, if_true, hov, Bool.not_true, Bool.false_eq_true, if_false, hprep']
        by_cases hr : ((compoundInit σ c).snd != Res.ok) = true
        · left; simp only [hr, if_true]
        · right
          refine ⟨hc, ?_⟩
          simp only [hr]
          split
          · rename_i h; exact absurd h (by simp)
          · split <;> rfl
      · left; rfl
    · simp at hl
  | _ => simp [lazyPrep] at hl

/-- **Frame under lazy preparation.**  The first plain instantiation of an unprepared compound
    class `p` changes nothing but `field_schema`, and that only for the classes that have `p` in
    their MRO: every other attribute of every class, and every attribute of every class not below
    `p`, reads as before. -/
theorem frame_lazy (σ : State) (hwf : WF σ) (s : Step) (p : ClassId) (hl : lazyPrep σ s = some p)
    (c : ClassId) :
    (∀ a, a ≠ .fieldSchema → deepLookup (step σ s).1 c a = deepLookup σ c a) ∧
    (p ∉ σ.mroOf c → ∀ a, deepLookup (step σ s).1 c a = deepLookup σ c a) := by
  rcases step_lazy_state σ s p hl with e | ⟨hp, e⟩
  · rw [e]; exact ⟨fun _ _ => rfl, fun _ _ => rfl⟩
  · rw [e]
    have h := compoundInit_preparedFrom σ p hp
    refine ⟨fun a ha => deref_preparedFrom h hwf c a (lookup_ne_preparedFrom h c a ha), fun hnot a => ?_⟩
    apply deref_preparedFrom h hwf c a
    unfold State.lookup
    rw [h.mro c]
    exact findSome?_ext' _ _ _ (fun x hx => by rw [h.own_ne x (fun e' => hnot (e' ▸ hx))])

/-! ## well-formedness is decidable; the runner checks it after every step of every history -/

theorem mem_of_assoc {α β : Type} [DecidableEq α] (l : List (α × β)) (a : α) (b : β)
    (h : assoc l a = some b) : (a, b) ∈ l := by
  induction l with
  | nil => simp [assoc] at h
  | cons p r ih =>
    obtain ⟨a0, b0⟩ := p
    simp only [assoc] at h
    split at h
    · rename_i e; simp only [Option.some.injEq] at h; subst h; subst e; exact List.mem_cons_self ..
    · exact List.mem_cons_of_mem _ (ih h)

theorem WF_of_wfB (σ : State) (h : wfB σ = true) : WF σ := by
  simp only [wfB, List.all_eq_true, List.mem_range, Bool.and_eq_true, decide_eq_true_eq] at h
  constructor
  · intro c x hx
    rcases Nat.lt_or_ge c σ.classes.length with hc | hc
    · exact (h c hc).1 x hx
    · simp [State.mroOf, List.getElem?_eq_none hc] at hx
  · intro c a r hr
    rcases Nat.lt_or_ge c σ.classes.length with hc | hc
    · have hall := (h c hc).2
      rcases hr with hr | hr | hr
      · have := hall _ (mem_of_assoc _ _ _ hr); simpa using this
      · have := hall _ (mem_of_assoc _ _ _ hr); simpa using this
      · have := hall _ (mem_of_assoc _ _ _ hr); simpa using this
    · have : σ.ownOf c = [] := by simp [State.ownOf, List.getElem?_eq_none hc]
      simp [this, assoc] at hr

/-! ## the full statement and where the code falls short of it: lazy preparation -/

/-- **Full statement**: no step at all changes any observable attribute of a pre-existing class. -/
def C06_Full : Prop :=
  ∀ (σ : State) (s : Step) (c : ClassId) (a : Attr), WF σ → c < σ.classes.length →
    deepLookup (step σ s).1 c a = deepLookup σ c a

/-- the first plain instantiation of a lazily prepared compound type (DateYYYYMMDD) writes the
    generated members into `field_schema` of the class being instantiated -/
theorem C06_full_fails : ¬ C06_Full := by
  intro h
  have := h (initState .compound []) (.inst 0 []) 0 .fieldSchema (WF_of_wfB _ (by decide)) (by decide)
  revert this
  decide

/-- non-vacuity of `frame`: a reachable, well-formed store with a derivation chain, shared
    inherited lists and a prepared compound; every kind of step satisfies the hypothesis except
    the first plain instantiation of an unprepared compound -/
def exSteps : List Step :=
  [.validatedBy false 0 [1, 2], .includingValidators false 1 [3] (some (-4)), .named 2 (some ['x']),
   .using 3 [(.attr .optional, .bool true), (.properties, .pairs [(['a'], 1)])],
   .withProperties 4 [(['b'], 2)], .inst 0 [], .using 0 [(.attr .optional, .bool true)], .inst 6 []]

def exState : State := (run (initState .compound []) exSteps).1

theorem exState_wf : WF exState := WF_of_wfB _ (by decide)

example : lazyPrep exState (.includingValidators false 2 [9] none) = none := by decide
example : lazyPrep exState (.inst 0 []) = none := by decide          -- already prepared
example : lazyPrep exState (.inst 5 []) = some 5 := by decide        -- would be prepared now
example : observe (step exState (.includingValidators false 2 [9] (some 0))).1 2 = observe exState 2 :=
  frame_observe exState exState_wf _ (by decide) 2 (by decide)
/-- the step is not a no-op: the new class differs from its parent -/
example : deepLookup (step exState (.includingValidators false 2 [9] (some 0))).1 7 .validators
    = .list [.label 9, .label 1, .label 3, .label 2] := by decide
/-- history independence on this store: class 6 = class 0.using(optional=True), derived *after*
    class 0 was prepared, regenerates optional members (fix 71fc8fd) -/
example : deepLookup exState 6 .fieldSchema
    = .list [.gen "year".toList "%04i".toList true, .gen "month".toList "%02i".toList true,
             .gen "day".toList "%02i".toList true] := by decide

/-- non-vacuity of `compound_fields_history_independent`: class 1 is a date with one
    user-supplied (optional) member `y`, class 2 = class 1.using(optional=True) derived from it;
    the store is well formed and class 1 is not yet prepared -/
def partialSteps : List Step :=
  [.using 0 [(.attr .fieldSchema, .members [(['y'], true)])], .using 1 [(.attr .optional, .bool true)]]

def partialState : State := (run (initState .compound []) partialSteps).1

example : preparedOf (compoundInit partialState 1).1 2 = preparedOf partialState 2 :=
  compound_fields_history_independent partialState (WF_of_wfB _ (by decide)) 1 2 (by decide) [2] [0]
    (by decide) (by decide) (by decide)
/-- and the list in question is the regenerated one: `y` kept, month/day optional like class 2 -/
example : preparedOf (compoundInit partialState 1).1 2
    = [.user ['y'] true, .gen "month".toList "%02i".toList true, .gen "day".toList "%02i".toList true] := by
  decide
/-- while the prepared parent holds non-optional month/day — the members the derived class must not keep -/
example : seqOf (compoundInit partialState 1).1 1 .fieldSchema
    = [.user ['y'] true, .gen "month".toList "%02i".toList false, .gen "day".toList "%02i".toList false] := by
  decide

/-! # histories: well-formedness, the returned class, the frame theorem along chains -/

/-! ## well-formedness is kept by every step -/

/-- a reference value names an existing list object -/
def RefOK (σ : State) : Val → Prop
  | .list r | .tuple r | .anonDict r => r < σ.heap.length
  | _ => True

theorem WF_iff_refOK (σ : State) :
    WF σ ↔ (∀ c x, x ∈ σ.mroOf c → x < σ.classes.length) ∧
      ∀ c a v, assoc (σ.ownOf c) a = some v → RefOK σ v := by
  constructor
  · intro h
    refine ⟨h.mro_lt, fun c a v hv => ?_⟩
    cases v <;> simp only [RefOK]
    case list r => exact h.ref_lt c a r (Or.inl hv)
    case tuple r => exact h.ref_lt c a r (Or.inr (Or.inl hv))
    case anonDict r => exact h.ref_lt c a r (Or.inr (Or.inr hv))
  · intro ⟨h1, h2⟩
    refine ⟨h1, fun c a r hr => ?_⟩
    rcases hr with hr | hr | hr <;> exact h2 c a _ hr

theorem length_updCls (σ : State) (c : ClassId) (f : Cls → Cls) :
    (updCls σ c f).classes.length = σ.classes.length := by
  unfold updCls; split <;> simp

theorem ownOf_updCls (σ : State) (c x : ClassId) (f : Cls → Cls) (hf : ∀ cl, (f cl).own = cl.own) :
    (updCls σ c f).ownOf x = σ.ownOf x := by
  simp only [State.ownOf, classes_updCls]
  by_cases e : x = c
  · simp only [e, if_true]; cases σ.classes[c]? <;> simp [hf]
  · simp [e]

theorem kindOf_updCls (σ : State) (c x : ClassId) (f : Cls → Cls) (hf : ∀ cl, (f cl).kind = cl.kind) :
    (updCls σ c f).kindOf x = σ.kindOf x := by
  simp only [State.kindOf, classes_updCls]
  by_cases e : x = c
  · simp only [e, if_true]; cases σ.classes[c]? <;> simp [hf]
  · simp [e]

theorem RefOK_mono {σ τ : State} (h : σ.heap.length ≤ τ.heap.length) (v : Val) (hv : RefOK σ v) : RefOK τ v := by
  cases v <;> first | exact Nat.lt_of_lt_of_le hv h | trivial

/-- rewriting a class without touching its MRO or its `__dict__` (flags, properties frame) -/
theorem WF_updCls (σ : State) (hwf : WF σ) (c : ClassId) (f : Cls → Cls)
    (hm : ∀ cl, (f cl).mro = cl.mro) (ho : ∀ cl, (f cl).own = cl.own) : WF (updCls σ c f) := by
  rw [WF_iff_refOK] at hwf ⊢
  refine ⟨fun c' x hx => ?_, fun c' a v hv => ?_⟩
  · rw [mroOf_updCls σ c c' f hm] at hx
    rw [length_updCls]; exact hwf.1 c' x hx
  · rw [ownOf_updCls σ c c' f ho] at hv
    exact RefOK_mono (by rw [heap_updCls]; exact Nat.le_refl _) v (hwf.2 c' a v hv)

theorem assoc_ownOf_setOwn (σ : State) (c x : ClassId) (a a' : Attr) (v : Val) :
    assoc ((setOwn σ c a v).ownOf x) a' = assoc (σ.ownOf x) a' ∨
      assoc ((setOwn σ c a v).ownOf x) a' = some v := by
  by_cases e : x = c
  · subst e
    cases hcl : σ.classes[x]? with
    | none => left; simp [setOwn, updCls, hcl]
    | some cl =>
      unfold setOwn
      rw [ownOf_updCls_self σ x _ cl hcl]
      simp only [assoc_assocSet]
      by_cases ea : a = a'
      · right; simp [ea]
      · left; simp [ea, State.ownOf, hcl]
  · left; rw [ownOf_setOwn_ne σ c x a v e]

theorem heap_setOwn (σ : State) (c : ClassId) (a : Attr) (v : Val) : (setOwn σ c a v).heap = σ.heap :=
  heap_updCls σ c _

theorem length_setOwn (σ : State) (c : ClassId) (a : Attr) (v : Val) :
    (setOwn σ c a v).classes.length = σ.classes.length := length_updCls σ c _

/-- `setattr(cls, a, v)` with `v` an atom or a reference to an existing list object -/
theorem WF_setOwn (σ : State) (hwf : WF σ) (c : ClassId) (a : Attr) (v : Val) (hv : RefOK σ v) :
    WF (setOwn σ c a v) := by
  rw [WF_iff_refOK] at hwf ⊢
  refine ⟨fun c' x hx => ?_, fun c' a' v' hv' => ?_⟩
  · rw [mroOf_setOwn] at hx
    rw [length_setOwn]; exact hwf.1 c' x hx
  · have hh : σ.heap.length ≤ (setOwn σ c a v).heap.length := by rw [heap_setOwn]; exact Nat.le_refl _
    rcases assoc_ownOf_setOwn σ c c' a a' v with h | h
    · rw [h] at hv'; exact RefOK_mono hh v' (hwf.2 c' a' v' hv')
    · rw [h] at hv'; simp only [Option.some.injEq] at hv'; subst hv'; exact RefOK_mono hh _ hv

theorem WF_alloc (σ : State) (hwf : WF σ) (xs : List Item) : WF (alloc σ xs).1 := by
  rw [WF_iff_refOK] at hwf ⊢
  exact ⟨hwf.1, fun c a v hv => RefOK_mono (by simp [alloc]) v (hwf.2 c a v hv)⟩

theorem getElem?_append_singleton' {α : Type} (l : List α) (a : α) (c : Nat) :
    (l ++ [a])[c]? = if c = l.length then some a else l[c]? := by
  rcases Nat.lt_trichotomy c l.length with h | h | h
  · rw [List.getElem?_append_left h, if_neg (Nat.ne_of_lt h)]
  · subst h; simp
  · rw [if_neg (Nat.ne_of_gt h), List.getElem?_eq_none (by simp; omega), List.getElem?_eq_none (by omega)]

theorem mroOf_clone (σ : State) (p x : ClassId) :
    (clone σ p).1.mroOf x = if x = σ.classes.length then σ.classes.length :: σ.mroOf p else σ.mroOf x := by
  simp only [State.mroOf, clone, getElem?_append_singleton']
  by_cases e : x = σ.classes.length <;> simp [e]

theorem ownOf_clone (σ : State) (p x : ClassId) :
    (clone σ p).1.ownOf x = if x = σ.classes.length then [] else σ.ownOf x := by
  simp only [State.ownOf, clone, getElem?_append_singleton']
  by_cases e : x = σ.classes.length <;> simp [e]

theorem kindOf_clone (σ : State) (p x : ClassId) :
    (clone σ p).1.kindOf x = if x = σ.classes.length then σ.kindOf p else σ.kindOf x := by
  simp only [State.kindOf, clone, getElem?_append_singleton']
  by_cases e : x = σ.classes.length <;> simp [e]

theorem length_clone (σ : State) (p : ClassId) : (clone σ p).1.classes.length = σ.classes.length + 1 := by
  simp [clone]

/-- `class_cloner`: a fresh subclass with an empty `__dict__` -/
theorem WF_clone (σ : State) (hwf : WF σ) (p : ClassId) : WF (clone σ p).1 := by
  rw [WF_iff_refOK] at hwf ⊢
  refine ⟨fun c x hx => ?_, fun c a v hv => ?_⟩
  · rw [mroOf_clone] at hx
    rw [length_clone]
    split at hx
    · rcases List.mem_cons.1 hx with rfl | h
      · exact Nat.lt_succ_self _
      · exact Nat.lt_succ_of_lt (hwf.1 p x h)
    · exact Nat.lt_succ_of_lt (hwf.1 c x hx)
  · rw [ownOf_clone] at hv
    split at hv
    · simp [assoc] at hv
    · exact RefOK_mono (Nat.le_refl _) v (hwf.2 c a v hv)

theorem RefOK_alloc (σ : State) (xs : List Item) :
    RefOK (alloc σ xs).1 (.list (alloc σ xs).2) ∧ RefOK (alloc σ xs).1 (.tuple (alloc σ xs).2) ∧
      RefOK (alloc σ xs).1 (.anonDict (alloc σ xs).2) := by
  simp [RefOK, alloc]

theorem RefOK_atomOf (σ : State) (v : KwVal) : RefOK σ (atomOf v) := by
  cases v <;> simp [atomOf, RefOK]

theorem WF_usingBody (n : ClassId) :
    ∀ (kw : List (KwName × KwVal)) (σ1 σ2 : State), WF σ1 → usingBody σ1 n kw = some σ2 → WF σ2
  | [], σ1, σ2, hwf, h => by simp only [usingBody, Option.some.injEq] at h; exact h ▸ hwf
  | (.bogus, _) :: _, _, _, _, h => by simp [usingBody] at h
  | (.properties, v) :: rest, σ1, σ2, hwf, h => by
    cases v <;> simp only [usingBody, reduceCtorEq] at h
    refine WF_usingBody n rest _ σ2 ?_ h
    exact WF_updCls σ1 hwf n _ (fun _ => rfl) (fun _ => rfl)
  | (.attr a, v) :: rest, σ1, σ2, hwf, h => by
    simp only [usingBody] at h
    split at h
    · cases v <;> simp only [] at h
      case labels ls =>
        exact WF_usingBody n rest _ σ2 (WF_setOwn _ (WF_alloc σ1 hwf _) n a _ (RefOK_alloc σ1 _).1) h
      case members ms =>
        exact WF_usingBody n rest _ σ2 (WF_setOwn _ (WF_alloc σ1 hwf _) n a _ (RefOK_alloc σ1 _).1) h
      case memberRefs ms =>
        exact WF_usingBody n rest _ σ2 (WF_setOwn _ (WF_alloc σ1 hwf _) n a _ (RefOK_alloc σ1 _).1) h
      all_goals exact WF_usingBody n rest _ σ2 (WF_setOwn σ1 hwf n a _ (RefOK_atomOf σ1 _)) h
    · simp at h

theorem WF_compoundInit (σ : State) (hwf : WF σ) (n : ClassId) : WF (compoundInit σ n).1 := by
  unfold compoundInit
  simp only []
  split
  · exact hwf
  · split
    · exact WF_updCls σ hwf n _ (fun _ => rfl) (fun _ => rfl)
    · exact WF_updCls _ (WF_setOwn _ (WF_alloc σ hwf _) n _ _ (RefOK_alloc σ _).1) n _
        (fun _ => rfl) (fun _ => rfl)

/-- **Well-formedness along histories.**  Every constructor call and every instantiation —
    successful or raising, lazily preparing or not — leaves the class store well formed. -/
theorem WF_step (σ : State) (hwf : WF σ) (s : Step) : WF (step σ s).1 := by
  cases s with
  | named c name =>
    simp only [step]; split
    · exact WF_setOwn _ (WF_clone σ hwf c) _ _ _ (by cases name <;> simp [RefOK])
    · exact hwf
  | «using» c kw =>
    simp only [step]; split
    · split
      · rename_i σ2 h; exact WF_usingBody _ kw _ σ2 (WF_clone σ hwf c) h
      · exact hwf
    · exact hwf
  | validatedBy descent c vs =>
    simp only [step]; split
    · split
      · exact hwf
      · exact WF_setOwn _ (WF_alloc _ (WF_clone σ hwf c) _) _ _ _ (RefOK_alloc _ _).1
    · exact hwf
  | includingValidators descent c vs position =>
    simp only [step]; split
    · split
      · exact hwf
      · exact WF_setOwn _ (WF_alloc _ (WF_clone σ hwf c) _) _ _ _ (RefOK_alloc _ _).1
    · exact hwf
  | withProperties c pairs =>
    simp only [step]; split
    · exact WF_updCls _ (WF_clone σ hwf c) _ _ (fun _ => rfl) (fun _ => rfl)
    · exact hwf
  | «of» c members =>
    simp only [step]; split
    · split
      · split
        · exact hwf
        · exact WF_setOwn _ (WF_clone σ hwf c) _ _ _ (by simp [RefOK])
        · split
          · exact hwf
          · exact WF_setOwn _ (WF_alloc _ (WF_clone σ hwf c) _) _ _ _ (RefOK_alloc _ _).2.2
      · split
        · exact hwf
        · exact WF_setOwn _ (WF_alloc _ (WF_clone σ hwf c) _) _ _ _ (RefOK_alloc _ _).2.1
      all_goals exact hwf
    · exact hwf
  | valued c values =>
    simp only [step]; split
    · split
      · exact hwf
      · exact WF_setOwn _ (WF_alloc _ (WF_clone σ hwf c) _) _ _ _ (RefOK_alloc _ _).2.1
    · exact hwf
  | «to» c path =>
    simp only [step]; split
    · split
      · exact hwf
      · exact WF_setOwn _ (WF_clone σ hwf c) _ _ _ (by simp [RefOK])
    · exact hwf
  | inst c kw =>
    simp only [step]; split
    · split
      · split
        · split
          · exact hwf
          · rename_i σ2 h
            have h2 := WF_usingBody _ _ _ σ2 (WF_clone σ hwf c) h
            have h3 := WF_compoundInit σ2 h2 (clone σ c).2
            by_cases e1 : ((compoundInit σ2 (clone σ c).2).snd != Res.ok) = true
            · simp only [e1, if_true]; exact hwf
            · simp only [e1]
              by_cases e2 : (List.filter (fun p => p.fst == KwName.bogus) kw).isEmpty = true
              · simp only [e2, if_true]; exact h3
              · simp only [e2]; exact hwf
        · have h3 := WF_compoundInit σ hwf c
          cases hp : σ.isPrepared c with
          | true => simp only [if_true]; split <;> (try split) <;> exact hwf
          | false =>
            simp only [Bool.false_eq_true, if_false]
            split
            · exact hwf
            · split <;> exact h3
      · split
        · exact hwf
        · split
          · exact hwf
          · split <;> split <;> exact hwf
    · exact hwf

theorem WF_run (ss : List Step) (σ : State) (hwf : WF σ) : WF (run σ ss).1 := by
  induction ss generalizing σ with
  | nil => exact hwf
  | cons s ss ih => simp only [run]; exact ih _ (WF_step σ hwf s)

theorem WF_initState (kind : Kind) (defaults : List (Attr × Val))
    (hd : ∀ a v, assoc defaults a = some v → RefOK (initState kind defaults) v) :
    WF (initState kind defaults) := by
  rw [WF_iff_refOK]
  refine ⟨fun c x hx => ?_, fun c a v hv => ?_⟩
  · cases c with
    | zero => simp [initState, State.mroOf] at hx; simp [initState, hx]
    | succ n => simp [initState, State.mroOf] at hx
  · cases c with
    | zero => exact hd a v (by simpa [initState, State.ownOf] using hv)
    | succ n => simp [initState, State.ownOf, assoc] at hv

/-! ## the shape of the class table along a step: nothing, or one new direct subclass -/

/-- same classes with the same MROs and kinds (own attributes, flags, heap may differ) -/
structure SameShape (σ τ : State) : Prop where
  len : τ.classes.length = σ.classes.length
  mro : ∀ x, τ.mroOf x = σ.mroOf x
  kind : ∀ x, τ.kindOf x = σ.kindOf x

/-- `τ` has exactly one class more than `σ`: class number `σ.classes.length`, a direct subclass
    of `p` of the same kind; every other class has the MRO and kind it had -/
structure Derived (σ τ : State) (p : ClassId) : Prop where
  len : τ.classes.length = σ.classes.length + 1
  mro : ∀ x, τ.mroOf x = if x = σ.classes.length then σ.classes.length :: σ.mroOf p else σ.mroOf x
  kind : ∀ x, τ.kindOf x = if x = σ.classes.length then σ.kindOf p else σ.kindOf x

theorem SameShape.refl (σ : State) : SameShape σ σ := ⟨rfl, fun _ => rfl, fun _ => rfl⟩

theorem SameShape.trans {a b c : State} (h1 : SameShape a b) (h2 : SameShape b c) : SameShape a c :=
  ⟨h2.len.trans h1.len, fun x => (h2.mro x).trans (h1.mro x), fun x => (h2.kind x).trans (h1.kind x)⟩

theorem Derived.then {σ τ τ' : State} {p : ClassId} (h1 : Derived σ τ p) (h2 : SameShape τ τ') :
    Derived σ τ' p :=
  ⟨h2.len.trans h1.len, fun x => (h2.mro x).trans (h1.mro x), fun x => (h2.kind x).trans (h1.kind x)⟩

theorem Derived_clone (σ : State) (p : ClassId) : Derived σ (clone σ p).1 p :=
  ⟨length_clone σ p, mroOf_clone σ p, kindOf_clone σ p⟩

theorem SameShape_updCls (σ : State) (c : ClassId) (f : Cls → Cls)
    (hm : ∀ cl, (f cl).mro = cl.mro) (hk : ∀ cl, (f cl).kind = cl.kind) : SameShape σ (updCls σ c f) :=
  ⟨length_updCls σ c f, fun x => mroOf_updCls σ c x f hm, fun x => kindOf_updCls σ c x f hk⟩

theorem SameShape_setOwn (σ : State) (c : ClassId) (a : Attr) (v : Val) : SameShape σ (setOwn σ c a v) :=
  SameShape_updCls σ c _ (fun _ => rfl) (fun _ => rfl)

theorem SameShape_alloc (σ : State) (xs : List Item) : SameShape σ (alloc σ xs).1 :=
  ⟨rfl, fun _ => rfl, fun _ => rfl⟩

theorem SameShape_usingBody (n : ClassId) :
    ∀ (kw : List (KwName × KwVal)) (σ1 σ2 : State), usingBody σ1 n kw = some σ2 → SameShape σ1 σ2
  | [], σ1, σ2, h => by simp only [usingBody, Option.some.injEq] at h; exact h ▸ SameShape.refl σ1
  | (.bogus, _) :: _, _, _, h => by simp [usingBody] at h
  | (.properties, v) :: rest, σ1, σ2, h => by
    cases v <;> simp only [usingBody, reduceCtorEq] at h
    have h2 := SameShape_usingBody n rest _ σ2 h
    refine SameShape.trans ?_ h2
    exact SameShape_updCls σ1 n _ (fun _ => rfl) (fun _ => rfl)
  | (.attr a, v) :: rest, σ1, σ2, h => by
    simp only [usingBody] at h
    split at h
    · cases v <;> simp only [] at h
      case labels ls =>
        exact ((SameShape_alloc σ1 _).trans (SameShape_setOwn _ n a _)).trans (SameShape_usingBody n rest _ σ2 h)
      case members ms =>
        exact ((SameShape_alloc σ1 _).trans (SameShape_setOwn _ n a _)).trans (SameShape_usingBody n rest _ σ2 h)
      case memberRefs ms =>
        exact ((SameShape_alloc σ1 _).trans (SameShape_setOwn _ n a _)).trans (SameShape_usingBody n rest _ σ2 h)
      all_goals exact (SameShape_setOwn σ1 n a _).trans (SameShape_usingBody n rest _ σ2 h)
    · simp at h

theorem SameShape_compoundInit (σ : State) (n : ClassId) : SameShape σ (compoundInit σ n).1 := by
  unfold compoundInit
  simp only []
  split
  · exact SameShape.refl σ
  · split
    · exact SameShape_updCls σ n _ (fun _ => rfl) (fun _ => rfl)
    · exact ((SameShape_alloc σ _).trans (SameShape_setOwn _ n _ _)).trans
        (SameShape_updCls _ n _ (fun _ => rfl) (fun _ => rfl))

/-- the class a constructor is called on -/
def stepTarget : Step → ClassId
  | .named c _ | .using c _ | .validatedBy _ c _ | .includingValidators _ c _ _ | .withProperties c _
  | .of c _ | .valued c _ | .to c _ | .inst c _ => c

def isCtor : Step → Bool
  | .inst .. => false
  | _ => true

/-- **The returned class is new.**  A schema constructor either raises and leaves the class
    store exactly as it was, or returns: then the store has exactly one class more — its id is
    the old number of classes, so it is none of the old classes —, a direct subclass of the class
    the constructor was called on (MRO = itself followed by the original's MRO) of the same
    kind, and no old class changed its MRO. -/
theorem ctor_new_or_unchanged (σ : State) (s : Step) (hs : isCtor s = true) :
    ((step σ s).1 = σ ∧ (step σ s).2 ≠ .ok) ∨
    (stepTarget s < σ.classes.length ∧ Derived σ (step σ s).1 (stepTarget s) ∧ (step σ s).2 = .ok) := by
  cases s with
  | named c name =>
    simp only [step, stepTarget]; split
    · rename_i hc; right
      exact ⟨hc, (Derived_clone σ c).then (SameShape_setOwn _ _ _ _), rfl⟩
    · left; exact ⟨rfl, by simp⟩
  | «using» c kw =>
    simp only [step, stepTarget]; split
    · rename_i hc
      split
      · rename_i σ2 h; right
        exact ⟨hc, (Derived_clone σ c).then (SameShape_usingBody _ kw _ σ2 h), rfl⟩
      · left; exact ⟨rfl, by simp⟩
    · left; exact ⟨rfl, by simp⟩
  | validatedBy descent c vs =>
    simp only [step, stepTarget]; split
    · rename_i hc
      split
      · left; exact ⟨rfl, by simp⟩
      · right
        exact ⟨hc, (Derived_clone σ c).then ((SameShape_alloc _ _).trans (SameShape_setOwn _ _ _ _)), rfl⟩
    · left; exact ⟨rfl, by simp⟩
  | includingValidators descent c vs position =>
    simp only [step, stepTarget]; split
    · rename_i hc
      split
      · left; exact ⟨rfl, by simp⟩
      · right
        exact ⟨hc, (Derived_clone σ c).then ((SameShape_alloc _ _).trans (SameShape_setOwn _ _ _ _)), rfl⟩
    · left; exact ⟨rfl, by simp⟩
  | withProperties c pairs =>
    simp only [step, stepTarget]; split
    · rename_i hc; right
      exact ⟨hc, (Derived_clone σ c).then (SameShape_updCls _ _ _ (fun _ => rfl) (fun _ => rfl)), rfl⟩
    · left; exact ⟨rfl, by simp⟩
  | «of» c members =>
    simp only [step, stepTarget]; split
    · rename_i hc
      have hc' : c < σ.classes.length := by
        simp only [Bool.and_eq_true, decide_eq_true_eq] at hc; exact hc.1
      split
      · split
        · left; exact ⟨rfl, by simp⟩
        · right; exact ⟨hc', (Derived_clone σ c).then (SameShape_setOwn _ _ _ _), rfl⟩
        · split
          · left; exact ⟨rfl, by simp⟩
          · right
            exact ⟨hc', (Derived_clone σ c).then ((SameShape_alloc _ _).trans (SameShape_setOwn _ _ _ _)), rfl⟩
      · split
        · left; exact ⟨rfl, by simp⟩
        · right
          exact ⟨hc', (Derived_clone σ c).then ((SameShape_alloc _ _).trans (SameShape_setOwn _ _ _ _)), rfl⟩
      all_goals (left; exact ⟨rfl, by simp⟩)
    · left; exact ⟨rfl, by simp⟩
  | valued c values =>
    simp only [step, stepTarget]; split
    · rename_i hc
      split
      · left; exact ⟨rfl, by simp⟩
      · right
        exact ⟨hc, (Derived_clone σ c).then ((SameShape_alloc _ _).trans (SameShape_setOwn _ _ _ _)), rfl⟩
    · left; exact ⟨rfl, by simp⟩
  | «to» c path =>
    simp only [step, stepTarget]; split
    · rename_i hc
      split
      · left; exact ⟨rfl, by simp⟩
      · right; exact ⟨hc, (Derived_clone σ c).then (SameShape_setOwn _ _ _ _), rfl⟩
    · left; exact ⟨rfl, by simp⟩
  | inst c kw => simp [isCtor] at hs

/-- an instantiation leaves the class table as it is, or (compound types) fills in the class it is
    called on, or (compound types, with keyword overrides) derives one new subclass on the fly -/
theorem inst_shape (σ : State) (c : ClassId) (kw : List (KwName × KwVal)) :
    SameShape σ (step σ (.inst c kw)).1 ∨
    (c < σ.classes.length ∧ Derived σ (step σ (.inst c kw)).1 c) := by
  simp only [step]; split
  · rename_i hc
    split
    · split
      · split
        · left; exact SameShape.refl σ
        · rename_i σ2 h
          have h2 := (Derived_clone σ c).then (SameShape_usingBody _ _ _ σ2 h)
          have h3 := h2.then (SameShape_compoundInit σ2 (clone σ c).2)
          by_cases e1 : ((compoundInit σ2 (clone σ c).2).snd != Res.ok) = true
          · simp only [e1, if_true]; left; exact SameShape.refl σ
          · simp only [e1]
            by_cases e2 : (List.filter (fun p => p.fst == KwName.bogus) kw).isEmpty = true
            · simp only [e2, if_true]; right; exact ⟨hc, h3⟩
            · simp only [e2]; left; exact SameShape.refl σ
      · left
        have h3 := SameShape_compoundInit σ c
        cases hp : σ.isPrepared c with
        | true => simp only [if_true]; split <;> (try split) <;> exact SameShape.refl σ
        | false =>
          simp only [Bool.false_eq_true, if_false]
          split
          · exact SameShape.refl σ
          · split <;> exact h3
    · left
      split
      · exact SameShape.refl σ
      · split
        · exact SameShape.refl σ
        · split <;> split <;> exact SameShape.refl σ
  · left; exact SameShape.refl σ

/-- every step: the class table keeps its shape or gains one direct subclass of the target -/
theorem step_shape (σ : State) (s : Step) :
    SameShape σ (step σ s).1 ∨ (stepTarget s < σ.classes.length ∧ Derived σ (step σ s).1 (stepTarget s)) := by
  by_cases hs : isCtor s = true
  · rcases ctor_new_or_unchanged σ s hs with ⟨e, _⟩ | ⟨h1, h2, _⟩
    · left; rw [e]; exact SameShape.refl σ
    · right; exact ⟨h1, h2⟩
  · cases s <;> simp [isCtor] at hs
    exact inst_shape σ _ _

/-! ## the frame theorem along histories -/

/-- what `cls.properties` reads of a class record -/
def propsView (cl : Cls) : List (Str × Int) × Bool := (cl.props, cl.propsReset)

theorem propsWalk_congr (σ τ : State)
    (h : ∀ x : Nat, (τ.classes[x]?).map propsView = (σ.classes[x]?).map propsView)
    (l : List ClassId) (acc : List (Str × Int)) : propsWalk τ l acc = propsWalk σ l acc := by
  induction l generalizing acc with
  | nil => rfl
  | cons x r ih =>
    have hx := h x
    simp only [propsWalk]
    cases hs : σ.classes[x]? with
    | none =>
      cases ht : τ.classes[x]? with
      | none => rfl
      | some cl' => simp [hs, ht] at hx
    | some cl =>
      cases ht : τ.classes[x]? with
      | none => simp [hs, ht] at hx
      | some cl' =>
        simp only [hs, ht, Option.map_some, Option.some.injEq, propsView, Prod.mk.injEq] at hx
        simp only [hx.1, hx.2]
        split
        · rfl
        · exact ih _

theorem propsView_updCls (σ : State) (c : ClassId) (f : Cls → Cls) (hf : ∀ cl, propsView (f cl) = propsView cl)
    (x : ClassId) : ((updCls σ c f).classes[x]?).map propsView = (σ.classes[x]?).map propsView := by
  rw [classes_updCls]
  split
  · cases σ.classes[x]? <;> simp [hf]
  · rfl

/-- preparing a compound class touches no `properties` frame -/
theorem propsOf_compoundInit (σ : State) (p c : ClassId) :
    propsOf (compoundInit σ p).1 c = propsOf σ c := by
  unfold propsOf
  rw [(SameShape_compoundInit σ p).mro c]
  apply propsWalk_congr
  intro x
  rw [compoundInit_fst]
  split
  · rfl
  · split
    · exact propsView_updCls σ p setPrepared (fun _ => rfl) x
    · rw [propsView_updCls _ p (setBuilt _ _) (fun _ => rfl) x]
      unfold setOwn
      exact propsView_updCls _ p (fun cl => { cl with own := assocSet cl.own .fieldSchema (.list σ.heap.length) })
        (fun _ => rfl) x

/-- the guard of one step for observed class `c`: the step is not the lazy preparation of a
    class in `c`'s MRO (of `c` itself or of an ancestor) — KF-C06-a -/
def stepGuard (σ : State) (c : ClassId) (s : Step) : Bool :=
  match lazyPrep σ s with
  | none => true
  | some p => !(σ.mroOf c).contains p

/-- the guard along a history, judged in the state each step runs in -/
def histGuard (c : ClassId) : State → List Step → Bool
  | _, [] => true
  | σ, s :: ss => stepGuard σ c s && histGuard c (step σ s).1 ss

theorem length_step_le (σ : State) (s : Step) : σ.classes.length ≤ (step σ s).1.classes.length := by
  rcases step_shape σ s with h | ⟨_, h⟩
  · rw [h.len]; exact Nat.le_refl _
  · rw [h.len]; exact Nat.le_succ _

theorem mroOf_step (σ : State) (s : Step) (c : ClassId) (hc : c < σ.classes.length) :
    (step σ s).1.mroOf c = σ.mroOf c := by
  rcases step_shape σ s with h | ⟨_, h⟩
  · exact h.mro c
  · rw [h.mro c, if_neg (Nat.ne_of_lt hc)]

/-- one step, lazy preparation of an unrelated class included -/
theorem frame_step (σ : State) (hwf : WF σ) (s : Step) (c : ClassId) (hc : c < σ.classes.length)
    (hg : stepGuard σ c s = true) :
    (∀ a, deepLookup (step σ s).1 c a = deepLookup σ c a) ∧ propsOf (step σ s).1 c = propsOf σ c := by
  unfold stepGuard at hg
  cases hl : lazyPrep σ s with
  | none => exact frame σ hwf s hl c hc
  | some p =>
    simp only [hl, Bool.not_eq_true', List.contains_eq_mem, decide_eq_false_iff_not] at hg
    refine ⟨(frame_lazy σ hwf s p hl c).2 hg, ?_⟩
    rcases step_lazy_state σ s p hl with e | ⟨_, e⟩ <;> rw [e]
    exact propsOf_compoundInit σ p c

/-- **Frame, all histories.**  Along every chain of constructor calls and instantiations from a
    well-formed store, a class that existed at the start has at the end exactly the observable
    attributes (lists followed to their contents) and properties it had — provided no step of the
    chain lazily prepares that class or one of its ancestors (KF-C06-a). -/
theorem frame_history : ∀ (ss : List Step) (σ : State), WF σ → ∀ c, c < σ.classes.length →
    histGuard c σ ss = true →
    (∀ a, deepLookup (run σ ss).1 c a = deepLookup σ c a) ∧ propsOf (run σ ss).1 c = propsOf σ c
  | [], _, _, _, _, _ => ⟨fun _ => rfl, rfl⟩
  | s :: ss, σ, hwf, c, hc, hg => by
    simp only [histGuard, Bool.and_eq_true] at hg
    obtain ⟨h1, h2⟩ := frame_step σ hwf s c hc hg.1
    obtain ⟨i1, i2⟩ := frame_history ss (step σ s).1 (WF_step σ hwf s) c
      (Nat.lt_of_lt_of_le hc (length_step_le σ s)) hg.2
    simp only [run]
    exact ⟨fun a => (i1 a).trans (h1 a), i2.trans h2⟩

/-- … as the runner's observation -/
theorem frame_history_observe (ss : List Step) (σ : State) (hwf : WF σ) (c : ClassId)
    (hc : c < σ.classes.length) (hg : histGuard c σ ss = true) :
    observe (run σ ss).1 c = observe σ c := by
  obtain ⟨h1, h2⟩ := frame_history ss σ hwf c hc hg
  simp only [observe, h2]
  congr 1
  exact List.map_congr_left (fun a _ => h1 a)

/-- the MRO of an existing class never changes (so the guard speaks about the same ancestors
    throughout), and the store only grows -/
theorem mroOf_run : ∀ (ss : List Step) (σ : State) (c : ClassId), c < σ.classes.length →
    (run σ ss).1.mroOf c = σ.mroOf c ∧ σ.classes.length ≤ (run σ ss).1.classes.length
  | [], _, _, _ => ⟨rfl, Nat.le_refl _⟩
  | s :: ss, σ, c, hc => by
    obtain ⟨h1, h2⟩ := mroOf_run ss (step σ s).1 c (Nat.lt_of_lt_of_le hc (length_step_le σ s))
    simp only [run]
    exact ⟨h1.trans (mroOf_step σ s c hc), Nat.le_trans (length_step_le σ s) h2⟩

/-- a history without any lazy preparation satisfies the guard for every class -/
theorem histGuard_of_no_lazy (c : ClassId) : ∀ (ss : List Step) (σ : State),
    (∀ (pre : List Step) (s : Step) (post : List Step), ss = pre ++ s :: post →
      lazyPrep (run σ pre).1 s = none) → histGuard c σ ss = true
  | [], _, _ => rfl
  | s :: ss, σ, h => by
    simp only [histGuard, Bool.and_eq_true]
    refine ⟨?_, histGuard_of_no_lazy c ss _ (fun pre s' post e => ?_)⟩
    · have := h [] s ss rfl
      simp only [run] at this
      simp [stepGuard, this]
    · have := h (s :: pre) s' post (by rw [e]; rfl)
      simpa only [run] using this

/-! ## what every history preserves, lazy preparation included (KF-C06-a, the other half) -/

/-- single inheritance: every MRO starts with the class itself, and the MRO of every class in
    it is a suffix of it -/
structure ChainWF (σ : State) : Prop where
  head : ∀ c, c < σ.classes.length → ∃ tl, σ.mroOf c = c :: tl
  suffix : ∀ c x, x ∈ σ.mroOf c → ∃ pre, σ.mroOf c = pre ++ σ.mroOf x ∧ x ∉ pre

theorem ChainWF_sameShape {σ τ : State} (h : ChainWF σ) (hs : SameShape σ τ) : ChainWF τ := by
  refine ⟨fun c hc => ?_, fun c x hx => ?_⟩
  · rw [hs.mro c]; exact h.head c (hs.len ▸ hc)
  · rw [hs.mro c] at hx ⊢; rw [hs.mro x]; exact h.suffix c x hx

theorem ChainWF_derived {σ τ : State} {p : ClassId} (h : ChainWF σ) (hwf : WF σ) (hd : Derived σ τ p) :
    ChainWF τ := by
  have hold : ∀ x, x < σ.classes.length → τ.mroOf x = σ.mroOf x := fun x hx => by
    rw [hd.mro x, if_neg (Nat.ne_of_lt hx)]
  refine ⟨fun c hc => ?_, fun c x hx => ?_⟩
  · rw [hd.mro c]
    split
    · rename_i e; exact ⟨σ.mroOf p, by rw [e]⟩
    · rename_i e
      rw [hd.len] at hc
      exact h.head c (Nat.lt_of_le_of_ne (Nat.le_of_lt_succ hc) e)
  · rw [hd.mro c] at hx ⊢
    split at hx
    · rename_i e
      rw [if_pos e]
      rcases List.mem_cons.1 hx with rfl | hx'
      · exact ⟨[], by rw [hd.mro, if_pos rfl]; rfl, by simp⟩
      · have hlt := hwf.mro_lt p x hx'
        obtain ⟨pre, h1, h2⟩ := h.suffix p x hx'
        refine ⟨σ.classes.length :: pre, by rw [hold x hlt, h1]; rfl, ?_⟩
        simp only [List.mem_cons, not_or]
        exact ⟨Nat.ne_of_lt hlt, h2⟩
    · rename_i e
      rw [if_neg e, hold x (hwf.mro_lt c x hx)]
      exact h.suffix c x hx

theorem ChainWF_step (σ : State) (hwf : WF σ) (h : ChainWF σ) (s : Step) : ChainWF (step σ s).1 := by
  rcases step_shape σ s with hs | ⟨_, hd⟩
  · exact ChainWF_sameShape h hs
  · exact ChainWF_derived h hwf hd

theorem ChainWF_initState (kind : Kind) (defaults : List (Attr × Val)) : ChainWF (initState kind defaults) := by
  refine ⟨fun c hc => ?_, fun c x hx => ?_⟩
  · have : c = 0 := by simp [initState] at hc; exact hc
    subst this; exact ⟨[], rfl⟩
  · cases c with
    | zero =>
      have : x = 0 := by simpa [initState, State.mroOf] using hx
      subst this; exact ⟨[], rfl, by simp⟩
    | succ n => simp [initState, State.mroOf] at hx

/-- the sequence an observed value denotes -/
def dseq : DVal → List Item
  | .list xs | .tuple xs => xs
  | _ => []

theorem seqOf_eq_dseq (σ : State) (c : ClassId) (a : Attr) : seqOf σ c a = dseq (deepLookup σ c a) := by
  unfold seqOf deepLookup
  cases h : σ.lookup c a with
  | none => rfl
  | some v => cases v <;> rfl

theorem optionalOf_eq (σ : State) (c : ClassId) :
    optionalOf σ c = match deepLookup σ c .optional with | .atom (.bool b) => b | _ => false := by
  unfold optionalOf deepLookup
  cases h : σ.lookup c .optional with
  | none => rfl
  | some v => cases v <;> rfl

/-- a store extension leaves the members every old class is supplied with unchanged -/
theorem suppliedOf_pre (σ τ : State) (hwf : WF σ) (hp : Pre σ τ) (c : ClassId) (hc : c < σ.classes.length) :
    suppliedOf τ c = suppliedOf σ c := by
  have hm : τ.mroOf c = σ.mroOf c := by simp [State.mroOf, hp.cls c hc]
  have hheap : ∀ r, r < σ.heap.length → τ.items r = σ.items r := fun r hr => by
    simp [State.items, hp.heap r hr]
  rw [suppliedOf_eq, suppliedOf_eq, ownerOf_eq, ownerOf_eq, hm]
  have hfn : ∀ x ∈ σ.mroOf c, ownerFn τ .fieldSchema x = ownerFn σ .fieldSchema x := by
    intro x hx
    simp [ownerFn, State.ownOf, hp.cls x (hwf.mro_lt c x hx)]
  rw [findSome?_ext' _ _ _ hfn]
  cases hfound : (σ.mroOf c).findSome? (ownerFn σ .fieldSchema) with
  | none => rfl
  | some xv =>
    obtain ⟨x, v⟩ := xv
    obtain ⟨hxin, hx⟩ := ownerFn_some hfound
    apply suppliedFrom_eq hwf hheap x v _ hx
    simp [builtOf, hp.cls x (hwf.mro_lt c x hxin)]

/-- one step, any step: everything but `field_schema` is kept, and of `field_schema` the members
    the class is supplied with -/
theorem frame_step_any (σ : State) (hwf : WF σ) (hch : ChainWF σ) (s : Step) (c : ClassId)
    (hc : c < σ.classes.length) :
    (∀ a, a ≠ .fieldSchema → deepLookup (step σ s).1 c a = deepLookup σ c a) ∧
    propsOf (step σ s).1 c = propsOf σ c ∧
    suppliedOf (step σ s).1 c = suppliedOf σ c := by
  cases hl : lazyPrep σ s with
  | none =>
    obtain ⟨h1, h2⟩ := frame σ hwf s hl c hc
    exact ⟨fun a _ => h1 a, h2, suppliedOf_pre σ _ hwf (step_pre σ s hl) c hc⟩
  | some p =>
    refine ⟨(frame_lazy σ hwf s p hl c).1, ?_, ?_⟩
    · rcases step_lazy_state σ s p hl with e | ⟨_, e⟩ <;> rw [e]
      exact propsOf_compoundInit σ p c
    · by_cases hin : p ∈ σ.mroOf c
      · rcases step_lazy_state σ s p hl with e | ⟨hp, e⟩ <;> rw [e]
        obtain ⟨pre, hm, hpre⟩ := hch.suffix c p hin
        obtain ⟨tl, htl⟩ := hch.head p hp
        exact suppliedOf_preparedFrom (compoundInit_preparedFrom σ p hp) hwf c pre tl hm htl hpre
      · rcases step_lazy_state σ s p hl with e | ⟨hp, e⟩ <;> rw [e]
        exact suppliedOf_preparedFrom_unrelated (compoundInit_preparedFrom σ p hp) hwf c hin

/-- **What every history preserves.**  Along every chain of constructor calls and
    instantiations whatsoever — lazily preparing instantiations of the class or of its ancestors
    included — a class that existed at the start keeps every attribute other than `field_schema`,
    its properties, and the user-supplied members of its `field_schema`; so all a lazy
    preparation can change is which *generated* year/month/day members the list holds. -/
theorem frame_history_any : ∀ (ss : List Step) (σ : State), WF σ → ChainWF σ → ∀ c, c < σ.classes.length →
    (∀ a, a ≠ .fieldSchema → deepLookup (run σ ss).1 c a = deepLookup σ c a) ∧
    propsOf (run σ ss).1 c = propsOf σ c ∧
    suppliedOf (run σ ss).1 c = suppliedOf σ c
  | [], _, _, _, _, _ => ⟨fun _ _ => rfl, rfl, rfl⟩
  | s :: ss, σ, hwf, hch, c, hc => by
    obtain ⟨h1, h2, h3⟩ := frame_step_any σ hwf hch s c hc
    obtain ⟨i1, i2, i3⟩ := frame_history_any ss (step σ s).1 (WF_step σ hwf s) (ChainWF_step σ hwf hch s) c
      (Nat.lt_of_lt_of_le hc (length_step_le σ s))
    simp only [run]
    exact ⟨fun a ha => (i1 a ha).trans (h1 a ha), i2.trans h2, i3.trans h3⟩

/-- … in the runner's terms: the observation without `field_schema` is unchanged … -/
theorem frame_history_noFields (ss : List Step) (σ : State) (hwf : WF σ) (hch : ChainWF σ) (c : ClassId)
    (hc : c < σ.classes.length) : observeNoFields (run σ ss).1 c = observeNoFields σ c := by
  obtain ⟨h1, h2, _⟩ := frame_history_any ss σ hwf hch c hc
  simp only [observeNoFields, h2]
  congr 1
  apply List.map_congr_left
  intro a ha
  exact h1 a (by simpa using (List.mem_filter.1 ha).2)

/-- … and the member list the class gets when (re)prepared is the same at every point of every
    history: the class a constructor returns behaves the same whether or not the original — or
    anything else — was instantiated before -/
theorem preparedOf_history (ss : List Step) (σ : State) (hwf : WF σ) (hch : ChainWF σ) (c : ClassId)
    (hc : c < σ.classes.length) : preparedOf (run σ ss).1 c = preparedOf σ c := by
  obtain ⟨h1, _, h3⟩ := frame_history_any ss σ hwf hch c hc
  unfold preparedOf
  rw [h3, optionalOf_eq, h1 .optional (by decide), ← optionalOf_eq]

/-! ## the full statement over histories, its guarded form, non-vacuity -/

/-- **Full statement over histories**: no chain of steps changes any observable attribute of a
    class that existed before it.  False as it stands (KF-C06-a). -/
def C06_Full_history : Prop :=
  ∀ (σ : State) (ss : List Step) (c : ClassId) (a : Attr), WF σ → c < σ.classes.length →
    deepLookup (run σ ss).1 c a = deepLookup σ c a

theorem C06_full_history_fails : ¬ C06_Full_history := by
  intro h
  exact C06_full_fails (fun σ s c a hwf hc => by simpa only [run] using h σ [s] c a hwf hc)

/-- `C06_Full_history` under the decidable guard `histGuard`: no step lazily prepares the
    observed class or one of its ancestors -/
theorem c06_histories_partial (σ : State) (ss : List Step) (c : ClassId) (a : Attr) (hwf : WF σ)
    (hc : c < σ.classes.length) (hg : histGuard c σ ss = true) :
    deepLookup (run σ ss).1 c a = deepLookup σ c a :=
  (frame_history ss σ hwf c hc hg).1 a

/-- a Sequence type: `named → using → of → instantiate with overrides → using` -/
def chain0 : State := initState .seq [(.name, .none), (.optional, .bool false), (.memberSchema, .none)]

def chainSteps : List Step :=
  [.named 0 (some ['a']),
   .using 1 [(.attr .optional, .bool true), (.attr .validators, .labels [1, 2]), (.properties, .pairs [(['p'], 1)])],
   .of 2 [1],
   .inst 3 [(.attr .optional, .bool false), (.attr .name, .str ['z'])],
   .using 3 [(.attr .validators, .labels [7])]]

theorem chain0_wf : WF chain0 := WF_of_wfB _ (by decide)

/-- every call of the chain succeeds and four classes are derived -/
example : (run chain0 chainSteps).2 = [.ok, .ok, .ok, .ok, .ok] ∧
    (run chain0 chainSteps).1.classes.length = 5 := by decide

/-- the first class (the built-in type's subclass the chain starts from) reads at the end as it
    read at the start … -/
example : observe (run chain0 chainSteps).1 0 = observe chain0 0 :=
  frame_history_observe chainSteps chain0 chain0_wf 0 (by decide) (by decide)

/-- … and the second class (returned by `named`) reads at the end as it read when it was returned -/
example : observe (run chain0 chainSteps).1 1 = observe (step chain0 (.named 0 (some ['a']))).1 1 :=
  frame_history_observe chainSteps.tail (step chain0 (.named 0 (some ['a']))).1
    (WF_step chain0 chain0_wf _) 1 (by decide) (by decide)

/-- the chain is not a no-op: the derived classes differ from the classes they came from -/
example :
    let τ := (run chain0 chainSteps).1
    deepLookup τ 0 .name = .atom .none ∧ deepLookup τ 1 .name = .atom (.str ['a']) ∧
    deepLookup τ 1 .optional = .atom (.bool false) ∧ deepLookup τ 2 .optional = .atom (.bool true) ∧
    deepLookup τ 2 .validators = .list [.label 1, .label 2] ∧ deepLookup τ 1 .validators = .absent ∧
    deepLookup τ 3 .memberSchema = .atom (.cls 1) ∧ deepLookup τ 2 .memberSchema = .atom .none ∧
    deepLookup τ 4 .validators = .list [.label 7] ∧ deepLookup τ 3 .validators = .list [.label 1, .label 2] ∧
    propsOf τ 2 = [(['p'], 1)] ∧ propsOf τ 1 = [] := by decide

/-- "the returned class is new": `of` on class 2 returns class 3, a direct subclass of class 2 -/
example : (step (run chain0 (chainSteps.take 2)).1 (.of 2 [1])).1.mroOf 3 = [3, 2, 1, 0] := by decide
example : isCtor (.of 2 [1]) = true ∧ (step (run chain0 (chainSteps.take 2)).1 (.of 2 [1])).2 = .ok := by decide

/-- the guard with a lazy preparation *in* the history: a DateYYYYMMDD-like root, two classes
    derived from it, then the first plain instantiation of class 1 — a sibling of class 2 and a
    child of class 0, so neither is affected -/
def dateSteps : List Step :=
  [.using 0 [(.attr .optional, .bool true)], .named 0 (some ['d']), .inst 1 []]

example : lazyPrep (run (initState .compound []) (dateSteps.take 2)).1 (.inst 1 []) = some 1 := by decide
example : histGuard 0 (initState .compound []) dateSteps = true := by decide
example : observe (run (initState .compound []) dateSteps).1 0 = observe (initState .compound []) 0 :=
  frame_history_observe dateSteps _ (WF_of_wfB _ (by decide)) 0 (by decide) (by decide)
/-- … while class 1 itself did change (the preparation is not a no-op) -/
example : deepLookup (run (initState .compound []) dateSteps).1 1 .fieldSchema
    ≠ deepLookup (run (initState .compound []) (dateSteps.take 2)).1 1 .fieldSchema := by decide

/-- KF-C06-a along a history: the witness chain is rejected by the guard for class 0, its
    `field_schema` does change, and `frame_history_noFields` / `preparedOf_history` say what does not -/
def kfSteps : List Step := [.inst 0 [], .using 0 [(.attr .optional, .bool true)], .inst 1 []]

example : histGuard 0 (initState .compound []) kfSteps = false := by decide
example : deepLookup (run (initState .compound []) kfSteps).1 0 .fieldSchema
    ≠ deepLookup (initState .compound []) 0 .fieldSchema := by decide
example : observeNoFields (run (initState .compound []) kfSteps).1 0 = observeNoFields (initState .compound []) 0 :=
  frame_history_noFields kfSteps _ (WF_of_wfB _ (by decide)) (ChainWF_initState _ _) 0 (by decide)
example : preparedOf (run (initState .compound []) kfSteps).1 0 = preparedOf (initState .compound []) 0 :=
  preparedOf_history kfSteps _ (WF_of_wfB _ (by decide)) (ChainWF_initState _ _) 0 (by decide)

/-! ## fix 33c5842: a user-supplied member list is taken as it is, whatever members it reuses -/

/-- `Base = DateYYYYMMDD.using(); Base(); y, m, d = Base.field_schema;
    Custom = Base.using(field_schema=[y, m, d.using(optional=True)]); Custom()` -/
def reuseSteps : List Step :=
  [.inst 0 [], .using 0 [(.attr .fieldSchema, .memberRefs [.inr (0, 0, none), .inr (0, 1, none), .inr (0, 2, some true)])],
   .inst 1 []]

/-- the custom class keeps [year, month, day'] — the members the prepared base generated are not
    dropped (under 71fc8fd's marker rule the list became [day', month, day]) -/
example : seqOf (run (initState .compound []) reuseSteps).1 1 .fieldSchema
    = [.gen "year".toList "%04i".toList false, .gen "month".toList "%02i".toList false,
       .gen "day".toList "%02i".toList true] := by decide

/-- while a class that merely inherits the list the base's preparation built is regenerated from what
    that preparation started from (nothing) with its own `optional` -/
example : preparedOf (run (initState .compound []) [.inst 0 [], .using 0 [(.attr .optional, .bool true)]]).1 1
    = [.gen "year".toList "%04i".toList true, .gen "month".toList "%02i".toList true,
       .gen "day".toList "%02i".toList true] := by decide

end Flatland.C06.Proofs
