/-
C09 — Sequence elements behave as Python lists of member elements.

Main theorem `step_refines` / `run_refines`: for a List / Array / MultiValue whose member schema
is a scalar class, every list-protocol call leaves the items — read as the `(value, u)` each
member compares by — exactly where the same call on a plain Python list of the adapted values
leaves them, returns what the list returns and raises what the list raises; every member stays
an element of the member schema; a List's slot `i` stays named `i`.
-/
import Flatland.C09
import Flatland.Spec.C09
import Proofs.Lemmas.PyListMap
import Proofs.Lemmas.PyListMem
import Proofs.Lemmas.TreeSig
namespace Flatland.C09.Proofs
open Flatland.Tree Flatland.PyList Flatland.C09 Flatland.C09.Spec

/-! ### the invariant of a sequence over a scalar member schema -/

/-- an item of the underlying list is what the class stores: an element of the member schema,
    or (List) a slot holding exactly one -/
def ItemOK (m : Schema) (isList : Bool) (x : Node) : Prop :=
  if isList then x.sch = slotSchema ∧ ∃ el, x.kids = [el] ∧ el.sch = m else x.sch = m

structure SeqOK (m : Schema) (n : Node) : Prop where
  member : n.sch.member = some m
  scalar : ScalarSchema m
  items : ∀ x ∈ n.kids, ItemOK m (decide (n.kind = .list)) x

/-- the adapted `(value, u)` an argument contributes -/
def adaptArg (m : Schema) : Arg → Sig
  | .plain r => (match adaptScalar m.kind r with | some (v, u, _) => .sc v u | none => .sc .none [])
  | .elem e => sig e

/-- plain arguments have a shape the scalar adapters are defined on (None / int / str);
    Element arguments are elements of the member schema -/
def ArgOK (m : Schema) : Arg → Prop
  | .plain r => (adaptScalar m.kind r).isSome = true
  | .elem e => e.sch = m

theorem wrap_ok (m : Schema) (hm : ScalarSchema m) (a : Arg) (ha : ArgOK m a) (next : Nat) :
    ∃ w next', wrap m a next = (.ok w, next') ∧ sig w = adaptArg m a ∧ w.sch = m := by
  cases a with
  | elem e => exact ⟨e, next, rfl, rfl, ha⟩
  | plain r =>
    simp only [ArgOK] at ha
    obtain ⟨⟨v, u, ok⟩, hv⟩ := Option.isSome_iff_exists.mp ha
    obtain ⟨w, hw, hs, hh, _⟩ := construct_scalar m hm r none [] next v u ok hv
    refine ⟨w, next + 1, hw, ?_, ?_⟩
    · simp [adaptArg, hv, hs]
    · have : w.hdr.2.2.1 = m := by rw [hh]
      exact this

theorem wrapAll_ok (m : Schema) (hm : ScalarSchema m) (as : List Arg) (ha : ∀ a ∈ as, ArgOK m a) (next : Nat) :
    ∃ ws next', wrapAll m as next = (.ok ws, next') ∧ ws.map sig = as.map (adaptArg m) ∧
      ∀ w ∈ ws, w.sch = m := by
  induction as generalizing next with
  | nil => exact ⟨[], next, rfl, rfl, by simp⟩
  | cons a as ih =>
    obtain ⟨w, n1, hw, hs, ht⟩ := wrap_ok m hm a (ha a (by simp)) next
    obtain ⟨ws, n2, hws, hss, hts⟩ := ih (fun x hx => ha x (by simp [hx])) n1
    refine ⟨w :: ws, n2, ?_, ?_, ?_⟩
    · simp [wrapAll, hw, hws]
    · simp [hs, hss]
    · intro x hx
      rcases List.mem_cons.mp hx with h | h
      · rw [h]; exact ht
      · exact hts x h

theorem itemOK_withKey (m : Schema) (b : Bool) (x : Node) (k : Str) :
    ItemOK m b (x.withKey k) ↔ ItemOK m b x := by
  cases x; rfl

theorem itemOK_renumberFrom (m : Schema) (b : Bool) (k : Nat) (l : List Node)
    (h : ∀ x ∈ l, ItemOK m b x) : ∀ x ∈ renumberFrom k l, ItemOK m b x := by
  induction l generalizing k with
  | nil => simp [renumberFrom]
  | cons y ys ih =>
    intro x hx
    simp only [renumberFrom, List.mem_cons] at hx
    rcases hx with hx | hx
    · rw [hx, itemOK_withKey]; exact h y (by simp)
    · exact ih (k + 1) (fun z hz => h z (by simp [hz])) x hx

theorem itemOK_renumber (m : Schema) (b : Bool) (l : List Node)
    (h : ∀ x ∈ l, ItemOK m b x) : ∀ x ∈ renumber l, ItemOK m b x := itemOK_renumberFrom m b 0 l h

theorem itemOK_mkSlot (m : Schema) (id lst nm : Nat) (w : Node) (hw : w.sch = m) :
    ItemOK m true (mkSlot id lst nm w) := by
  refine ⟨rfl, w.withParent (some id), rfl, ?_⟩
  cases w; exact hw

theorem itemOK_withParent (m : Schema) (p : Option Nat) (w : Node) (hw : w.sch = m) :
    ItemOK m false (w.withParent p) := by
  cases w; exact hw


/-! ### the call-by-call correspondence with the reference list -/

def absOut : Out → ROut Sig
  | .ok => .ok | .exc e => .exc e | .nat n => .nat n | .bool b => .bool b
  | .node x => .item (sig x) | .nodes xs => .items (xs.map sig) | .value _ => .ok

/-- the same call on the reference list of adapted values (`none`: not a list-protocol call
    with a reference — `sort()` without key, `set` of a non-list, `set_default`) -/
def adaptOp (m : Schema) : SeqOp → Option (ROp Sig)
  | .append a => some (.append (adaptArg m a))
  | .extend as => some (.extend (as.map (adaptArg m)))
  | .iadd as => some (.extend (as.map (adaptArg m)))
  | .insert i a => some (.insert i (adaptArg m a))
  | .setitem i a => some (.setitem i (adaptArg m a))
  | .setslice s as => some (.setslice s (as.map (adaptArg m)))
  | .delitem i => some (.delitem i)
  | .delslice s => some (.delslice s)
  | .pop i => some (.pop i)
  | .remove a => some (.remove (adaptArg m a))
  | .reverse => some .reverse
  | .clear => some (.assign [])        -- `l.clear()` is `l[:] = []`
  | .imul _ => none                    -- `*=` is outside the property's operation list (see `positional_step`)
  | .sort (some k) rev => some (.sort (sigLe k rev))
  | .sort none _ => none
  | .set (.list xs) => some (.assign (xs.map (fun r => adaptArg m (.plain r))))
  | .set _ => none
  | .setDefault => none
  | .len => some .len
  | .getitem i => some (.getitem i)
  | .getslice s => some (.getslice s)
  | .contains a => some (.contains (adaptArg m a))
  | .index a => some (.index (adaptArg m a))
  | .count a => some (.count (adaptArg m a))

/-- the arguments of the call are plain values of an adaptable shape or elements of the
    member schema -/
def OpOK (m : Schema) : SeqOp → Prop
  | .append a | .insert _ a | .setitem _ a | .remove a | .contains a | .index a | .count a => ArgOK m a
  | .extend as | .iadd as | .setslice _ as => ∀ a ∈ as, ArgOK m a
  | .set (.list xs) => ∀ r ∈ xs, ArgOK m (.plain r)
  | _ => True

/-- what one call establishes -/
structure StepOK (m : Schema) (n : Node) (rop : ROp Sig) (r : StepR) (checkOut : Bool) : Prop where
  itemsEq : C09.items r.node = (refStep (C09.items n) rop).1
  outEq : checkOut = true → absOut r.out = (refStep (C09.items n) rop).2
  inv : SeqOK m r.node

theorem seqOK_withKids {m : Schema} {n : Node} (h : SeqOK m n) (ks : List Node)
    (hk : ∀ x ∈ ks, ItemOK m (decide (n.kind = .list)) x) : SeqOK m (n.withKids ks) := by
  cases n; exact ⟨h.member, h.scalar, hk⟩

@[simp] theorem kids_withKids (n : Node) (ks : List Node) : (n.withKids ks).kids = ks := by
  cases n; rfl

@[simp] theorem items_withKids (n : Node) (ks : List Node) : items (n.withKids ks) = ks.map sig := by
  cases n; rfl

theorem appendEl_ok {m : Schema} {n : Node} (h : SeqOK m n) (w : Node) (hw : w.sch = m) (next : Nat) :
    items (appendEl n w next).1 = items n ++ [sig w] ∧ SeqOK m (appendEl n w next).1 := by
  unfold appendEl
  by_cases hl : n.kind = .list
  · simp only [hl, if_true]
    refine ⟨by simp [items], seqOK_withKids h _ ?_⟩
    intro x hx
    simp only [hl, decide_true]
    rcases List.mem_append.mp hx with hx | hx
    · simpa [hl] using h.items x hx
    · simp only [List.mem_singleton] at hx; rw [hx]; exact itemOK_mkSlot m _ _ _ w hw
  · simp only [hl, if_false]
    refine ⟨by simp [items], seqOK_withKids h _ ?_⟩
    intro x hx
    simp only [hl, decide_false]
    rcases List.mem_append.mp hx with hx | hx
    · simpa [hl] using h.items x hx
    · simp only [List.mem_singleton] at hx; rw [hx]; exact itemOK_withParent m _ w hw

theorem append_refines {m : Schema} {n : Node} (h : SeqOK m n) (a : Arg) (ha : ArgOK m a) (next : Nat) :
    StepOK m n (.append (adaptArg m a)) (seqStep n (.append a) next) true := by
  obtain ⟨w, n1, hw, hs, ht⟩ := wrap_ok m h.scalar a ha next
  have hap := appendEl_ok h w ht n1
  unfold seqStep
  simp only [h.member, hw]
  exact ⟨by simp [hap.1, hs, refStep], by intro _; rfl, hap.2⟩

theorem extendArgs_ok {m : Schema} {n : Node} (h : SeqOK m n) (as : List Arg) (ha : ∀ a ∈ as, ArgOK m a)
    (next : Nat) :
    (extendArgs m n as next).2.2 = none ∧
      items (extendArgs m n as next).1 = items n ++ as.map (adaptArg m) ∧
      SeqOK m (extendArgs m n as next).1 := by
  induction as generalizing n next with
  | nil => simp [extendArgs, h]
  | cons a as ih =>
    obtain ⟨w, n1, hw, hs, ht⟩ := wrap_ok m h.scalar a (ha a (by simp)) next
    have hap := appendEl_ok h w ht n1
    have := ih hap.2 (fun x hx => ha x (by simp [hx])) (appendEl n w n1).2
    simp only [extendArgs, hw]
    refine ⟨this.1, ?_, this.2.2⟩
    rw [this.2.1, hap.1, hs]; simp

theorem extend_refines {m : Schema} {n : Node} (h : SeqOK m n) (as : List Arg) (ha : ∀ a ∈ as, ArgOK m a)
    (next : Nat) :
    StepOK m n (.extend (as.map (adaptArg m))) (seqStep n (.extend as) next) true ∧
    StepOK m n (.extend (as.map (adaptArg m))) (seqStep n (.iadd as) next) true := by
  have he := extendArgs_ok h as ha next
  constructor <;>
  · unfold seqStep
    simp only [h.member, he.1]
    exact ⟨by simp [he.2.1, refStep], by intro _; rfl, he.2.2⟩


/-- the generic shape of a mutating call: the new underlying list is `f kids`, renumbered for a
    List; all its items are old items or well-formed new ones -/
theorem finish {m : Schema} {n : Node} (h : SeqOK m n) (ks : List Node)
    (hk : ∀ x ∈ ks, ItemOK m (decide (n.kind = .list)) x) :
    items (n.withKids (if n.kind = .list then renumber ks else ks)) = ks.map sig ∧
    SeqOK m (n.withKids (if n.kind = .list then renumber ks else ks)) := by
  by_cases hl : n.kind = .list
  · simp only [hl, if_true, items_withKids, map_sig_renumber, true_and]
    exact seqOK_withKids h _ (by simpa [hl] using itemOK_renumber m true ks (by simpa [hl] using hk))
  · simp only [hl, if_false, items_withKids, true_and]
    exact seqOK_withKids h _ hk

theorem insert_refines {m : Schema} {n : Node} (h : SeqOK m n) (i : Int) (a : Arg) (ha : ArgOK m a) (next : Nat) :
    StepOK m n (.insert i (adaptArg m a)) (seqStep n (.insert i a) next) true := by
  obtain ⟨w, n1, hw, hs, ht⟩ := wrap_ok m h.scalar a ha next
  unfold seqStep
  simp only [h.member, hw]
  by_cases hl : n.kind = .list
  · simp only [hl, decide_true, if_true]
    refine ⟨by simp [refStep, items, insertAt_map, hs], by intro _; rfl, seqOK_withKids h _ ?_⟩
    simp only [hl, decide_true]
    apply itemOK_renumber
    intro x hx
    rcases mem_insertAt hx with hx | hx
    · simpa [hl] using h.items x hx
    · rw [hx]; exact itemOK_mkSlot m _ _ _ w ht
  · simp only [hl, decide_false, Bool.false_eq_true, if_false]
    refine ⟨by simp [refStep, items, insertAt_map, hs], by intro _; rfl, seqOK_withKids h _ ?_⟩
    simp only [hl, decide_false]
    intro x hx
    rcases mem_insertAt hx with hx | hx
    · simpa [hl] using h.items x hx
    · rw [hx]; exact itemOK_withParent m _ w ht

theorem delitem_refines {m : Schema} {n : Node} (h : SeqOK m n) (i : Int) (next : Nat) :
    StepOK m n (.delitem i) (seqStep n (.delitem i) next) true := by
  unfold seqStep
  simp only [h.member]
  have hd := delItem_map sig n.kids i
  cases hdi : delItem n.kids i with
  | none =>
    rw [hdi] at hd
    have : delItem (items n) i = none := by simpa [items] using hd.symm
    exact ⟨by simp [refStep, this, excOut], by intro _; simp [refStep, this, excOut, absOut], h⟩
  | some ks =>
    rw [hdi] at hd
    have hr : delItem (items n) i = some (ks.map sig) := by simpa [items] using hd.symm
    have hn : ∃ k, normIndex n.kids.length i = some k := by
      unfold delItem at hdi
      split at hdi
      · cases hdi
      · exact ⟨_, by assumption⟩
    obtain ⟨k, hk⟩ := hn
    simp only [hk]
    have hf := finish h ks (fun x hx => h.items x (mem_delItem hdi hx))
    exact ⟨by simp [refStep, hr, hf.1], by intro _; simp [refStep, hr, absOut], hf.2⟩


theorem delslice_refines {m : Schema} {n : Node} (h : SeqOK m n) (sl : Slice) (next : Nat) :
    StepOK m n (.delslice sl) (seqStep n (.delslice sl) next) true := by
  unfold seqStep
  simp only [h.member]
  have hd := delSlice_map sig n.kids sl
  cases hdi : delSlice n.kids sl with
  | error e =>
    rw [hdi] at hd
    have : delSlice (items n) sl = .error e := by simpa [items, Except.map] using hd.symm
    exact ⟨by simp [refStep, this, excOut], by intro _; simp [refStep, this, excOut, absOut], h⟩
  | ok ks =>
    rw [hdi] at hd
    have hr : delSlice (items n) sl = .ok (ks.map sig) := by simpa [items, Except.map] using hd.symm
    have hf := finish h ks (fun x hx => h.items x (mem_delSlice hdi hx))
    exact ⟨by simp [refStep, hr, hf.1], by intro _; simp [refStep, hr, absOut], hf.2⟩

theorem reverse_refines {m : Schema} {n : Node} (h : SeqOK m n) (next : Nat) :
    StepOK m n .reverse (seqStep n .reverse next) true := by
  unfold seqStep
  simp only [h.member]
  have hf := finish h n.kids.reverse (fun x hx => h.items x (List.mem_reverse.mp hx))
  exact ⟨by rw [hf.1]; simp [refStep, items], by intro _; rfl, hf.2⟩

theorem scalarMembers_of_ok {m : Schema} {n : Node} (h : SeqOK m n)
    (hk : n.kind = .list ∨ n.kind = .array ∨ n.kind = .multi) : scalarMembers n = true := by
  unfold scalarMembers members children
  have hsc : ∀ e : Node, e.sch = m → (e.kind == SKind.integer || e.kind == SKind.string) = true := by
    intro e he
    have := h.scalar
    unfold ScalarSchema at this
    rcases this with hh | hh <;> simp [Node.kind, he, hh]
  rw [List.all_eq_true]
  intro e he
  rcases hk with hk | hk | hk
  · simp only [hk] at he
    obtain ⟨s, hs, hes⟩ := List.mem_flatMap.mp he
    have := h.items s hs
    simp only [hk, decide_true, ItemOK, if_true] at this
    obtain ⟨_, el, hel, hm⟩ := this
    rw [hel] at hes
    simp only [List.mem_singleton] at hes
    rw [hes]; exact hsc el hm
  · simp only [hk] at he
    have := h.items e he
    simp only [hk, ItemOK] at this
    exact hsc e (by simpa using this)
  · simp only [hk] at he
    have := h.items e he
    simp only [hk, ItemOK] at this
    exact hsc e (by simpa using this)

theorem sort_refines {m : Schema} {n : Node} (h : SeqOK m n)
    (hk : n.kind = .list ∨ n.kind = .array ∨ n.kind = .multi) (k : SortKey) (rev : Bool) (next : Nat) :
    StepOK m n (.sort (sigLe k rev)) (seqStep n (.sort (some k) rev) next) true := by
  unfold seqStep
  simp only [h.member, scalarMembers_of_ok h hk, if_true]
  have hf := finish h (sortBy (sortLe k rev) n.kids) (fun x hx => h.items x (mem_sortBy.mp hx))
  refine ⟨?_, by intro _; rfl, hf.2⟩
  rw [hf.1]
  simp only [refStep, items]
  exact sortBy_map sig (sortLe k rev) (sigLe k rev) (fun a b => rfl) n.kids

theorem pop_refines {m : Schema} {n : Node} (h : SeqOK m n) (i : Option Int) (next : Nat) :
    StepOK m n (.pop i) (seqStep n (.pop i) next) true := by
  unfold seqStep
  simp only [h.member]
  have hd := popAt_map sig n.kids (i.getD (-1))
  cases hdi : popAt n.kids (i.getD (-1)) with
  | none =>
    rw [hdi] at hd
    have : popAt (items n) (i.getD (-1)) = none := by simpa [items] using hd.symm
    exact ⟨by simp [refStep, this, excOut], by intro _; simp [refStep, this, excOut, absOut], h⟩
  | some p =>
    obtain ⟨x, ks⟩ := p
    rw [hdi] at hd
    have hr : popAt (items n) (i.getD (-1)) = some (sig x, ks.map sig) := by simpa [items] using hd.symm
    have hm := mem_popAt hdi
    by_cases hl : n.kind = .list
    · simp only [hl, if_true]
      refine ⟨by simp [refStep, hr], by intro _; simp [refStep, hr, absOut], seqOK_withKids h _ ?_⟩
      simp only [hl, decide_true]
      exact itemOK_renumber m true ks (fun y hy => by simpa [hl] using h.items y (hm.2 y hy))
    · simp only [hl, if_false]
      refine ⟨by simp [refStep, hr], by intro _; simp [refStep, hr, absOut], seqOK_withKids h _ ?_⟩
      exact fun y hy => h.items y (hm.2 y hy)


theorem eqv_sig (w : Node) : ∀ a : Node, eqv a w = (fun x : Sig => x == sig w) (sig a) := fun _ => rfl

theorem remove_refines {m : Schema} {n : Node} (h : SeqOK m n) (a : Arg) (ha : ArgOK m a) (next : Nat) :
    StepOK m n (.remove (adaptArg m a)) (seqStep n (.remove a) next) true := by
  obtain ⟨w, n1, hw, hs, ht⟩ := wrap_ok m h.scalar a ha next
  unfold seqStep
  simp only [h.member, hw]
  have hfi := findIdx?_map' sig (fun x => eqv x w) (fun x => x == sig w) (eqv_sig w) n.kids
  cases hdi : n.kids.findIdx? (fun x => eqv x w) with
  | none =>
    rw [hdi] at hfi
    have : removeFirst (fun x => x == adaptArg m a) (items n) = none := by
      simp [removeFirst, items, ← hs, hfi]
    exact ⟨by simp [refStep, this, excOut], by intro _; simp [refStep, this, excOut, absOut], h⟩
  | some k =>
    rw [hdi] at hfi
    have hr : removeFirst (fun x => x == adaptArg m a) (items n) = some ((n.kids.eraseIdx k).map sig) := by
      simp [removeFirst, items, ← hs, hfi, map_eraseIdx']
    have hf := finish h (n.kids.eraseIdx k) (fun x hx => h.items x (List.mem_of_mem_eraseIdx hx))
    exact ⟨by simp [refStep, hr, hf.1], by intro _; simp [refStep, hr, absOut], hf.2⟩

theorem query_refines {m : Schema} {n : Node} (h : SeqOK m n) (a : Arg) (ha : ArgOK m a) (next : Nat) :
    StepOK m n (.contains (adaptArg m a)) (seqStep n (.contains a) next) true ∧
    StepOK m n (.index (adaptArg m a)) (seqStep n (.index a) next) true ∧
    StepOK m n (.count (adaptArg m a)) (seqStep n (.count a) next) true := by
  obtain ⟨w, n1, hw, hs, ht⟩ := wrap_ok m h.scalar a ha next
  refine ⟨?_, ?_, ?_⟩
  · unfold seqStep
    simp only [h.member, hw]
    refine ⟨rfl, ?_, h⟩
    intro _
    simp only [refStep, absOut, items, ← hs]
    rw [containsBy_map sig (fun x => eqv x w) (fun x => x == sig w) (eqv_sig w)]
  · unfold seqStep
    simp only [h.member, hw]
    have hfi := indexOf_map sig (fun x => eqv x w) (fun x => x == sig w) (eqv_sig w) n.kids
    cases hdi : indexOf (fun x => eqv x w) n.kids with
    | none =>
      rw [hdi] at hfi
      exact ⟨by simp [refStep, items, ← hs, hfi, excOut], by intro _; simp [refStep, items, ← hs, hfi, excOut, absOut], h⟩
    | some k =>
      rw [hdi] at hfi
      exact ⟨by simp [refStep, items, ← hs, hfi], by intro _; simp [refStep, items, ← hs, hfi, absOut], h⟩
  · unfold seqStep
    simp only [h.member, hw]
    refine ⟨rfl, ?_, h⟩
    intro _
    simp only [refStep, absOut, items, ← hs]
    rw [countOf_map sig (fun x => eqv x w) (fun x => x == sig w) (eqv_sig w)]

theorem len_refines {m : Schema} {n : Node} (h : SeqOK m n) (next : Nat) :
    StepOK m n .len (seqStep n .len next) true := by
  unfold seqStep
  simp only [h.member]
  exact ⟨rfl, by intro _; simp [refStep, absOut, items], h⟩

theorem getslice_refines {m : Schema} {n : Node} (h : SeqOK m n) (sl : Slice) (next : Nat) :
    StepOK m n (.getslice sl) (seqStep n (.getslice sl) next) true := by
  unfold seqStep
  simp only [h.member]
  have hd := getSlice_map sig n.kids sl
  cases hdi : getSlice n.kids sl with
  | error e =>
    rw [hdi] at hd
    have : getSlice (items n) sl = .error e := by simpa [items, Except.map] using hd.symm
    exact ⟨by simp [refStep, this, excOut], by intro _; simp [refStep, this, excOut, absOut], h⟩
  | ok xs =>
    rw [hdi] at hd
    have hr : getSlice (items n) sl = .ok (xs.map sig) := by simpa [items, Except.map] using hd.symm
    refine ⟨by simp [refStep, hr], ?_, h⟩
    intro _
    simp only [refStep, hr, absOut]
    by_cases hl : n.kind = .list
    · simp only [hl, if_true]
      congr 1
      have hall : ∀ x ∈ xs, ItemOK m true x := fun x hx => by simpa [hl] using h.items x (mem_getSlice hdi hx)
      clear hdi hd hr
      induction xs with
      | nil => rfl
      | cons x xs ih =>
        have hx := hall x (by simp)
        simp only [ItemOK, if_true] at hx
        obtain ⟨hsl, el, hel, _⟩ := hx
        simp only [List.flatMap_cons, List.map_append, List.map_cons, hel]
        rw [ih (fun y hy => hall y (by simp [hy]))]
        cases x with
        | mk i s kids =>
          simp only [Node.kids] at hel
          simp only [Node.sch] at hsl
          rw [hel, sig_slot i s el [] (by rw [hsl]; rfl)]
          rfl
    · simp only [hl, if_false]

theorem getitem_refines {m : Schema} {n : Node} (h : SeqOK m n) (i : Int) (next : Nat) :
    StepOK m n (.getitem i) (seqStep n (.getitem i) next) true := by
  unfold seqStep
  simp only [h.member]
  have hd := getItem_map sig n.kids i
  cases hdi : getItem n.kids i with
  | none =>
    rw [hdi] at hd
    have : getItem (items n) i = none := by simpa [items] using hd.symm
    exact ⟨by simp [refStep, this, excOut], by intro _; simp [refStep, this, excOut, absOut], h⟩
  | some x =>
    rw [hdi] at hd
    have hr : getItem (items n) i = some (sig x) := by simpa [items] using hd.symm
    by_cases hl : n.kind = .list
    · have hx : ItemOK m true x := by simpa [hl] using h.items x (mem_getItem hdi)
      simp only [ItemOK, if_true] at hx
      obtain ⟨hsl, el, hel, _⟩ := hx
      simp only [hl, if_true, slotElement, hel, List.head?_cons]
      refine ⟨by simp [refStep, hr], ?_, h⟩
      intro _
      simp only [refStep, hr, absOut]
      cases x with
      | mk i s kids =>
        simp only [Node.kids] at hel
        simp only [Node.sch] at hsl
        rw [hel, sig_slot i s el [] (by rw [hsl]; rfl)]
    · simp only [hl, if_false]
      exact ⟨by simp [refStep, hr], by intro _; simp [refStep, hr, absOut], h⟩


theorem sig_slot_withKids (slot el : Node) (hs : slot.sch = slotSchema) :
    sig (slot.withKids [el]) = sig el := by
  cases slot with
  | mk i s kids =>
    simp only [Node.sch] at hs
    simp only [Node.withKids, Node.ni, Node.sch]
    exact sig_slot i s el [] (by rw [hs]; rfl)

theorem itemOK_slot_withKids (m : Schema) (slot el : Node) (hs : slot.sch = slotSchema) (he : el.sch = m) :
    ItemOK m true (slot.withKids [el]) := by
  cases slot; exact ⟨hs, el, rfl, he⟩

theorem newSlots_ok (m : Schema) (lst len : Nat) (ws : List Node) (hw : ∀ w ∈ ws, w.sch = m) (next : Nat) :
    (newSlots lst len ws next).1.map sig = ws.map sig ∧ ∀ x ∈ (newSlots lst len ws next).1, ItemOK m true x := by
  induction ws generalizing next with
  | nil => simp [newSlots]
  | cons w ws ih =>
    have := ih (fun x hx => hw x (by simp [hx])) (next + 1)
    simp only [newSlots, List.map_cons, sig_mkSlot, this.1, true_and]
    intro x hx
    rcases List.mem_cons.mp hx with hx | hx
    · rw [hx]; exact itemOK_mkSlot m _ _ _ w (hw w (by simp))
    · exact this.2 x hx

theorem setslice_refines {m : Schema} {n : Node} (h : SeqOK m n) (sl : Slice) (as : List Arg)
    (ha : ∀ a ∈ as, ArgOK m a) (next : Nat) :
    StepOK m n (.setslice sl (as.map (adaptArg m))) (seqStep n (.setslice sl as) next) true := by
  obtain ⟨ws, n1, hw, hs, ht⟩ := wrapAll_ok m h.scalar as ha next
  unfold seqStep
  simp only [h.member, hw]
  by_cases hl : n.kind = .list
  · simp only [hl, if_true]
    have hns := newSlots_ok m n.id n.kids.length ws ht n1
    have hd := setSlice_map sig n.kids sl (newSlots n.id n.kids.length ws n1).1
    rw [hns.1, hs] at hd
    cases hdi : setSlice n.kids sl (newSlots n.id n.kids.length ws n1).1 with
    | error e =>
      rw [hdi] at hd
      have : setSlice (items n) sl (as.map (adaptArg m)) = .error e := by simpa [items, Except.map] using hd.symm
      exact ⟨by simp [refStep, this, excOut], by intro _; simp [refStep, this, excOut, absOut], h⟩
    | ok ks =>
      rw [hdi] at hd
      have hr : setSlice (items n) sl (as.map (adaptArg m)) = .ok (ks.map sig) := by
        simpa [items, Except.map] using hd.symm
      refine ⟨by simp [refStep, hr], by intro _; simp [refStep, hr, absOut], seqOK_withKids h _ ?_⟩
      simp only [hl, decide_true]
      apply itemOK_renumber
      intro x hx
      rcases mem_setSlice hdi hx with hx | hx
      · simpa [hl] using h.items x hx
      · exact hns.2 x hx
  · simp only [hl, if_false]
    have hmap : (ws.map (fun w => w.withParent (some n.id))).map sig = as.map (adaptArg m) := by
      rw [← hs]; simp [Function.comp_def]
    have hd := setSlice_map sig n.kids sl (ws.map (fun w => w.withParent (some n.id)))
    rw [hmap] at hd
    cases hdi : setSlice n.kids sl (ws.map (fun w => w.withParent (some n.id))) with
    | error e =>
      rw [hdi] at hd
      have : setSlice (items n) sl (as.map (adaptArg m)) = .error e := by simpa [items, Except.map] using hd.symm
      exact ⟨by simp [refStep, this, excOut], by intro _; simp [refStep, this, excOut, absOut], h⟩
    | ok ks =>
      rw [hdi] at hd
      have hr : setSlice (items n) sl (as.map (adaptArg m)) = .ok (ks.map sig) := by
        simpa [items, Except.map] using hd.symm
      refine ⟨by simp [refStep, hr], by intro _; simp [refStep, hr, absOut], seqOK_withKids h _ ?_⟩
      simp only [hl, decide_false]
      intro x hx
      rcases mem_setSlice hdi hx with hx | hx
      · simpa [hl] using h.items x hx
      · obtain ⟨w, hw', rfl⟩ := List.mem_map.mp hx
        exact itemOK_withParent m _ w (ht w hw')

theorem setitem_refines {m : Schema} {n : Node} (h : SeqOK m n) (i : Int) (a : Arg) (ha : ArgOK m a)
    (next : Nat) :
    StepOK m n (.setitem i (adaptArg m a)) (seqStep n (.setitem i a) next) true := by
  unfold seqStep
  simp only [h.member]
  by_cases hl : n.kind = .list
  · simp only [hl, if_true]
    cases a with
    | elem e =>
      simp only
      cases hg : getItem n.kids i with
      | none =>
        have hn := getItem_none hg
        have : setItem (n.kids.map sig) i (adaptArg m (.elem e)) = none := by simp [setItem, hn]
        exact ⟨by simp [refStep, items, this, excOut], by intro _; simp [refStep, items, this, excOut, absOut], h⟩
      | some slot =>
        obtain ⟨k, hk, hx⟩ := getItem_some hg
        have hsl : ItemOK m true slot := by simpa [hl] using h.items slot (List.mem_of_getElem? hx)
        simp only [ItemOK, if_true] at hsl
        have : setItem (n.kids.map sig) i (adaptArg m (.elem e)) = some ((n.kids.map sig).set k (sig e)) := by
          simp [setItem, hk, adaptArg]
        simp only [hk]
        refine ⟨?_, by intro _; simp [refStep, items, this, absOut], seqOK_withKids h _ ?_⟩
        · simp only [refStep, items, this, kids_withKids, List.map_set]
          rw [sig_slot_withKids _ _ hsl.1, sig_withParent]
        · simp only [hl, decide_true]
          intro x hxm
          rcases List.mem_or_eq_of_mem_set hxm with hxm | hxm
          · simpa [hl] using h.items x hxm
          · rw [hxm]; exact itemOK_slot_withKids m _ _ hsl.1 (by cases e; exact ha)
    | plain r =>
      simp only
      cases hg : getItem n.kids i with
      | none =>
        have hn := getItem_none hg
        have : setItem (n.kids.map sig) i (adaptArg m (.plain r)) = none := by simp [setItem, hn]
        simp only [hn]
        exact ⟨by simp [refStep, items, this, excOut], by intro _; simp [refStep, items, this, excOut, absOut], h⟩
      | some slot =>
        obtain ⟨k, hk, hx⟩ := getItem_some hg
        have hsl : ItemOK m true slot := by simpa [hl] using h.items slot (List.mem_of_getElem? hx)
        simp only [ItemOK, if_true] at hsl
        obtain ⟨hss, el, hel, hem⟩ := hsl
        simp only [ArgOK] at ha
        obtain ⟨⟨v, u, ok⟩, hv⟩ := Option.isSome_iff_exists.mp ha
        have hkind : el.sch.kind = .integer ∨ el.sch.kind = .string := by rw [hem]; exact h.scalar
        have hsn := setNode_scalar el hkind r none next v u ok (by rw [hem]; exact hv)
        have : setItem (n.kids.map sig) i (adaptArg m (.plain r)) = some ((n.kids.map sig).set k (.sc v u)) := by
          simp [setItem, hk, adaptArg, hv]
        simp only [hk, slotElement, hel, List.head?_cons, hsn.1]
        refine ⟨?_, by intro _; simp [refStep, items, this, absOut], seqOK_withKids h _ ?_⟩
        · simp only [refStep, items, this, kids_withKids, List.map_set]
          rw [sig_slot_withKids _ _ hss, hsn.2.2.1]
        · simp only [hl, decide_true]
          intro x hxm
          rcases List.mem_or_eq_of_mem_set hxm with hxm | hxm
          · simpa [hl] using h.items x hxm
          · rw [hxm]
            refine itemOK_slot_withKids m _ _ hss ?_
            have := setNode_hdr el r none next
            have h3 : (setNode el r none next).node.hdr.2.2.1 = el.hdr.2.2.1 := by rw [this]
            exact h3.trans hem
  · simp only [hl, if_false]
    obtain ⟨w, n1, hw, hs, ht⟩ := wrap_ok m h.scalar a ha next
    simp only [hw]
    cases hk : normIndex n.kids.length i with
    | none =>
      have : setItem (n.kids.map sig) i (adaptArg m a) = none := by simp [setItem, hk]
      exact ⟨by simp [refStep, items, this, excOut], by intro _; simp [refStep, items, this, excOut, absOut], h⟩
    | some k =>
      have : setItem (n.kids.map sig) i (adaptArg m a) = some ((n.kids.map sig).set k (adaptArg m a)) := by
        simp [setItem, hk]
      refine ⟨?_, by intro _; simp [refStep, items, this, absOut], seqOK_withKids h _ ?_⟩
      · simp [refStep, items, this, List.map_set, hs]
      · simp only [hl, decide_false]
        intro x hxm
        rcases List.mem_or_eq_of_mem_set hxm with hxm | hxm
        · simpa [hl] using h.items x hxm
        · rw [hxm]; exact itemOK_withParent m _ w ht


theorem attachAll_eq (lst : Node) (e : Node) (es : List Node) (next : Nat) :
    attachAll lst (e :: es) next = attachAll (appendEl lst e next).1 es (appendEl lst e next).2 := by
  unfold appendEl
  rw [attachAll]
  split <;> rfl

theorem attachAll_ok {m : Schema} {n : Node} (h : SeqOK m n) (vals : List Node) (hv : ∀ v ∈ vals, v.sch = m)
    (next : Nat) :
    items (attachAll n vals next).1 = items n ++ vals.map sig ∧ SeqOK m (attachAll n vals next).1 := by
  induction vals generalizing n next with
  | nil => simp [attachAll, h]
  | cons e es ih =>
    have hap := appendEl_ok h e (hv e (by simp)) next
    rw [attachAll_eq]
    have := ih hap.2 (fun x hx => hv x (by simp [hx])) (appendEl n e next).2
    refine ⟨?_, this.2⟩
    rw [this.1, hap.1]; simp

theorem buildItems_scalar (m : Schema) (hm : ScalarSchema m) (xs : List Raw)
    (hx : ∀ r ∈ xs, ArgOK m (.plain r)) (next : Nat) :
    ∃ vals n' conv, buildItems m xs next = (vals, n', .ok conv) ∧
      vals.map sig = xs.map (fun r => adaptArg m (.plain r)) ∧ ∀ v ∈ vals, v.sch = m := by
  induction xs generalizing next with
  | nil => exact ⟨[], next, true, rfl, rfl, by simp⟩
  | cons r rs ih =>
    have ha := hx r (by simp)
    simp only [ArgOK] at ha
    obtain ⟨⟨v, u, ok⟩, hv⟩ := Option.isSome_iff_exists.mp ha
    have hb : blank m none [] next = (.mk { id := next, parent := none, key := [] } m [], next + 1) := by
      cases m with
      | mk info dflt subs =>
        have hk : info.kind = .integer ∨ info.kind = .string := hm
        unfold blank
        rcases hk with hk | hk <;> simp [hk]
    have hs := setNode_scalar (.mk { id := next, parent := none, key := [] } m []) hm r none (next + 1) v u ok hv
    obtain ⟨vals, n', conv, hbi, hsig, hty⟩ := ih (fun x hx' => hx x (by simp [hx'])) (next + 1)
    refine ⟨(setNode (.mk { id := next, parent := none, key := [] } m []) r none (next + 1)).node :: vals, n',
      ok && conv, ?_, ?_, ?_⟩
    · rw [buildItems]
      simp only [hb, hs.1, hs.2.1, hbi]
    · simp [hsig, hs.2.2.1, adaptArg, hv]
    · intro x hxm
      rcases List.mem_cons.mp hxm with hxm | hxm
      · rw [hxm]
        have := setNode_hdr (.mk { id := next, parent := none, key := [] } m []) r none (next + 1)
        have h3 : (setNode (.mk { id := next, parent := none, key := [] } m []) r none (next + 1)).node.hdr.2.2.1
            = m := by rw [this]; rfl
        exact h3
      · exact hty x hxm

theorem set_refines {m : Schema} {n : Node} (h : SeqOK m n)
    (hk : n.kind = .list ∨ n.kind = .array ∨ n.kind = .multi) (xs : List Raw)
    (hx : ∀ r ∈ xs, ArgOK m (.plain r)) (next : Nat) :
    StepOK m n (.assign (xs.map (fun r => adaptArg m (.plain r)))) (seqStep n (.set (.list xs)) next) false := by
  obtain ⟨vals, n', conv, hbi, hsig, hty⟩ := buildItems_scalar m h.scalar xs hx next
  cases n with
  | mk i s kids =>
    have hmem : s.member = some m := h.member
    have hk' : s.kind = .list ∨ s.kind = .array ∨ s.kind = .multi := hk
    have hempty : SeqOK m (.mk i s []) := ⟨h.member, h.scalar, by simp [Node.kids]⟩
    have hat := attachAll_ok hempty vals hty n'
    have hset : (setNode (.mk i s kids) (.list xs) none next).node = (attachAll (.mk i s []) vals n').1 ∧
        ∃ b, (setNode (.mk i s kids) (.list xs) none next).res = .ok b := by
      unfold setNode
      rcases hk' with hk' | hk' | hk' <;> simp [hk', hmem, hbi]
    obtain ⟨hnode, b, hres⟩ := hset
    unfold seqStep
    simp only [Node.sch, hmem, hres]
    refine ⟨?_, (by intro hc; cases hc), ?_⟩
    · simp only [refStep]
      show items (setNode (.mk i s kids) (.list xs) none next).node = _
      rw [hnode, hat.1, hsig]; simp [items, Node.kids]
    · show SeqOK m (setNode (.mk i s kids) (.list xs) none next).node
      rw [hnode]; exact hat.2


/-! ### the property theorems -/

def SeqKind (n : Node) : Prop := n.kind = .list ∨ n.kind = .array ∨ n.kind = .multi

def isSet : SeqOp → Bool | .set _ => true | _ => false

/-- **C09 (one call).**  For a List / Array / MultiValue over a scalar member schema and any
    list-protocol call whose arguments are adaptable plain values or elements of the member
    schema: the items afterwards are those of the reference Python list after the same call on
    the adapted values, the call returns / raises what the list returns / raises (`set` returns
    its own flag), and every member is still an element of the member schema. -/
theorem step_refines {m : Schema} {n : Node} (h : SeqOK m n) (hk : SeqKind n) (op : SeqOp) (hop : OpOK m op)
    (rop : ROp Sig) (hr : adaptOp m op = some rop) (next : Nat) :
    StepOK m n rop (seqStep n op next) (!isSet op) := by
  cases op with
  | append a => cases hr; exact append_refines h a hop next
  | extend as => cases hr; exact (extend_refines h as hop next).1
  | iadd as => cases hr; exact (extend_refines h as hop next).2
  | insert i a => cases hr; exact insert_refines h i a hop next
  | setitem i a => cases hr; exact setitem_refines h i a hop next
  | setslice sl as => cases hr; exact setslice_refines h sl as hop next
  | delitem i => cases hr; exact delitem_refines h i next
  | delslice sl => cases hr; exact delslice_refines h sl next
  | pop i => cases hr; exact pop_refines h i next
  | remove a => cases hr; exact remove_refines h a hop next
  | reverse => cases hr; exact reverse_refines h next
  | clear =>
    cases hr
    unfold seqStep
    simp only [h.member]
    exact ⟨by simp [refStep], by intro _; rfl, seqOK_withKids h _ (by simp)⟩
  | imul c => cases hr
  | sort k rev =>
    cases k with
    | none => cases hr
    | some k => cases hr; exact sort_refines h hk k rev next
  | set r =>
    cases r with
    | list xs => cases hr; exact set_refines h hk xs hop next
    | none => cases hr
    | int _ => cases hr
    | str _ => cases hr
    | dict _ => cases hr
    | pairs _ => cases hr
  | setDefault => cases hr
  | len => cases hr; exact len_refines h next
  | getitem i => cases hr; exact getitem_refines h i next
  | getslice sl => cases hr; exact getslice_refines h sl next
  | contains a => cases hr; exact (query_refines h a hop next).1
  | index a => cases hr; exact (query_refines h a hop next).2.1
  | count a => cases hr; exact (query_refines h a hop next).2.2

theorem seqKind_step {n : Node} (hk : SeqKind n) (op : SeqOp) (next : Nat) : SeqKind (seqStep n op next).node := by
  have := seqStep_hdr n op next
  have h3 : (seqStep n op next).node.sch = n.sch := congrArg (fun t => t.2.2.1) this
  unfold SeqKind Node.kind at *
  rw [h3]; exact hk

/-- the reference list under a history -/
def refRun (l : List Sig) (rops : List (ROp Sig)) : List Sig := rops.foldl (fun l r => (refStep l r).1) l

/-- **C09 (histories).**  After any sequence of covered calls the items are those of the
    reference list that received the same calls, and the invariant (typed members) still holds. -/
theorem run_refines {m : Schema} (ops : List SeqOp) :
    ∀ (n : Node) (next : Nat), SeqOK m n → SeqKind n →
      (∀ op ∈ ops, OpOK m op ∧ (adaptOp m op).isSome = true) →
      items (run ⟨n, next⟩ ops).node = refRun (items n) (ops.filterMap (adaptOp m)) ∧
      SeqOK m (run ⟨n, next⟩ ops).node := by
  induction ops with
  | nil => intro n next h _ _; exact ⟨rfl, h⟩
  | cons op ops ih =>
    intro n next h hk hops
    obtain ⟨hop, hsome⟩ := hops op (by simp)
    obtain ⟨rop, hr⟩ := Option.isSome_iff_exists.mp hsome
    have hs := step_refines h hk op hop rop hr next
    have := ih (seqStep n op next).node (seqStep n op next).next hs.inv (seqKind_step hk op next)
      (fun o ho => hops o (by simp [ho]))
    simp only [run, List.foldl_cons, step, List.filterMap_cons, hr, refRun] at this ⊢
    rw [this.1, hs.itemsEq]
    exact ⟨rfl, this.2⟩

/-- **members_typed.**  Every member is an element of the declared member schema. -/
theorem members_typed {m : Schema} {n : Node} (h : SeqOK m n) (hk : SeqKind n) : MembersTyped n := by
  intro m' hm' e he
  have : m' = m := by rw [h.member] at hm'; cases hm'; rfl
  subst this
  unfold members children at he
  rcases hk with hk | hk | hk
  · simp only [hk] at he
    obtain ⟨s, hs, hes⟩ := List.mem_flatMap.mp he
    have := h.items s hs
    simp only [hk, decide_true, ItemOK, if_true] at this
    obtain ⟨_, el, hel, hm⟩ := this
    rw [hel] at hes
    simp only [List.mem_singleton] at hes
    rw [hes]; exact hm
  · simp only [hk] at he
    have := h.items e he
    simpa [hk, ItemOK] using this
  · simp only [hk] at he
    have := h.items e he
    simpa [hk, ItemOK] using this

/-- the items are the members read through the slots -/
theorem items_eq_members {m : Schema} {n : Node} (h : SeqOK m n) (hk : SeqKind n) :
    items n = (members n).map sig := by
  unfold items members children
  rcases hk with hk | hk | hk
  · simp only [hk]
    have hall : ∀ x ∈ n.kids, ItemOK m true x := fun x hx => by simpa [hk] using h.items x hx
    generalize n.kids = ks at hall
    induction ks with
    | nil => rfl
    | cons x xs ih =>
      have hx := hall x (by simp)
      simp only [ItemOK, if_true] at hx
      obtain ⟨hsl, el, hel, _⟩ := hx
      simp only [List.map_cons, List.flatMap_cons, List.map_append, hel, List.map_nil]
      rw [ih (fun y hy => hall y (by simp [hy]))]
      cases x with
      | mk i s kids =>
        simp only [Node.kids] at hel
        simp only [Node.sch] at hsl
        rw [hel, sig_slot i s el [] (by rw [hsl]; rfl)]
        rfl
  · simp only [hk]
  · simp only [hk]

/-! ### positional: slot `i` of a List is named `i` after every call -/

theorem positional_renumber (n : Node) (ks : List Node) : Positional (n.withKids (renumber ks)) := by
  intro _
  simp [slotNames, map_key_renumber]


def WellNumbered (ks : List Node) : Prop :=
  ks.map Node.key = (List.range ks.length).map (fun k => (toString k).toList)

theorem wn_nil : WellNumbered [] := rfl

theorem wn_renumber (ks : List Node) : WellNumbered (renumber ks) := by
  unfold WellNumbered; rw [map_key_renumber, length_renumber]

theorem wn_append {ks : List Node} (h : WellNumbered ks) (id lst : Nat) (w : Node) :
    WellNumbered (ks ++ [mkSlot id lst ks.length w]) := by
  unfold WellNumbered at *
  simp [List.range_succ, h, mkSlot, Node.key, Node.ni]

theorem wn_set {ks : List Node} (h : WellNumbered ks) (k : Nat) (slot : Node) (hk : ks[k]? = some slot)
    (x : List Node) : WellNumbered (ks.set k (slot.withKids x)) := by
  unfold WellNumbered at *
  rw [List.map_set, List.length_set, ← h]
  have : (slot.withKids x).key = slot.key := by cases slot; rfl
  rw [this]
  apply List.ext_getElem?
  intro j
  by_cases hj : k = j
  · subst hj
    by_cases hlt : k < ks.length
    · have hg := List.getElem?_eq_getElem hlt
      rw [hg] at hk; cases hk
      simp [List.getElem?_set, hlt]
    · simp [List.getElem?_set, hlt]
  · simp [List.getElem?_set, hj]

theorem wn_attachAll (lst : Node) (hl : lst.kind = .list) (h : WellNumbered lst.kids) (es : List Node)
    (next : Nat) : WellNumbered (attachAll lst es next).1.kids := by
  induction es generalizing lst next with
  | nil => exact h
  | cons e es ih =>
    rw [attachAll]
    simp only [hl, if_true]
    apply ih
    · cases lst; exact hl
    · simp only [kids_withKids]; exact wn_append h _ _ _

theorem wn_appendEl (n : Node) (hl : n.kind = .list) (h : WellNumbered n.kids) (w : Node) (next : Nat) :
    WellNumbered (appendEl n w next).1.kids ∧ (appendEl n w next).1.kind = .list := by
  unfold appendEl
  simp only [hl, if_true, kids_withKids]
  exact ⟨wn_append h _ _ _, by cases n; exact hl⟩

theorem wn_extendArgs (m : Schema) (n : Node) (hl : n.kind = .list) (h : WellNumbered n.kids) (as : List Arg)
    (next : Nat) : WellNumbered (extendArgs m n as next).1.kids := by
  induction as generalizing n next with
  | nil => exact h
  | cons a as ih =>
    unfold extendArgs
    split
    · exact h
    · rename_i w n1 _
      have := wn_appendEl n hl h w n1
      exact ih _ this.2 this.1 _

theorem wn_setNode (n : Node) (hl : n.kind = .list) (raw : Raw) (pol : Option Policy) (next : Nat) :
    WellNumbered (setNode n raw pol next).node.kids := by
  cases n with
  | mk i s kids =>
    have hk : s.kind = .list := hl
    unfold setNode
    simp only [hk]
    split
    · exact wn_nil
    · split
      · split
        · exact wn_attachAll (.mk i s []) hk wn_nil _ _
        · exact wn_nil
        · exact wn_nil
      · exact wn_nil
      · exact wn_nil
      · exact wn_nil

theorem wn_defaultSlots (mk : Nat → SetR) (lst : Nat) (k idx next : Nat) :
    (defaultSlotsWith mk lst k idx next).1.map Node.key =
      (List.range' idx (defaultSlotsWith mk lst k idx next).1.length).map (fun j => (toString j).toList) := by
  induction k generalizing idx next with
  | zero => rfl
  | succ k ih =>
    rw [defaultSlotsWith]
    dsimp only
    split
    · simp [mkSlot, Node.key, Node.ni]
    · simp only [List.map_cons, List.length_cons, List.range'_succ, ih]
      simp [mkSlot, Node.key, Node.ni]

theorem wn_setDefault (n : Node) (hl : n.kind = .list) (h : WellNumbered n.kids) (next : Nat) :
    WellNumbered (setDefault n next).node.kids := by
  cases n with
  | mk i s kids =>
    have hk : s.kind = .list := hl
    unfold setDefault
    simp only [hk]
    split
    · exact h
    · split
      · unfold WellNumbered
        simp only [Node.kids]
        rw [wn_defaultSlots, List.range_eq_range']
      · exact h
    · exact wn_setNode _ hl _ _ _

theorem wn_imulLoop (m : Schema) (vals : List Arg) (k : Nat) (n : Node) (hl : n.kind = .list)
    (h : WellNumbered n.kids) (next : Nat) :
    WellNumbered (imulLoop m vals k n next).1.kids := by
  induction k generalizing n next with
  | zero => exact h
  | succ k ih =>
    rw [imulLoop]
    have hw := wn_extendArgs m n hl h vals next
    have hh := extendArgs_hdr m n vals next
    have hk : (extendArgs m n vals next).1.kind = .list := by
      have : (extendArgs m n vals next).1.sch = n.sch := congrArg (fun t => t.2.2.1) hh
      unfold Node.kind; rw [this]; exact hl
    split
    · rename_i he; rw [he] at hw; exact hw
    · rename_i he; rw [he] at hw hk; exact ih _ hk hw _

/-- **positional.**  A List whose slots are named by their positions keeps them so under every
    call, successful or raising: slot `i` is named `i`, so flat names and `find('<i>')`
    address member `i`. -/
theorem positional_step (n : Node) (hl : n.kind = .list) (h : WellNumbered n.kids) (op : SeqOp) (next : Nat) :
    WellNumbered (seqStep n op next).node.kids := by
  unfold seqStep
  split
  · exact h
  · simp only [hl, if_true]
    cases op with
    | append a => dsimp only; split <;> first | exact h | exact (wn_appendEl n hl h _ _).1
    | extend as => dsimp only; split <;> exact wn_extendArgs _ n hl h _ _
    | iadd as => dsimp only; split <;> exact wn_extendArgs _ n hl h _ _
    | insert i a => dsimp only; split <;> first | exact h | (simp only [kids_withKids]; exact wn_renumber _)
    | setitem i a =>
      dsimp only
      split
      · split
        · exact h
        · split
          · exact h
          · rename_i slot hg _ k hk
            obtain ⟨k', hk', hx⟩ := getItem_some hg
            rw [hk] at hk'; cases hk'
            simp only [kids_withKids]; exact wn_set h _ _ hx _
      · split
        · rename_i slot k hg hk
          obtain ⟨k', hk', hx⟩ := getItem_some hg
          rw [hk] at hk'; cases hk'
          split
          · exact h
          · split <;> (simp only [excOut, kids_withKids]; exact wn_set h _ _ hx _)
        · exact h
    | setslice s as =>
      dsimp only
      split
      · exact h
      · split
        · exact h
        · simp only [kids_withKids]; exact wn_renumber _
    | delitem i => dsimp only; split <;> first | exact h | (simp only [kids_withKids]; exact wn_renumber _)
    | delslice s => dsimp only; split <;> first | exact h | (simp only [kids_withKids]; exact wn_renumber _)
    | pop i => dsimp only; split <;> first | exact h | (simp only [kids_withKids]; exact wn_renumber _)
    | remove a =>
      dsimp only
      split
      · exact h
      · split
        · exact h
        · simp only [kids_withKids]; exact wn_renumber _
    | reverse => simp only [kids_withKids]; exact wn_renumber _
    | clear => simp only [kids_withKids]; exact wn_nil
    | imul c =>
      dsimp only
      split
      · simp only [kids_withKids]; exact wn_renumber _
      · split <;> exact wn_imulLoop _ _ _ n hl h _
    | sort k r =>
      dsimp only
      split
      · split <;> exact h
      · split
        · simp only [kids_withKids]; exact wn_renumber _
        · exact h
    | set r => dsimp only; split <;> exact wn_setNode n hl _ _ _
    | setDefault => dsimp only; split <;> exact wn_setDefault n hl h _
    | len => exact h
    | getitem i => dsimp only; split <;> first | exact h | (split <;> exact h)
    | getslice s => dsimp only; split <;> exact h
    | contains a => dsimp only; split <;> exact h
    | index a => dsimp only; split <;> first | exact h | (split <;> exact h)
    | count a => dsimp only; split <;> exact h


/-! ### the literal reading of the statement, and why it is only partly true

`C09_Full`: the same refinement with a member abstracted to its `.value` alone ("a plain Python
list … on the adapted values").  False of the code: `Element.__eq__` compares `(value, u)`, so
a member holding unadaptable text (value None, u = the text) is not found by `None`
(finding KF-C09-a).  `step_refines` above is the strongest true version: the abstraction keeps
`u` next to `value`; for adaptable inputs `u` is a function of `value` and the two coincide. -/

def sigVal : Sig → Val | .sc v _ => v | _ => .none

def valItems (n : Node) : List Val := (items n).map sigVal

def outV : Out → ROut Val
  | .ok => .ok | .exc e => .exc e | .nat n => .nat n | .bool b => .bool b
  | .node x => .item (sigVal (sig x)) | .nodes xs => .items (xs.map (fun x => sigVal (sig x))) | .value _ => .ok

def adaptOpV (m : Schema) : SeqOp → Option (ROp Val)
  | .append a => some (.append (sigVal (adaptArg m a)))
  | .extend as => some (.extend (as.map (fun a => sigVal (adaptArg m a))))
  | .iadd as => some (.extend (as.map (fun a => sigVal (adaptArg m a))))
  | .insert i a => some (.insert i (sigVal (adaptArg m a)))
  | .setitem i a => some (.setitem i (sigVal (adaptArg m a)))
  | .setslice s as => some (.setslice s (as.map (fun a => sigVal (adaptArg m a))))
  | .delitem i => some (.delitem i)
  | .delslice s => some (.delslice s)
  | .pop i => some (.pop i)
  | .remove a => some (.remove (sigVal (adaptArg m a)))
  | .reverse => some .reverse
  | .len => some .len
  | .getitem i => some (.getitem i)
  | .getslice s => some (.getslice s)
  | .contains a => some (.contains (sigVal (adaptArg m a)))
  | .index a => some (.index (sigVal (adaptArg m a)))
  | .count a => some (.count (sigVal (adaptArg m a)))
  | _ => none

/-- the property as literally stated (values only) -/
def C09_Full : Prop :=
  ∀ (m : Schema) (n : Node) (op : SeqOp) (rop : ROp Val) (next : Nat),
    SeqOK m n → SeqKind n → OpOK m op → adaptOpV m op = some rop →
    valItems (seqStep n op next).node = (refStep (valItems n) rop).1 ∧
    outV (seqStep n op next).out = (refStep (valItems n) rop).2

def exInt : Schema := .mk { cid := 2, kind := .integer } .none []
def exArrS : Schema := .mk { cid := 1, kind := .array } .none [exInt]
/-- `Array.of(Integer)(['abc', None])` -/
def exArr : Node := .mk { id := 1, parent := none } exArrS
  [.mk { id := 2, parent := some 1, val := .none, u := ['a', 'b', 'c'] } exInt [],
   .mk { id := 3, parent := some 1, val := .none, u := [] } exInt []]

theorem exArr_ok : SeqOK exInt exArr := by
  refine ⟨rfl, Or.inl rfl, ?_⟩
  intro x hx
  simp only [exArr, Node.kids, List.mem_cons, List.not_mem_nil, or_false] at hx
  rcases hx with rfl | rfl <;> rfl

/-- `a.index(None)` is 1 on the element, 0 on the list `[None, None]` of its values -/
theorem C09_full_fails : ¬ C09_Full := by
  intro hfull
  have := hfull exInt exArr (.index (.plain .none)) (.index .none) 10 exArr_ok (Or.inr (Or.inl rfl))
    (by show (adaptScalar exInt.kind .none).isSome = true; rfl) rfl
  exact absurd this.2 (by decide)

/-- dropping the scalar-member hypothesis is not possible either: `lst[i] = value` on a List
    sets the existing member in place, and a Dict member that `set()` cannot take the value
    keeps its old fields where a replacement by `member_schema(value)` would be blank
    (finding KF-C09-b). -/
def C09_FullMembers : Prop :=
  ∀ (m : Schema) (n : Node) (i : Int) (r : Raw) (next next' : Nat) (w : Node),
    n.kind = .list → n.sch.member = some m → wrap m (.plain r) next = (.ok w, next') →
    (seqStep n (.setitem i (.plain r)) next).out = .ok →
    items (seqStep n (.setitem i (.plain r)) next).node = (refStep (items n) (.setitem i (sig w))).1

def exDictS : Schema := .mk { cid := 3, kind := .dict } .none [.mk { cid := 4, kind := .integer, name := some ['x'] } .none []]
def exListS : Schema := .mk { cid := 5, kind := .list } .none [exDictS]
/-- `List.of(Dict.of(Integer.named('x')))([{'x': 1}])` -/
def exList : Node := .mk { id := 1, parent := none } exListS
  [.mk { id := 2, parent := some 1, key := ['0'] } slotSchema
    [.mk { id := 3, parent := some 2 } exDictS
      [.mk { id := 4, parent := some 3, key := ['x'], val := .int 1, u := ['1'] }
        (.mk { cid := 4, kind := .integer, name := some ['x'] } .none []) []]]]

def probe : List Sig → Val
  | [.map [(_, .sc v _)]] => v
  | _ => .str []

theorem C09_fullMembers_fails : ¬ C09_FullMembers := by
  intro hfull
  have := hfull exDictS exList 0 (.int 5) 10 12
    (.mk { id := 10, parent := none } exDictS
      [.mk { id := 11, parent := some 10, key := ['x'] } (.mk { cid := 4, kind := .integer, name := some ['x'] } .none []) []])
    rfl rfl rfl rfl
  have h2 := congrArg probe this
  exact absurd h2 (by decide)

/-! ### non-vacuity: the hypotheses of the theorems hold on concrete sequences -/

def exL2S : Schema := .mk { cid := 6, kind := .list } .none [exInt]
/-- `List.of(Integer)([1, 2])` -/
def exL2 : Node := .mk { id := 1, parent := none } exL2S
  [mkSlot 2 1 0 (.mk { id := 3, parent := none, val := .int 1, u := ['1'] } exInt []),
   mkSlot 4 1 1 (.mk { id := 5, parent := none, val := .int 2, u := ['2'] } exInt [])]

theorem exL2_ok : SeqOK exInt exL2 := by
  refine ⟨rfl, Or.inl rfl, ?_⟩
  intro x hx
  simp only [exL2, Node.kids, List.mem_cons, List.not_mem_nil, or_false] at hx
  rcases hx with rfl | rfl <;> exact itemOK_mkSlot exInt _ _ _ _ rfl

example : WellNumbered exL2.kids := by unfold WellNumbered; decide

/-- `l.insert(-1, '7')` then `l[::2] = [9, Integer(8)]`, `del l[5]` (IndexError), `l.sort(key=u, reverse)` -/
def exOps : List SeqOp :=
  [.insert (-1) (.plain (.str ['7'])),
   .setslice ⟨none, none, some 2⟩ [.plain (.int 9), .elem (.mk { id := 50, parent := none, val := .int 8, u := ['8'] } exInt [])],
   .delitem 5, .sort (some .u) true, .remove (.plain (.int 7))]

theorem exOps_ok : ∀ op ∈ exOps, OpOK exInt op ∧ (adaptOp exInt op).isSome = true := by
  intro op hop
  simp only [exOps, List.mem_cons, List.not_mem_nil, or_false] at hop
  rcases hop with rfl | rfl | rfl | rfl | rfl
  · exact ⟨by show (adaptScalar exInt.kind _).isSome = true; rfl, rfl⟩
  · refine ⟨?_, rfl⟩
    intro a ha
    simp only [List.mem_cons, List.not_mem_nil, or_false] at ha
    rcases ha with rfl | rfl
    · show (adaptScalar exInt.kind _).isSome = true; rfl
    · rfl
  · exact ⟨trivial, rfl⟩
  · exact ⟨trivial, rfl⟩
  · exact ⟨by show (adaptScalar exInt.kind _).isSome = true; rfl, rfl⟩

example : items (run ⟨exL2, 100⟩ exOps).node = [.sc (.int 9) ['9'], .sc (.int 8) ['8']] := by
  rw [(run_refines exOps exL2 100 exL2_ok (Or.inl rfl) exOps_ok).1]
  rfl

example : (run ⟨exL2, 100⟩ exOps).node.kids.map Node.key = [['0'], ['1']] := by decide

end Flatland.C09.Proofs
