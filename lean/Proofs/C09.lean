/-
C09 — Sequence elements behave as Python lists of member elements.

Main theorem `step_refines` / `run_refines`: for a List / Array / MultiValue over ANY member schema
(Integer, String, Dict, SparseDict, List, Array ...), every list-protocol call leaves the items —
read as the `(value, u)` structure each member compares by (`sig`: for a container member its
whole exported state) — exactly where the same call on a plain Python list of the adapted values
leaves them, returns what the list returns and raises what the list raises; every member stays
an element of the member schema.  Every `SeqOp` of the model has a reference operation
(`adaptOp` is total): `*=`, `clear`, `set_default`, key-less `sort` and `set(non-list)` included.
The guard `OpOK` is spelled out below; its only state-dependent clause is the one of `*=`.
-/
import Flatland.C09
import Flatland.Spec.C09
import Proofs.Lemmas.PyListMap
import Proofs.Lemmas.PyListMem
import Proofs.Lemmas.TreeSig
import Proofs.Lemmas.TreeWrap
namespace Flatland.C09.Proofs
open Flatland.Tree Flatland.PyList Flatland.C09 Flatland.C09.Spec

/-! ### the invariant of a sequence -/

/-- an item of the underlying list is what the class stores: an element of the member schema,
    or (List) a slot holding exactly one -/
def ItemOK (m : Schema) (isList : Bool) (x : Node) : Prop :=
  if isList then x.sch = slotSchema ∧ ∃ el, x.kids = [el] ∧ el.sch = m else x.sch = m

structure SeqOK (m : Schema) (n : Node) : Prop where
  member : n.sch.member = some m
  items : ∀ x ∈ n.kids, ItemOK m (decide (n.kind = .list)) x

/-- the adapted `(value, u)` structure an argument contributes: that of `member_schema(value=r)`
    for a plain value (`wrapSig`, independent of when it is built: `wrap_plain_ok`), the
    element's own for an Element -/
def adaptArg (m : Schema) : Arg → Sig
  | .plain r => wrapSig m r
  | .elem e => sig e

/-- plain arguments are values `member_schema(value=…)` accepts without raising (for Integer /
    String: None, int or str — `argOK_scalar`); Element arguments are elements of the member schema -/
def ArgOK (m : Schema) : Arg → Prop
  | .plain r => WrapOK m r
  | .elem e => e.sch = m

theorem argOK_scalar (m : Schema) (hm : ScalarSchema m) (r : Raw) :
    ArgOK m (.plain r) ↔ (adaptScalar m.kind r).isSome = true := (wrap_scalar m hm r).1

theorem adaptArg_scalar (m : Schema) (hm : ScalarSchema m) (r : Raw) (v : Val) (u : Str) (ok : Bool)
    (h : adaptScalar m.kind r = some (v, u, ok)) : adaptArg m (.plain r) = .sc v u := (wrap_scalar m hm r).2 v u ok h

theorem wrap_ok (m : Schema) (a : Arg) (ha : ArgOK m a) (next : Nat) :
    ∃ w next', wrap m a next = (.ok w, next') ∧ sig w = adaptArg m a ∧ w.sch = m := by
  cases a with
  | elem e => exact ⟨e, next, rfl, rfl, ha⟩
  | plain r => exact wrap_plain_ok m r ha next

theorem wrapAll_ok (m : Schema) (as : List Arg) (ha : ∀ a ∈ as, ArgOK m a) (next : Nat) :
    ∃ ws next', wrapAll m as next = (.ok ws, next') ∧ ws.map sig = as.map (adaptArg m) ∧
      ∀ w ∈ ws, w.sch = m := by
  induction as generalizing next with
  | nil => exact ⟨[], next, rfl, rfl, by simp⟩
  | cons a as ih =>
    obtain ⟨w, n1, hw, hs, ht⟩ := wrap_ok m a (ha a (by simp)) next
    obtain ⟨ws, n2, hws, hss, hts⟩ := ih (fun x hx => ha x (by simp [hx])) n1
    refine ⟨w :: ws, n2, ?_, ?_, ?_⟩
    · simp [wrapAll, hw, hws]
    · simp [hs, hss]
    · intro x hx
      rcases List.mem_cons.mp hx with h | h
      · rw [h]; exact ht
      · exact hts x h

theorem itemOK_withKey (m : Schema) (b : Bool) (x : Node) (k : Str) :
    ItemOK m b (x.withKey k) ↔ ItemOK m b x := by
  cases x; rfl

theorem itemOK_renumberFrom (m : Schema) (b : Bool) (k : Nat) (l : List Node)
    (h : ∀ x ∈ l, ItemOK m b x) : ∀ x ∈ renumberFrom k l, ItemOK m b x := by
  induction l generalizing k with
  | nil => simp [renumberFrom]
  | cons y ys ih =>
    intro x hx
    simp only [renumberFrom, List.mem_cons] at hx
    rcases hx with hx | hx
    · rw [hx, itemOK_withKey]; exact h y (by simp)
    · exact ih (k + 1) (fun z hz => h z (by simp [hz])) x hx

theorem itemOK_renumber (m : Schema) (b : Bool) (l : List Node)
    (h : ∀ x ∈ l, ItemOK m b x) : ∀ x ∈ renumber l, ItemOK m b x := itemOK_renumberFrom m b 0 l h

theorem itemOK_mkSlot (m : Schema) (id lst nm : Nat) (w : Node) (hw : w.sch = m) :
    ItemOK m true (mkSlot id lst nm w) := by
  refine ⟨rfl, w.withParent (some id), rfl, ?_⟩
  cases w; exact hw

theorem itemOK_withParent (m : Schema) (p : Option Nat) (w : Node) (hw : w.sch = m) :
    ItemOK m false (w.withParent p) := by
  cases w; exact hw


/-! ### the call-by-call correspondence with the reference list -/

def absOut : Out → ROut Sig
  | .ok => .ok | .exc e => .exc e | .nat n => .nat n | .bool b => .bool b
  | .node x => .item (sig x) | .nodes xs => .items (xs.map sig) | .value _ => .ok

/-- what item assignment of a plain value onto a List needs beyond `ArgOK`: `lst[i] = r` is
    `lst[i].set(r)` on the EXISTING member, which equals a fresh `member_schema(value=r)` exactly when
    `set` forgets the old contents (`Resets`): always for Integer / String / List / Array /
    MultiValue members, and for Dict / SparseDict members iff `r` is dict-like (a dict, a list of
    pairs, an empty list / string).  The excluded case is KF-C09-b (`C09_fullMembers_fails`). -/
def SetItemOK (m : Schema) (isList : Bool) : Arg → Prop
  | .plain r => isList = true → Resets m r
  | .elem _ => True

/-- the `(value, u)` structure of `member_schema.from_defaults()` -/
def defaultSig (m : Schema) : Sig := sig (fromDefaults m none [] 0).node

/-- what `set_default()` amounts to on the reference list, read off the class of the sequence:
    no default — nothing happens; a List with an integer default `k` — `k` members built by
    `member_schema.from_defaults()`; a list default — the adapted values of the default -/
def defaultOp (sch m : Schema) : ROp Sig :=
  match sch.dflt with
  | .none => .extend []
  | .int k => .assign (List.replicate k.toNat (defaultSig m))
  | .list xs => .assign (xs.map (wrapSig m))
  | _ => .assign []

/-- the defaults the model covers: none; an integer on a List whose member's `from_defaults()`
    does not raise; a list of values the member schema accepts -/
def DefaultOK (sch m : Schema) : Prop :=
  match sch.dflt with
  | .none => True
  | .int _ => sch.kind = .list ∧ ∃ b, (fromDefaults m none [] 0).res = .ok b
  | .list xs => ∀ r ∈ xs, WrapOK m r
  | _ => False

/-- the same call on the reference list of adapted values — for EVERY call of the model:
    `clear`, `set(iterable)`, `set(non-iterable)` (which empties the sequence and returns False)
    and `set_default` are slice assignments `l[:] = …`; `*=` repeats the members' re-adapted values
    (`Sequence.__imul__` builds fresh members from `member.value`, or `member.u` for unadaptable
    text); `sort()` without key is `sort()` on items without ordering -/
def adaptOp (sch m : Schema) : SeqOp → ROp Sig
  | .append a => .append (adaptArg m a)
  | .extend as => .extend (as.map (adaptArg m))
  | .iadd as => .extend (as.map (adaptArg m))
  | .insert i a => .insert i (adaptArg m a)
  | .setitem i a => .setitem i (adaptArg m a)
  | .setslice s as => .setslice s (as.map (adaptArg m))
  | .delitem i => .delitem i
  | .delslice s => .delslice s
  | .pop i => .pop i
  | .remove a => .remove (adaptArg m a)
  | .reverse => .reverse
  | .clear => .assign []              -- `l.clear()` is `l[:] = []`
  | .imul c => .imul c (fun s => wrapSig m (imulRaw s))
  | .sort (some k) rev => .sort (sigLe k rev)
  | .sort none _ => .sortNoKey
  | .set (.list xs) => .assign (xs.map (wrapSig m))
  | .set _ => .assign []
  | .setDefault => defaultOp sch m
  | .len => .len
  | .getitem i => .getitem i
  | .getslice s => .getslice s
  | .contains a => .contains (adaptArg m a)
  | .index a => .index (adaptArg m a)
  | .count a => .count (adaptArg m a)

/-- the sort keys the model knows apply to the items: the text keys (`e.u`, `len(e.u)`) to scalar
    members, `len(e)` to sequence members other than MultiValue, `e[<first field>].u` to Dict members
    whose first field is a scalar -/
def SortOK (m : Schema) (its : List Sig) (k : SortKey) : Prop :=
  (∀ s ∈ its, sigKeyOK k s = true) ∧ (k = .len → m.kind ≠ .multi)

/-- **the guard.**  `sch` is the class of the sequence, `m` its member schema, `its` the current
    items (used by `*=` only).
    * arguments: plain values `member_schema(value=…)` accepts, or elements of the member schema;
    * item assignment of a plain value onto a List: additionally `SetItemOK` (KF-C09-b);
    * `set(r)`: `r` a list of accepted values, or None / an int (not iterable: returns False);
      str / dict arguments are outside the model;
    * `set_default`: `DefaultOK`;
    * `sort()` without key: the items define no ordering — a List (slots), or members that are not
      themselves sequences (List / Array / MultiValue members are Python lists and compare as such);
    * `sort(key=…)`: the key applies to every item (`SortOK`; always so for the text keys on
      Integer / String members: `sortOK_scalar`);
    * `*=` with a positive count: the member schema is not a MultiValue, and the values it
      re-feeds are accepted by the member schema (always so for Integer / String:
      `imul_guard_scalar`). -/
def OpOK (sch m : Schema) (its : List Sig) : SeqOp → Prop
  | .append a | .insert _ a | .remove a | .contains a | .index a | .count a => ArgOK m a
  | .setitem _ a => ArgOK m a ∧ SetItemOK m (decide (sch.kind = .list)) a
  | .extend as | .iadd as | .setslice _ as => ∀ a ∈ as, ArgOK m a
  | .set (.list xs) => ∀ r ∈ xs, WrapOK m r
  | .set .none => True
  | .set (.int _) => True
  | .set _ => False
  | .setDefault => DefaultOK sch m
  | .sort (some k) _ => SortOK m its k
  | .sort none _ => sch.kind = .list ∨ (m.kind ≠ .list ∧ m.kind ≠ .array ∧ m.kind ≠ .multi)
  | .imul c => 0 < c → (m.kind ≠ .multi ∧ m.kind ≠ .slot) ∧ ∀ s ∈ its, WrapOK m (imulRaw s)
  | _ => True

/-- the part of the `*=` guard that the `(value, u)` abstraction cannot see: no MultiValue inside a
    member.  `*=` re-feeds `_replica_value(member)`, which lists ALL members of a MultiValue, while a
    MultiValue compares — and shows as `(value, u)` — by its first member only; with a MultiValue
    inside, the reference list (which holds `(value, u)`) does not determine the copies. -/
def ImulDeep (n : Node) : SeqOp → Prop
  | .imul c => 0 < c → ∀ x ∈ members n, noMulti x = true
  | _ => True

/-- what one call establishes -/
structure StepOK (m : Schema) (n : Node) (rop : ROp Sig) (r : StepR) (checkOut : Bool) : Prop where
  itemsEq : C09.items r.node = (refStep (C09.items n) rop).1
  outEq : checkOut = true → absOut r.out = (refStep (C09.items n) rop).2
  inv : SeqOK m r.node

theorem seqOK_withKids {m : Schema} {n : Node} (h : SeqOK m n) (ks : List Node)
    (hk : ∀ x ∈ ks, ItemOK m (decide (n.kind = .list)) x) : SeqOK m (n.withKids ks) := by
  cases n; exact ⟨h.member, hk⟩

@[simp] theorem kids_withKids (n : Node) (ks : List Node) : (n.withKids ks).kids = ks := by
  cases n; rfl

@[simp] theorem items_withKids (n : Node) (ks : List Node) : items (n.withKids ks) = ks.map sig := by
  cases n; rfl

def SeqKind (n : Node) : Prop := n.kind = .list ∨ n.kind = .array ∨ n.kind = .multi

/-- **members_typed.**  Every member is an element of the declared member schema. -/
theorem members_typed {m : Schema} {n : Node} (h : SeqOK m n) (hk : SeqKind n) : MembersTyped n := by
  intro m' hm' e he
  have : m' = m := by rw [h.member] at hm'; cases hm'; rfl
  subst this
  unfold members children at he
  rcases hk with hk | hk | hk
  · simp only [hk] at he
    obtain ⟨s, hs, hes⟩ := List.mem_flatMap.mp he
    have := h.items s hs
    simp only [hk, decide_true, ItemOK, if_true] at this
    obtain ⟨_, el, hel, hm⟩ := this
    rw [hel] at hes
    simp only [List.mem_singleton] at hes
    rw [hes]; exact hm
  · simp only [hk] at he
    have := h.items e he
    simpa [hk, ItemOK] using this
  · simp only [hk] at he
    have := h.items e he
    simpa [hk, ItemOK] using this

/-- the items are the members read through the slots -/
theorem items_eq_members {m : Schema} {n : Node} (h : SeqOK m n) (hk : SeqKind n) :
    items n = (members n).map sig := by
  unfold items members children
  rcases hk with hk | hk | hk
  · simp only [hk]
    have hall : ∀ x ∈ n.kids, ItemOK m true x := fun x hx => by simpa [hk] using h.items x hx
    generalize n.kids = ks at hall
    induction ks with
    | nil => rfl
    | cons x xs ih =>
      have hx := hall x (by simp)
      simp only [ItemOK, if_true] at hx
      obtain ⟨hsl, el, hel, _⟩ := hx
      simp only [List.map_cons, List.flatMap_cons, List.map_append, hel, List.map_nil]
      rw [ih (fun y hy => hall y (by simp [hy]))]
      cases x with
      | mk i s kids =>
        simp only [Node.kids] at hel
        simp only [Node.sch] at hsl
        rw [hel, sig_slot i s el [] (by rw [hsl]; rfl)]
        rfl
  · simp only [hk]
  · simp only [hk]

theorem appendEl_ok {m : Schema} {n : Node} (h : SeqOK m n) (w : Node) (hw : w.sch = m) (next : Nat) :
    items (appendEl n w next).1 = items n ++ [sig w] ∧ SeqOK m (appendEl n w next).1 := by
  unfold appendEl
  by_cases hl : n.kind = .list
  · simp only [hl, if_true]
    refine ⟨by simp [items], seqOK_withKids h _ ?_⟩
    intro x hx
    simp only [hl, decide_true]
    rcases List.mem_append.mp hx with hx | hx
    · simpa [hl] using h.items x hx
    · simp only [List.mem_singleton] at hx; rw [hx]; exact itemOK_mkSlot m _ _ _ w hw
  · simp only [hl, if_false]
    refine ⟨by simp [items], seqOK_withKids h _ ?_⟩
    intro x hx
    simp only [hl, decide_false]
    rcases List.mem_append.mp hx with hx | hx
    · simpa [hl] using h.items x hx
    · simp only [List.mem_singleton] at hx; rw [hx]; exact itemOK_withParent m _ w hw

theorem append_refines {m : Schema} {n : Node} (h : SeqOK m n) (a : Arg) (ha : ArgOK m a) (next : Nat) :
    StepOK m n (.append (adaptArg m a)) (seqStep n (.append a) next) true := by
  obtain ⟨w, n1, hw, hs, ht⟩ := wrap_ok m a ha next
  have hap := appendEl_ok h w ht n1
  unfold seqStep
  simp only [h.member, hw]
  exact ⟨by simp [hap.1, hs, refStep], by intro _; rfl, hap.2⟩

theorem extendArgs_ok {m : Schema} {n : Node} (h : SeqOK m n) (as : List Arg) (ha : ∀ a ∈ as, ArgOK m a)
    (next : Nat) :
    (extendArgs m n as next).2.2 = none ∧
      items (extendArgs m n as next).1 = items n ++ as.map (adaptArg m) ∧
      SeqOK m (extendArgs m n as next).1 := by
  induction as generalizing n next with
  | nil => simp [extendArgs, h]
  | cons a as ih =>
    obtain ⟨w, n1, hw, hs, ht⟩ := wrap_ok m a (ha a (by simp)) next
    have hap := appendEl_ok h w ht n1
    have := ih hap.2 (fun x hx => ha x (by simp [hx])) (appendEl n w n1).2
    simp only [extendArgs, hw]
    refine ⟨this.1, ?_, this.2.2⟩
    rw [this.2.1, hap.1, hs]; simp

theorem extend_refines {m : Schema} {n : Node} (h : SeqOK m n) (as : List Arg) (ha : ∀ a ∈ as, ArgOK m a)
    (next : Nat) :
    StepOK m n (.extend (as.map (adaptArg m))) (seqStep n (.extend as) next) true ∧
    StepOK m n (.extend (as.map (adaptArg m))) (seqStep n (.iadd as) next) true := by
  have he := extendArgs_ok h as ha next
  constructor <;>
  · unfold seqStep
    simp only [h.member, he.1]
    exact ⟨by simp [he.2.1, refStep], by intro _; rfl, he.2.2⟩


/-- the generic shape of a mutating call: the new underlying list is `f kids`, renumbered for a
    List; all its items are old items or well-formed new ones -/
theorem finish {m : Schema} {n : Node} (h : SeqOK m n) (ks : List Node)
    (hk : ∀ x ∈ ks, ItemOK m (decide (n.kind = .list)) x) :
    items (n.withKids (if n.kind = .list then renumber ks else ks)) = ks.map sig ∧
    SeqOK m (n.withKids (if n.kind = .list then renumber ks else ks)) := by
  by_cases hl : n.kind = .list
  · simp only [hl, if_true, items_withKids, map_sig_renumber, true_and]
    exact seqOK_withKids h _ (by simpa [hl] using itemOK_renumber m true ks (by simpa [hl] using hk))
  · simp only [hl, if_false, items_withKids, true_and]
    exact seqOK_withKids h _ hk

theorem insert_refines {m : Schema} {n : Node} (h : SeqOK m n) (i : Int) (a : Arg) (ha : ArgOK m a) (next : Nat) :
    StepOK m n (.insert i (adaptArg m a)) (seqStep n (.insert i a) next) true := by
  obtain ⟨w, n1, hw, hs, ht⟩ := wrap_ok m a ha next
  unfold seqStep
  simp only [h.member, hw]
  by_cases hl : n.kind = .list
  · simp only [hl, decide_true, if_true]
    refine ⟨by simp [refStep, items, insertAt_map, hs], by intro _; rfl, seqOK_withKids h _ ?_⟩
    simp only [hl, decide_true]
    apply itemOK_renumber
    intro x hx
    rcases mem_insertAt hx with hx | hx
    · simpa [hl] using h.items x hx
    · rw [hx]; exact itemOK_mkSlot m _ _ _ w ht
  · simp only [hl, decide_false, Bool.false_eq_true, if_false]
    refine ⟨by simp [refStep, items, insertAt_map, hs], by intro _; rfl, seqOK_withKids h _ ?_⟩
    simp only [hl, decide_false]
    intro x hx
    rcases mem_insertAt hx with hx | hx
    · simpa [hl] using h.items x hx
    · rw [hx]; exact itemOK_withParent m _ w ht

theorem delitem_refines {m : Schema} {n : Node} (h : SeqOK m n) (i : Int) (next : Nat) :
    StepOK m n (.delitem i) (seqStep n (.delitem i) next) true := by
  unfold seqStep
  simp only [h.member]
  have hd := delItem_map sig n.kids i
  cases hdi : delItem n.kids i with
  | none =>
    rw [hdi] at hd
    have : delItem (items n) i = none := by simpa [items] using hd.symm
    exact ⟨by simp [refStep, this, excOut], by intro _; simp [refStep, this, excOut, absOut], h⟩
  | some ks =>
    rw [hdi] at hd
    have hr : delItem (items n) i = some (ks.map sig) := by simpa [items] using hd.symm
    have hn : ∃ k, normIndex n.kids.length i = some k := by
      unfold delItem at hdi
      split at hdi
      · cases hdi
      · exact ⟨_, by assumption⟩
    obtain ⟨k, hk⟩ := hn
    simp only [hk]
    have hf := finish h ks (fun x hx => h.items x (mem_delItem hdi hx))
    exact ⟨by simp [refStep, hr, hf.1], by intro _; simp [refStep, hr, absOut], hf.2⟩


theorem delslice_refines {m : Schema} {n : Node} (h : SeqOK m n) (sl : Slice) (next : Nat) :
    StepOK m n (.delslice sl) (seqStep n (.delslice sl) next) true := by
  unfold seqStep
  simp only [h.member]
  have hd := delSlice_map sig n.kids sl
  cases hdi : delSlice n.kids sl with
  | error e =>
    rw [hdi] at hd
    have : delSlice (items n) sl = .error e := by simpa [items, Except.map] using hd.symm
    exact ⟨by simp [refStep, this, excOut], by intro _; simp [refStep, this, excOut, absOut], h⟩
  | ok ks =>
    rw [hdi] at hd
    have hr : delSlice (items n) sl = .ok (ks.map sig) := by simpa [items, Except.map] using hd.symm
    have hf := finish h ks (fun x hx => h.items x (mem_delSlice hdi hx))
    exact ⟨by simp [refStep, hr, hf.1], by intro _; simp [refStep, hr, absOut], hf.2⟩

theorem reverse_refines {m : Schema} {n : Node} (h : SeqOK m n) (next : Nat) :
    StepOK m n .reverse (seqStep n .reverse next) true := by
  unfold seqStep
  simp only [h.member]
  have hf := finish h n.kids.reverse (fun x hx => h.items x (List.mem_reverse.mp hx))
  exact ⟨by rw [hf.1]; simp [refStep, items], by intro _; rfl, hf.2⟩

theorem scalarMembers_of_ok {m : Schema} {n : Node} (h : SeqOK m n) (hscalar : ScalarSchema m)
    (hk : n.kind = .list ∨ n.kind = .array ∨ n.kind = .multi) : scalarMembers n = true := by
  unfold scalarMembers members children
  have hsc : ∀ e : Node, e.sch = m → (e.kind == SKind.integer || e.kind == SKind.string) = true := by
    intro e he
    have := hscalar
    unfold ScalarSchema at this
    rcases this with hh | hh <;> simp [Node.kind, he, hh]
  rw [List.all_eq_true]
  intro e he
  rcases hk with hk | hk | hk
  · simp only [hk] at he
    obtain ⟨s, hs, hes⟩ := List.mem_flatMap.mp he
    have := h.items s hs
    simp only [hk, decide_true, ItemOK, if_true] at this
    obtain ⟨_, el, hel, hm⟩ := this
    rw [hel] at hes
    simp only [List.mem_singleton] at hes
    rw [hes]; exact hsc el hm
  · simp only [hk] at he
    have := h.items e he
    simp only [hk, ItemOK] at this
    exact hsc e (by simpa using this)
  · simp only [hk] at he
    have := h.items e he
    simp only [hk, ItemOK] at this
    exact hsc e (by simpa using this)

theorem sortGate_of_ok {m : Schema} {n : Node} (h : SeqOK m n)
    (hk : n.kind = .list ∨ n.kind = .array ∨ n.kind = .multi) (k : SortKey) (hs : SortOK m (items n) k) :
    sortGate k n = true := by
  unfold sortGate
  rw [Bool.and_eq_true]
  refine ⟨List.all_eq_true.mpr (fun s hsm => hs.1 s hsm), ?_⟩
  by_cases hkl : k = .len
  · have hmt := members_typed h hk
    simp only [hkl, ne_eq, not_true_eq_false, decide_false, Bool.false_or]
    rw [List.all_eq_true]
    intro x hx
    have hxs := hmt m h.member x hx
    have : x.kind ≠ .multi := by unfold Node.kind; rw [hxs]; exact hs.2 hkl
    cases hxk : x.kind <;> simp_all
  · simp [hkl]

theorem sort_refines {m : Schema} {n : Node} (h : SeqOK m n)
    (hk : n.kind = .list ∨ n.kind = .array ∨ n.kind = .multi) (k : SortKey) (hs : SortOK m (items n) k)
    (rev : Bool) (next : Nat) :
    StepOK m n (.sort (sigLe k rev)) (seqStep n (.sort (some k) rev) next) true := by
  unfold seqStep
  simp only [h.member, sortGate_of_ok h hk k hs, if_true]
  have hf := finish h (sortBy (sortLe k rev) n.kids) (fun x hx => h.items x (mem_sortBy.mp hx))
  refine ⟨?_, by intro _; rfl, hf.2⟩
  rw [hf.1]
  simp only [refStep, items]
  exact sortBy_map sig (sortLe k rev) (sigLe k rev) (fun a b => rfl) n.kids

/-- the text keys apply to every item of a sequence of Integer / String members -/
theorem sortOK_scalar {m : Schema} {n : Node} (h : SeqOK m n)
    (hk : n.kind = .list ∨ n.kind = .array ∨ n.kind = .multi) (hm : ScalarSchema m) (k : SortKey)
    (hkey : k = .u ∨ k = .ulen) : SortOK m (items n) k := by
  refine ⟨?_, by rcases hkey with rfl | rfl <;> (intro hc; cases hc)⟩
  intro s hs
  rw [items_eq_members h hk] at hs
  obtain ⟨x, hx, rfl⟩ := List.mem_map.mp hs
  have hxs := members_typed h hk m h.member x hx
  cases x with
  | mk i sx kids =>
    simp only [Node.sch] at hxs
    subst hxs
    have hsig : sig (.mk i sx kids) = .sc i.val i.u := by
      unfold sig
      rcases hm with hm | hm <;> simp [hm]
    rw [hsig]
    rcases hkey with rfl | rfl <;> rfl

theorem pop_refines {m : Schema} {n : Node} (h : SeqOK m n) (i : Option Int) (next : Nat) :
    StepOK m n (.pop i) (seqStep n (.pop i) next) true := by
  unfold seqStep
  simp only [h.member]
  have hd := popAt_map sig n.kids (i.getD (-1))
  cases hdi : popAt n.kids (i.getD (-1)) with
  | none =>
    rw [hdi] at hd
    have : popAt (items n) (i.getD (-1)) = none := by simpa [items] using hd.symm
    exact ⟨by simp [refStep, this, excOut], by intro _; simp [refStep, this, excOut, absOut], h⟩
  | some p =>
    obtain ⟨x, ks⟩ := p
    rw [hdi] at hd
    have hr : popAt (items n) (i.getD (-1)) = some (sig x, ks.map sig) := by simpa [items] using hd.symm
    have hm := mem_popAt hdi
    by_cases hl : n.kind = .list
    · simp only [hl, if_true]
      refine ⟨by simp [refStep, hr], by intro _; simp [refStep, hr, absOut], seqOK_withKids h _ ?_⟩
      simp only [hl, decide_true]
      exact itemOK_renumber m true ks (fun y hy => by simpa [hl] using h.items y (hm.2 y hy))
    · simp only [hl, if_false]
      refine ⟨by simp [refStep, hr], by intro _; simp [refStep, hr, absOut], seqOK_withKids h _ ?_⟩
      exact fun y hy => h.items y (hm.2 y hy)


theorem eqv_sig (w : Node) : ∀ a : Node, eqv a w = (fun x : Sig => x == sig w) (sig a) := fun _ => rfl

theorem remove_refines {m : Schema} {n : Node} (h : SeqOK m n) (a : Arg) (ha : ArgOK m a) (next : Nat) :
    StepOK m n (.remove (adaptArg m a)) (seqStep n (.remove a) next) true := by
  obtain ⟨w, n1, hw, hs, ht⟩ := wrap_ok m a ha next
  unfold seqStep
  simp only [h.member, hw]
  have hfi := findIdx?_map' sig (fun x => eqv x w) (fun x => x == sig w) (eqv_sig w) n.kids
  cases hdi : n.kids.findIdx? (fun x => eqv x w) with
  | none =>
    rw [hdi] at hfi
    have : removeFirst (fun x => x == adaptArg m a) (items n) = none := by
      simp [removeFirst, items, ← hs, hfi]
    exact ⟨by simp [refStep, this, excOut], by intro _; simp [refStep, this, excOut, absOut], h⟩
  | some k =>
    rw [hdi] at hfi
    have hr : removeFirst (fun x => x == adaptArg m a) (items n) = some ((n.kids.eraseIdx k).map sig) := by
      simp [removeFirst, items, ← hs, hfi, map_eraseIdx']
    have hf := finish h (n.kids.eraseIdx k) (fun x hx => h.items x (List.mem_of_mem_eraseIdx hx))
    exact ⟨by simp [refStep, hr, hf.1], by intro _; simp [refStep, hr, absOut], hf.2⟩

theorem query_refines {m : Schema} {n : Node} (h : SeqOK m n) (a : Arg) (ha : ArgOK m a) (next : Nat) :
    StepOK m n (.contains (adaptArg m a)) (seqStep n (.contains a) next) true ∧
    StepOK m n (.index (adaptArg m a)) (seqStep n (.index a) next) true ∧
    StepOK m n (.count (adaptArg m a)) (seqStep n (.count a) next) true := by
  obtain ⟨w, n1, hw, hs, ht⟩ := wrap_ok m a ha next
  refine ⟨?_, ?_, ?_⟩
  · unfold seqStep
    simp only [h.member, hw]
    refine ⟨rfl, ?_, h⟩
    intro _
    simp only [refStep, absOut, items, ← hs]
    rw [containsBy_map sig (fun x => eqv x w) (fun x => x == sig w) (eqv_sig w)]
  · unfold seqStep
    simp only [h.member, hw]
    have hfi := indexOf_map sig (fun x => eqv x w) (fun x => x == sig w) (eqv_sig w) n.kids
    cases hdi : indexOf (fun x => eqv x w) n.kids with
    | none =>
      rw [hdi] at hfi
      exact ⟨by simp [refStep, items, ← hs, hfi, excOut], by intro _; simp [refStep, items, ← hs, hfi, excOut, absOut], h⟩
    | some k =>
      rw [hdi] at hfi
      exact ⟨by simp [refStep, items, ← hs, hfi], by intro _; simp [refStep, items, ← hs, hfi, absOut], h⟩
  · unfold seqStep
    simp only [h.member, hw]
    refine ⟨rfl, ?_, h⟩
    intro _
    simp only [refStep, absOut, items, ← hs]
    rw [countOf_map sig (fun x => eqv x w) (fun x => x == sig w) (eqv_sig w)]

theorem len_refines {m : Schema} {n : Node} (h : SeqOK m n) (next : Nat) :
    StepOK m n .len (seqStep n .len next) true := by
  unfold seqStep
  simp only [h.member]
  exact ⟨rfl, by intro _; simp [refStep, absOut, items], h⟩

theorem getslice_refines {m : Schema} {n : Node} (h : SeqOK m n) (sl : Slice) (next : Nat) :
    StepOK m n (.getslice sl) (seqStep n (.getslice sl) next) true := by
  unfold seqStep
  simp only [h.member]
  have hd := getSlice_map sig n.kids sl
  cases hdi : getSlice n.kids sl with
  | error e =>
    rw [hdi] at hd
    have : getSlice (items n) sl = .error e := by simpa [items, Except.map] using hd.symm
    exact ⟨by simp [refStep, this, excOut], by intro _; simp [refStep, this, excOut, absOut], h⟩
  | ok xs =>
    rw [hdi] at hd
    have hr : getSlice (items n) sl = .ok (xs.map sig) := by simpa [items, Except.map] using hd.symm
    refine ⟨by simp [refStep, hr], ?_, h⟩
    intro _
    simp only [refStep, hr, absOut]
    by_cases hl : n.kind = .list
    · simp only [hl, if_true]
      congr 1
      have hall : ∀ x ∈ xs, ItemOK m true x := fun x hx => by simpa [hl] using h.items x (mem_getSlice hdi hx)
      clear hdi hd hr
      induction xs with
      | nil => rfl
      | cons x xs ih =>
        have hx := hall x (by simp)
        simp only [ItemOK, if_true] at hx
        obtain ⟨hsl, el, hel, _⟩ := hx
        simp only [List.flatMap_cons, List.map_append, List.map_cons, hel]
        rw [ih (fun y hy => hall y (by simp [hy]))]
        cases x with
        | mk i s kids =>
          simp only [Node.kids] at hel
          simp only [Node.sch] at hsl
          rw [hel, sig_slot i s el [] (by rw [hsl]; rfl)]
          rfl
    · simp only [hl, if_false]

theorem getitem_refines {m : Schema} {n : Node} (h : SeqOK m n) (i : Int) (next : Nat) :
    StepOK m n (.getitem i) (seqStep n (.getitem i) next) true := by
  unfold seqStep
  simp only [h.member]
  have hd := getItem_map sig n.kids i
  cases hdi : getItem n.kids i with
  | none =>
    rw [hdi] at hd
    have : getItem (items n) i = none := by simpa [items] using hd.symm
    exact ⟨by simp [refStep, this, excOut], by intro _; simp [refStep, this, excOut, absOut], h⟩
  | some x =>
    rw [hdi] at hd
    have hr : getItem (items n) i = some (sig x) := by simpa [items] using hd.symm
    by_cases hl : n.kind = .list
    · have hx : ItemOK m true x := by simpa [hl] using h.items x (mem_getItem hdi)
      simp only [ItemOK, if_true] at hx
      obtain ⟨hsl, el, hel, _⟩ := hx
      simp only [hl, if_true, slotElement, hel, List.head?_cons]
      refine ⟨by simp [refStep, hr], ?_, h⟩
      intro _
      simp only [refStep, hr, absOut]
      cases x with
      | mk i s kids =>
        simp only [Node.kids] at hel
        simp only [Node.sch] at hsl
        rw [hel, sig_slot i s el [] (by rw [hsl]; rfl)]
    · simp only [hl, if_false]
      exact ⟨by simp [refStep, hr], by intro _; simp [refStep, hr, absOut], h⟩


theorem sig_slot_withKids (slot el : Node) (hs : slot.sch = slotSchema) :
    sig (slot.withKids [el]) = sig el := by
  cases slot with
  | mk i s kids =>
    simp only [Node.sch] at hs
    simp only [Node.withKids, Node.ni, Node.sch]
    exact sig_slot i s el [] (by rw [hs]; rfl)

theorem itemOK_slot_withKids (m : Schema) (slot el : Node) (hs : slot.sch = slotSchema) (he : el.sch = m) :
    ItemOK m true (slot.withKids [el]) := by
  cases slot; exact ⟨hs, el, rfl, he⟩

theorem newSlots_ok (m : Schema) (lst len : Nat) (ws : List Node) (hw : ∀ w ∈ ws, w.sch = m) (next : Nat) :
    (newSlots lst len ws next).1.map sig = ws.map sig ∧ ∀ x ∈ (newSlots lst len ws next).1, ItemOK m true x := by
  induction ws generalizing next with
  | nil => simp [newSlots]
  | cons w ws ih =>
    have := ih (fun x hx => hw x (by simp [hx])) (next + 1)
    simp only [newSlots, List.map_cons, sig_mkSlot, this.1, true_and]
    intro x hx
    rcases List.mem_cons.mp hx with hx | hx
    · rw [hx]; exact itemOK_mkSlot m _ _ _ w (hw w (by simp))
    · exact this.2 x hx

theorem setslice_refines {m : Schema} {n : Node} (h : SeqOK m n) (sl : Slice) (as : List Arg)
    (ha : ∀ a ∈ as, ArgOK m a) (next : Nat) :
    StepOK m n (.setslice sl (as.map (adaptArg m))) (seqStep n (.setslice sl as) next) true := by
  obtain ⟨ws, n1, hw, hs, ht⟩ := wrapAll_ok m as ha next
  unfold seqStep
  simp only [h.member, hw]
  by_cases hl : n.kind = .list
  · simp only [hl, if_true]
    have hns := newSlots_ok m n.id n.kids.length ws ht n1
    have hd := setSlice_map sig n.kids sl (newSlots n.id n.kids.length ws n1).1
    rw [hns.1, hs] at hd
    cases hdi : setSlice n.kids sl (newSlots n.id n.kids.length ws n1).1 with
    | error e =>
      rw [hdi] at hd
      have : setSlice (items n) sl (as.map (adaptArg m)) = .error e := by simpa [items, Except.map] using hd.symm
      exact ⟨by simp [refStep, this, excOut], by intro _; simp [refStep, this, excOut, absOut], h⟩
    | ok ks =>
      rw [hdi] at hd
      have hr : setSlice (items n) sl (as.map (adaptArg m)) = .ok (ks.map sig) := by
        simpa [items, Except.map] using hd.symm
      refine ⟨by simp [refStep, hr], by intro _; simp [refStep, hr, absOut], seqOK_withKids h _ ?_⟩
      simp only [hl, decide_true]
      apply itemOK_renumber
      intro x hx
      rcases mem_setSlice hdi hx with hx | hx
      · simpa [hl] using h.items x hx
      · exact hns.2 x hx
  · simp only [hl, if_false]
    have hmap : (ws.map (fun w => w.withParent (some n.id))).map sig = as.map (adaptArg m) := by
      rw [← hs]; simp [Function.comp_def]
    have hd := setSlice_map sig n.kids sl (ws.map (fun w => w.withParent (some n.id)))
    rw [hmap] at hd
    cases hdi : setSlice n.kids sl (ws.map (fun w => w.withParent (some n.id))) with
    | error e =>
      rw [hdi] at hd
      have : setSlice (items n) sl (as.map (adaptArg m)) = .error e := by simpa [items, Except.map] using hd.symm
      exact ⟨by simp [refStep, this, excOut], by intro _; simp [refStep, this, excOut, absOut], h⟩
    | ok ks =>
      rw [hdi] at hd
      have hr : setSlice (items n) sl (as.map (adaptArg m)) = .ok (ks.map sig) := by
        simpa [items, Except.map] using hd.symm
      refine ⟨by simp [refStep, hr], by intro _; simp [refStep, hr, absOut], seqOK_withKids h _ ?_⟩
      simp only [hl, decide_false]
      intro x hx
      rcases mem_setSlice hdi hx with hx | hx
      · simpa [hl] using h.items x hx
      · obtain ⟨w, hw', rfl⟩ := List.mem_map.mp hx
        exact itemOK_withParent m _ w (ht w hw')

theorem setitem_refines {m : Schema} {n : Node} (h : SeqOK m n) (i : Int) (a : Arg) (ha : ArgOK m a)
    (hsi : SetItemOK m (decide (n.kind = .list)) a) (next : Nat) :
    StepOK m n (.setitem i (adaptArg m a)) (seqStep n (.setitem i a) next) true := by
  unfold seqStep
  simp only [h.member]
  by_cases hl : n.kind = .list
  · simp only [hl, if_true]
    cases a with
    | elem e =>
      simp only
      cases hg : getItem n.kids i with
      | none =>
        have hn := getItem_none hg
        have : setItem (n.kids.map sig) i (adaptArg m (.elem e)) = none := by simp [setItem, hn]
        exact ⟨by simp [refStep, items, this, excOut], by intro _; simp [refStep, items, this, excOut, absOut], h⟩
      | some slot =>
        obtain ⟨k, hk, hx⟩ := getItem_some hg
        have hsl : ItemOK m true slot := by simpa [hl] using h.items slot (List.mem_of_getElem? hx)
        simp only [ItemOK, if_true] at hsl
        have : setItem (n.kids.map sig) i (adaptArg m (.elem e)) = some ((n.kids.map sig).set k (sig e)) := by
          simp [setItem, hk, adaptArg]
        simp only [hk]
        refine ⟨?_, by intro _; simp [refStep, items, this, absOut], seqOK_withKids h _ ?_⟩
        · simp only [refStep, items, this, kids_withKids, List.map_set]
          rw [sig_slot_withKids _ _ hsl.1, sig_withParent]
        · simp only [hl, decide_true]
          intro x hxm
          rcases List.mem_or_eq_of_mem_set hxm with hxm | hxm
          · simpa [hl] using h.items x hxm
          · rw [hxm]; exact itemOK_slot_withKids m _ _ hsl.1 (by cases e; exact ha)
    | plain r =>
      simp only
      cases hg : getItem n.kids i with
      | none =>
        have hn := getItem_none hg
        have : setItem (n.kids.map sig) i (adaptArg m (.plain r)) = none := by simp [setItem, hn]
        simp only [hn]
        exact ⟨by simp [refStep, items, this, excOut], by intro _; simp [refStep, items, this, excOut, absOut], h⟩
      | some slot =>
        obtain ⟨k, hk, hx⟩ := getItem_some hg
        have hsl : ItemOK m true slot := by simpa [hl] using h.items slot (List.mem_of_getElem? hx)
        simp only [ItemOK, if_true] at hsl
        obtain ⟨hss, el, hel, hem⟩ := hsl
        have hres : Resets m r := hsi (by simp [hl])
        obtain ⟨hsig, b, hb⟩ := setNode_member m r hres ha el hem next
        have : setItem (n.kids.map sig) i (adaptArg m (.plain r)) = some ((n.kids.map sig).set k (wrapSig m r)) := by
          simp [setItem, hk, adaptArg]
        simp only [hk, slotElement, hel, List.head?_cons, hb]
        refine ⟨?_, by intro _; simp [refStep, items, this, absOut], seqOK_withKids h _ ?_⟩
        · simp only [refStep, items, this, kids_withKids, List.map_set]
          rw [sig_slot_withKids _ _ hss, hsig]
        · simp only [hl, decide_true]
          intro x hxm
          rcases List.mem_or_eq_of_mem_set hxm with hxm | hxm
          · simpa [hl] using h.items x hxm
          · rw [hxm]
            refine itemOK_slot_withKids m _ _ hss ?_
            have := setNode_hdr el r none next
            have h3 : (setNode el r none next).node.hdr.2.2.1 = el.hdr.2.2.1 := by rw [this]
            exact h3.trans hem
  · simp only [hl, if_false]
    obtain ⟨w, n1, hw, hs, ht⟩ := wrap_ok m a ha next
    simp only [hw]
    cases hk : normIndex n.kids.length i with
    | none =>
      have : setItem (n.kids.map sig) i (adaptArg m a) = none := by simp [setItem, hk]
      exact ⟨by simp [refStep, items, this, excOut], by intro _; simp [refStep, items, this, excOut, absOut], h⟩
    | some k =>
      have : setItem (n.kids.map sig) i (adaptArg m a) = some ((n.kids.map sig).set k (adaptArg m a)) := by
        simp [setItem, hk]
      refine ⟨?_, by intro _; simp [refStep, items, this, absOut], seqOK_withKids h _ ?_⟩
      · simp [refStep, items, this, List.map_set, hs]
      · simp only [hl, decide_false]
        intro x hxm
        rcases List.mem_or_eq_of_mem_set hxm with hxm | hxm
        · simpa [hl] using h.items x hxm
        · rw [hxm]; exact itemOK_withParent m _ w ht


theorem attachAll_eq (lst : Node) (e : Node) (es : List Node) (next : Nat) :
    attachAll lst (e :: es) next = attachAll (appendEl lst e next).1 es (appendEl lst e next).2 := by
  unfold appendEl
  rw [attachAll]
  split <;> rfl

theorem attachAll_ok {m : Schema} {n : Node} (h : SeqOK m n) (vals : List Node) (hv : ∀ v ∈ vals, v.sch = m)
    (next : Nat) :
    items (attachAll n vals next).1 = items n ++ vals.map sig ∧ SeqOK m (attachAll n vals next).1 := by
  induction vals generalizing n next with
  | nil => simp [attachAll, h]
  | cons e es ih =>
    have hap := appendEl_ok h e (hv e (by simp)) next
    rw [attachAll_eq]
    have := ih hap.2 (fun x hx => hv x (by simp [hx])) (appendEl n e next).2
    refine ⟨?_, this.2⟩
    rw [this.1, hap.1]; simp

theorem set_refines {m : Schema} {n : Node} (h : SeqOK m n)
    (hk : n.kind = .list ∨ n.kind = .array ∨ n.kind = .multi) (xs : List Raw)
    (hx : ∀ r ∈ xs, WrapOK m r) (next : Nat) :
    StepOK m n (.assign (xs.map (wrapSig m))) (seqStep n (.set (.list xs)) next) false := by
  obtain ⟨vals, n', conv, hbi, hsig, hty⟩ := buildItems_ok m xs hx next
  cases n with
  | mk i s kids =>
    have hmem : s.member = some m := h.member
    have hk' : s.kind = .list ∨ s.kind = .array ∨ s.kind = .multi := hk
    have hempty : SeqOK m (.mk i s []) := ⟨h.member, by simp [Node.kids]⟩
    have hat := attachAll_ok hempty vals hty n'
    have hset : (setNode (.mk i s kids) (.list xs) none next).node = (attachAll (.mk i s []) vals n').1 ∧
        ∃ b, (setNode (.mk i s kids) (.list xs) none next).res = .ok b := by
      unfold setNode
      rcases hk' with hk' | hk' | hk' <;> simp [hk', hmem, hbi]
    obtain ⟨hnode, b, hres⟩ := hset
    unfold seqStep
    simp only [Node.sch, hmem, hres]
    refine ⟨?_, (by intro hc; cases hc), ?_⟩
    · simp only [refStep]
      show items (setNode (.mk i s kids) (.list xs) none next).node = _
      rw [hnode, hat.1, hsig]; simp [items, Node.kids]
    · show SeqOK m (setNode (.mk i s kids) (.list xs) none next).node
      rw [hnode]; exact hat.2


/-! ### key-less sort, `set(non-iterable)`, `set_default`, `*=` -/

theorem sortNoKey_refines {m : Schema} {n : Node} (h : SeqOK m n)
    (hno : n.sch.kind = .list ∨ (m.kind ≠ .list ∧ m.kind ≠ .array ∧ m.kind ≠ .multi)) (rev : Bool) (next : Nat) :
    StepOK m n .sortNoKey (seqStep n (.sort none rev) next) true := by
  have hord : noOrderItems n = true := by
    unfold noOrderItems
    rcases hno with hl | hm
    · have : n.kind = .list := hl
      simp [this]
    · by_cases hl : n.kind = .list
      · simp [hl]
      · simp only [hl, decide_false, Bool.false_or]
        rw [List.all_eq_true]
        intro x hx
        have hx' := h.items x hx
        simp only [hl, decide_false, ItemOK] at hx'
        have hxs : x.sch = m := by simpa using hx'
        have hk1 : x.kind ≠ .list := by unfold Node.kind; rw [hxs]; exact hm.1
        have hk2 : x.kind ≠ .array := by unfold Node.kind; rw [hxs]; exact hm.2.1
        have hk3 : x.kind ≠ .multi := by unfold Node.kind; rw [hxs]; exact hm.2.2
        cases hxk : x.kind <;> simp_all
  unfold seqStep
  simp only [h.member]
  by_cases hl : n.kids.length ≤ 1
  · simp only [hl, if_true]
    exact ⟨rfl, by intro _; simp [refStep, absOut, items, hl], h⟩
  · simp only [hl, if_false, hord, if_true]
    exact ⟨rfl, by intro _; simp [refStep, absOut, items, hl, excOut], h⟩

/-- `set(None)` / `set(5)`: `del self[:]`, then iterating raises TypeError, which `set` swallows:
    the sequence is empty and the call returns False -/
theorem set_nonlist_refines {m : Schema} {n : Node} (h : SeqOK m n) (hk : SeqKind n) (r : Raw)
    (hr : r = .none ∨ ∃ k, r = .int k) (next : Nat) :
    StepOK m n (.assign []) (seqStep n (.set r) next) false ∧ (seqStep n (.set r) next).out = .bool false := by
  cases n with
  | mk i s kids =>
    have hmem : s.member = some m := h.member
    have hempty : SeqOK m (.mk i s []) := ⟨h.member, by simp [Node.kids]⟩
    have hset : setNode (.mk i s kids) r none next = ⟨.mk i s [], next, .ok false⟩ := by
      rw [setNode_seq i s kids r none next hk]
      unfold seqSet
      rcases hr with rfl | ⟨k, rfl⟩ <;> simp only [hmem]
    unfold seqStep
    simp only [Node.sch, hmem, hset]
    refine ⟨⟨rfl, (by intro hc; cases hc), hempty⟩, ?_⟩
    first | rfl | trivial

theorem attach_fresh {m : Schema} {i : NInfo} {s : Schema} (hmem : s.member = some m) (vals : List Node)
    (hv : ∀ v ∈ vals, v.sch = m) (next : Nat) :
    items (attachAll (.mk i s []) vals next).1 = vals.map sig ∧ SeqOK m (attachAll (.mk i s []) vals next).1 := by
  have hempty : SeqOK m (.mk i s []) := ⟨hmem, by simp [Node.kids]⟩
  have := attachAll_ok hempty vals hv next
  exact ⟨by rw [this.1]; simp [items, Node.kids], this.2⟩

theorem defaultSlots_ok (m : Schema) (b0 : Bool) (hd : (fromDefaults m none [] 0).res = .ok b0) (lst : Nat) (k : Nat) :
    ∀ (idx next : Nat),
    (defaultSlotsWith (fun nx => fromDefaults m none [] nx) lst k idx next).2.2 = .ok true ∧
    (defaultSlotsWith (fun nx => fromDefaults m none [] nx) lst k idx next).1.map sig = List.replicate k (defaultSig m) ∧
    ∀ x ∈ (defaultSlotsWith (fun nx => fromDefaults m none [] nx) lst k idx next).1, ItemOK m true x := by
  induction k with
  | zero => intro idx next; exact ⟨rfl, rfl, by simp [defaultSlotsWith]⟩
  | succ k ih =>
    intro idx next
    have hi := fromDefaults_indep m none none [] (next + 1) 0
    have hres : (fromDefaults m none [] (next + 1)).res = .ok b0 := by rw [hi.2]; exact hd
    have hsig : sig (fromDefaults m none [] (next + 1)).node = defaultSig m := sig_of_erase hi.1
    have hsch : (fromDefaults m none [] (next + 1)).node.sch = m :=
      congrArg (fun t => t.2.2.1) (fromDefaults_hdr m none [] (next + 1))
    have := ih (idx + 1) (fromDefaults m none [] (next + 1)).next
    rw [defaultSlotsWith]
    simp only [hres]
    refine ⟨this.1, ?_, ?_⟩
    · simp only [List.map_cons, sig_mkSlot, hsig, this.2.1, List.replicate_succ]
    · intro x hx
      rcases List.mem_cons.mp hx with hx | hx
      · rw [hx]; exact itemOK_mkSlot m _ _ _ _ hsch
      · exact this.2.2 x hx

theorem setList_ok {m : Schema} {i : NInfo} {s : Schema} {kids : List Node} (hmem : s.member = some m)
    (hk : s.kind = .list ∨ s.kind = .array ∨ s.kind = .multi) (xs : List Raw) (hx : ∀ r ∈ xs, WrapOK m r) (next : Nat) :
    items (setNode (.mk i s kids) (.list xs) none next).node = xs.map (wrapSig m) ∧
    SeqOK m (setNode (.mk i s kids) (.list xs) none next).node ∧
    ∃ b, (setNode (.mk i s kids) (.list xs) none next).res = .ok b := by
  obtain ⟨vals, n', conv, hbi, hsig, hty⟩ := buildItems_ok m xs hx next
  have hat := attach_fresh (i := i) hmem vals hty n'
  have hset : (setNode (.mk i s kids) (.list xs) none next).node = (attachAll (.mk i s []) vals n').1 ∧
      (setNode (.mk i s kids) (.list xs) none next).res = .ok conv := by
    rw [setNode_seq i s kids _ none next hk]
    unfold seqSet
    simp only [hmem, hbi]
    first | exact ⟨rfl, rfl⟩ | exact ⟨rfl, trivial⟩ | exact ⟨trivial, trivial⟩ | exact ⟨trivial, rfl⟩
  rw [hset.1]
  exact ⟨by rw [hat.1, hsig], hat.2, conv, hset.2⟩

theorem setDefault_ok {m : Schema} {n : Node} (h : SeqOK m n) (hk : SeqKind n) (hd : DefaultOK n.sch m) (next : Nat) :
    items (setDefault n next).node = (refStep (items n) (defaultOp n.sch m)).1 ∧
    SeqOK m (setDefault n next).node ∧ ∃ b, (setDefault n next).res = .ok b := by
  cases n with
  | mk i s kids =>
    have hmem : s.member = some m := h.member
    have hk' : s.kind = .list ∨ s.kind = .array ∨ s.kind = .multi := hk
    simp only [Node.sch] at hd ⊢
    unfold DefaultOK at hd
    unfold defaultOp
    cases hdf : s.dflt with
    | none =>
      have : setDefault (.mk i s kids) next = ⟨.mk i s kids, next, .ok true⟩ := by
        unfold setDefault
        rcases hk' with hkk | hkk | hkk <;> simp only [hkk, hdf]
      rw [this]
      exact ⟨by simp [refStep], h, true, rfl⟩
    | int c =>
      rw [hdf] at hd
      obtain ⟨hkl, b0, hb0⟩ := hd
      have hds := defaultSlots_ok m b0 hb0 i.id c.toNat 0 next
      have : setDefault (.mk i s kids) next =
          ⟨.mk i s (defaultSlotsWith (fun nx => fromDefaults m none [] nx) i.id c.toNat 0 next).1,
           (defaultSlotsWith (fun nx => fromDefaults m none [] nx) i.id c.toNat 0 next).2.1,
           (defaultSlotsWith (fun nx => fromDefaults m none [] nx) i.id c.toNat 0 next).2.2⟩ := by
        unfold setDefault
        simp only [hkl, hdf, hmem]
      rw [this]
      refine ⟨by simp [refStep, items, Node.kids, hds.2.1], ⟨hmem, ?_⟩, true, hds.1⟩
      intro x hx
      have hl : (Node.mk i s (defaultSlotsWith (fun nx => fromDefaults m none [] nx) i.id c.toNat 0 next).1).kind = .list := hkl
      simp only [hl, decide_true]
      exact hds.2.2 x hx
    | list xs =>
      rw [hdf] at hd
      rcases hk' with hkk | hkk | hkk
      · have : setDefault (.mk i s kids) next = setNode (.mk i s kids) (.list xs) none next := by
          unfold setDefault
          simp only [hkk, hdf]
        rw [this]
        have := setList_ok (i := i) (kids := kids) hmem (Or.inl hkk) xs hd next
        exact ⟨by rw [this.1]; simp [refStep], this.2.1, this.2.2⟩
      · obtain ⟨vals, n', conv, hbi, hsig, hty⟩ := buildItems_ok m xs hd next
        have hat := attach_fresh (i := i) hmem vals hty n'
        have : setDefault (.mk i s kids) next =
            ⟨(attachAll (.mk i s []) vals n').1, (attachAll (.mk i s []) vals n').2, .ok true⟩ := by
          unfold setDefault
          simp only [hkk, hdf, hmem, hbi]
        rw [this]
        exact ⟨by rw [hat.1, hsig]; simp [refStep], hat.2, true, rfl⟩
      · obtain ⟨vals, n', conv, hbi, hsig, hty⟩ := buildItems_ok m xs hd next
        have hat := attach_fresh (i := i) hmem vals hty n'
        have : setDefault (.mk i s kids) next =
            ⟨(attachAll (.mk i s []) vals n').1, (attachAll (.mk i s []) vals n').2, .ok true⟩ := by
          unfold setDefault
          simp only [hkk, hdf, hmem, hbi]
        rw [this]
        exact ⟨by rw [hat.1, hsig]; simp [refStep], hat.2, true, rfl⟩
    | str _ => rw [hdf] at hd; exact hd.elim
    | dict _ => rw [hdf] at hd; exact hd.elim
    | pairs _ => rw [hdf] at hd; exact hd.elim

theorem setDefault_refines {m : Schema} {n : Node} (h : SeqOK m n) (hk : SeqKind n) (hd : DefaultOK n.sch m)
    (next : Nat) : StepOK m n (defaultOp n.sch m) (seqStep n .setDefault next) true := by
  obtain ⟨hitems, hinv, b, hb⟩ := setDefault_ok h hk hd next
  unfold seqStep
  simp only [h.member, hb]
  refine ⟨hitems, ?_, hinv⟩
  intro _
  unfold defaultOp
  cases n.sch.dflt <;> rfl

theorem imulLoop_ok {m : Schema} (vals : List Arg) (hv : ∀ a ∈ vals, ArgOK m a) (k : Nat) :
    ∀ {n : Node} (_ : SeqOK m n) (next : Nat),
    (imulLoop m vals k n next).2.2 = none ∧
    items (imulLoop m vals k n next).1 = items n ++ (List.replicate k (vals.map (adaptArg m))).flatten ∧
    SeqOK m (imulLoop m vals k n next).1 := by
  induction k with
  | zero => intro n h next; simp [imulLoop, h]
  | succ k ih =>
    intro n h next
    have he := extendArgs_ok h vals hv next
    rw [imulLoop]
    generalize extendArgs m n vals next = q at he ⊢
    obtain ⟨n', nx, oe⟩ := q
    simp only at he
    obtain ⟨he1, he2, he3⟩ := he
    subst he1
    simp only
    have := ih he3 nx
    refine ⟨this.1, ?_, this.2.2⟩
    rw [this.2.1, he2, List.replicate_succ, List.flatten_cons, List.append_assoc]

/-- `seq *= count`: `count <= 0` empties the sequence; otherwise `count - 1` rounds of
    `extend(values)` where `values` are the members' values (their `.u` for unadaptable text),
    each wrapped afresh by the member schema -/
theorem imul_refines {m : Schema} {n : Node} (h : SeqOK m n) (hk : SeqKind n) (c : Int)
    (hg : 0 < c → (m.kind ≠ .multi ∧ m.kind ≠ .slot) ∧ ∀ s ∈ items n, WrapOK m (imulRaw s))
    (hdeep : 0 < c → ∀ x ∈ members n, noMulti x = true) (next : Nat) :
    StepOK m n (.imul c (fun s => wrapSig m (imulRaw s))) (seqStep n (.imul c) next) true := by
  unfold seqStep
  simp only [h.member]
  by_cases hc : c ≤ 0
  · simp only [hc, if_true]
    refine ⟨?_, by intro _; simp [refStep, hc, absOut], seqOK_withKids h _ ?_⟩
    · by_cases hl : n.kind = .list <;> simp [hl, refStep, hc, renumber, renumberFrom]
    · by_cases hl : n.kind = .list <;> simp [hl, renumber, renumberFrom]
  · simp only [hc, if_false]
    obtain ⟨hmk, hw⟩ := hg (by omega)
    have hmt := members_typed h hk
    have hie := items_eq_members h hk
    have hkind : ∀ x ∈ members n, noMulti x = true := hdeep (by omega)
    have hvals : ∀ a ∈ (members n).map (fun x => Arg.plain (imulValue x)), ArgOK m a := by
      intro a ha
      obtain ⟨x, hx, rfl⟩ := List.mem_map.mp ha
      show WrapOK m (imulValue x)
      rw [imulValue_sig x (hkind x hx)]
      exact hw _ (by rw [hie]; exact List.mem_map_of_mem hx)
    have hmap : ((members n).map (fun x => Arg.plain (imulValue x))).map (adaptArg m) =
        (items n).map (fun s => wrapSig m (imulRaw s)) := by
      rw [hie, List.map_map, List.map_map]
      apply List.map_congr_left
      intro x hx
      simp only [Function.comp, adaptArg, imulValue_sig x (hkind x hx)]
    have hl := imulLoop_ok _ hvals (c.toNat - 1) h next
    simp only [hl.1]
    exact ⟨by rw [hl.2.1, hmap]; simp [refStep, hc], by intro _; simp [refStep, hc, absOut], hl.2.2⟩

theorem adaptScalar_isSome (k : SKind) (hk : k = .integer ∨ k = .string) (r : Raw)
    (hr : r = .none ∨ (∃ n, r = .int n) ∨ ∃ t, r = .str t) : (adaptScalar k r).isSome = true := by
  rcases hk with rfl | rfl <;> rcases hr with rfl | ⟨n, rfl⟩ | ⟨t, rfl⟩ <;> simp only [adaptScalar] <;>
    first | rfl | (cases parseInt (strip t) <;> rfl)

/-- for Integer / String members the state-dependent clause of the `*=` guard always holds -/
theorem imul_guard_scalar {m : Schema} {n : Node} (h : SeqOK m n) (hk : SeqKind n) (hm : ScalarSchema m) :
    (m.kind ≠ .multi ∧ m.kind ≠ .slot) ∧ ∀ s ∈ items n, WrapOK m (imulRaw s) := by
  refine ⟨by rcases hm with hm | hm <;> simp [hm], ?_⟩
  intro s hs
  rw [items_eq_members h hk] at hs
  obtain ⟨x, hx, rfl⟩ := List.mem_map.mp hs
  have hxs := members_typed h hk m h.member x hx
  apply (wrap_scalar m hm _).1.mpr
  cases x with
  | mk i sx kids =>
    simp only [Node.sch] at hxs
    subst hxs
    have hsig : sig (.mk i sx kids) = .sc i.val i.u := by
      unfold sig
      rcases hm with hm | hm <;> simp [hm]
    rw [hsig]
    apply adaptScalar_isSome _ hm
    simp only [imulRaw]
    cases i.val with
    | none => dsimp only; split <;> simp
    | int k => exact Or.inr (Or.inl ⟨k, rfl⟩)
    | str t => exact Or.inr (Or.inr ⟨t, rfl⟩)

/-- scalar members contain no MultiValue -/
theorem imulDeep_scalar {m : Schema} {n : Node} (h : SeqOK m n) (hk : SeqKind n) (hm : ScalarSchema m) :
    ∀ x ∈ members n, noMulti x = true := by
  intro x hx
  have hxs := members_typed h hk m h.member x hx
  cases x with
  | mk i sx kids =>
    simp only [Node.sch] at hxs
    subst hxs
    rw [noMulti]
    rcases hm with hm | hm <;> simp [hm]

/-! ### the property theorems -/

def isSet : SeqOp → Bool | .set _ => true | _ => false

/-- **C09 (one call).**  For a List / Array / MultiValue over any member schema and EVERY
    list-protocol call of the model satisfying the guard `OpOK`: the items afterwards are those of
    the reference Python list after the same call on the adapted values (`adaptOp`), the call
    returns / raises what the list returns / raises (`set` returns its own flag, see
    `set_nonlist_refines`), and every member is still an element of the member schema. -/
theorem step_refines {m : Schema} {n : Node} (h : SeqOK m n) (hk : SeqKind n) (op : SeqOp)
    (hop : OpOK n.sch m (items n) op) (hdeep : ImulDeep n op) (next : Nat) :
    StepOK m n (adaptOp n.sch m op) (seqStep n op next) (!isSet op) := by
  cases op with
  | append a => exact append_refines h a hop next
  | extend as => exact (extend_refines h as hop next).1
  | iadd as => exact (extend_refines h as hop next).2
  | insert i a => exact insert_refines h i a hop next
  | setitem i a => exact setitem_refines h i a hop.1 hop.2 next
  | setslice sl as => exact setslice_refines h sl as hop next
  | delitem i => exact delitem_refines h i next
  | delslice sl => exact delslice_refines h sl next
  | pop i => exact pop_refines h i next
  | remove a => exact remove_refines h a hop next
  | reverse => exact reverse_refines h next
  | clear =>
    unfold seqStep
    simp only [h.member]
    exact ⟨by simp [adaptOp, refStep], by intro _; rfl, seqOK_withKids h _ (by simp)⟩
  | imul c => exact imul_refines h hk c hop hdeep next
  | sort k rev =>
    cases k with
    | none => exact sortNoKey_refines h hop rev next
    | some k => exact sort_refines h hk k hop rev next
  | set r =>
    cases r with
    | list xs => exact set_refines h hk xs hop next
    | none => exact (set_nonlist_refines h hk .none (Or.inl rfl) next).1
    | int k => exact (set_nonlist_refines h hk (.int k) (Or.inr ⟨k, rfl⟩) next).1
    | str _ => exact hop.elim
    | dict _ => exact hop.elim
    | pairs _ => exact hop.elim
  | setDefault => exact setDefault_refines h hk hop next
  | len => exact len_refines h next
  | getitem i => exact getitem_refines h i next
  | getslice sl => exact getslice_refines h sl next
  | contains a => exact (query_refines h a hop next).1
  | index a => exact (query_refines h a hop next).2.1
  | count a => exact (query_refines h a hop next).2.2

theorem seqKind_step {n : Node} (hk : SeqKind n) (op : SeqOp) (next : Nat) : SeqKind (seqStep n op next).node := by
  have := seqStep_hdr n op next
  have h3 : (seqStep n op next).node.sch = n.sch := congrArg (fun t => t.2.2.1) this
  unfold SeqKind Node.kind at *
  rw [h3]; exact hk

theorem sch_step (n : Node) (op : SeqOp) (next : Nat) : (seqStep n op next).node.sch = n.sch :=
  congrArg (fun t => t.2.2.1) (seqStep_hdr n op next)

/-- the reference list under a history -/
def refRun (l : List Sig) (rops : List (ROp Sig)) : List Sig := rops.foldl (fun l r => (refStep l r).1) l

/-- the guard of a history: every call satisfies `OpOK` in the state it is made in -/
def HistOK (m : Schema) : Node → Nat → List SeqOp → Prop
  | _, _, [] => True
  | n, next, op :: ops =>
    (OpOK n.sch m (items n) op ∧ ImulDeep n op) ∧ HistOK m (seqStep n op next).node (seqStep n op next).next ops

/-- **C09 (histories).**  After ANY history of list-protocol calls of the model whose calls
    satisfy the guard, the items are those of the reference list that received the same calls,
    and every member is an element of the member schema. -/
theorem run_refines {m : Schema} (ops : List SeqOp) :
    ∀ (n : Node) (next : Nat), SeqOK m n → SeqKind n → HistOK m n next ops →
      items (run ⟨n, next⟩ ops).node = refRun (items n) (ops.map (adaptOp n.sch m)) ∧
      SeqOK m (run ⟨n, next⟩ ops).node := by
  induction ops with
  | nil => intro n next h _ _; exact ⟨rfl, h⟩
  | cons op ops ih =>
    intro n next h hk hops
    obtain ⟨⟨hop, hdeep⟩, hrest⟩ := hops
    have hs := step_refines h hk op hop hdeep next
    have := ih (seqStep n op next).node (seqStep n op next).next hs.inv (seqKind_step hk op next) hrest
    simp only [run, List.foldl_cons, step, List.map_cons, refRun, sch_step] at this ⊢
    rw [this.1, hs.itemsEq]
    exact ⟨rfl, this.2⟩

/-- for Integer / String members the guard of a history is static: it is enough that every call
    satisfies `OpOK` with the `*=` clause dropped (`its := []`) -/
def TextKeys : SeqOp → Prop
  | .sort (some k) _ => k = .u ∨ k = .ulen
  | _ => True

theorem histOK_of_static {m : Schema} (hm : ScalarSchema m) (ops : List SeqOp) :
    ∀ (n : Node) (next : Nat), SeqOK m n → SeqKind n → (∀ op ∈ ops, OpOK n.sch m [] op ∧ TextKeys op) →
      HistOK m n next ops := by
  induction ops with
  | nil => intro _ _ _ _ _; trivial
  | cons op ops ih =>
    intro n next h hk hops
    have hop0 := (hops op (by simp)).1
    have hkeys := (hops op (by simp)).2
    have hop : OpOK n.sch m (items n) op := by
      cases op with
      | imul c => intro _; exact imul_guard_scalar h hk hm
      | sort k r =>
        cases k with
        | none => exact Or.inr (by rcases hm with hm | hm <;> simp [hm])
        | some k => exact sortOK_scalar h hk hm k hkeys
      | set r => cases r <;> exact hop0
      | _ => exact hop0
    have hdeep : ImulDeep n op := by
      cases op with
      | imul c => intro _; exact imulDeep_scalar h hk hm
      | _ => trivial
    refine ⟨⟨hop, hdeep⟩, ih _ _ (step_refines h hk op hop hdeep next).inv (seqKind_step hk op next) ?_⟩
    intro o ho
    rw [sch_step]
    exact hops o (by simp [ho])

/-- **C09 (histories, Integer / String members).**  Every history whose arguments are None / int /
    str values or elements of the member schema and whose sort keys are the text keys — whatever
    the calls: `*=`, `clear`,
    `set_default`, key-less `sort`, `set(None)` included. -/
theorem run_refines_scalar {m : Schema} (hm : ScalarSchema m) (ops : List SeqOp) (n : Node) (next : Nat)
    (h : SeqOK m n) (hk : SeqKind n) (hops : ∀ op ∈ ops, OpOK n.sch m [] op ∧ TextKeys op) :
    items (run ⟨n, next⟩ ops).node = refRun (items n) (ops.map (adaptOp n.sch m)) ∧
    SeqOK m (run ⟨n, next⟩ ops).node :=
  run_refines ops n next h hk (histOK_of_static hm ops n next h hk hops)

end Flatland.C09.Proofs
