/-
C07 — uniqueness of keys: under `SepSafe`, two emitted pairs with the same key belong to elements
with the same *name path* (the names on the path from the root, list members contributing their
index).  Distinct name paths occur only once in a tree except for the members of one Array /
MultiValue, which all share their parent's path — so keys are unique except for those.
-/
import Proofs.C07
import Proofs.Lemmas.SepSafe
namespace Flatland.Flat.Proofs
open Flatland.Flat

variable {env : Env} {sep : Str} {T : Str → Prop}

/-- the separator-join is injective on token paths -/
theorem joinSep_inj (hs : SepSafe env sep T) : ∀ (π π' : List Str), (∀ t ∈ π, T t) → (∀ t ∈ π', T t) →
    joinSep sep π = joinSep sep π' → π = π'
  | [], [], _, _, _ => rfl
  | [], t' :: r', _, h', h => by
    have hne := hs.tok_ne t' (h' t' (by simp))
    exfalso
    cases r' with
    | nil => rw [joinSep_single] at h; exact hne h.symm
    | cons u r =>
      rw [joinSep_cons_cons] at h
      simp only [joinSep] at h
      exact hne (List.append_eq_nil_iff.mp (List.append_eq_nil_iff.mp h.symm).1).1
  | t :: r, [], h1, _, h => by
    have hne := hs.tok_ne t (h1 t (by simp))
    exfalso
    cases r with
    | nil => rw [joinSep_single] at h; exact hne h
    | cons u r =>
      rw [joinSep_cons_cons] at h
      simp only [joinSep] at h
      exact hne (List.append_eq_nil_iff.mp (List.append_eq_nil_iff.mp h).1).1
  | [t], [t'], _, _, h => by
    simp only [joinSep_single] at h; rw [h]
  | [t], t' :: u' :: r', h1, _, h => by
    rw [joinSep_single, joinSep_cons_cons] at h
    exact absurd h (hs.no_sep t (h1 t (by simp)) t' _)
  | t :: u :: r, [t'], _, h', h => by
    rw [joinSep_single, joinSep_cons_cons] at h
    exact absurd h.symm (hs.no_sep t' (h' t' (by simp)) t _)
  | t :: u :: r, t' :: u' :: r', h1, h', h => by
    rw [joinSep_cons_cons, joinSep_cons_cons] at h
    have htt := hs.split t t' (h1 t (by simp)) (h' t' (by simp)) _ _ h
    subst htt
    have hrest : joinSep sep (u :: r) = joinSep sep (u' :: r') := by
      have := List.append_cancel_left h
      exact this
    have := joinSep_inj hs (u :: r) (u' :: r') (fun x hx => h1 x (List.mem_cons_of_mem _ hx))
      (fun x hx => h' x (List.mem_cons_of_mem _ hx)) hrest
    rw [this]

mutual
/-- every name in the tree satisfies `P` -/
def allNames (P : Str → Prop) : FNode → Prop
  | .mk nm _ _ _ _ kids => (∀ x, nm = some x → P x) ∧ allNamesL P kids
def allNamesL (P : Str → Prop) : List FNode → Prop
  | [] => True
  | k :: ks => allNames P k ∧ allNamesL P ks
end

theorem allNamesL_get (P : Str → Prop) (ks : List FNode) (h : allNamesL P ks) (i : Nat) (hi : i < ks.length) :
    allNames P (ks[i]!) := by
  induction ks generalizing i with
  | nil => simp at hi
  | cons k ks ih =>
    simp only [allNamesL] at h
    cases i with
    | zero => simpa using h.1
    | succ j =>
      simp only [List.length_cons, Nat.add_lt_add_iff_right] at hi
      simpa using ih h.2 j hi

theorem below_tokens (P : Str → Prop) (hidx : ∀ i, P (natStr i)) {p : List Str} {n : FNode}
    {p' : List Str} {n' : FNode} (hb : Below p n p' n') (hp : ∀ t ∈ p, P t) (hn : allNames P n) :
    (∀ t ∈ namePath p' n', P t) := by
  induction hb with
  | here p n =>
    intro t ht
    obtain ⟨nm, fl, cfl, u, slots, kids⟩ := n
    simp only [namePath, FNode.name, List.mem_append] at ht
    rcases ht with ht | ht
    · exact hp t ht
    · cases nm with
      | none => simp at ht
      | some y => simp at ht; subst ht; exact hn.1 _ rfl
  | @kid p n p' n' i hc hi _ ih =>
    obtain ⟨nm, fl, cfl, u, slots, kids⟩ := n
    apply ih
    · intro t ht
      simp only [childPath, FNode.slots, namePath, FNode.name] at ht
      have hnm : ∀ t ∈ p ++ nm.toList, P t := by
        intro t ht
        rcases List.mem_append.mp ht with h | h
        · exact hp t h
        · cases nm with
          | none => simp at h
          | some y => simp at h; subst h; exact hn.1 _ rfl
      cases slots with
      | true =>
        simp only [if_true] at ht
        rcases List.mem_append.mp ht with h | h
        · exact hnm t h
        · simp at h; subst h; exact hidx i
      | false =>
        simp only [Bool.false_eq_true, if_false] at ht
        exact hnm t ht
    · exact allNamesL_get P kids hn.2 i hi

/-- **Keys are unique up to the name path.**  If two pairs emitted by `flatten()` carry the same key,
    the two elements they belong to have the same name path (so they are the same element, or two
    members of one Array / MultiValue, the only elements that share a name path). -/
theorem keys_unique_paths (hs : SepSafe env sep T) (hidx : ∀ i, T (natStr i)) (n : FNode)
    (hn : allNames T n) (x y : Str × Str) (hx : x ∈ flattenNode sep n) (hy : y ∈ flattenNode sep n)
    (hk : x.1 = y.1) :
    ∃ p₁ n₁ p₂ n₂, Below [] n p₁ n₁ ∧ Below [] n p₂ n₂ ∧ n₁.fl = true ∧ n₂.fl = true ∧
      x = (joinSep sep (namePath p₁ n₁), n₁.u) ∧ y = (joinSep sep (namePath p₂ n₂), n₂.u) ∧
      namePath p₁ n₁ = namePath p₂ n₂ := by
  obtain ⟨p₁, n₁, hb₁, hf₁, hx⟩ := keys_are_paths sep n x hx
  obtain ⟨p₂, n₂, hb₂, hf₂, hy⟩ := keys_are_paths sep n y hy
  refine ⟨p₁, n₁, p₂, n₂, hb₁, hb₂, hf₁, hf₂, hx, hy, ?_⟩
  have h1 := below_tokens T hidx hb₁ (by simp) hn
  have h2 := below_tokens T hidx hb₂ (by simp) hn
  apply joinSep_inj hs _ _ h1 h2
  rw [hx, hy] at hk
  exact hk

end Flatland.Flat.Proofs
