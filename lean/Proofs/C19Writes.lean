/-
C19, round h9 — WHEN is the attribute written: the decision as a TABLE transcribed row by row from
the property text / documentation (`attrWritten`), the tags table transcribed from the
documentation (`docTags`, checked against the table regenerated from the source: `autoTags_doc`),
and each transform of the model (which follows the code's statement order: pop, early returns,
`forced or current is None and tagname in …`) proved equal to it.  The tabindex transform is stated
in full, non-positive counters included (KF-C19-b: "stop numbers").
-/
import Proofs.C19Filters
namespace Flatland.C19.Proofs
open Flatland.Markup Flatland.C19 Flatland.C19.Spec

/-- THE DECISION TABLE (property text): `on` = the option as resolved, `forced` = a tag-level on,
    `own` = the tag is one of the transform's own tags, `given` = the author gave the attribute.
    Row 1: resolved off → left alone.  Row 2: "a tag-level 'on' forces the transform even for tags
    and existing attributes it would otherwise leave alone".  Row 3: on by block / generator /
    default → only the transform's own tags, and only when the attribute is not there yet. -/
def attrWritten : (on forced own given : Bool) → Bool
  | false, _, _, _ => false
  | true, true, _, _ => true
  | true, false, true, false => true
  | true, false, _, _ => false

/-- the code's guard (`proceed`, then `forced or current is None and tagname in _auto_tags[..]`)
    is the table — for all 16 rows; `or`/`and` precedence matters: `(forced or current is None)
    and own` differs in rows (on, forced, not own, _) -/
theorem applies_table (T : Tables) (attr tag : Str) (p f given : Bool) :
    (p && applies T attr tag f given) = attrWritten p f (T.autoTag attr tag) given := by
  unfold applies
  cases p <;> cases f <;> cases given <;> cases T.autoTag attr tag <;> rfl

example : attrWritten true true false true = true ∧ ((true || !true) && false) = false := by decide

/-- the documentation's tags per transform (markup.rst `:Tags:` lines; for auto-value the prose
    describes `<option>` — the `:Tags:` line says "select", whose options are meant) -/
def docTags : List (Str × List Str) :=
  [(sName, ["button".toList, "form".toList, "input".toList, "select".toList, "textarea".toList]),
   (sValue, ["button".toList, "input".toList, "option".toList, "textarea".toList]),
   (sId, ["button".toList, "input".toList, "select".toList, "textarea".toList]),
   (sFor, ["label".toList]),
   (sTabindex, ["button".toList, "input".toList, "select".toList, "textarea".toList])]

def sameSet (a b : List Str) : Bool := a.all b.contains && b.all a.contains

/-- GENERATED OBLIGATION: `_auto_tags` as regenerated from the source = the documentation's table -/
theorem autoTags_doc :
    (docTags.all fun kt => match Dict.get? Tables.current.autoTags kt.1 with
      | some us => sameSet kt.2 us
      | none => false) = true ∧ Tables.current.autoTags.length = docTags.length := by
  decide

/-! ### each transform against the table -/

theorem table_false {T : Tables} {attr tag : Str} {p f given : Bool}
    (h : attrWritten p f (T.autoTag attr tag) given = false) : p = false ∨ applies T attr tag f given = false := by
  rw [← applies_table] at h
  cases p
  · exact Or.inl rfl
  · exact Or.inr (by simpa using h)

theorem table_true {T : Tables} {attr tag : Str} {p f given : Bool}
    (h : attrWritten p f (T.autoTag attr tag) given = true) : p = true ∧ applies T attr tag f given = true := by
  rw [← applies_table] at h
  simpa using h

/-- NAME, exact: written iff the table says so AND the tag is bound to an element with a
    non-empty flattened name; otherwise only the option is consumed -/
theorem transformName_table (T : Tables) (tag : Str) (bnd : Option Bind) (st : TState) (a : Attrs) (p f : Bool)
    (hp : popToggle T "auto_name".toList st.attrs st.ctx = .ok (a, p, f)) :
    transformName T tag bnd st = .ok { st with attrs :=
      match bnd with
      | some b => if attrWritten p f (T.autoTag sName tag) (Dict.get? a sName).isSome && !b.flatName.isEmpty
                  then Dict.set a sName (.text b.flatName) else a
      | none => a } := by
  rw [transformName_decision T tag bnd st a p f hp, ← applies_table]
  cases bnd with
  | none => rfl
  | some b =>
    simp only
    cases p <;> cases b.flatName.isEmpty <;> cases applies T sName tag f (Dict.get? a sName).isSome <;> rfl

/-- ID: table says no → only the option is consumed -/
theorem transformDomid_table_skips (T : Tables) (tag : Str) (bnd : Option Bind) (st : TState) (a : Attrs) (p f : Bool)
    (hp : popToggle T "auto_domid".toList st.attrs st.ctx = .ok (a, p, f))
    (h : attrWritten p f (T.autoTag sId tag) (Dict.get? a sId).isSome = false) :
    transformDomid T tag bnd st = .ok { st with attrs := a } :=
  transformDomid_skips T tag bnd st a p f hp (table_false h)

/-- ID: table says yes → `id` is `domid_format % raw id` (when there is a raw id) -/
theorem transformDomid_table_writes (T : Tables) (tag : Str) (bnd : Option Bind) (st : TState) (a : Attrs) (p f : Bool)
    (raw idv : Str) (fmt : CVal)
    (hp : popToggle T "auto_domid".toList st.attrs st.ctx = .ok (a, p, f))
    (h : attrWritten p f (T.autoTag sId tag) (Dict.get? a sId).isSome = true)
    (hraw : generateRawDomid tag a bnd = .ok (some raw))
    (hfmt : st.ctx.getItem "domid_format".toList = .ok fmt) (hid : formatDomid fmt raw = .ok idv) :
    transformDomid T tag bnd st = .ok { st with attrs := Dict.set a sId (.text idv) } := by
  obtain ⟨rfl, ha⟩ := table_true h
  exact transformDomid_applies T tag bnd st a f raw idv fmt hp ha hraw hfmt hid

/-- FOR: table says no (or unbound) → only the option is consumed (a label still loses `value`) -/
theorem transformFor_table_skips (T : Tables) (tag : Str) (bnd : Option Bind) (st : TState) (a : Attrs) (p f : Bool)
    (hp : popToggle T "auto_for".toList st.attrs st.ctx = .ok (a, p, f))
    (h : bnd = none ∨ attrWritten p f (T.autoTag sFor tag) (Dict.get? a sFor).isSome = false) :
    transformFor T tag bnd st = .ok { st with attrs := if tag = sLabel then Dict.erase a sValue else a } := by
  apply transformFor_skips T tag bnd st a p f hp
  rcases h with h | h
  · exact Or.inr (Or.inl h)
  · rcases table_false h with h | h
    · exact Or.inl h
    · exact Or.inr (Or.inr h)

theorem transformFor_table_writes (T : Tables) (tag : Str) (b : Bind) (st : TState) (a : Attrs) (p f : Bool)
    (raw idv : Str) (fmt : CVal)
    (hp : popToggle T "auto_for".toList st.attrs st.ctx = .ok (a, p, f))
    (h : attrWritten p f (T.autoTag sFor tag) (Dict.get? a sFor).isSome = true)
    (hraw : generateRawDomid tag a (some b) = .ok (some raw))
    (hfmt : st.ctx.getItem "domid_format".toList = .ok fmt) (hid : formatDomid fmt raw = .ok idv) :
    transformFor T tag (some b) st = .ok { st with attrs :=
      (if tag = sLabel then Dict.erase (Dict.set a sFor (.text idv)) sValue else Dict.set a sFor (.text idv)) } := by
  obtain ⟨rfl, ha⟩ := table_true h
  exact transformFor_applies T tag b st a f raw idv fmt hp ha hraw hfmt hid

/-- VALUE: the transform acts only when on, bound, and (forced or one of its own tags) — the
    value transform's guard has no "attribute given" column: what it does with an existing value
    is per tag (C12) -/
theorem transformValue_table_skips (T : Tables) (tag : Str) (bnd : Option Bind) (st : TState) (a : Attrs) (p f : Bool)
    (hp : popToggle T "auto_value".toList st.attrs st.ctx = .ok (a, p, f))
    (h : bnd = none ∨ attrWritten p f (T.autoTag sValue tag) false = false) :
    transformValue T tag bnd st = .ok { st with attrs := a } := by
  apply transformValue_skips T tag bnd st a p f hp
  rcases h with h | h
  · exact Or.inr (Or.inl h)
  · cases p
    · exact Or.inl rfl
    · cases f
      · cases hT : T.autoTag sValue tag
        · exact Or.inr (Or.inr ⟨rfl, rfl⟩)
        · rw [hT] at h; simp [attrWritten] at h
      · simp [attrWritten] at h

/-! ### TABINDEX, in full (task 4): 0 blocks; a positive counter is handed out and advanced; a
negative counter ("stop number", pinned by `test_tabindex_stop_numbers`) is handed out and STAYS -/

/-- the tabindex transform, exactly, for every int counter `n` -/
theorem transformTabindex_exact (T : Tables) (tag : Str) (bnd : Option Bind) (st : TState) (a : Attrs) (p f : Bool)
    (n : Int) (hp : popToggle T "auto_tabindex".toList st.attrs st.ctx = .ok (a, p, f))
    (hn : st.ctx.getItem sTabindex = .ok (.int n)) :
    transformTabindex T tag bnd st = .ok (
      if attrWritten p f (T.autoTag sTabindex tag) (Dict.get? a sTabindex).isSome = true ∧ n ≠ 0 then
        { attrs := Dict.set a sTabindex (.text (intRepr (handOut n).1)), contents := st.contents,
          ctx := if n > 0 then { st.ctx with top := Dict.set st.ctx.top sTabindex (.int (handOut n).2) } else st.ctx }
      else { st with attrs := a }) := by
  by_cases hw : attrWritten p f (T.autoTag sTabindex tag) (Dict.get? a sTabindex).isSome = true ∧ n ≠ 0
  · rw [if_pos hw]
    obtain ⟨hw, h0⟩ := hw
    obtain ⟨rfl, ha⟩ := table_true hw
    unfold transformTabindex
    simp only [bind, Except.bind, pure, Except.pure]
    rw [hp]
    simp only [guard_eq_applies, Bool.not_true, Bool.false_eq_true, if_false, hn, h0, ha, if_true, handOut]
    by_cases hpos : n > 0
    · have hhas : st.ctx.has sTabindex = true := by
        simp only [Ctx.has, Dict.contains]
        simp only [Ctx.getItem] at hn
        cases hg : Dict.get? st.ctx.top sTabindex with
        | none => rw [hg] at hn; simp [throw, throwThe, MonadExceptOf.throw] at hn
        | some v => rfl
      simp only [hpos, if_true, Ctx.setItem, hhas, pure, Except.pure]
    · simp only [hpos, if_false]
  · rw [if_neg hw]
    apply transformTabindex_skips T tag bnd st a p f n hp hn
    by_cases h0 : n = 0
    · exact Or.inr (Or.inl h0)
    · have : attrWritten p f (T.autoTag sTabindex tag) (Dict.get? a sTabindex).isSome = false := by
        cases h : attrWritten p f (T.autoTag sTabindex tag) (Dict.get? a sTabindex).isSome
        · rfl
        · exact absurd ⟨h, h0⟩ hw
      rcases table_false this with h | h
      · exact Or.inl h
      · exact Or.inr (Or.inr h)

/-- the counter after one call, as a number: `counterAfter written n` -/
def counterAfter (written : Bool) (n : Int) : Int := if written && n != 0 then (handOut n).2 else n

/-- STOP NUMBERS (KF-C19-b, what the code does): a negative counter is handed out and not advanced;
    the property's clause "increasing" is the positive case -/
theorem handOut_cases (n : Int) :
    (n > 0 → handOut n = (n, n + 1)) ∧ (n ≤ 0 → handOut n = (n, n)) := by
  constructor
  · intro h; simp [handOut, h]
  · intro h; have : ¬ n > 0 := by omega
    simp [handOut, this]

/-- successive hand-outs from one counter: strictly increasing iff the counter is positive,
    constant when it is negative -/
theorem handOut_twice (n : Int) (h0 : n ≠ 0) :
    ((handOut (handOut n).2).1 > (handOut n).1 ↔ n > 0) ∧
    (n < 0 → (handOut (handOut n).2).1 = (handOut n).1) := by
  by_cases hpos : n > 0
  · have h1 := (handOut_cases n).1 hpos
    have h2 := (handOut_cases (n + 1)).1 (by omega)
    rw [h1]; simp only; rw [h2]; simp only
    exact ⟨⟨fun _ => hpos, fun _ => by omega⟩, fun h => by omega⟩
  · have h1 := (handOut_cases n).2 (by omega)
    rw [h1]; simp only; rw [h1]; simp only
    exact ⟨⟨fun h => by omega, fun h => absurd h hpos⟩, fun _ => trivial⟩

/-! ### non-vacuity -/

def tabState (n : Int) : TState :=
  ⟨[("auto_tabindex".toList, .text "on".toList)], none,
   ⟨Dict.set Tables.current.defaultContext sTabindex (.int n), []⟩⟩

deriving instance DecidableEq for Except in
example : (transformTabindex Tables.current "div".toList none (tabState (-2))).map (fun s => (s.attrs, s.ctx.getItem sTabindex)) =
    .ok ([(sTabindex, .text "-2".toList)], .ok (.int (-2))) := by decide
example : (transformTabindex Tables.current "div".toList none (tabState 7)).map (fun s => (s.attrs, s.ctx.getItem sTabindex)) =
    .ok ([(sTabindex, .text "7".toList)], .ok (.int 8)) := by decide
example : (transformTabindex Tables.current "div".toList none (tabState 0)).map (fun s => (s.attrs, s.ctx.getItem sTabindex)) =
    .ok ([], .ok (.int 0)) := by decide

end Flatland.C19.Proofs
