/-
C19, round h9 — WHEN is the attribute written: the decision as a TABLE transcribed row by row from
the property text / documentation (`attrWritten`), the tags table transcribed from the
documentation (`docTags`, checked against the table regenerated from the source: `autoTags_doc`),
and each transform of the model (which follows the code's statement order: pop, early returns,
`forced or current is None and tagname in …`) proved equal to it.  The tabindex transform is stated
in full, non-positive counters included (KF-C19-b: "stop numbers").
-/
import Proofs.C19Filters
namespace Flatland.C19.Proofs
open Flatland.Markup Flatland.C19 Flatland.C19.Spec

/-- THE DECISION TABLE (property text): `on` = the option as resolved, `forced` = a tag-level on,
    `own` = the tag is one of the transform's own tags, `given` = the author gave the attribute.
    Row 1: resolved off → left alone.  Row 2: "a tag-level 'on' forces the transform even for tags
    and existing attributes it would otherwise leave alone".  Row 3: on by block / generator /
    default → only the transform's own tags, and only when the attribute is not there yet. -/
def attrWritten : (on forced own given : Bool) → Bool
  | false, _, _, _ => false
  | true, true, _, _ => true
  | true, false, true, false => true
  | true, false, _, _ => false

/-- the code's guard (`proceed`, then `forced or current is None and tagname in _auto_tags[..]`)
    is the table — for all 16 rows; `or`/`and` precedence matters: `(forced or current is None)
    and own` differs in rows (on, forced, not own, _) -/
theorem applies_table (T : Tables) (attr tag : Str) (p f given : Bool) :
    (p && applies T attr tag f given) = attrWritten p f (T.autoTag attr tag) given := by
  unfold applies
  cases p <;> cases f <;> cases given <;> cases T.autoTag attr tag <;> rfl

example : attrWritten true true false true = true ∧ ((true || !true) && false) = false := by decide

/-- the documentation's tags per transform (markup.rst `:Tags:` lines; for auto-value the prose
    describes `<option>` — the `:Tags:` line says "select", whose options are meant) -/
def docTags : List (Str × List Str) :=
  [(sName, ["button".toList, "form".toList, "input".toList, "select".toList, "textarea".toList]),
   (sValue, ["button".toList, "input".toList, "option".toList, "textarea".toList]),
   (sId, ["button".toList, "input".toList, "select".toList, "textarea".toList]),
   (sFor, ["label".toList]),
   (sTabindex, ["button".toList, "input".toList, "select".toList, "textarea".toList])]

def sameSet (a b : List Str) : Bool := a.all b.contains && b.all a.contains

/-- GENERATED OBLIGATION: `_auto_tags` as regenerated from the source = the documentation's table -/
theorem autoTags_doc :
    (docTags.all fun kt => match Dict.get? Tables.current.autoTags kt.1 with
      | some us => sameSet kt.2 us
      | none => false) = true ∧ Tables.current.autoTags.length = docTags.length := by
  decide

/-! ### each transform against the table -/

theorem table_false {T : Tables} {attr tag : Str} {p f given : Bool}
    (h : attrWritten p f (T.autoTag attr tag) given = false) : p = false ∨ applies T attr tag f given = false := by
  rw [← applies_table] at h
  cases p
  · exact Or.inl rfl
  · exact Or.inr (by simpa using h)

theorem table_true {T : Tables} {attr tag : Str} {p f given : Bool}
    (h : attrWritten p f (T.autoTag attr tag) given = true) : p = true ∧ applies T attr tag f given = true := by
  rw [← applies_table] at h
  simpa using h

/-- NAME, exact: written iff the table says so AND the tag is bound to an element with a
    non-empty flattened name; otherwise only the option is consumed -/
theorem transformName_table (T : Tables) (tag : Str) (bnd : Option Bind) (st : TState) (a : Attrs) (p f : Bool)
    (hp : popToggle T "auto_name".toList st.attrs st.ctx = .ok (a, p, f)) :
    transformName T tag bnd st = .ok { st with attrs :=
      match bnd with
      | some b => if attrWritten p f (T.autoTag sName tag) (Dict.get? a sName).isSome && !b.flatName.isEmpty
                  then Dict.set a sName (.text b.flatName) else a
      | none => a } := by
  rw [transformName_decision T tag bnd st a p f hp, ← applies_table]
  cases bnd with
  | none => rfl
  | some b =>
    simp only
    cases p <;> cases b.flatName.isEmpty <;> cases applies T sName tag f (Dict.get? a sName).isSome <;> rfl

/-- ID: table says no → only the option is consumed -/
theorem transformDomid_table_skips (T : Tables) (tag : Str) (bnd : Option Bind) (st : TState) (a : Attrs) (p f : Bool)
    (hp : popToggle T "auto_domid".toList st.attrs st.ctx = .ok (a, p, f))
    (h : attrWritten p f (T.autoTag sId tag) (Dict.get? a sId).isSome = false) :
    transformDomid T tag bnd st = .ok { st with attrs := a } :=
  transformDomid_skips T tag bnd st a p f hp (table_false h)

/-- ID: table says yes → `id` is `domid_format % raw id` (when there is a raw id) -/
theorem transformDomid_table_writes (T : Tables) (tag : Str) (bnd : Option Bind) (st : TState) (a : Attrs) (p f : Bool)
    (raw idv : Str) (fmt : CVal)
    (hp : popToggle T "auto_domid".toList st.attrs st.ctx = .ok (a, p, f))
    (h : attrWritten p f (T.autoTag sId tag) (Dict.get? a sId).isSome = true)
    (hraw : generateRawDomid tag a bnd = .ok (some raw))
    (hfmt : st.ctx.getItem "domid_format".toList = .ok fmt) (hid : formatDomid fmt raw = .ok idv) :
    transformDomid T tag bnd st = .ok { st with attrs := Dict.set a sId (.text idv) } := by
  obtain ⟨rfl, ha⟩ := table_true h
  exact transformDomid_applies T tag bnd st a f raw idv fmt hp ha hraw hfmt hid

/-- FOR: table says no (or unbound) → only the option is consumed (a label still loses `value`) -/
theorem transformFor_table_skips (T : Tables) (tag : Str) (bnd : Option Bind) (st : TState) (a : Attrs) (p f : Bool)
    (hp : popToggle T "auto_for".toList st.attrs st.ctx = .ok (a, p, f))
    (h : bnd = none ∨ attrWritten p f (T.autoTag sFor tag) (Dict.get? a sFor).isSome = false) :
    transformFor T tag bnd st = .ok { st with attrs := if tag = sLabel then Dict.erase a sValue else a } := by
  apply transformFor_skips T tag bnd st a p f hp
  rcases h with h | h
  · exact Or.inr (Or.inl h)
  · rcases table_false h with h | h
    · exact Or.inl h
    · exact Or.inr (Or.inr h)

theorem transformFor_table_writes (T : Tables) (tag : Str) (b : Bind) (st : TState) (a : Attrs) (p f : Bool)
    (raw idv : Str) (fmt : CVal)
    (hp : popToggle T "auto_for".toList st.attrs st.ctx = .ok (a, p, f))
    (h : attrWritten p f (T.autoTag sFor tag) (Dict.get? a sFor).isSome = true)
    (hraw : generateRawDomid tag a (some b) = .ok (some raw))
    (hfmt : st.ctx.getItem "domid_format".toList = .ok fmt) (hid : formatDomid fmt raw = .ok idv) :
    transformFor T tag (some b) st = .ok { st with attrs :=
      (if tag = sLabel then Dict.erase (Dict.set a sFor (.text idv)) sValue else Dict.set a sFor (.text idv)) } := by
  obtain ⟨rfl, ha⟩ := table_true h
  exact transformFor_applies T tag b st a f raw idv fmt hp ha hraw hfmt hid

/-- VALUE: the transform acts only when on, bound, and (forced or one of its own tags) — the
    value transform's guard has no "attribute given" column: what it does with an existing value
    is per tag (C12) -/
theorem transformValue_table_skips (T : Tables) (tag : Str) (bnd : Option Bind) (st : TState) (a : Attrs) (p f : Bool)
    (hp : popToggle T "auto_value".toList st.attrs st.ctx = .ok (a, p, f))
    (h : bnd = none ∨ attrWritten p f (T.autoTag sValue tag) false = false) :
    transformValue T tag bnd st = .ok { st with attrs := a } := by
  apply transformValue_skips T tag bnd st a p f hp
  rcases h with h | h
  · exact Or.inr (Or.inl h)
  · cases p
    · exact Or.inl rfl
    · cases f
      · cases hT : T.autoTag sValue tag
        · exact Or.inr (Or.inr ⟨rfl, rfl⟩)
        · rw [hT] at h; simp [attrWritten] at h
      · simp [attrWritten] at h

/-! ### TABINDEX, in full (task 4): 0 blocks; a positive counter is handed out and advanced; a
negative counter ("stop number", pinned by `test_tabindex_stop_numbers`) is handed out and STAYS -/

/-- the tabindex transform, exactly, for every int counter `n` -/
theorem transformTabindex_exact (T : Tables) (tag : Str) (bnd : Option Bind) (st : TState) (a : Attrs) (p f : Bool)
    (n : Int) (hp : popToggle T "auto_tabindex".toList st.attrs st.ctx = .ok (a, p, f))
    (hn : st.ctx.getItem sTabindex = .ok (.int n)) :
    transformTabindex T tag bnd st = .ok (
      if attrWritten p f (T.autoTag sTabindex tag) (Dict.get? a sTabindex).isSome = true ∧ n ≠ 0 then
        { attrs := Dict.set a sTabindex (.text (intRepr (handOut n).1)), contents := st.contents,
          ctx := if n > 0 then { st.ctx with top := Dict.set st.ctx.top sTabindex (.int (handOut n).2) } else st.ctx }
      else { st with attrs := a }) := by
  by_cases hw : attrWritten p f (T.autoTag sTabindex tag) (Dict.get? a sTabindex).isSome = true ∧ n ≠ 0
  · rw [if_pos hw]
    obtain ⟨hw, h0⟩ := hw
    obtain ⟨rfl, ha⟩ := table_true hw
    unfold transformTabindex
    simp only [bind, Except.bind, pure, Except.pure]
    rw [hp]
    simp only [guard_eq_applies, Bool.not_true, Bool.false_eq_true, if_false, hn, h0, ha, if_true, handOut]
    by_cases hpos : n > 0
    · have hhas : st.ctx.has sTabindex = true := by
        simp only [Ctx.has, Dict.contains]
        simp only [Ctx.getItem] at hn
        cases hg : Dict.get? st.ctx.top sTabindex with
        | none => rw [hg] at hn; simp [throw, throwThe, MonadExceptOf.throw] at hn
        | some v => rfl
      simp only [hpos, if_true, Ctx.setItem, hhas, pure, Except.pure]
    · simp only [hpos, if_false]
  · rw [if_neg hw]
    apply transformTabindex_skips T tag bnd st a p f n hp hn
    by_cases h0 : n = 0
    · exact Or.inr (Or.inl h0)
    · have : attrWritten p f (T.autoTag sTabindex tag) (Dict.get? a sTabindex).isSome = false := by
        cases h : attrWritten p f (T.autoTag sTabindex tag) (Dict.get? a sTabindex).isSome
        · rfl
        · exact absurd ⟨h, h0⟩ hw
      rcases table_false this with h | h
      · exact Or.inl h
      · exact Or.inr (Or.inr h)

/-- the counter after one call, as a number: `counterAfter written n` -/
def counterAfter (written : Bool) (n : Int) : Int := if written && n != 0 then (handOut n).2 else n

/-- STOP NUMBERS (KF-C19-b, what the code does): a negative counter is handed out and not advanced;
    the property's clause "increasing" is the positive case -/
theorem handOut_cases (n : Int) :
    (n > 0 → handOut n = (n, n + 1)) ∧ (n ≤ 0 → handOut n = (n, n)) := by
  constructor
  · intro h; simp [handOut, h]
  · intro h; have : ¬ n > 0 := by omega
    simp [handOut, this]

/-- successive hand-outs from one counter: strictly increasing iff the counter is positive,
    constant when it is negative -/
theorem handOut_twice (n : Int) (h0 : n ≠ 0) :
    ((handOut (handOut n).2).1 > (handOut n).1 ↔ n > 0) ∧
    (n < 0 → (handOut (handOut n).2).1 = (handOut n).1) := by
  by_cases hpos : n > 0
  · have h1 := (handOut_cases n).1 hpos
    have h2 := (handOut_cases (n + 1)).1 (by omega)
    rw [h1]; simp only; rw [h2]; simp only
    exact ⟨⟨fun _ => hpos, fun _ => by omega⟩, fun h => by omega⟩
  · have h1 := (handOut_cases n).2 (by omega)
    rw [h1]; simp only; rw [h1]; simp only
    exact ⟨⟨fun h => by omega, fun h => absurd h hpos⟩, fun _ => trivial⟩

/-! ### non-vacuity -/

def tabState (n : Int) : TState :=
  ⟨[("auto_tabindex".toList, .text "on".toList)], none,
   ⟨Dict.set Tables.current.defaultContext sTabindex (.int n), []⟩⟩

deriving instance DecidableEq for Except in
example : (transformTabindex Tables.current "div".toList none (tabState (-2))).map (fun s => (s.attrs, s.ctx.getItem sTabindex)) =
    .ok ([(sTabindex, .text "-2".toList)], .ok (.int (-2))) := by decide
example : (transformTabindex Tables.current "div".toList none (tabState 7)).map (fun s => (s.attrs, s.ctx.getItem sTabindex)) =
    .ok ([(sTabindex, .text "7".toList)], .ok (.int 8)) := by decide
example : (transformTabindex Tables.current "div".toList none (tabState 0)).map (fun s => (s.attrs, s.ctx.getItem sTabindex)) =
    .ok ([], .ok (.int 0)) := by decide

/-! ### TABINDEX WITHIN A SCOPE, for every int counter (p3)

`scopeHanded` (Proofs/Lemmas/C19Scope.lean) recognises a hand-out by the CONTEXT CHANGE it causes,
so it sees nothing when the counter is negative (handed out, not advanced).  `scopeGiven` below
lists the values the tabindex transform WRITES INTO THE ATTRIBUTES of the tag calls of the scope
(decision table `attrWritten`, counter ≠ 0) — whether or not the counter moves. -/

/-- the state a tag call's transforms start from -/
def tagStart (g : Gen) (kwargs : List (Str × Val)) : TState :=
  ⟨Flatland.C11.transformKeys (Dict.erase kwargs "contents".toList), Dict.get? kwargs "contents".toList, g.ctx⟩

/-- the four transforms that run before `transform_tabindex` -/
def transformUpToFor (T : Tables) (tag : Str) (bnd : Option Bind) (st : TState) : Except PyErr TState := do
  let st ← transformName T tag bnd st
  let st ← transformValue T tag bnd st
  let st ← transformDomid T tag bnd st
  transformFor T tag bnd st

theorem transformPrefix_eq (T : Tables) (tag : Str) (bnd : Option Bind) (st : TState) :
    transformPrefix T tag bnd st = (transformUpToFor T tag bnd st).bind (transformTabindex T tag bnd) := by
  unfold transformPrefix transformUpToFor
  simp only [bind, Except.bind]
  cases transformName T tag bnd st with
  | error e => rfl
  | ok s1 =>
    simp only
    cases transformValue T tag bnd s1 with
    | error e => rfl
    | ok s2 =>
      simp only
      cases transformDomid T tag bnd s2 with
      | error e => rfl
      | ok s3 => cases transformFor T tag bnd s3 <;> rfl

theorem transformUpToFor_ctx {T : Tables} {tag : Str} {bnd : Option Bind} {st s4 : TState}
    (h : transformUpToFor T tag bnd st = .ok s4) : s4.ctx = st.ctx := by
  unfold transformUpToFor at h
  simp only [bind, Except.bind] at h
  cases h1 : transformName T tag bnd st with
  | error e => rw [h1] at h; simp at h
  | ok s1 =>
    rw [h1] at h; simp only at h
    cases h2 : transformValue T tag bnd s1 with
    | error e => rw [h2] at h; simp at h
    | ok s2 =>
      rw [h2] at h; simp only at h
      cases h3 : transformDomid T tag bnd s2 with
      | error e => rw [h3] at h; simp at h
      | ok s3 =>
        rw [h3] at h; simp only at h
        rw [transformFor_ctx h, transformDomid_ctx h3, transformValue_ctx h2, transformName_ctx h1]

/-- THE TABINDEX A TAG CALL RECEIVES from the transform (`none`: the transform writes nothing —
    option off, not one of its tags / attribute given and not forced, counter 0, or the call raised
    before reaching the transform).  The decision is the table `attrWritten`, the value the counter. -/
def tagGiven (T : Tables) (g : Gen) (tag : Str) (bnd : Option Bind) (kwargs : List (Str × Val)) : Option Int :=
  match transformUpToFor T tag bnd (tagStart g kwargs) with
  | .error _ => none
  | .ok s4 =>
    match popToggle T "auto_tabindex".toList s4.attrs s4.ctx, counter g with
    | .ok (a, p, f), some n =>
      if attrWritten p f (T.autoTag sTabindex tag) (Dict.get? a sTabindex).isSome = true ∧ n ≠ 0 then some n else none
    | _, _ => none

/-- the values written by the tabindex transform into the tag calls made at depth `d`, in order -/
def scopeGiven (T : Tables) (R : RenderCfg) (d : Nat) : Gen → List Op → List Int
  | _, [] => []
  | g, op :: rest =>
    (match op with
     | .tag name bnd kwargs => if g.ctx.depth == d then (tagGiven T g name bnd kwargs).toList else []
     | _ => []) ++ scopeGiven T R d (step T R g op).1 rest

/-- what the code does with a counter `n`: `n, n+1, n+2, …` for a positive one, `n, n, n, …` for a
    non-positive one (`handOut`) -/
def tabSeq (n : Int) : Nat → List Int
  | 0 => []
  | k + 1 => (handOut n).1 :: tabSeq (handOut n).2 k

theorem tabSeq_pos (n : Int) (hn : n > 0) (k : Nat) : tabSeq n k = (List.range k).map (fun i : Nat => n + (i : Int)) := by
  induction k generalizing n with
  | zero => rfl
  | succ k ih =>
    rw [tabSeq, (handOut_cases n).1 hn, ih (n + 1) (by omega), List.range_succ_eq_map]
    simp only [List.map_cons, List.map_map, Int.ofNat_zero, Int.add_zero, List.cons.injEq, true_and]
    apply List.map_congr_left
    intro i _
    simp only [Function.comp, Nat.succ_eq_add_one, Int.natCast_add, Int.natCast_one]
    omega

theorem tabSeq_nonpos (n : Int) (hn : n ≤ 0) (k : Nat) : tabSeq n k = List.replicate k n := by
  induction k with
  | zero => rfl
  | succ k ih => rw [tabSeq, (handOut_cases n).2 hn, ih]; rfl

theorem counter_getItem {g : Gen} {m : Int} (h : counter g = some m) : g.ctx.getItem sTabindex = .ok (.int m) := by
  unfold counter at h
  split at h
  · rename_i n hn; simp only [Option.some.injEq] at h; subst h; exact hn
  · cases h

theorem step_tag_below (T : Tables) (R : RenderCfg) (g : Gen) (name : Str) (bnd : Option Bind)
    (kwargs : List (Str × Val)) : (step T R g (.tag name bnd kwargs)).1.ctx.below = g.ctx.below := by
  obtain ⟨g', o, hst, _, hctx⟩ := step_tag_effect T R g name bnd kwargs
  rw [hst]
  rcases hctx with heq | ⟨k, _, _, hs⟩
  · rw [heq]
  · obtain ⟨e, _⟩ := setItem_ok hs; rw [e]

/-- ONE TAG CALL, exactly: it receives a tabindex iff `tagGiven` says so; the value is the counter
    `m ≠ 0`; the counter afterwards is `(handOut m).2` (`m + 1` for a positive `m`, `m` otherwise);
    the context changes iff a POSITIVE counter was handed out -/
theorem tag_given_step (T : Tables) (R : RenderCfg) (g : Gen) (name : Str) (bnd : Option Bind)
    (kwargs : List (Str × Val)) (m : Int) (hc : counter g = some m) :
    match tagGiven T g name bnd kwargs with
    | some x => x = m ∧ m ≠ 0 ∧ counter (step T R g (.tag name bnd kwargs)).1 = some (handOut m).2 ∧
        (m > 0 → (step T R g (.tag name bnd kwargs)).1.ctx ≠ g.ctx) ∧
        (m ≤ 0 → (step T R g (.tag name bnd kwargs)).1.ctx = g.ctx)
    | none => (step T R g (.tag name bnd kwargs)).1.ctx = g.ctx := by
  rw [step_tag_gen]
  unfold Gen.afterFailedTag tagGiven tagStart
  rw [transformPrefix_eq]
  cases h4 : transformUpToFor T name bnd ⟨Flatland.C11.transformKeys (Dict.erase kwargs "contents".toList),
      Dict.get? kwargs "contents".toList, g.ctx⟩ with
  | error e => simp only [Except.bind]
  | ok s4 =>
    have e04 : s4.ctx = g.ctx := transformUpToFor_ctx h4
    have hn : s4.ctx.getItem sTabindex = .ok (.int m) := by rw [e04]; exact counter_getItem hc
    simp only [Except.bind]
    cases hp : popToggle T "auto_tabindex".toList s4.attrs s4.ctx with
    | error e =>
      have : transformTabindex T name bnd s4 = .error e := by
        unfold transformTabindex; simp only [bind, Except.bind, hp]
      simp only [this]
    | ok r =>
      obtain ⟨a, p, f⟩ := r
      have hx := transformTabindex_exact T name bnd s4 a p f m hp hn
      simp only [hx, hc]
      by_cases hw : attrWritten p f (T.autoTag sTabindex name) (Dict.get? a sTabindex).isSome = true ∧ m ≠ 0
      · simp only [if_pos hw]
        refine ⟨by first | trivial | rfl, hw.2, ?_, ?_, ?_⟩
        · by_cases hpos : m > 0
          · simp only [if_pos hpos, counter, Ctx.getItem, Dict.get?_set_self, pure, Except.pure]
          · simp only [if_neg hpos, e04]
            rw [(handOut_cases m).2 (by omega)]
            have : counter ({ xml := g.xml, ctx := g.ctx } : Gen) = counter g := rfl
            rw [this, hc]
        · intro hpos heq
          simp only [if_pos hpos] at heq
          have h1 : counter g = some (handOut m).2 := by
            unfold counter; rw [← heq]; simp only [Ctx.getItem, Dict.get?_set_self, pure, Except.pure]
          rw [hc, (handOut_cases m).1 hpos] at h1
          simp only [Option.some.injEq] at h1
          omega
        · intro hle
          have hpos : ¬ m > 0 := by omega
          simp only [if_neg hpos, e04]
      · simp only [if_neg hw, e04]

theorem scopeGiven_cons_nil (T : Tables) (R : RenderCfg) (d : Nat) (g : Gen) (op : Op) (rest : List Op)
    (h : isTag op = false ∨ (g.ctx.depth == d) = false) :
    scopeGiven T R d g (op :: rest) = scopeGiven T R d (step T R g op).1 rest := by
  cases op <;> first
    | (simp only [scopeGiven, List.nil_append]; done)
    | (rcases h with h | h
       · simp [isTag] at h
       · simp only [scopeGiven, h, Bool.false_eq_true, if_false, List.nil_append])

theorem scopeHanded_cons_nil (T : Tables) (R : RenderCfg) (d : Nat) (g : Gen) (op : Op) (rest : List Op)
    (h : isTag op = false ∨ (g.ctx.depth == d) = false ∨ (step T R g op).1.ctx = g.ctx) :
    scopeHanded T R d g (op :: rest) = scopeHanded T R d (step T R g op).1 rest := by
  rcases h with h | h | h <;> simp [scopeHanded, h]

theorem scope_exact_aux (T : Tables) (R : RenderCfg) (B : List Frame) :
    ∀ (ops : List Op) (g : Gen) (m : Int), ScopeInv B m g →
      staysAbove T R (B.length + 1) g ops = true → noTabWriteAt T R (B.length + 1) g ops = true →
      scopeGiven T R (B.length + 1) g ops = tabSeq m (scopeGiven T R (B.length + 1) g ops).length ∧
      (m = 0 → scopeGiven T R (B.length + 1) g ops = []) ∧
      (m > 0 → scopeGiven T R (B.length + 1) g ops = scopeHanded T R (B.length + 1) g ops)
  | [], _, _, _, _, _ => by simp [scopeGiven, scopeHanded, tabSeq]
  | op :: rest, g, m, hinv, hstay, hnw => by
    simp only [staysAbove, Bool.and_eq_true, decide_eq_true_eq] at hstay
    simp only [noTabWriteAt, Bool.and_eq_true, Bool.not_eq_true', Bool.and_eq_false_iff] at hnw
    rcases hinv with ⟨hB, hc⟩ | ⟨pre, F, hB, hF⟩
    · have hd : g.ctx.depth = B.length + 1 := by simp [Ctx.depth, hB]
      cases hop : isTag op with
      | true =>
        cases op with
        | tag name bnd kwargs =>
          have hbelow : (step T R g (.tag name bnd kwargs)).1.ctx.below = B := by
            rw [step_tag_below]; exact hB
          have hs := tag_given_step T R g name bnd kwargs m hc
          cases hg : tagGiven T g name bnd kwargs with
          | none =>
            rw [hg] at hs; simp only at hs
            have hc' : counter (step T R g (.tag name bnd kwargs)).1 = some m := by
              simp only [counter, hs] at hc ⊢; exact hc
            have ih := scope_exact_aux T R B rest _ m (Or.inl ⟨hbelow, hc'⟩) hstay.2 hnw.2
            have e1 : scopeGiven T R (B.length + 1) g (.tag name bnd kwargs :: rest) =
                scopeGiven T R (B.length + 1) (step T R g (.tag name bnd kwargs)).1 rest := by
              simp only [scopeGiven, hd, beq_self_eq_true, if_true, hg, Option.toList, List.nil_append]
            rw [e1, scopeHanded_cons_nil T R _ g _ rest (Or.inr (Or.inr hs))]
            exact ih
          | some x =>
            rw [hg] at hs; simp only at hs
            obtain ⟨rfl, h0, hc', hne, _⟩ := hs
            have ih := scope_exact_aux T R B rest _ (handOut x).2 (Or.inl ⟨hbelow, hc'⟩) hstay.2 hnw.2
            have e1 : scopeGiven T R (B.length + 1) g (.tag name bnd kwargs :: rest) =
                x :: scopeGiven T R (B.length + 1) (step T R g (.tag name bnd kwargs)).1 rest := by
              simp only [scopeGiven, hd, beq_self_eq_true, if_true, hg, Option.toList, List.singleton_append]
            rw [e1]
            refine ⟨?_, fun h => absurd h h0, ?_⟩
            · simp only [List.length_cons, tabSeq]
              rw [← ih.1]; rfl
            · intro hpos
              have e2 : scopeHanded T R (B.length + 1) g (.tag name bnd kwargs :: rest) =
                  x :: scopeHanded T R (B.length + 1) (step T R g (.tag name bnd kwargs)).1 rest := by
                simp only [scopeHanded, isTag, hd, beq_self_eq_true, Bool.true_and, hne hpos, ne_eq, not_false_eq_true,
                  decide_true, if_true, hc, List.singleton_append]
              rw [e2, ih.2.2 (by rw [(handOut_cases x).1 hpos]; simp only; omega)]
        | _ => simp [isTag] at hop
      | false =>
        have hw : writesTab op = false := by
          rcases hnw.1 with h | h
          · simp [hd] at h
          · exact h
        rw [scopeGiven_cons_nil T R _ g op rest (Or.inl hop), scopeHanded_cons_nil T R _ g op rest (Or.inl hop)]
        rcases step_notab T R g op hop hw with ⟨hb, hg⟩ | hpush | ⟨f, rs, hbl, hc'⟩
        · apply scope_exact_aux T R B rest _ m _ hstay.2 hnw.2
          exact Or.inl ⟨by rw [hb]; exact hB, by rw [counter_eq] at hc ⊢; rw [hg]; exact hc⟩
        · apply scope_exact_aux T R B rest _ m _ hstay.2 hnw.2
          exact Or.inr ⟨[], g.ctx.top, by rw [hpush, hB]; rfl, (counter_eq g m).mp hc⟩
        · exfalso
          have h1 := hstay.1
          rw [hc'] at h1
          rw [hB] at hbl
          simp [Ctx.depth, hbl] at h1
          omega
    · have hd : (g.ctx.depth == B.length + 1) = false := by
        simp [Ctx.depth, hB]; omega
      rw [scopeGiven_cons_nil T R _ g op rest (Or.inr hd), scopeHanded_cons_nil T R _ g op rest (Or.inr (Or.inl hd))]
      rcases (step_move T R g op).1 with hk | hp | ⟨f, rs, hbl, _, hc'⟩
      · apply scope_exact_aux T R B rest _ m _ hstay.2 hnw.2
        exact Or.inr ⟨pre, F, by rw [hk]; exact hB, hF⟩
      · apply scope_exact_aux T R B rest _ m _ hstay.2 hnw.2
        exact Or.inr ⟨g.ctx.top :: pre, F, by rw [hp, hB]; rfl, hF⟩
      · apply scope_exact_aux T R B rest _ m _ hstay.2 hnw.2
        cases pre with
        | nil =>
          rw [hB] at hbl
          simp only [List.nil_append, List.cons.injEq] at hbl
          obtain ⟨rfl, rfl⟩ := hbl
          exact Or.inl ⟨by rw [hc'], by rw [counter_eq, hc']; exact hF⟩
        | cons p ps =>
          rw [hB] at hbl
          simp only [List.cons_append, List.cons.injEq] at hbl
          obtain ⟨rfl, rfl⟩ := hbl
          exact Or.inr ⟨ps, F, by rw [hc'], hF⟩

/-- **TABINDEX WITHIN A SCOPE, EXACTLY, FOR EVERY INT COUNTER** (KF-C19-b stated as what the code
    does; pinned by tests/markup/test_transforms.py::test_tabindex_stop_numbers).  From a generator
    at depth `d` whose counter is the int `n`, for ANY calls that never close the scope and do not
    themselves write `tabindex` at depth `d` (accepted / rejected `set/update/[]=`, nested blocks
    with their own counters, tag calls that raise, tag calls that get no tabindex): the values the
    tabindex transform writes into the successive tag calls of the scope that receive one are
    `n, n+1, n+2, …` when `n > 0`, the constant `n, n, n, …` when `n < 0`, and nothing is written
    when `n = 0`. -/
theorem scope_tabindex_exact (T : Tables) (R : RenderCfg) (ops : List Op) (g : Gen) (n : Int)
    (hc : counter g = some n)
    (hstay : staysAbove T R g.ctx.depth g ops = true) (hnw : noTabWriteAt T R g.ctx.depth g ops = true) :
    (n > 0 → scopeGiven T R g.ctx.depth g ops =
        (List.range (scopeGiven T R g.ctx.depth g ops).length).map (fun i : Nat => n + (i : Int))) ∧
    (n < 0 → scopeGiven T R g.ctx.depth g ops = List.replicate (scopeGiven T R g.ctx.depth g ops).length n) ∧
    (n = 0 → scopeGiven T R g.ctx.depth g ops = []) := by
  have hd : g.ctx.depth = g.ctx.below.length + 1 := rfl
  rw [hd] at hstay hnw ⊢
  obtain ⟨h1, h2, _⟩ := scope_exact_aux T R g.ctx.below ops g n (Or.inl ⟨rfl, hc⟩) hstay hnw
  refine ⟨fun hn => ?_, fun hn => ?_, h2⟩
  · rw [← tabSeq_pos n hn]; exact h1
  · rw [← tabSeq_nonpos n (by omega)]; exact h1

/-- for a positive counter the written values are exactly what `scopeHanded` lists (a positive
    hand-out is the one thing that changes the context) -/
theorem scopeGiven_eq_scopeHanded (T : Tables) (R : RenderCfg) (ops : List Op) (g : Gen) (n : Int)
    (hc : counter g = some n) (hn : n > 0)
    (hstay : staysAbove T R g.ctx.depth g ops = true) (hnw : noTabWriteAt T R g.ctx.depth g ops = true) :
    scopeGiven T R g.ctx.depth g ops = scopeHanded T R g.ctx.depth g ops := by
  have hd : g.ctx.depth = g.ctx.below.length + 1 := rfl
  rw [hd] at hstay hnw ⊢
  exact (scope_exact_aux T R g.ctx.below ops g n (Or.inl ⟨rfl, hc⟩) hstay hnw).2.2 hn

theorem range_map_add_pairwise (n : Int) (k : Nat) :
    ((List.range k).map (fun i : Nat => n + (i : Int))).Pairwise (· < ·) := by
  rw [List.pairwise_map]
  exact List.Pairwise.imp (fun h => by omega) (List.pairwise_lt_range)

/-- `scope_tabindex_increasing` as a COROLLARY of the exact statement (same statement, new proof) -/
theorem scope_tabindex_increasing_of_exact (T : Tables) (R : RenderCfg) (ops : List Op) (g : Gen) (n : Int)
    (hc : counter g = some n) (hn : n > 0)
    (hstay : staysAbove T R g.ctx.depth g ops = true) (hnw : noTabWriteAt T R g.ctx.depth g ops = true) :
    (scopeHanded T R g.ctx.depth g ops).Pairwise (· < ·) ∧ ∀ x ∈ scopeHanded T R g.ctx.depth g ops, n ≤ x := by
  rw [← scopeGiven_eq_scopeHanded T R ops g n hc hn hstay hnw,
    (scope_tabindex_exact T R ops g n hc hstay hnw).1 hn]
  refine ⟨range_map_add_pairwise n _, ?_⟩
  intro x hx
  obtain ⟨i, _, rfl⟩ := List.mem_map.mp hx
  omega

/-- a negative counter: two tag calls of one scope that both receive a tabindex receive THE SAME one -/
theorem scope_tabindex_stop_number (T : Tables) (R : RenderCfg) (ops : List Op) (g : Gen) (n : Int)
    (hc : counter g = some n) (hn : n < 0)
    (hstay : staysAbove T R g.ctx.depth g ops = true) (hnw : noTabWriteAt T R g.ctx.depth g ops = true) :
    ∀ x ∈ scopeGiven T R g.ctx.depth g ops, x = n := by
  intro x hx
  rw [(scope_tabindex_exact T R ops g n hc hstay hnw).2.1 hn] at hx
  exact (List.mem_replicate.mp hx).2

/-! ### non-vacuity: the mixed scope `scopeOps` (set, nested block with its own counter 50, rejected
update, a tag that gets nothing) from counters 3, -1 and 0 -/

def tabGenN (n : Int) : Gen :=
  match Gen.init Tables.current "xhtml".toList [("auto_tabindex".toList, .bool true), ("tabindex".toList, .int n)] with
  | .ok g => g
  | .error _ => ⟨false, ⟨[], []⟩⟩

example : counter (tabGenN 3) = some 3 ∧ counter (tabGenN (-1)) = some (-1) ∧ counter (tabGenN 0) = some 0 := by decide
example : staysAbove Tables.current RenderCfg.current (tabGenN 3).ctx.depth (tabGenN 3) scopeOps = true ∧
    noTabWriteAt Tables.current RenderCfg.current (tabGenN 3).ctx.depth (tabGenN 3) scopeOps = true := by decide
example : staysAbove Tables.current RenderCfg.current (tabGenN (-1)).ctx.depth (tabGenN (-1)) scopeOps = true ∧
    noTabWriteAt Tables.current RenderCfg.current (tabGenN (-1)).ctx.depth (tabGenN (-1)) scopeOps = true := by decide
example : staysAbove Tables.current RenderCfg.current (tabGenN 0).ctx.depth (tabGenN 0) scopeOps = true ∧
    noTabWriteAt Tables.current RenderCfg.current (tabGenN 0).ctx.depth (tabGenN 0) scopeOps = true := by decide
example : scopeGiven Tables.current RenderCfg.current (tabGenN 3).ctx.depth (tabGenN 3) scopeOps = [3, 4, 5] := by decide
/-- stop number: every tag of the scope gets -1 — invisible to `scopeHanded` (the context never changes) -/
example : scopeGiven Tables.current RenderCfg.current (tabGenN (-1)).ctx.depth (tabGenN (-1)) scopeOps = [-1, -1, -1] ∧
    scopeHanded Tables.current RenderCfg.current (tabGenN (-1)).ctx.depth (tabGenN (-1)) scopeOps = [] := by decide
example : scopeGiven Tables.current RenderCfg.current (tabGenN 0).ctx.depth (tabGenN 0) scopeOps = [] := by decide
/-- … and -1 is what is rendered, twice -/
example : ((run Tables.current RenderCfg.current (tabGenN (-1)) [tagInput [], tagInput []]).2.map (·.1.out)) =
    [some "<input name=\"fld\" value=\"val\" tabindex=\"-1\" />".toList,
     some "<input name=\"fld\" value=\"val\" tabindex=\"-1\" />".toList] := by decide

end Flatland.C19.Proofs
