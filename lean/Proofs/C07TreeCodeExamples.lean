/-
C07 — `flattenCode = flattenTree` needs C08's invariant: what C08 violations do to `flatten()`.

* `dupId_drops_subtree`  — unique identities: a tree in which one identity occurs twice (what
  aliasing — one object stored in two places — looks like in the nested model).  The `seen` set of
  `Element.flatten` skips the second occurrence together with everything below it; the structural
  walk emits it.
* `stalePtr_wrong_chain` — well-parentedness: one member whose stored `.parent` still designates a
  slot of ANOTHER List (what a rejected `Sequence.__setitem__` / `insert` leaves behind,
  KF-C07-c).  `flattened_name` walks the stored pointers and names the wrong chain.
* `notSlotted_wrong_name` — `Slotted`: a List whose item is not a ListSlot; `flattenTree` reads the
  item's stored key, the pointer walk its `.name`.
* `FlattenCode_Unconditional` — the statement without hypotheses, kept visible and refuted.
-/
import Proofs.C07TreeCodeHist
namespace Flatland.C07Tree.Proofs
open Flatland.Tree Flatland.PyList Flatland.C08 Flatland.C08.Spec Flatland.C08.Proofs Flatland.C07Tree

def wStr : Schema := .mk { cid := 2, kind := .string, name := some ['s'] } .none []
def wLa : Schema := .mk { cid := 3, kind := .list, name := some ['a'] } .none [wStr]
def wLb : Schema := .mk { cid := 4, kind := .list, name := some ['b'] } .none [wStr]
def wD : Schema := .mk { cid := 1, kind := .dict } .none [wLa, wLb]
def wLeaf (id p : Nat) (u : Str) : Node := .mk { id := id, parent := some p, val := .str u, u := u } wStr []
def wSlot (id p : Nat) (name : Str) (el : Node) : Node := .mk { id := id, parent := some p, key := name } slotSchema [el]

/-- `Dict.of(List.named('a').of(String.named('s')), List.named('b').of(…))({a:['p'], b:['q']})`
    in which the two Lists carry the SAME identity 2 -/
def exDupId : Node :=
  .mk { id := 1, parent := none } wD
    [.mk { id := 2, parent := some 1, key := ['a'] } wLa [wSlot 3 2 ['0'] (wLeaf 4 3 ['p'])],
     .mk { id := 2, parent := some 1, key := ['b'] } wLb [wSlot 5 2 ['0'] (wLeaf 6 5 ['q'])]]

/-- the same value with distinct identities, but the member of `b` keeps a stale parent pointer to
    the slot of `a` -/
def exStalePtr : Node :=
  .mk { id := 1, parent := none } wD
    [.mk { id := 2, parent := some 1, key := ['a'] } wLa [wSlot 3 2 ['0'] (wLeaf 4 3 ['p'])],
     .mk { id := 5, parent := some 1, key := ['b'] } wLb [wSlot 6 5 ['0'] (wLeaf 7 3 ['q'])]]

/-- the well-formed tree -/
def exGood : Node :=
  .mk { id := 1, parent := none } wD
    [.mk { id := 2, parent := some 1, key := ['a'] } wLa [wSlot 3 2 ['0'] (wLeaf 4 3 ['p'])],
     .mk { id := 5, parent := some 1, key := ['b'] } wLb [wSlot 6 5 ['0'] (wLeaf 7 6 ['q'])]]

/-- a List whose item is a String element stored under the key "0" instead of a ListSlot -/
def exNoSlot : Node :=
  .mk { id := 1, parent := none } wLa
    [.mk { id := 2, parent := some 1, key := ['0'], val := .str ['p'], u := ['p'] } wStr
       [wLeaf 3 2 ['q']]]

macro "flat_tree_simp" : tactic => `(tactic|
  simp [flattenTree, exDupId, exStalePtr, exGood, exNoSlot, wSlot, wLeaf, wD, wLa, wLb, wStr, slotSchema, bfs_cons, bfs_nil,
    ownPair, pushed, childItems, slotItems, namePath, fl, cfl, Node.name, Node.kind, Node.sch, Node.kids, Node.key,
    Node.ni, Schema.kind, Schema.info, Schema.name, joinSep, Flatland.Flat.joinSep])

macro "flat_code_simp" : tactic => `(tactic|
  simp [flattenCode, exDupId, exStalePtr, exGood, exNoSlot, wSlot, wLeaf, wD, wLa, wLb, wStr, slotSchema, codeLoop_cons,
    codeLoop_nil, codePair, children, fl, cfl, Node.kind, Node.sch, Node.kids, Node.id, Node.ni, Schema.kind, Schema.info])

theorem exDupId_tree : flattenTree ['_'] exDupId = [("a_0_s".toList, ['p']), ("b_0_s".toList, ['q'])] := by
  flat_tree_simp

theorem exDupId_code : flattenCode [exDupId] 64 ['_'] exDupId = [("a_0_s".toList, ['p'])] := by
  flat_code_simp
  decide

/-- **negation witness, unique identities.**  Well-parented (as far as pointers can be: both Lists
    answer to identity 2), parentless root, slotted — but one identity twice: the `seen` set drops
    the second List with the member below it; `flatten()` loses the pair `b_0_s`. -/
theorem dupId_drops_subtree :
    wp exDupId = true ∧ exDupId.parent = none ∧ Slotted exDupId ∧ ¬ UniqueIds exDupId ∧
    flattenTree ['_'] exDupId = [("a_0_s".toList, ['p']), ("b_0_s".toList, ['q'])] ∧
    flattenCode [exDupId] 64 ['_'] exDupId = [("a_0_s".toList, ['p'])] := by
  refine ⟨by decide, rfl, ?_, by unfold UniqueIds; decide, exDupId_tree, exDupId_code⟩
  exact slotted_of_dps (by decide)

theorem exStalePtr_tree : flattenTree ['_'] exStalePtr = [("a_0_s".toList, ['p']), ("b_0_s".toList, ['q'])] := by
  flat_tree_simp

theorem exStalePtr_code : flattenCode [exStalePtr] 64 ['_'] exStalePtr = [("a_0_s".toList, ['p']), ("a_0_s".toList, ['q'])] := by
  flat_code_simp
  decide

/-- **negation witness, well-parentedness.**  Unique identities, parentless root, slotted, every
    List numbered by position (`dp`) — but ONE stale parent pointer: the upward walk of
    `flattened_name` names the chain of the other List; `flatten()` emits the key `a_0_s` twice and
    `b_0_s` not at all. -/
theorem stalePtr_wrong_chain :
    UniqueIds exStalePtr ∧ exStalePtr.parent = none ∧ Slotted exStalePtr ∧ dp exStalePtr = true ∧ wp exStalePtr = false ∧
    flattenTree ['_'] exStalePtr = specFlatten ['_'] exStalePtr ∧
    flattenTree ['_'] exStalePtr = [("a_0_s".toList, ['p']), ("b_0_s".toList, ['q'])] ∧
    flattenCode [exStalePtr] 64 ['_'] exStalePtr = [("a_0_s".toList, ['p']), ("a_0_s".toList, ['q'])] := by
  refine ⟨by unfold UniqueIds; decide, rfl, slotted_of_dps (by decide), by decide, by decide,
    flattenTree_positional _ _ (by decide), exStalePtr_tree, exStalePtr_code⟩

theorem exNoSlot_tree : flattenTree ['_'] exNoSlot = [("a_0_s".toList, ['q'])] := by
  flat_tree_simp

theorem exNoSlot_code : flattenCode [exNoSlot] 64 ['_'] exNoSlot = [("a_s_s".toList, ['q'])] := by
  flat_code_simp
  decide

/-- **negation witness, `Slotted`.**  `TreeOK`-shaped (well-parented, unique identities, parentless
    root) but the List's item is not a ListSlot: the structural walk reads its stored key "0", the
    pointer walk its `.name` "s". -/
theorem notSlotted_wrong_name :
    wp exNoSlot = true ∧ exNoSlot.parent = none ∧ UniqueIds exNoSlot ∧ ¬ Slotted exNoSlot ∧
    flattenTree ['_'] exNoSlot ≠ flattenCode [exNoSlot] 64 ['_'] exNoSlot := by
  refine ⟨by decide, rfl, by unfold UniqueIds; decide, ?_, ?_⟩
  · intro h
    have := h exNoSlot (self_mem_nodes _) (by decide) _ (List.mem_cons_self)
    revert this; decide
  · rw [exNoSlot_tree, exNoSlot_code]; decide

/-- the statement without C08's invariant, kept visible … -/
def FlattenCode_Unconditional : Prop :=
  ∀ (sep : Str) (n : Node) (fuel : Nat), height n ≤ fuel → flattenCode [n] fuel sep n = flattenTree sep n

/-- … and refuted (by either C08 violation) -/
theorem flattenCode_unconditional_fails : ¬ FlattenCode_Unconditional := by
  intro h
  have := h ['_'] exStalePtr 64 (by decide)
  rw [exStalePtr_tree, exStalePtr_code] at this
  revert this; decide

/-- with the invariant the same shape satisfies the theorem, and the theorem gives its keys -/
example : flattenCode [exGood] 64 ['_'] exGood = [("a_0_s".toList, ['p']), ("b_0_s".toList, ['q'])] := by
  rw [flattenCode_eq_flattenTree_of [] 64 ['_'] (by decide) rfl (by unfold UniqueIds; decide)
    (slotted_of_dps (by decide)) (by decide)]
  flat_tree_simp

end Flatland.C07Tree.Proofs
