/-
C02 — hostile flat input is absorbed: total, confined, bounded, order-free.

Model: `Flatland.Flat.setFlat` / `fromFlat`.

* **total**: `fromFlat` is a total function: after the repairs recorded in known_findings.json no
  operation of `_set_flat` can raise any more (an index of more than `maxDigits` digits is the only
  raising call left, `int()`, and it is caught: `listAddr` returns `none`).  Totality of the model
  is by construction; that the *code* raises nowhere is what the correspondence observes.
* **bounded**: `bounded_fromFlat` below, for every schema, pair list and separator.
* **confined**: `Proofs/C02Confined.lean`.
-/
import Flatland.Flat
namespace Flatland.Flat.Proofs
open Flatland.Flat

/-! ### well-formed schemas: "where the library allows it" -/

def namesOf : List Schema → List (Option Str)
  | [] => []
  | f :: fs => f.name :: namesOf fs

mutual
/-- Dict fields are named and pairwise distinct (`Dict.of` raises otherwise) -/
def wf : Schema → Bool
  | .leaf .. => true
  | .dict _ _ _ fields => wfL fields && (namesOf fields).all Option.isSome && decide (namesOf fields).Nodup
  | .compound _ _ _ fields => wfL fields && (namesOf fields).all Option.isSome && decide (namesOf fields).Nodup
  | .list _ _ _ _ member => wf member
  | .array _ _ _ member => wf member
  | .joined _ _ _ member => wf member
def wfL : List Schema → Bool
  | [] => true
  | f :: fs => wf f && wfL fs
end

/-! ### the ceiling invariant -/

def fieldsOf : Schema → List Schema
  | .dict _ _ _ fs => fs
  | .compound _ _ _ fs => fs
  | _ => []

def memberOf : Schema → Option Schema
  | .list _ _ _ _ m => some m
  | .array _ _ _ m => some m
  | .joined _ _ _ m => some m
  | _ => none

def maxOf : Schema → Option Nat
  | .list _ _ _ mx _ => some mx
  | _ => none

mutual
/-- every List node of the element holds at most its schema's `maximum_set_flat_members` members -/
def bounded : Schema → Elem → Bool
  | _, .leaf _ => true
  | s, .dict ms => boundedMembers (fieldsOf s) ms
  | s, .list ms =>
    (match maxOf s with | some mx => decide (ms.length ≤ mx) | none => true) &&
    (match memberOf s with | some m => boundedList m ms | none => true)
  | s, .array ms => (match memberOf s with | some m => boundedList m ms | none => true)
  | s, .joined _ ms => (match memberOf s with | some m => boundedList m ms | none => true)
def boundedMembers (fields : List Schema) : List (Str × Elem) → Bool
  | [] => true
  | (k, e) :: rest =>
    (match findField k fields with | some f => bounded f e | none => true) && boundedMembers fields rest
def boundedList (m : Schema) : List Elem → Bool
  | [] => true
  | e :: es => bounded m e && boundedList m es
end

theorem boundedMembers_append (fields : List Schema) (a b : List (Str × Elem)) :
    boundedMembers fields (a ++ b) = (boundedMembers fields a && boundedMembers fields b) := by
  induction a with
  | nil => simp [boundedMembers]
  | cons x xs ih => obtain ⟨k, e⟩ := x; simp [boundedMembers, ih, Bool.and_assoc]

theorem boundedMembers_replace (fields : List Schema) (key : Str) (f : Schema) (e : Elem)
    (hf : findField key fields = some f) (he : bounded f e = true)
    (ms : List (Str × Elem)) (h : boundedMembers fields ms = true) :
    boundedMembers fields (replace key e ms) = true := by
  induction ms with
  | nil => simp [replace, boundedMembers]
  | cons x xs ih =>
    obtain ⟨k, x⟩ := x
    simp only [boundedMembers, Bool.and_eq_true] at h
    unfold replace
    split
    · rename_i hk
      subst hk
      simp [boundedMembers, hf, he, h.2]
    · simp [boundedMembers, h.1, ih h.2]

theorem bounded_of_lookup (fields : List Schema) (key : Str) (f : Schema)
    (hf : findField key fields = some f) (ms : List (Str × Elem)) (child : Elem)
    (h : boundedMembers fields ms = true) (hl : lookup key ms = some child) :
    bounded f child = true := by
  induction ms with
  | nil => simp [lookup] at hl
  | cons x xs ih =>
    obtain ⟨k, x⟩ := x
    simp only [boundedMembers, Bool.and_eq_true] at h
    unfold lookup at hl
    split at hl
    · rename_i hk
      subst hk
      simp only [Option.some.injEq] at hl
      subst hl
      simpa [hf] using h.1
    · exact ih h.2 hl

theorem boundedList_map (m : Schema) (f : Nat → Elem) (h : ∀ i, bounded m (f i) = true)
    (l : List Nat) : boundedList m (l.map f) = true := by
  induction l with
  | nil => simp [boundedList]
  | cons i is ih => simp [boundedList, h i, ih]

theorem findField_of_mem (f : Schema) (all : List Schema) (hn : (namesOf all).Nodup)
    (hs : ∀ g ∈ all, g.name.isSome) (hm : f ∈ all) :
    findField (f.name.getD []) all = some f := by
  induction all with
  | nil => simp at hm
  | cons g gs ih =>
    simp only [namesOf, List.nodup_cons] at hn
    unfold findField
    have hgs : g.name.isSome := hs g (by simp)
    rcases List.mem_cons.mp hm with rfl | hin
    · have : f.name = some (f.name.getD []) := by
        cases hfn : f.name with
        | none => simp [hfn] at hgs
        | some n => simp
      simp [← this]
    · have hfs : f.name.isSome := hs f hm
      have hne : g.name ≠ some (f.name.getD []) := by
        intro heq
        apply hn.1
        have : f.name = some (f.name.getD []) := by
          cases hfn : f.name with
          | none => simp [hfn] at hfs
          | some n => simp
        rw [heq, ← this]
        clear ih hn hm hs heq this
        induction gs with
        | nil => simp at hin
        | cons a as iha =>
          rcases List.mem_cons.mp hin with rfl | h'
          · simp [namesOf]
          · simp [namesOf, iha h']
      simp only [hne, if_false]
      exact ih hn.2 (fun g hg => hs g (List.mem_cons_of_mem _ hg)) hin

theorem mem_namesOf {g : Schema} {fs : List Schema} (h : g ∈ fs) : g.name ∈ namesOf fs := by
  induction fs with
  | nil => simp at h
  | cons a as ih =>
    rcases List.mem_cons.mp h with rfl | h'
    · simp [namesOf]
    · simp [namesOf, ih h']

theorem allSome_of (fs : List Schema) (h : (namesOf fs).all Option.isSome = true) :
    ∀ g ∈ fs, g.name.isSome := by
  intro g hg
  exact List.all_eq_true.mp h _ (mem_namesOf hg)

theorem length_sortedDistinct_take (l : List Nat) (mx : Nat) :
    ((sortedDistinct l).take mx).length ≤ mx := by
  simp [List.length_take]; omega

mutual
theorem bounded_blank : ∀ s : Schema, wf s = true → bounded s (blank s) = true
  | .leaf .., _ => by simp [blank, bounded]
  | .dict name o .dense fields, h => by
    simp only [wf, Bool.and_eq_true] at h
    simp only [blank, bounded, fieldsOf]
    exact boundedMembers_blankFields fields fields h.1.1 (by simpa using h.2) (allSome_of fields h.1.2)
      (fun f hf => hf)
  | .dict name o .sparse fields, _ => by simp [blank, bounded, boundedMembers]
  | .dict name o .sparseReq fields, h => by
    simp only [wf, Bool.and_eq_true] at h
    simp only [blank, bounded, fieldsOf]
    exact boundedMembers_blankRequired fields fields h.1.1 (by simpa using h.2) (allSome_of fields h.1.2)
      (fun f hf => hf)
  | .compound name o k fields, h => by
    simp only [wf, Bool.and_eq_true] at h
    simp only [blank, bounded, fieldsOf]
    exact boundedMembers_blankFields fields fields h.1.1 (by simpa using h.2) (allSome_of fields h.1.2)
      (fun f hf => hf)
  | .list .., _ => by simp [blank, bounded, maxOf, memberOf, boundedList]
  | .array .., _ => by simp [blank, bounded, memberOf, boundedList]
  | .joined .., _ => by simp [blank, bounded, memberOf, boundedList]
theorem boundedMembers_blankFields : ∀ (fs all : List Schema), wfL fs = true →
    (namesOf all).Nodup → (∀ g ∈ all, g.name.isSome) → (∀ f ∈ fs, f ∈ all) →
    boundedMembers all (blankFields fs) = true
  | [], _, _, _, _, _ => by simp [blankFields, boundedMembers]
  | f :: fs, all, h, hn, hs, hsub => by
    simp only [wfL, Bool.and_eq_true] at h
    simp only [blankFields, boundedMembers, Bool.and_eq_true]
    refine ⟨?_, boundedMembers_blankFields fs all h.2 hn hs (fun g hg => hsub g (List.mem_cons_of_mem _ hg))⟩
    rw [findField_of_mem f all hn hs (hsub f (by simp))]
    exact bounded_blank f h.1
theorem boundedMembers_blankRequired : ∀ (fs all : List Schema), wfL fs = true →
    (namesOf all).Nodup → (∀ g ∈ all, g.name.isSome) → (∀ f ∈ fs, f ∈ all) →
    boundedMembers all (blankRequired fs) = true
  | [], _, _, _, _, _ => by simp [blankRequired, boundedMembers]
  | f :: fs, all, h, hn, hs, hsub => by
    simp only [wfL, Bool.and_eq_true] at h
    have hrest := boundedMembers_blankRequired fs all h.2 hn hs
      (fun g hg => hsub g (List.mem_cons_of_mem _ hg))
    unfold blankRequired
    split
    · exact hrest
    · simp only [boundedMembers, Bool.and_eq_true]
      refine ⟨?_, hrest⟩
      rw [findField_of_mem f all hn hs (hsub f (by simp))]
      exact bounded_blank f h.1
end

theorem boundedMembers_membersOf (s : Schema) (e : Elem) (h : bounded s e = true) :
    boundedMembers (fieldsOf s) (membersOf e) = true := by
  cases e <;> simp_all [membersOf, bounded, boundedMembers]

theorem arrayAnon_cons_cases (setM : Pairs → Elem) (prune : Bool) (cn : Option Str) (key : Key)
    (v : Str) (ps : Pairs) :
    arrayAnon setM prune cn ((key, v) :: ps) = arrayAnon setM prune cn ps ∨
    ∃ g, arrayAnon setM prune cn ((key, v) :: ps) = setM g :: arrayAnon setM prune cn ps := by
  simp only [arrayAnon]
  repeat' split
  all_goals first | exact Or.inl rfl | exact Or.inr ⟨_, rfl⟩

theorem arrayNamed_cons_cases (setM : Pairs → Elem) (sep : Str) (prune : Bool) (name : Str)
    (cn : Option Str) (key : Key) (v : Str) (ps : Pairs) :
    arrayNamed setM sep prune name cn ((key, v) :: ps) = arrayNamed setM sep prune name cn ps ∨
    ∃ g, arrayNamed setM sep prune name cn ((key, v) :: ps)
      = setM g :: arrayNamed setM sep prune name cn ps := by
  simp only [arrayNamed]
  repeat' split
  all_goals first | exact Or.inl rfl | exact Or.inr ⟨_, rfl⟩

theorem boundedList_arrayAnon (m : Schema) (setM : Pairs → Elem) (h : ∀ g, bounded m (setM g) = true)
    (prune : Bool) (cn : Option Str) (ps : Pairs) :
    boundedList m (arrayAnon setM prune cn ps) = true := by
  induction ps with
  | nil => simp [arrayAnon, boundedList]
  | cons p ps ih =>
    obtain ⟨key, v⟩ := p
    rcases arrayAnon_cons_cases setM prune cn key v ps with h1 | ⟨g, h1⟩
    · rw [h1]; exact ih
    · rw [h1]; simp [boundedList, h, ih]

theorem boundedList_arrayNamed (m : Schema) (setM : Pairs → Elem) (h : ∀ g, bounded m (setM g) = true)
    (sep : Str) (prune : Bool) (name : Str) (cn : Option Str) (ps : Pairs) :
    boundedList m (arrayNamed setM sep prune name cn ps) = true := by
  induction ps with
  | nil => simp [arrayNamed, boundedList]
  | cons p ps ih =>
    obtain ⟨key, v⟩ := p
    rcases arrayNamed_cons_cases setM sep prune name cn key v ps with h1 | ⟨g, h1⟩
    · rw [h1]; exact ih
    · rw [h1]; simp [boundedList, h, ih]

mutual
/-- `set_flat` keeps the ceiling invariant, whatever the pairs -/
theorem bounded_setFlat (env : Env) (sep : Str) : ∀ (s : Schema) (e : Elem) (ps : Pairs),
    wf s = true → bounded s e = true → bounded s (setFlat env sep s e ps) = true
  | .leaf name o k, e, ps, _, he => by
    simp only [setFlat]
    split
    · simp [bounded]
    · exact he
  | .dict name o m fields, e, ps, hw, he => by
    simp only [setFlat]
    split
    · exact he
    · simp only [wf, Bool.and_eq_true] at hw
      simp only [bounded, fieldsOf]
      exact bounded_setFields env sep fields fields _ _ hw.1.1 (by simpa using hw.2)
        (allSome_of fields hw.1.2) (fun f hf => hf) (boundedMembers_membersOf _ e he)
  | .compound name o k fields, e, ps, hw, he => by
    simp only [setFlat]
    split
    · exact he
    · simp only [wf, Bool.and_eq_true] at hw
      simp only [bounded, fieldsOf]
      exact bounded_setFields env sep fields fields _ _ hw.1.1 (by simpa using hw.2)
        (allSome_of fields hw.1.2) (fun f hf => hf) (boundedMembers_membersOf _ e he)
  | .list name o prune mx member, e, ps, hw, _ => by
    simp only [wf] at hw
    have hb := bounded_blank member hw
    have hset : ∀ g, bounded member (setFlat env sep member (blank member) g) = true :=
      fun g => bounded_setFlat env sep member (blank member) g hw hb
    simp only [setFlat]
    split
    · simp [bounded, maxOf, memberOf, boundedList]
    · split
      · simp [bounded, maxOf, memberOf, boundedList]
      · split
        · simp only [bounded, maxOf, memberOf, buildSlots, List.length_map, Bool.and_eq_true,
            decide_eq_true_eq]
          refine ⟨length_sortedDistinct_take _ _, ?_⟩
          apply boundedList_map
          intro i; split
          · exact hb
          · exact hset _
        · simp only [bounded, maxOf, memberOf, buildSlots, List.length_map, List.length_range,
            Bool.and_eq_true, decide_eq_true_eq]
          refine ⟨Nat.min_le_right _ _, ?_⟩
          apply boundedList_map
          intro i; split
          · exact hb
          · exact hset _
  | .array name o prune member, e, ps, hw, _ => by
    simp only [wf] at hw
    have hb := bounded_blank member hw
    have hset : ∀ g, bounded member (setFlat env sep member (blank member) g) = true :=
      fun g => bounded_setFlat env sep member (blank member) g hw hb
    simp only [setFlat]
    split
    · simp only [bounded, memberOf]
      exact boundedList_arrayAnon member _ hset _ _ _
    · simp only [bounded, memberOf]
      exact boundedList_arrayNamed member _ hset _ _ _ _ _
  | .joined name o k member, e, ps, hw, he => by
    simp only [setFlat]
    split
    · simp only [bounded, memberOf]
      generalize env.joinedMembers k _ = l
      induction l with
      | nil => simp [boundedList]
      | cons x xs ih => simp [boundedList, bounded, ih]
    · exact he
theorem bounded_setFields (env : Env) (sep : Str) : ∀ (fs all : List Schema)
    (members : List (Str × Elem)) (poss : List (Str × Str)), wfL fs = true →
    (namesOf all).Nodup → (∀ g ∈ all, g.name.isSome) → (∀ f ∈ fs, f ∈ all) →
    boundedMembers all members = true →
    boundedMembers all (setFields env sep fs members poss) = true
  | [], _, members, _, _, _, _, _, hm => by simpa [setFields] using hm
  | f :: fs, all, members, poss, hw, hn, hs, hsub, hm => by
    simp only [wfL, Bool.and_eq_true] at hw
    have hf := findField_of_mem f all hn hs (hsub f (by simp))
    simp only [setFields]
    apply bounded_setFields env sep fs all _ poss hw.2 hn hs
      (fun g hg => hsub g (List.mem_cons_of_mem _ hg))
    split
    · exact hm
    · split
      · rename_i child hl
        apply boundedMembers_replace all _ f _ hf _ members hm
        exact bounded_setFlat env sep f child _ hw.1 (bounded_of_lookup all _ f hf members child hm hl)
      · rw [boundedMembers_append]
        simp only [hm, Bool.true_and, boundedMembers, Bool.and_true, hf]
        exact bounded_setFlat env sep f (blank f) _ hw.1 (bounded_blank f hw.1)
end

/-- **Bounded.**  Whatever pairs `from_flat` is given — any keys, any index values, both rebuild
    modes, every nesting level, every `prune_empty` — no List of the resulting tree holds more than
    its `maximum_set_flat_members` members. -/
theorem bounded_fromFlat (env : Env) (sep : Str) (s : Schema) (hw : wf s = true)
    (ps : List (Str × Str)) : bounded s (fromFlat env sep s ps) = true :=
  bounded_setFlat env sep s (blank s) (wrap ps) hw (bounded_blank s hw)

/-- the invariant is not vacuous: it rejects a list above its ceiling -/
example : bounded (.list none false false 1 (.leaf none false 0)) (.list [.leaf [], .leaf []]) = false := by
  decide

/-- a well-formed schema with a ceiling of 2 that the theorem applies to -/
example : wf (.dict none false .dense
    [.list (some "l".toList) false false 2 (.leaf (some "s".toList) false 0)]) = true := by decide

end Flatland.Flat.Proofs
