/-
C07 / C01: the hypothesis `SepSafe` is needed (KF-C07-a, KF-C01-a).  Under the separator "__" the names
'a_' / 'b' and 'a' / '_b' join to ONE key, so `flatten()` emits a key twice although no Array is involved,
and the second pair is lost on the way back in.
-/
import Proofs.C07NodupExamples
namespace Flatland.Flat.Proofs
open Flatland.Flat Flatland.Flat.Spec

/-- Dict{ a_ : Dict{ b : String }, a : Dict{ _b : String } } -/
def ovSchema : Schema :=
  .dict none false .dense
    [ .dict (some "a_".toList) false .dense [.leaf (some "b".toList) false 0],
      .dict (some "a".toList) false .dense [.leaf (some "_b".toList) false 0] ]

def ovElem : Elem :=
  .dict [ ("a_".toList, .dict [("b".toList, .leaf "1".toList)]),
          ("a".toList, .dict [("_b".toList, .leaf "2".toList)]) ]

theorem ov_flatten :
    flatten exEnv01 "__".toList ovSchema ovElem
      = [("a___b".toList, "1".toList), ("a___b".toList, "2".toList)] := by
  simp [flatten, flattenNode, ovSchema, ovElem, resolve, resolveMembers, resolveOne, membersOf,
    bfsFlat, childItems, kidsFrom, namePath, joinSep, FNode.fl, FNode.cfl, FNode.u, FNode.name,
    FNode.kids, FNode.slots, Schema.name]

/-- without `SepSafe` the keys of a tree WITHOUT any Array are not distinct: two different paths, one key -/
theorem keys_nodup_needs_sepSafe :
    ¬ ((flatten exEnv01 "__".toList ovSchema ovElem).map Prod.fst).Nodup := by
  rw [ov_flatten]; decide

/-- … and the separator really is outside `SepSafe`: it occurs inside 'a_' ++ "__" ++ 'b' at two offsets -/
theorem ov_not_sepSafe : ¬ SepSafe exEnv01 "__".toList (Tok ovSchema) := by
  intro h
  have := keys_nodup_noArray exEnv01 "__".toList ovSchema ovElem h (by decide) (by decide) (by decide)
    (by simp [ovSchema, ovElem, OkP, OkPFields, Schema.name, exEnv01])
  exact keys_nodup_needs_sepSafe this

end Flatland.Flat.Proofs
