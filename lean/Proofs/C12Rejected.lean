/-
C12 after a REJECTED generator call (failure / recovery paths).

The runner (`Flatland/Run/C12.lean`) makes a pre-history of generator calls on the generator before the first
rendering: settings calls through `Flatland.C19.step` (the C19 model of `Context` / `Generator`), tag calls through
`Gen.renderHow`.  This file shows that a settings call that RAISES leaves the generator exactly as it was, hence every
rendering made afterwards (one tag, or the whole form of `Proofs/C12Form.lean`) is the rendering without the call.
`Rejected` lists the calls C19 proves are rejected (`*_unknown_rejected`, `unbalanced_end_raises`): an unknown option
anywhere among the settings of `begin` / `set` / `update` / `[]=`, an `end()` without an open block.
-/
import Proofs.Lemmas.C19Discipline
import Proofs.C12FormExamples
namespace Flatland.C12.Proofs
open Flatland.Markup Flatland.C19 Flatland.C19.Proofs

/-- the calls that only touch settings (everything but a tag call) -/
def isSettingsCall : Op → Bool
  | .tag .. => false
  | _ => true

/-- ANY settings call that raises — whatever the reason: unknown option, an option value `set()` cannot read,
    unbalanced `end()` — leaves the generator exactly as it was -/
theorem failed_settings_call_keeps_generator (T : Tables) (R : RenderCfg) (g : Gen) (op : Op)
    (hs : isSettingsCall op = true) (he : (step T R g op).2.err ≠ none) : (step T R g op).1 = g := by
  cases op with
  | tag n b k => simp [isSettingsCall] at hs
  | begin s =>
    rcases begin_cases g s with ⟨c', _, hb⟩ | ⟨_, hb⟩
    · simp [step, hb] at he
    · simp [step, hb]
  | end_ =>
    rcases end_cases g with ⟨f, rest, _, _, hb⟩ | ⟨e, hb, _⟩
    · simp [step, hb] at he
    · simp [step, hb]
  | set s =>
    rcases set_cases T g s with ⟨ups, c', _, _, hb⟩ | ⟨e, hb⟩
    · simp [step, hb] at he
    · simp [step, hb]
  | setItem k v =>
    rcases setItem_cases g k v with ⟨c', _, hb⟩ | ⟨e, _, hb⟩
    · simp [step, hb] at he
    · simp [step, hb]
  | update s =>
    rcases update_cases g s with ⟨c', _, hb⟩ | ⟨e, _, hb⟩
    · simp [step, hb] at he
    · simp [step, hb]

/-- the calls C19 shows are rejected: an unknown option in ANY position among the settings, an unbalanced `end()` -/
inductive Rejected (g : Gen) : Op → Prop
  | begin (s : List (Str × CVal)) : hasUnknown g s → Rejected g (.begin s)
  | update (s : List (Str × CVal)) : hasUnknown g s → Rejected g (.update s)
  | set (s : List (Str × CVal)) : hasUnknown g s → Rejected g (.set s)
  | setItem (k : Str) (v : CVal) : g.ctx.has k = false → Rejected g (.setItem k v)
  | end_ : g.ctx.depth = 2 → Rejected g .end_

/-- a `Rejected` call raises, and the generator afterwards is the generator before (from C19's `*_unknown_rejected`) -/
theorem rejected_call_raises (T : Tables) (R : RenderCfg) (g : Gen) (op : Op) (h : Rejected g op) :
    (step T R g op).1 = g ∧ (step T R g op).2.err ≠ none := by
  cases h with
  | begin s hu => simp [step, begin_unknown_rejected g s hu]
  | update s hu => simp [step, update_unknown_rejected g s hu]
  | set s hu => obtain ⟨e, he⟩ := set_unknown_rejected T g s hu; simp [step, he]
  | setItem k v hk => simp [step, setItem_unknown_rejected g k v hk]
  | end_ hd => simp [step, unbalanced_end_raises g hd]

/-- REJECTED CALL, THEN A RENDERING = THE RENDERING: whatever Tag method is used (call / open / close / open+close),
    whatever tag, bind and keyword arguments — markup, `tag.contents` and the generator afterwards are the same -/
theorem rejected_call_preserves_rendering (T : Tables) (R : RenderCfg) (g : Gen) (op : Op) (h : Rejected g op)
    (attrChain : Flatland.C11.Chain) (voids order : List Str) (how : How) (tag : Str) (bind : Option Bind)
    (kwargs : List (Str × Val)) :
    (step T R g op).1.renderHow T attrChain voids order how tag bind kwargs
      = g.renderHow T attrChain voids order how tag bind kwargs := by
  rw [(rejected_call_raises T R g op h).1]

/-- the same for any settings call that raised (e.g. `set(auto_name=7)`: AttributeError from `parse_trool`) -/
theorem failed_call_preserves_rendering (T : Tables) (R : RenderCfg) (g : Gen) (op : Op)
    (hs : isSettingsCall op = true) (he : (step T R g op).2.err ≠ none)
    (attrChain : Flatland.C11.Chain) (voids order : List Str) (how : How) (tag : Str) (bind : Option Bind)
    (kwargs : List (Str × Val)) :
    (step T R g op).1.renderHow T attrChain voids order how tag bind kwargs
      = g.renderHow T attrChain voids order how tag bind kwargs := by
  rw [failed_settings_call_keeps_generator T R g op hs he]

/-- a whole pre-history of rejected calls, each rejected where it is made -/
theorem rejected_prehistory_keeps_generator (T : Tables) (R : RenderCfg) (g : Gen) :
    ∀ (ops : List Op), (∀ op ∈ ops, Rejected g op) → runGen T R g ops = g
  | [], _ => rfl
  | op :: rest, h => by
    have h1 := (rejected_call_raises T R g op (h op (List.mem_cons_self ..))).1
    have ih := rejected_prehistory_keeps_generator T R g rest (fun o ho => h o (List.mem_cons_of_mem _ ho))
    simp only [runGen, run] at ih ⊢
    rw [h1]
    exact ih

/-- WHOLE FORM AFTER REJECTED CALLS: the form of `form_roundtrip_generator_total`, rendered on the generator that has
    been through any pre-history of rejected calls, still posts exactly the element's pairs -/
theorem rejected_prehistory_form_roundtrip (T : Tables) (R : RenderCfg) (order : List Str) (g : Gen) (hT : TablesOK T)
    (hL : Live T g.ctx) (hQ : Quiet T g.ctx) (ho : OrderedSet g.ctx) (ops : List Op) (hr : ∀ op ∈ ops, Rejected g op)
    (t : FormTree) (hok : formOk T [] t = true) (hsub : oneSubmitter t = true) :
    browserSubmit (seenVia T order (runGen T R g ops)) (some 0) (renderForm [] t) = .ok (formPairs [] t) := by
  rw [rejected_prehistory_keeps_generator T R g ops hr]
  exact form_roundtrip_generator_total T order g hT hL hQ ho t hok hsub

/-! ### non-vacuity: the seeded mutation's call, on `Generator()` -/

/-- `gen.update(auto_name=False, no_such=1)`, `gen.begin(no_such=1, auto_value=False)`, `gen.set(auto_value="off",
    auto_nmae=True)`, `gen["no_such"] = False`, `gen.end()` on a fresh generator -/
def exRejected : List Op :=
  [.update [("auto_name".toList, .bool false), ("no_such".toList, .int 1)],
   .begin [("no_such".toList, .int 1), ("auto_value".toList, .bool false)],
   .set [("auto_value".toList, .text "off".toList), ("auto_nmae".toList, .bool true)],
   .setItem "no_such".toList (.bool false),
   .end_]

theorem exRejected_rejected : ∀ op ∈ exRejected, Rejected freshGen op := by
  intro op hop
  simp only [exRejected, List.mem_cons, List.mem_nil_iff, or_false] at hop
  rcases hop with rfl | rfl | rfl | rfl | rfl
  · exact .update _ ⟨("no_such".toList, .int 1), by simp, by decide⟩
  · exact .begin _ ⟨("no_such".toList, .int 1), by simp, by decide⟩
  · exact .set _ ⟨("auto_nmae".toList, .bool true), by simp, by decide⟩
  · exact .setItem _ _ (by decide)
  · exact .end_ (by decide)

/-- the example form of `Proofs/C12FormExamples.lean` after those five rejected calls -/
theorem exForm_posts_after_rejected :
    browserSubmit (seenVia Tables.current Flatland.Generated.C11.staticAttributeOrder
      (runGen Tables.current RenderCfg.current freshGen exRejected)) (some 0) (renderForm [] exForm)
      = .ok (formPairs [] exForm) :=
  rejected_prehistory_form_roundtrip _ _ _ freshGen tablesOK_current fresh_live fresh_quiet fresh_ordered exRejected
    exRejected_rejected exForm exForm_ok (by decide)

/-- and a call that is rejected for another reason (`set(auto_name=7)`) -/
example : isSettingsCall (.set [("auto_value".toList, .bool false), ("auto_name".toList, .int 7)]) = true ∧
    (step Tables.current RenderCfg.current freshGen
      (.set [("auto_value".toList, .bool false), ("auto_name".toList, .int 7)])).2.err = some .attributeError := by
  decide

end Flatland.C12.Proofs
