/-
C08 — node-level preservation of the stored-parent invariant (`Good`) for the list-protocol
calls that move existing members around, remove them, or place Element arguments (the calls
whose new children are not built by a constructor inside the call).
-/
import Proofs.C08
import Proofs.Lemmas.PyListMem
namespace Flatland.C08.Proofs
open Flatland.Tree Flatland.PyList Flatland.C08 Flatland.C08.Spec

/-- all items of an underlying list point to holder `p` and are well-parented inside -/
def KidsWP (p : Nat) (ks : List Node) : Prop := ∀ k ∈ ks, k.parent = some p ∧ wp k = true

theorem wp_withKids (n : Node) (ks : List Node) : wp (n.withKids ks) = true ↔ KidsWP n.id ks := by
  cases n with
  | mk i s kids => rw [Node.withKids, wp, wpL_iff]; rfl

theorem wp_withKey (x : Node) (k : Str) : wp (x.withKey k) = wp x := by cases x; rfl
theorem wp_withParent (x : Node) (p : Option Nat) : wp (x.withParent p) = wp x := by cases x; rfl
theorem parent_withKey (x : Node) (k : Str) : (x.withKey k).parent = x.parent := by cases x; rfl
theorem parent_withParent (x : Node) (p : Option Nat) : (x.withParent p).parent = p := by cases x; rfl
theorem id_withKids (x : Node) (ks : List Node) : (x.withKids ks).id = x.id := by cases x; rfl
theorem parent_withKids (x : Node) (ks : List Node) : (x.withKids ks).parent = x.parent := by cases x; rfl

theorem kw_renumberFrom (p k : Nat) (l : List Node) (h : KidsWP p l) : KidsWP p (renumberFrom k l) := by
  induction l generalizing k with
  | nil => intro x hx; cases hx
  | cons y ys ih =>
    intro x hx
    simp only [renumberFrom, List.mem_cons] at hx
    rcases hx with hx | hx
    · rw [hx, parent_withKey, wp_withKey]; exact h y (by simp)
    · exact ih (k + 1) (fun z hz => h z (by simp [hz])) x hx

theorem kw_renumber (p : Nat) (l : List Node) (h : KidsWP p l) : KidsWP p (renumber l) := kw_renumberFrom p 0 l h

theorem kw_sub {p : Nat} {l l' : List Node} (h : KidsWP p l) (hs : ∀ x ∈ l', x ∈ l) : KidsWP p l' :=
  fun x hx => h x (hs x hx)

theorem wp_mkSlot (id lst nm : Nat) (e : Node) (he : wp e = true) :
    (mkSlot id lst nm e).parent = some lst ∧ wp (mkSlot id lst nm e) = true := by
  refine ⟨rfl, ?_⟩
  simp only [mkSlot, wp, wpL, Bool.and_eq_true, beq_iff_eq, and_true]
  exact ⟨parent_withParent _ _, by rw [wp_withParent]; exact he⟩

/-- the finishing move of every mutator: the new underlying list, renumbered for a List -/
theorem finish_wp (n : Node) (ks : List Node) (h : KidsWP n.id ks) :
    wp (n.withKids (if n.kind = .list then renumber ks else ks)) = true := by
  rw [wp_withKids]
  split
  · exact kw_renumber _ _ h
  · exact h

/-- the calls covered here: every argument that is *placed* is an Element (well-parented
    inside); searching calls may take anything; `set` / `set_default` are not covered -/
def ElemOnly : SeqOp → Prop
  | .append (.elem e) | .insert _ (.elem e) | .setitem _ (.elem e) => wp e = true
  | .extend as | .iadd as | .setslice _ as => ∀ a ∈ as, ∃ e, a = .elem e ∧ wp e = true
  | .append (.plain _) | .insert _ (.plain _) | .setitem _ (.plain _) | .set _ | .setDefault | .imul _ => False
  | _ => True

theorem appendEl_wp (n e : Node) (hn : KidsWP n.id n.kids) (he : wp e = true) (next : Nat) :
    KidsWP (appendEl n e next).1.id (appendEl n e next).1.kids ∧ (appendEl n e next).1.id = n.id ∧
      (appendEl n e next).1.sch = n.sch := by
  unfold appendEl
  split
  · refine ⟨?_, id_withKids _ _, by cases n; rfl⟩
    rw [id_withKids]
    intro x hx
    have : x ∈ n.kids ++ [mkSlot next n.id n.kids.length e] := by cases n; exact hx
    rcases List.mem_append.mp this with h1 | h1
    · exact hn x h1
    · simp only [List.mem_singleton] at h1; rw [h1]; exact wp_mkSlot _ _ _ e he
  · refine ⟨?_, id_withKids _ _, by cases n; rfl⟩
    rw [id_withKids]
    intro x hx
    have : x ∈ n.kids ++ [e.withParent (some n.id)] := by cases n; exact hx
    rcases List.mem_append.mp this with h1 | h1
    · exact hn x h1
    · simp only [List.mem_singleton] at h1; rw [h1, parent_withParent, wp_withParent]; exact ⟨rfl, he⟩

theorem extendArgs_wp (m : Schema) (as : List Arg) (ha : ∀ a ∈ as, ∃ e, a = .elem e ∧ wp e = true) :
    ∀ (n : Node) (next : Nat), KidsWP n.id n.kids →
      KidsWP (extendArgs m n as next).1.id (extendArgs m n as next).1.kids := by
  induction as with
  | nil => intro n next h; exact h
  | cons a as ih =>
    intro n next h
    obtain ⟨e, rfl, he⟩ := ha a (by simp)
    rw [extendArgs]
    simp only [wrap]
    have := appendEl_wp n e h he next
    exact ih (fun x hx => ha x (by simp [hx])) _ _ this.1

theorem wrapAll_elems (m : Schema) (as : List Arg) (ha : ∀ a ∈ as, ∃ e, a = .elem e ∧ wp e = true) (next : Nat) :
    ∃ ws, wrapAll m as next = (.ok ws, next) ∧ ∀ w ∈ ws, wp w = true := by
  induction as with
  | nil => exact ⟨[], rfl, by simp⟩
  | cons a as ih =>
    obtain ⟨e, rfl, he⟩ := ha a (by simp)
    obtain ⟨ws, hws, hw⟩ := ih (fun x hx => ha x (by simp [hx]))
    refine ⟨e :: ws, by simp [wrapAll, wrap, hws], ?_⟩
    intro w hwm
    rcases List.mem_cons.mp hwm with h | h
    · rw [h]; exact he
    · exact hw w h

theorem newSlots_wp (lst len : Nat) (ws : List Node) (hw : ∀ w ∈ ws, wp w = true) (next : Nat) :
    KidsWP lst (newSlots lst len ws next).1 := by
  induction ws generalizing next with
  | nil => intro x hx; cases hx
  | cons w ws ih =>
    intro x hx
    simp only [newSlots, List.mem_cons] at hx
    rcases hx with h | h
    · rw [h]; exact wp_mkSlot _ _ _ w (hw w (by simp))
    · exact ih (fun y hy => hw y (by simp [hy])) (next + 1) x h


theorem mem_take_drop {α : Type} {l : List α} {a b : Nat} {x : α} (h : x ∈ (l.drop a).take b) : x ∈ l :=
  List.mem_of_mem_drop (List.mem_of_mem_take h)

/-- **node-level preservation (sequences).**  For the covered calls the element keeps its
    header and stays well-parented: items that stay keep pointing to the sequence, an Element
    argument that is placed is re-pointed to the sequence (Array) or to its new slot (List). -/
theorem seqStep_wp (n : Node) (hw : wp n = true) (op : SeqOp) (hop : ElemOnly op) (next : Nat) :
    wp (seqStep n op next).node = true := by
  have hK : KidsWP n.id n.kids := (wp_iff n).mp hw
  have fin : ∀ ks, KidsWP n.id ks → wp (n.withKids (if n.kind = .list then renumber ks else ks)) = true :=
    fun ks h => finish_wp n ks h
  unfold seqStep
  split
  · exact hw
  · rename_i m hm
    cases op with
    | append a =>
      cases a with
      | plain r => exact absurd hop (by simp [ElemOnly])
      | elem e =>
        simp only [wrap]
        have := appendEl_wp n e hK hop next
        exact (wp_iff _).mpr this.1
    | extend as =>
      have := extendArgs_wp m as hop n next hK
      dsimp only; split <;> exact (wp_iff _).mpr this
    | iadd as =>
      have := extendArgs_wp m as hop n next hK
      dsimp only; split <;> exact (wp_iff _).mpr this
    | insert i a =>
      cases a with
      | plain r => exact absurd hop (by simp [ElemOnly])
      | elem e =>
        simp only [wrap]
        split
        · rw [wp_withKids]
          apply kw_renumber
          intro x hx
          rcases mem_insertAt hx with h1 | h1
          · exact hK x h1
          · rw [h1]; exact wp_mkSlot _ _ _ e hop
        · rw [wp_withKids]
          intro x hx
          rcases mem_insertAt hx with h1 | h1
          · exact hK x h1
          · rw [h1, parent_withParent, wp_withParent]; exact ⟨rfl, hop⟩
    | setitem i a =>
      cases a with
      | plain r => exact absurd hop (by simp [ElemOnly])
      | elem e =>
        dsimp only
        split
        · split
          · exact hw
          · rename_i slot hg
            split
            · exact hw
            · rw [wp_withKids]
              intro x hx
              rcases List.mem_or_eq_of_mem_set hx with h1 | h1
              · exact hK x h1
              · have hs := hK slot (mem_getItem hg)
                rw [h1, parent_withKids]
                refine ⟨hs.1, ?_⟩
                cases slot with
                | mk si ss sk =>
                  simp only [Node.withKids, wp, wpL, Bool.and_eq_true, beq_iff_eq, and_true, Node.ni, Node.sch]
                  exact ⟨parent_withParent _ _, by rw [wp_withParent]; exact hop⟩
        · simp only [wrap]
          split
          · exact hw
          · rw [wp_withKids]
            intro x hx
            rcases List.mem_or_eq_of_mem_set hx with h1 | h1
            · exact hK x h1
            · rw [h1, parent_withParent, wp_withParent]; exact ⟨rfl, hop⟩
    | setslice sl as =>
      obtain ⟨ws, hws, hww⟩ := wrapAll_elems m as hop next
      simp only [hws]
      split
      · have hns := newSlots_wp n.id n.kids.length ws hww next
        split
        · exact hw
        · rename_i ks hss
          rw [wp_withKids]
          apply kw_renumber
          intro x hx
          rcases mem_setSlice hss hx with h1 | h1
          · exact hK x h1
          · exact hns x h1
      · split
        · exact hw
        · rename_i ks hss
          rw [wp_withKids]
          intro x hx
          rcases mem_setSlice hss hx with h1 | h1
          · exact hK x h1
          · obtain ⟨w, hwm, rfl⟩ := List.mem_map.mp h1
            rw [parent_withParent, wp_withParent]; exact ⟨rfl, hww w hwm⟩
    | delitem i =>
      dsimp only
      split
      · rename_i ks k hd _
        exact fin ks (kw_sub hK (fun x hx => mem_delItem hd hx))
      · exact hw
    | delslice sl =>
      dsimp only
      split
      · exact hw
      · rename_i ks hd
        exact fin ks (kw_sub hK (fun x hx => mem_delSlice hd hx))
    | pop i =>
      dsimp only
      split
      · exact hw
      · rename_i x ks hp
        have hm := mem_popAt hp
        split
        · rw [wp_withKids]; exact kw_renumber _ _ (kw_sub hK hm.2)
        · rw [wp_withKids]; exact kw_sub hK hm.2
    | remove a =>
      dsimp only
      split
      · exact hw
      · split
        · exact hw
        · exact fin _ (kw_sub hK (fun x hx => List.mem_of_mem_eraseIdx hx))
    | reverse => exact fin _ (kw_sub hK (fun x hx => List.mem_reverse.mp hx))
    | clear => rw [wp_withKids]; intro x hx; cases hx
    | imul c => exact absurd hop (by simp [ElemOnly])
    | sort k r =>
      dsimp only
      split
      · split <;> first | exact hw | (split <;> exact hw)
      · split
        · exact fin _ (kw_sub hK (fun x hx => mem_sortBy.mp hx))
        · exact hw
    | set r => exact absurd hop (by simp [ElemOnly])
    | setDefault => exact absurd hop (by simp [ElemOnly])
    | len => exact hw
    | getitem i => dsimp only; split <;> first | exact hw | (split <;> first | exact hw | (split <;> exact hw))
    | getslice s => dsimp only; split <;> exact hw
    | contains a => dsimp only; split <;> exact hw
    | index a => dsimp only; split <;> first | exact hw | (split <;> exact hw)
    | count a => dsimp only; split <;> exact hw

/-- the covered list-protocol calls are `Good` in the sense of the frame rule -/
theorem good_seq (o : SeqOp) (ho : ElemOnly o) : Good (.seq o) := by
  intro n next hw
  have h1 := seqStep_hdr n o next
  have h2 := seqStep_wp n hw o ho next
  unfold nodeStep
  cases hk : n.kind <;> simp only [] <;> first | exact ⟨h1, h2⟩ | exact ⟨rfl, hw⟩

/-- **C08 (partial, histories).**  Along any history of the covered list-protocol calls —
    reorderings, removals, searches and placements of fresh or detached Element arguments — on
    any elements of the tree, every node's stored parent chain is its chain of holders up to
    the root. -/
theorem c08_histories_partial (hs : List HOp) (s : HState)
    (hcov : ∀ h ∈ hs, ∃ o, h.op = .seq o ∧ ElemOnly o) (hw : wp s.root = true) (hr : s.root.parent = none) :
    TreeInv (hrun s hs).root := by
  apply hrun_treeinv hs s _ hw hr
  intro h hh
  obtain ⟨o, ho, hel⟩ := hcov h hh
  rw [ho]; exact good_seq o hel


/-! ### non-vacuity -/

def exI : Schema := .mk { cid := 2, kind := .integer } .none []
def exLS : Schema := .mk { cid := 1, kind := .list } .none [exI]
/-- `List.of(Integer)([1, 2])`: slots 2 and 4 hold elements 3 and 5 -/
def exTree : Node := .mk { id := 1, parent := none } exLS
  [mkSlot 2 1 0 (.mk { id := 3, parent := none, val := .int 1, u := ['1'] } exI []),
   mkSlot 4 1 1 (.mk { id := 5, parent := none, val := .int 2, u := ['2'] } exI [])]

def exHist : List HOp :=
  [⟨1, .seq (.pop none)⟩, ⟨1, .seq (.insert 0 (.elem (.mk { id := 9, parent := some 77, val := .int 7, u := ['7'] } exI [])))⟩,
   ⟨1, .seq .reverse⟩, ⟨1, .seq (.delitem 5)⟩]

example : wp exTree = true := by decide

example : TreeInv (hrun ⟨exTree, 100⟩ exHist).root := by
  apply c08_histories_partial exHist ⟨exTree, 100⟩ _ (by decide) rfl
  intro h hh
  simp only [exHist, List.mem_cons, List.not_mem_nil, or_false] at hh
  rcases hh with rfl | rfl | rfl | rfl
  · exact ⟨_, rfl, trivial⟩
  · exact ⟨_, rfl, (by show wp _ = true; decide)⟩
  · exact ⟨_, rfl, trivial⟩
  · exact ⟨_, rfl, trivial⟩

/-- the placed element (id 9, stale pointer 77) now points to its new slot, which points to the list -/
example : ((hrun ⟨exTree, 100⟩ exHist).root.kids.map (fun s => (s.parent, s.kids.map (fun e => (e.id, e.parent))))) =
    [(some 1, [(3, some 2)]), (some 1, [(9, some 100)])] := by decide

end Flatland.C08.Proofs
