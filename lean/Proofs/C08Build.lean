/-
C08 — everything the constructors and element-level mutators of the model build is
well-parented: `schema(parent=…)`, `element.set(raw)`, `schema(value)`, `from_defaults`,
`set_default`.  These are the lemmas that let the node-level preservation theorem cover calls
which build containers inside the call (plain values wrapped by container member schemas,
`set`, `set_default`, the mapping calls).
-/
import Proofs.C08Step
import Proofs.C09
namespace Flatland.C08.Proofs
open Flatland.Tree Flatland.PyList Flatland.C08 Flatland.C08.Spec

theorem hdr_id_parent {c : Node} {id : Nat} {p : Option Nat} {s : Schema} {k : Str} {o : Option Bool} {nm : Option Str}
    (h : c.hdr = (id, p, s, k, o, nm)) : c.id = id ∧ c.parent = p := by
  simp only [Node.hdr, Prod.mk.injEq] at h; exact ⟨h.1, h.2.1⟩

mutual
theorem blank_wp : ∀ (s : Schema) (parent : Option Nat) (key : Str) (next : Nat),
    wp (blank s parent key next).1 = true
  | .mk info dflt subs, parent, key, next => by
    rw [blank]
    split
    · rw [wp, wpL_iff]; exact blankFields_wp subs next false (next + 1)
    · split
      · rw [wp, wpL_iff]; exact blankFields_wp subs next true (next + 1)
      · rfl
    · rfl
theorem blankFields_wp : ∀ (subs : List Schema) (pid : Nat) (b : Bool) (next : Nat),
    ∀ k ∈ (blankFields subs pid b next).1, k.parent = some pid ∧ wp k = true
  | [], _, _, _ => by intro k hk; simp [blankFields] at hk
  | f :: fs, pid, b, next => by
    rw [blankFields]
    split
    · exact blankFields_wp fs pid b next
    · intro k hk
      rcases List.mem_cons.mp hk with h | h
      · rw [h]
        exact ⟨(hdr_id_parent (blank_hdr f (some pid) f.key next)).2, blank_wp f (some pid) f.key next⟩
      · exact blankFields_wp fs pid b _ k h
end

theorem kidsWP_iff (n : Node) : wp n = true ↔ KidsWP n.id n.kids := wp_iff n

theorem wp_of_hdr_kids {r n : Node} (h : r.hdr = n.hdr) (hk : KidsWP n.id r.kids) : wp r = true := by
  rw [wp_iff, (parent_of_hdr h).2]; exact hk

theorem attachAll_wp (vals : List Node) : ∀ (n : Node) (next : Nat), KidsWP n.id n.kids → (∀ v ∈ vals, wp v = true) →
    KidsWP n.id (attachAll n vals next).1.kids := by
  induction vals with
  | nil => intro n next h _; exact h
  | cons e es ih =>
    intro n next h hv
    rw [Flatland.C09.Proofs.attachAll_eq]
    have hap := appendEl_wp n e h (hv e (by simp)) next
    have := ih (appendEl n e next).1 (appendEl n e next).2 hap.1 (fun v hv' => hv v (by simp [hv']))
    rw [hap.2.1] at this
    exact this

theorem mem_replaceKid' {kids : List Node} {k : Str} {new x : Node} (h : x ∈ replaceKid kids k new) :
    x ∈ kids ∨ x = new := by
  unfold replaceKid at h
  obtain ⟨c, hc, hx⟩ := List.mem_map.mp h
  split at hx
  · exact .inr hx.symm
  · exact .inl (hx ▸ hc)

theorem findKid_mem {kids : List Node} {k : Str} {c : Node} (h : findKid kids k = some c) : c ∈ kids := by
  unfold findKid at h; exact List.mem_of_find?_eq_some h

mutual
/-- `element.set(raw)` keeps a well-parented element well-parented -/
theorem setNode_wp : ∀ (raw : Raw) (n : Node) (pol : Option Policy) (next : Nat), wp n = true →
    wp (setNode n raw pol next).node = true
  | raw, .mk i s kids, pol, next, hw => by
    have hK : KidsWP i.id kids := (wp_iff (.mk i s kids)).mp hw
    have hempty : KidsWP (Node.mk i s []).id (Node.mk i s []).kids := by intro x hx; cases hx
    have hprep : ∀ kvs r, dictPrep i s kvs pol next = .error r → wp r.node = true := by
      intro kvs r hr
      simp only [dictPrep] at hr
      cases hp : policyCheck (pol.getD s.info.policy) s.subs kvs with
      | ok u => simp [hp] at hr
      | error e =>
        simp [hp] at hr; subst hr
        rw [wp, wpL_iff]
        split
        · exact blankFields_wp _ _ _ _
        · split
          · exact blankFields_wp _ _ _ _
          · intro x hx; cases hx
    have hprep2 : ∀ kvs fresh n1, dictPrep i s kvs pol next = .ok (fresh, n1) → KidsWP i.id fresh := by
      intro kvs fresh n1 hr
      simp only [dictPrep] at hr
      cases hp : policyCheck (pol.getD s.info.policy) s.subs kvs with
      | error e => simp [hp] at hr
      | ok u =>
        simp [hp] at hr
        have h2 := congrArg Prod.fst hr
        simp only at h2
        rw [← h2]
        split
        · exact blankFields_wp _ _ _ _
        · split
          · exact blankFields_wp _ _ _ _
          · intro x hx; cases hx
    have hfresh : ∀ kvs, wp (match dictPrep i s kvs pol next with
        | .error r => r
        | .ok (fresh, next1) => (⟨.mk i s fresh, next1, .ok true⟩ : SetR)).node = true := by
      intro kvs
      split
      · rename_i r hr; exact hprep _ r hr
      · rename_i fresh n1 hr; rw [wp, wpL_iff]; exact hprep2 _ fresh n1 hr
    have hseq : ∀ (xs : List Raw) (m : Schema), (∀ v ∈ (buildItems m xs next).1, wp v = true) →
        wp (attachAll (Node.mk i s []) (buildItems m xs next).1 (buildItems m xs next).2.1).1 = true := by
      intro xs m hb
      apply wp_of_hdr_kids (attachAll_hdr _ _ _)
      exact attachAll_wp _ (.mk i s []) _ hempty hb
    cases raw with
    | none =>
      unfold setNode
      split
      · split <;> exact hw
      · split <;> exact hw
      · exact hw
      · split <;> rfl
      · split <;> rfl
      · split <;> rfl
      · exact hw
      · exact hw
    | int v =>
      unfold setNode
      split
      · split <;> exact hw
      · split <;> exact hw
      · exact hw
      · split <;> rfl
      · split <;> rfl
      · split <;> rfl
      · exact hw
      · exact hw
    | str v =>
      unfold setNode
      split
      · split <;> exact hw
      · split <;> exact hw
      · exact hw
      · split <;> rfl
      · split <;> rfl
      · split <;> rfl
      · cases v with
        | nil => exact hfresh []
        | cons c cs => exact hw
      · cases v with
        | nil => exact hfresh []
        | cons c cs => exact hw
    | list xs =>
      unfold setNode
      split
      · split <;> exact hw
      · split <;> exact hw
      · exact hw
      · split
        · rfl
        · dsimp only
          split
          · exact hseq xs _ (buildItems_wp xs _ next)
          · rfl
          · rfl
      · split
        · rfl
        · dsimp only
          split
          · exact hseq xs _ (buildItems_wp xs _ next)
          · rfl
          · rfl
      · split
        · rfl
        · dsimp only
          split
          · exact hseq xs _ (buildItems_wp xs _ next)
          · rfl
          · rfl
      · cases xs with
        | nil => exact hfresh []
        | cons c cs => exact hw
      · cases xs with
        | nil => exact hfresh []
        | cons c cs => exact hw
    | dict kvs =>
      unfold setNode
      split
      · split <;> exact hw
      · split <;> exact hw
      · exact hw
      · split <;> rfl
      · split <;> rfl
      · split <;> rfl
      · dsimp only
        split
        · rename_i r hr; exact hprep _ r hr
        · rename_i fresh n1 hr
          rw [wp, wpL_iff]
          exact setPairs_wp kvs i.id s.subs fresh n1 (hprep2 _ fresh n1 hr)
      · dsimp only
        split
        · rename_i r hr; exact hprep _ r hr
        · rename_i fresh n1 hr
          rw [wp, wpL_iff]
          exact setPairs_wp kvs i.id s.subs fresh n1 (hprep2 _ fresh n1 hr)
    | pairs kvs =>
      unfold setNode
      split
      · split <;> exact hw
      · split <;> exact hw
      · exact hw
      · split <;> rfl
      · split <;> rfl
      · split <;> rfl
      · dsimp only
        split
        · rename_i r hr; exact hprep _ r hr
        · rename_i fresh n1 hr
          rw [wp, wpL_iff]
          exact setPairs_wp kvs i.id s.subs fresh n1 (hprep2 _ fresh n1 hr)
      · dsimp only
        split
        · rename_i r hr; exact hprep _ r hr
        · rename_i fresh n1 hr
          rw [wp, wpL_iff]
          exact setPairs_wp kvs i.id s.subs fresh n1 (hprep2 _ fresh n1 hr)
theorem buildItems_wp : ∀ (xs : List Raw) (m : Schema) (next : Nat), ∀ v ∈ (buildItems m xs next).1, wp v = true
  | [], _, _ => by intro v hv; simp [buildItems] at hv
  | x :: xs, m, next => by
    rw [buildItems]
    dsimp only
    split
    · intro v hv; cases hv
    · split
      · intro v hv; cases hv
      · intro v hv
        rcases List.mem_cons.mp hv with h | h
        · rw [h]; exact setNode_wp x _ none _ (blank_wp m none [] next)
        · exact buildItems_wp xs m _ v h
theorem setPairs_wp : ∀ (kvs : List (Str × Raw)) (pid : Nat) (subs : List Schema) (kids : List Node) (next : Nat),
    KidsWP pid kids → KidsWP pid (setPairs pid subs kids kvs next).1
  | [], _, _, _, _, h => by simpa [setPairs] using h
  | (k, v) :: rest, pid, subs, kids, next, h => by
    rw [setPairs]
    split
    · exact setPairs_wp rest pid subs kids next h
    · split
      · rename_i child hc
        have hcm := findKid_mem hc
        have hnew : (setNode child v none next).node.parent = some pid ∧ wp (setNode child v none next).node = true :=
          ⟨by rw [(parent_of_hdr (setNode_hdr child v none next)).1]; exact (h child hcm).1,
           setNode_wp v child none next (h child hcm).2⟩
        have hrep : KidsWP pid (replaceKid kids k (setNode child v none next).node) := by
          intro x hx
          rcases mem_replaceKid' hx with h1 | h1
          · exact h x h1
          · rw [h1]; exact hnew
        dsimp only
        split
        · exact hrep
        · exact setPairs_wp rest pid subs _ _ hrep
      · rename_i f _ _ _
        have hb := blank_wp f none k next
        have hel : wp ((blank f none k next).1.withParent (some pid)) = true := by rw [wp_withParent]; exact hb
        have hnew : (setNode ((blank f none k next).1.withParent (some pid)) v none (blank f none k next).2).node.parent = some pid ∧
            wp (setNode ((blank f none k next).1.withParent (some pid)) v none (blank f none k next).2).node = true :=
          ⟨by rw [(parent_of_hdr (setNode_hdr _ v none _)).1, parent_withParent], setNode_wp v _ none _ hel⟩
        have happ : KidsWP pid (kids ++ [(setNode ((blank f none k next).1.withParent (some pid)) v none (blank f none k next).2).node]) := by
          intro x hx
          rcases List.mem_append.mp hx with h1 | h1
          · exact h x h1
          · simp only [List.mem_singleton] at h1; rw [h1]; exact hnew
        dsimp only
        split
        · exact happ
        · exact setPairs_wp rest pid subs _ _ happ
end


theorem construct_wp (s : Schema) (raw : Raw) (parent : Option Nat) (key : Str) (next : Nat) (e : Node) (n1 : Nat)
    (h : construct s raw parent key next = (.ok e, n1)) : wp e = true := by
  unfold construct at h
  dsimp only at h
  split at h
  · cases h; exact setNode_wp raw _ none _ (blank_wp s parent key next)
  · cases h

/-- a plain value is wrapped into a well-parented element; an Element argument is well-parented by hypothesis -/
theorem wrap_wp (m : Schema) (a : Arg) (ha : ArgWP a) (next : Nat) (w : Node) (n1 : Nat)
    (h : wrap m a next = (.ok w, n1)) : wp w = true := by
  cases a with
  | elem e => simp only [wrap] at h; cases h; exact ha
  | plain r => exact construct_wp m r none [] next w n1 h

theorem wrapAll_wp (m : Schema) (as : List Arg) (ha : ∀ a ∈ as, ArgWP a) : ∀ (next : Nat) (ws : List Node) (n1 : Nat),
    wrapAll m as next = (.ok ws, n1) → ∀ w ∈ ws, wp w = true := by
  induction as with
  | nil => intro next ws n1 h; simp [wrapAll] at h; rw [h.1]; simp
  | cons a as ih =>
    intro next ws n1 h
    rw [wrapAll] at h
    split at h
    · cases h
    · rename_i w n2 hw
      split at h
      · cases h
      · rename_i ws' n3 hws
        cases h
        intro x hx
        rcases List.mem_cons.mp hx with h1 | h1
        · rw [h1]; exact wrap_wp m a (ha a (by simp)) next w n2 hw
        · exact ih (fun y hy => ha y (by simp [hy])) n2 ws' _ hws x h1

theorem defaultSlotsWith_wp (mk : Nat → SetR) (hmk : ∀ nx, wp (mk nx).node = true) (lst : Nat) :
    ∀ (k idx next : Nat), KidsWP lst (defaultSlotsWith mk lst k idx next).1 := by
  intro k
  induction k with
  | zero => intro idx next x hx; simp [defaultSlotsWith] at hx
  | succ k ih =>
    intro idx next
    rw [defaultSlotsWith]
    dsimp only
    split
    · intro x hx
      simp only [List.mem_singleton] at hx
      rw [hx]; exact wp_mkSlot _ _ _ _ (hmk _)
    · intro x hx
      rcases List.mem_cons.mp hx with h | h
      · rw [h]; exact wp_mkSlot _ _ _ _ (hmk _)
      · exact ih _ _ x h

mutual
theorem fromDefaults_wp : ∀ (s : Schema) (parent : Option Nat) (key : Str) (next : Nat),
    wp (fromDefaults s parent key next).node = true
  | .mk info dflt subs, parent, key, next => by
    have hb := blank_wp (.mk info dflt subs) parent key next
    have hbh := blank_hdr (.mk info dflt subs) parent key next
    have hid : (blank (.mk info dflt subs) parent key next).1.id = next := (hdr_id_parent hbh).1
    unfold fromDefaults
    dsimp only
    split
    · exact setNode_wp _ _ _ _ hb
    · exact setNode_wp _ _ _ _ hb
    · exact hb
    · split
      · exact hb
      · split
        · rename_i m ms
          rw [wp_withKids]
          exact defaultSlotsWith_wp _ (fun nx => fromDefaults_wp m none [] nx) _ _ _ _
        · exact hb
      · exact setNode_wp _ _ _ _ hb
    · split
      · exact hb
      · split
        · split
          · apply wp_of_hdr_kids (attachAll_hdr _ _ _)
            exact attachAll_wp _ _ _ ((wp_iff _).mp hb) (buildItems_wp _ _ _)
          · exact hb
        · exact hb
      · exact hb
    · split
      · exact hb
      · split
        · split
          · apply wp_of_hdr_kids (attachAll_hdr _ _ _)
            exact attachAll_wp _ _ _ ((wp_iff _).mp hb) (buildItems_wp _ _ _)
          · exact hb
        · exact hb
      · exact hb
    · split
      · rw [wp_withKids, hid]; exact defaultFields_wp subs next false _
      · exact setNode_wp _ _ _ _ hb
    · split
      · split
        · rw [wp_withKids, hid]; exact defaultFields_wp subs next true _
        · rw [wp_withKids]; intro x hx; cases hx
      · exact setNode_wp _ _ _ _ hb
theorem defaultFields_wp : ∀ (subs : List Schema) (pid : Nat) (b : Bool) (next : Nat),
    KidsWP pid (defaultFields subs pid b next).1
  | [], _, _, _ => by intro x hx; simp [defaultFields] at hx
  | f :: fs, pid, b, next => by
    rw [defaultFields]
    split
    · exact defaultFields_wp fs pid b next
    · have hfd : (fromDefaults f (some pid) f.key next).node.parent = some pid ∧
          wp (fromDefaults f (some pid) f.key next).node = true :=
        ⟨(hdr_id_parent (fromDefaults_hdr f (some pid) f.key next)).2, fromDefaults_wp f (some pid) f.key next⟩
      dsimp only
      split
      · intro x hx
        rcases List.mem_cons.mp hx with h | h
        · rw [h]
          split
          · exact ⟨(hdr_id_parent (blank_hdr f (some pid) f.key _)).2, blank_wp _ _ _ _⟩
          · exact hfd
        · exact blankFields_wp fs pid b _ x h
      · intro x hx
        rcases List.mem_cons.mp hx with h | h
        · rw [h]; exact hfd
        · exact defaultFields_wp fs pid b _ x h
end

mutual
theorem setDefault_wp : ∀ (n : Node) (next : Nat), wp n = true → wp (setDefault n next).node = true
  | .mk i s kids, next, hw => by
    have hK : KidsWP i.id kids := (wp_iff (.mk i s kids)).mp hw
    have hempty : KidsWP (Node.mk i s []).id (Node.mk i s []).kids := by intro x hx; cases hx
    unfold setDefault
    split
    · exact setNode_wp _ _ _ _ hw
    · exact setNode_wp _ _ _ _ hw
    · exact hw
    · split
      · exact hw
      · split
        · rw [wp, wpL_iff]
          exact defaultSlotsWith_wp _ (fun nx => fromDefaults_wp _ none [] nx) _ _ _ _
        · exact hw
      · exact setNode_wp _ _ _ _ hw
    · split
      · exact hw
      · split
        · dsimp only
          split
          · apply wp_of_hdr_kids (attachAll_hdr _ _ _)
            exact attachAll_wp _ (.mk i s []) _ hempty (buildItems_wp _ _ _)
          · rfl
        · exact hw
      · exact hw
    · split
      · exact hw
      · split
        · dsimp only
          split
          · apply wp_of_hdr_kids (attachAll_hdr _ _ _)
            exact attachAll_wp _ (.mk i s []) _ hempty (buildItems_wp _ _ _)
          · rfl
        · exact hw
      · exact hw
    · split
      · rw [wp, wpL_iff]; exact setDefaultKids_wp kids i.id next hK
      · exact setNode_wp _ _ _ _ hw
    · split
      · split
        · rw [wp, wpL_iff]; exact defaultFields_wp _ _ _ _
        · rfl
      · exact setNode_wp _ _ _ _ hw
theorem setDefaultKids_wp : ∀ (kids : List Node) (pid : Nat) (next : Nat), KidsWP pid kids →
    KidsWP pid (setDefaultKids kids next).1
  | [], _, _, _ => by intro x hx; simp [setDefaultKids] at hx
  | k :: ks, pid, next, h => by
    rw [setDefaultKids]
    have hk : (setDefault k next).node.parent = some pid ∧ wp (setDefault k next).node = true :=
      ⟨by rw [(parent_of_hdr (setDefault_hdr k next)).1]; exact (h k (by simp)).1,
       setDefault_wp k next (h k (by simp)).2⟩
    dsimp only
    split
    · intro x hx
      rcases List.mem_cons.mp hx with h1 | h1
      · rw [h1]; exact hk
      · exact h x (by simp [h1])
    · intro x hx
      rcases List.mem_cons.mp hx with h1 | h1
      · rw [h1]; exact hk
      · exact setDefaultKids_wp ks pid _ (fun y hy => h y (by simp [hy])) x h1
end

end Flatland.C08.Proofs
