/- C10: every part (invariant, keys, distinct keys, Compound, flat route) — the module the check audits. -/
import Proofs.C10Compound
import Proofs.C10Flat
