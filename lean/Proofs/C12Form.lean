/-
C12, whole-form clause — a rendered form, submitted unchanged, posts the element's own flat pairs.

`form_roundtrip`: for every element tree `t` and every way form mode renders its leaves
(`Flatland/C12/Form.lean`), what a browser submits for the rendered form is exactly the list of
the element's own flat pairs a form can carry (`formPairs`), in document order; `formPairs`
together with the pairs of the unchecked Boolean boxes is a permutation of what `flatten()` of the
flat model emits for the same tree (`formPairs_flatten`).
-/
import Proofs.Lemmas.C12FormControls
import Proofs.Lemmas.C12FormTotal
import Proofs.Lemmas.C12FormGen
import Proofs.Lemmas.C12FormFlat
import Proofs.Lemmas.C12FormSelect
import Proofs.Lemmas.C12FormSubmit
namespace Flatland.C12.Proofs
open Flatland.Markup Flatland.C12 Flatland.C19.Proofs

/-! ### one leaf -/

theorem filter_eq_single (lits : List Str) (u : Str) (hnd : lits.Nodup) (hu : u ∈ lits) :
    lits.filter (fun l => l == u) = [u] := by
  induction lits with
  | nil => simp at hu
  | cons l ls ih =>
    simp only [List.nodup_cons] at hnd
    by_cases hl : l = u
    · subst hl
      have : ls.filter (fun x => x == l) = [] := by
        rw [List.filter_eq_nil_iff]
        intro x hx hxl
        simp only [beq_iff_eq] at hxl
        subst hxl
        exact hnd.1 hx
      simp [this]
    · have hu' : u ∈ ls := by
        rcases List.mem_cons.mp hu with h | h
        · exact absurd h.symm hl
        · exact h
      have : (l == u) = false := by simpa using hl
      simp only [List.filter_cons, this, Bool.false_eq_true, if_false]
      exact ih hnd.2 hu'

theorem offersOnce_spec {lits : List Str} {u : Str} (h : offersOnce lits u = true) : lits.Nodup ∧ u ∈ lits := by
  simp only [offersOnce, Bool.and_eq_true, decide_eq_true_eq, List.contains_eq_mem] at h
  exact h

theorem matches_scalar (T : Tables) (b : Bind) (hkind : ∀ s ms, b.kind ≠ .array s ms) (l : Str) :
    b.matches T (some (.text l)) = .ok (l == b.u) := by
  unfold Bind.matches
  cases hk : b.kind with
  | scalar => rfl
  | boolean t => rfl
  | array s ms => exact absurd hk (hkind s ms)

/-- A SCALAR LEAF, whichever of its five control groups renders it, posts exactly `(flat name, u)` -/
theorem scalar_posts (T : Tables) (ctx : Ctx) (hT : TablesOK T) (hL : Live T ctx) (pre : List (Option Str))
    (n : Option Str) (u : Str) (w : ScalarWidget) (ex : List Attrs)
    (hname : flatName (pre ++ [n]) ≠ []) (hw : widgetOk u w = true) (hex : ex.all extraOk = true)
    (ps : List Pair) (h : browserPost (seenOf T ctx) (scalarControls (textBind pre n u) w ex) = .ok ps) :
    ps = [(flatName (pre ++ [n]), u)] := by
  have hkind : ∀ s ms, (textBind pre n u).kind ≠ .array s ms := by intro s ms hk; cases hk
  cases w with
  | input ty =>
    exact input_posts T ctx hT hL (textBind pre n u) ty _ (extraOk_headD hex) hw hname ps (postsAll_single h)
  | textarea =>
    have hlf : startsWithLF u = false := by simpa [widgetOk] using hw
    exact textarea_posts T ctx hT hL (textBind pre n u) _ (extraOk_headD hex) hname hlf ps (postsAll_single h)
  | button =>
    exact button_posts T ctx hT hL (textBind pre n u) _ (extraOk_headD hex) hname ps (postsAll_single h)
  | radios ty lits =>
    simp only [widgetOk, Bool.and_eq_true] at hw
    obtain ⟨hnd, hu⟩ := offersOnce_spec hw.2
    have := checkGroup_posts T ctx (textBind pre n u) ty (fun l => l == u)
      (fun l extra hx p hp => check_posts_scalar T ctx hT hL (textBind pre n u) ty l extra hx hw.1 hname hkind p hp)
      lits ex hex ps h
    rw [this, filter_eq_single lits u hnd hu]
    rfl
  | select lits =>
    obtain ⟨hnd, hu⟩ := offersOnce_spec (by simpa [widgetOk] using hw)
    obtain ⟨s, hs, hopts⟩ := posts_select (postsAll_single h)
    have hsn := select_seen_name T ctx hT hL (textBind pre n u) [] (by simp [Dict.keys]) rfl rfl rfl hname s hs
    rw [hsn] at hopts
    have := optionGroup_posts T ctx hT hL (textBind pre n u) _ hname (fun l => l == u)
      (matches_scalar T _ hkind) lits ex hex ps hopts
    rw [this, filter_eq_single lits u hnd hu]
    rfl

theorem contains_map_some (ms : List Str) (l : Str) : (ms.map some).contains (some l) = ms.contains l := by
  induction ms with
  | nil => rfl
  | cons m ms ih => simp only [List.map_cons, List.contains_cons, ih]; rfl

theorem members_match (T : Tables) (strip : Bool) (ms : List Str)
    (hms : ms.all (fun m => !strip || T.strip m == m) = true) :
    ms.filter (fun l => (ms.map some).contains (some (if strip then T.strip l else l))) = ms := by
  rw [List.filter_eq_self]
  intro l hl
  simp only [List.all_eq_true, Bool.or_eq_true, Bool.not_eq_true', beq_iff_eq] at hms
  rw [contains_map_some]
  cases strip with
  | false => simpa using hl
  | true =>
    rcases hms l hl with h | h
    · cases h
    · simp only [if_true, h]; simpa using hl

/-- AN ARRAY LEAF, as checkboxes or as `<select multiple>`, posts one `(flat name, m)` per member -/
theorem array_posts (T : Tables) (ctx : Ctx) (hT : TablesOK T) (hL : Live T ctx) (pre : List (Option Str))
    (n : Option Str) (strip : Bool) (ms : List Str) (w : ArrayWidget) (ex : List Attrs) (shown : Str)
    (hname : flatName (pre ++ [n]) ≠ []) (hms : ms.all (fun m => !strip || T.strip m == m) = true)
    (hex : ex.all extraOk = true)
    (ps : List Pair) (h : browserPost (seenOf T ctx) (arrayControls (arrayBind pre n strip ms shown) ms w ex) = .ok ps) :
    ps = ms.map (fun m => (flatName (pre ++ [n]), m)) := by
  cases w with
  | checkboxes =>
    have := checkGroup_posts T ctx (arrayBind pre n strip ms shown) sCheckbox
      (fun l => (ms.map some).contains (some (if strip then T.strip l else l)))
      (fun l extra hx p hp => check_posts_array T ctx hT hL (arrayBind pre n strip ms shown) sCheckbox l extra hx
        (by decide) hname strip (ms.map some) rfl p hp)
      ms ex hex ps h
    rw [this, members_match T strip ms hms]
    rfl
  | selectMultiple =>
    obtain ⟨s, hs, hopts⟩ := posts_select (postsAll_single h)
    have hsn := select_seen_name T ctx hT hL (arrayBind pre n strip ms shown) [(sMultiple, .text sMultiple)]
      (by simp [Dict.keys]) (by decide) (by decide) (by decide) hname s hs
    rw [hsn] at hopts
    have := optionGroup_posts T ctx hT hL (arrayBind pre n strip ms shown) _ hname
      (fun l => (ms.map some).contains (some (if strip then T.strip l else l)))
      (fun l => by unfold Bind.matches; rfl) ms ex hex ps hopts
    rw [this, members_match T strip ms hms]

end Flatland.C12.Proofs

namespace Flatland.C12.Proofs
open Flatland.Markup Flatland.C12 Flatland.C19.Proofs

/-! ### the whole form -/

theorem ne_nil_of_isEmpty {s : Str} (h : (!s.isEmpty) = true) : s ≠ [] := by
  cases s with
  | nil => simp at h
  | cons c cs => simp

mutual
theorem form_roundtrip_at (T : Tables) (ctx : Ctx) (hT : TablesOK T) (hL : Live T ctx) :
    ∀ (t : FormTree) (pre : List (Option Str)), formOk T pre t = true → ∀ ps,
      browserPost (seenOf T ctx) (renderForm pre t) = .ok ps → ps = formPairs pre t
  | .text n u w ex, pre, hok, ps, h => by
    simp only [formOk, Bool.and_eq_true] at hok
    simp only [renderForm] at h
    simp only [formPairs]
    exact scalar_posts T ctx hT hL pre n u w ex (ne_nil_of_isEmpty hok.1.1) hok.1.2 hok.2 ps h
  | .bool n tru u ex, pre, hok, ps, h => by
    simp only [formOk, Bool.and_eq_true] at hok
    simp only [renderForm] at h
    have := boolbox_posts T ctx hT hL (boolBind pre n tru u) tru _ (extraOk_headD hok.2) (ne_nil_of_isEmpty hok.1) rfl
      ps (postsAll_single h)
    rw [this]
    simp only [formPairs, boolBind]
    by_cases htu : tru = u
    · subst htu; simp
    · simp [htu]
  | .array n strip ms w ex, pre, hok, ps, h => by
    simp only [formOk, Bool.and_eq_true] at hok
    simp only [renderForm] at h
    rw [array_posts T ctx hT hL pre n strip ms w ex [] (ne_nil_of_isEmpty hok.1.1) hok.1.2 hok.2 ps h]
    simp only [formPairs]
    have : flatName (pre ++ [n, none]) = flatName (pre ++ [n]) := by
      have := flatName_skip_none (pre ++ [n]) []
      simpa using this
    rw [this]
  | .joined n u ms ty ex, pre, hok, ps, h => by
    simp only [formOk, Bool.and_eq_true] at hok
    simp only [renderForm] at h
    simp only [formPairs]
    exact input_posts T ctx hT hL (arrayBind pre n true ms u) ty _ (extraOk_headD hok.2) hok.1.2
      (ne_nil_of_isEmpty hok.1.1) ps (postsAll_single h)
  | .dict n fields, pre, hok, ps, h => by
    simp only [formOk] at hok
    simp only [renderForm] at h
    simp only [formPairs]
    exact fields_roundtrip_at T ctx hT hL fields (pre ++ [n]) hok ps h
  | .list n members, pre, hok, ps, h => by
    simp only [formOk] at hok
    simp only [renderForm] at h
    simp only [formPairs]
    exact slots_roundtrip_at T ctx hT hL members (pre ++ [n]) 0 hok ps h
theorem fields_roundtrip_at (T : Tables) (ctx : Ctx) (hT : TablesOK T) (hL : Live T ctx) :
    ∀ (ts : List FormTree) (pre : List (Option Str)), fieldsOk T pre ts = true → ∀ ps,
      browserPost (seenOf T ctx) (renderFields pre ts) = .ok ps → ps = fieldPairs pre ts
  | [], pre, _, ps, h => by
    simp only [renderFields, browserPost, postsAll, pure, Except.pure, Except.ok.injEq] at h
    subst h; rfl
  | t :: ts, pre, hok, ps, h => by
    simp only [fieldsOk, Bool.and_eq_true] at hok
    simp only [renderFields] at h
    obtain ⟨p, q, hp, hq, rfl⟩ := postsAll_append h
    rw [form_roundtrip_at T ctx hT hL t pre hok.1 p hp, fields_roundtrip_at T ctx hT hL ts pre hok.2 q hq]
    rfl
theorem slots_roundtrip_at (T : Tables) (ctx : Ctx) (hT : TablesOK T) (hL : Live T ctx) :
    ∀ (ts : List FormTree) (pre : List (Option Str)) (i : Nat), slotsOk T pre i ts = true → ∀ ps,
      browserPost (seenOf T ctx) (renderSlots pre i ts) = .ok ps → ps = slotPairs pre i ts
  | [], pre, i, _, ps, h => by
    simp only [renderSlots, browserPost, postsAll, pure, Except.pure, Except.ok.injEq] at h
    subst h; rfl
  | t :: ts, pre, i, hok, ps, h => by
    simp only [slotsOk, Bool.and_eq_true] at hok
    simp only [renderSlots] at h
    obtain ⟨p, q, hp, hq, rfl⟩ := postsAll_append h
    rw [form_roundtrip_at T ctx hT hL t _ hok.1 p hp, slots_roundtrip_at T ctx hT hL ts pre (i + 1) hok.2 q hq]
    rfl
end

/-- EVERY CONTROL POSTS ITS PAIR.  For every element tree and every way form mode renders its
    leaves, on a generator whose context has name and value generation switched on: if the tag
    calls render, what the controls post — every control taken as successful, every submitter as
    THE activated one (`browserPost`) — is exactly the element's own flat pairs a form can carry, in
    document order.  What a browser really submits (`browserSubmit`: at most one submitter is
    activated) is `form_roundtrip` below. -/
theorem form_controls_post (T : Tables) (ctx : Ctx) (hT : TablesOK T) (hL : Live T ctx) (t : FormTree)
    (hok : formOk T [] t = true) (ps : List Pair)
    (h : browserPost (seenOf T ctx) (renderForm [] t) = .ok ps) : ps = formPairs [] t :=
  form_roundtrip_at T ctx hT hL t [] hok ps h

end Flatland.C12.Proofs

namespace Flatland.C12.Proofs
open Flatland.Markup Flatland.C12 Flatland.C19.Proofs

/-! ### the form does render (generator with default settings) -/

/-- a way of making the tag calls that succeeds whenever the transforms do -/
def SeesAll (T : Tables) (ctx : Ctx) (see : Str → Bind → Attrs → Except PyErr Seen) : Prop :=
  ∀ tag b kw, Renders T ctx tag b kw → kwStable kw → ∃ s, see tag b kw = .ok s

theorem seesAll_seenOf (T : Tables) (ctx : Ctx) : SeesAll T ctx (seenOf T ctx) := fun _ _ _ h _ => h.seen

theorem seesAll_seenVia (T : Tables) (order : List Str) (g : Gen) (ho : OrderedSet g.ctx) :
    SeesAll T g.ctx (seenVia T order g) := fun _ _ _ h hk => seenVia_of_renders hk h ho

theorem scalar_renders (T : Tables) (ctx : Ctx) (hT : TablesOK T) (hL : Live T ctx) (hQ : Quiet T ctx)
    (see : Str → Bind → Attrs → Except PyErr Seen) (hsee : SeesAll T ctx see)
    (b : Bind) (hkind : ∀ s ms, b.kind ≠ .array s ms) (u : Str) (w : ScalarWidget) (ex : List Attrs)
    (hname : b.flatName ≠ []) (hw : widgetOk u w = true) (hex : ex.all extraOk = true) :
    ∃ ps, browserPost see (scalarControls b w ex) = .ok ps := by
  cases w with
  | input ty =>
    obtain ⟨s, hs⟩ := hsee _ _ _ (input_renders T ctx hT hL hQ b ty _ (extraOk_headD hex) hw hname)
      (kwStable_kwInput ty _ (extraOk_headD hex))
    exact postsAll_single_ok ⟨_, posts_single_ok hs⟩
  | textarea =>
    obtain ⟨s, hs⟩ := hsee _ _ _ (textarea_renders T ctx hT hL hQ b _ (extraOk_headD hex) hname)
      (kwStable_extra (extraOk_headD hex))
    exact postsAll_single_ok ⟨_, posts_single_ok hs⟩
  | button =>
    obtain ⟨s, hs⟩ := hsee _ _ _ (button_renders T ctx hT hL hQ b _ (extraOk_headD hex) hname)
      (kwStable_extra (extraOk_headD hex))
    exact postsAll_single_ok ⟨_, posts_single_ok hs⟩
  | radios ty lits =>
    simp only [widgetOk, Bool.and_eq_true] at hw
    exact checkGroup_renders see b ty
      (fun l extra hx => hsee _ _ _
        (check_renders T ctx hT hL hQ b ty l extra hx hw.1 hname _ (matches_scalar T b hkind l))
        (kwStable_kwCheck ty l extra hx)) lits ex hex
  | select lits =>
    exact postsAll_single_ok (select_group_renders see b []
      (hsee _ _ _ (select_renders T ctx hT hL hQ b [] rfl rfl rfl (fun _ _ => rfl) hname) kwStable_nil)
      (fun l extra hx => hsee _ _ _ (option_renders T ctx hT hL hQ b l extra hx _ (matches_scalar T b hkind l))
        (kwStable_kwOption l extra hx)) lits ex hex)

theorem array_renders (T : Tables) (ctx : Ctx) (hT : TablesOK T) (hL : Live T ctx) (hQ : Quiet T ctx)
    (see : Str → Bind → Attrs → Except PyErr Seen) (hsee : SeesAll T ctx see)
    (b : Bind) (strip : Bool) (bms : List (Option Str)) (hkind : b.kind = .array strip bms) (ms : List Str)
    (w : ArrayWidget) (ex : List Attrs) (hname : b.flatName ≠ []) (hex : ex.all extraOk = true) :
    ∃ ps, browserPost see (arrayControls b ms w ex) = .ok ps := by
  have hm : ∀ l, b.matches T (some (.text l)) = .ok (bms.contains (some (if strip then T.strip l else l))) := by
    intro l; unfold Bind.matches; rw [hkind]; rfl
  cases w with
  | checkboxes =>
    exact checkGroup_renders see b sCheckbox
      (fun l extra hx => hsee _ _ _ (check_renders T ctx hT hL hQ b sCheckbox l extra hx (by decide) hname _ (hm l))
        (kwStable_kwCheck sCheckbox l extra hx)) ms ex hex
  | selectMultiple =>
    exact postsAll_single_ok (select_group_renders see b [(sMultiple, .text sMultiple)]
      (hsee _ _ _ (select_renders T ctx hT hL hQ b _ (by decide) (by decide) (by decide) (by decide) hname)
        kwStable_multiple)
      (fun l extra hx => hsee _ _ _ (option_renders T ctx hT hL hQ b l extra hx _ (hm l))
        (kwStable_kwOption l extra hx)) ms ex hex)

mutual
theorem form_renders_at (T : Tables) (ctx : Ctx) (hT : TablesOK T) (hL : Live T ctx) (hQ : Quiet T ctx)
    (see : Str → Bind → Attrs → Except PyErr Seen) (hsee : SeesAll T ctx see) :
    ∀ (t : FormTree) (pre : List (Option Str)), formOk T pre t = true →
      ∃ ps, browserPost see (renderForm pre t) = .ok ps
  | .text n u w ex, pre, hok => by
    simp only [formOk, Bool.and_eq_true] at hok
    simp only [renderForm]
    exact scalar_renders T ctx hT hL hQ see hsee (textBind pre n u) (by intro s ms hk; cases hk) u w ex
      (ne_nil_of_isEmpty hok.1.1) hok.1.2 hok.2
  | .bool n tru u ex, pre, hok => by
    simp only [formOk, Bool.and_eq_true] at hok
    simp only [renderForm]
    obtain ⟨s, hs⟩ := hsee _ _ _ (boolbox_renders T ctx hT hL hQ (boolBind pre n tru u) tru _ (extraOk_headD hok.2)
      (ne_nil_of_isEmpty hok.1) rfl) (kwStable_kwInput (some sCheckbox) _ (extraOk_headD hok.2))
    exact postsAll_single_ok ⟨_, posts_single_ok hs⟩
  | .array n strip ms w ex, pre, hok => by
    simp only [formOk, Bool.and_eq_true] at hok
    simp only [renderForm]
    exact array_renders T ctx hT hL hQ see hsee (arrayBind pre n strip ms []) strip _ rfl ms w ex
      (ne_nil_of_isEmpty hok.1.1) hok.2
  | .joined n u ms ty ex, pre, hok => by
    simp only [formOk, Bool.and_eq_true] at hok
    simp only [renderForm]
    obtain ⟨s, hs⟩ := hsee _ _ _ (input_renders T ctx hT hL hQ (arrayBind pre n true ms u) ty _ (extraOk_headD hok.2)
      hok.1.2 (ne_nil_of_isEmpty hok.1.1)) (kwStable_kwInput ty _ (extraOk_headD hok.2))
    exact postsAll_single_ok ⟨_, posts_single_ok hs⟩
  | .dict n fields, pre, hok => by
    simp only [formOk] at hok
    simp only [renderForm]
    exact fields_render_at T ctx hT hL hQ see hsee fields (pre ++ [n]) hok
  | .list n members, pre, hok => by
    simp only [formOk] at hok
    simp only [renderForm]
    exact slots_render_at T ctx hT hL hQ see hsee members (pre ++ [n]) 0 hok
theorem fields_render_at (T : Tables) (ctx : Ctx) (hT : TablesOK T) (hL : Live T ctx) (hQ : Quiet T ctx)
    (see : Str → Bind → Attrs → Except PyErr Seen) (hsee : SeesAll T ctx see) :
    ∀ (ts : List FormTree) (pre : List (Option Str)), fieldsOk T pre ts = true →
      ∃ ps, browserPost see (renderFields pre ts) = .ok ps
  | [], _, _ => ⟨[], rfl⟩
  | t :: ts, pre, hok => by
    simp only [fieldsOk, Bool.and_eq_true] at hok
    simp only [renderFields]
    exact postsAll_append_ok (form_renders_at T ctx hT hL hQ see hsee t pre hok.1)
      (fields_render_at T ctx hT hL hQ see hsee ts pre hok.2)
theorem slots_render_at (T : Tables) (ctx : Ctx) (hT : TablesOK T) (hL : Live T ctx) (hQ : Quiet T ctx)
    (see : Str → Bind → Attrs → Except PyErr Seen) (hsee : SeesAll T ctx see) :
    ∀ (ts : List FormTree) (pre : List (Option Str)) (i : Nat), slotsOk T pre i ts = true →
      ∃ ps, browserPost see (renderSlots pre i ts) = .ok ps
  | [], _, _, _ => ⟨[], rfl⟩
  | t :: ts, pre, i, hok => by
    simp only [slotsOk, Bool.and_eq_true] at hok
    simp only [renderSlots]
    exact postsAll_append_ok (form_renders_at T ctx hT hL hQ see hsee t _ hok.1)
      (slots_render_at T ctx hT hL hQ see hsee ts pre (i + 1) hok.2)
end

/-! ### the keyword arguments of the whole form are stable -/

theorem checkGroup_stable (b : Bind) (ty : Str) : ∀ (lits : List Str) (es : List Attrs), es.all extraOk = true →
    ∀ c ∈ checkGroup b ty lits es, ControlStable c
  | [], _, _, c, hc => by simp [checkGroup] at hc
  | l :: ls, es, hes, c, hc => by
    simp only [checkGroup, List.mem_cons] at hc
    rcases hc with rfl | hc
    · exact kwStable_kwCheck ty l _ (extraOk_headD hes)
    · exact checkGroup_stable b ty ls es.tail (extraOk_tail hes) c hc

theorem optionGroup_stable : ∀ (lits : List Str) (es : List Attrs), es.all extraOk = true →
    ∀ o ∈ optionGroup lits es, kwStable o
  | [], _, _, o, ho => by simp [optionGroup] at ho
  | l :: ls, es, hes, o, ho => by
    simp only [optionGroup, List.mem_cons] at ho
    rcases ho with rfl | ho
    · exact kwStable_kwOption l _ (extraOk_headD hes)
    · exact optionGroup_stable ls es.tail (extraOk_tail hes) o ho

mutual
theorem renderForm_stable (T : Tables) : ∀ (t : FormTree) (pre : List (Option Str)), formOk T pre t = true →
    ∀ c ∈ renderForm pre t, ControlStable c
  | .text n u w ex, pre, hok, c, hc => by
    simp only [formOk, Bool.and_eq_true] at hok
    simp only [renderForm] at hc
    cases w with
    | input ty => simp only [scalarControls, List.mem_singleton] at hc; subst hc; exact kwStable_kwInput ty _ (extraOk_headD hok.2)
    | textarea => simp only [scalarControls, List.mem_singleton] at hc; subst hc; exact kwStable_extra (extraOk_headD hok.2)
    | button => simp only [scalarControls, List.mem_singleton] at hc; subst hc; exact kwStable_extra (extraOk_headD hok.2)
    | radios ty lits => exact checkGroup_stable _ ty lits ex hok.2 c hc
    | select lits =>
      simp only [scalarControls, List.mem_singleton] at hc; subst hc
      exact ⟨kwStable_nil, optionGroup_stable lits ex hok.2⟩
  | .bool n tru u ex, pre, hok, c, hc => by
    simp only [formOk, Bool.and_eq_true] at hok
    simp only [renderForm, List.mem_singleton] at hc
    subst hc
    exact kwStable_kwInput (some sCheckbox) _ (extraOk_headD hok.2)
  | .array n strip ms w ex, pre, hok, c, hc => by
    simp only [formOk, Bool.and_eq_true] at hok
    simp only [renderForm] at hc
    cases w with
    | checkboxes => exact checkGroup_stable _ sCheckbox ms ex hok.2 c hc
    | selectMultiple =>
      simp only [arrayControls, List.mem_singleton] at hc; subst hc
      exact ⟨kwStable_multiple, optionGroup_stable ms ex hok.2⟩
  | .joined n u ms ty ex, pre, hok, c, hc => by
    simp only [formOk, Bool.and_eq_true] at hok
    simp only [renderForm, List.mem_singleton] at hc
    subst hc
    exact kwStable_kwInput ty _ (extraOk_headD hok.2)
  | .dict n fields, pre, hok, c, hc => by
    simp only [formOk] at hok
    simp only [renderForm] at hc
    exact renderFields_stable T fields (pre ++ [n]) hok c hc
  | .list n members, pre, hok, c, hc => by
    simp only [formOk] at hok
    simp only [renderForm] at hc
    exact renderSlots_stable T members (pre ++ [n]) 0 hok c hc
theorem renderFields_stable (T : Tables) : ∀ (ts : List FormTree) (pre : List (Option Str)), fieldsOk T pre ts = true →
    ∀ c ∈ renderFields pre ts, ControlStable c
  | [], _, _, c, hc => by simp [renderFields] at hc
  | t :: ts, pre, hok, c, hc => by
    simp only [fieldsOk, Bool.and_eq_true] at hok
    simp only [renderFields, List.mem_append] at hc
    rcases hc with h | h
    · exact renderForm_stable T t pre hok.1 c h
    · exact renderFields_stable T ts pre hok.2 c h
theorem renderSlots_stable (T : Tables) : ∀ (ts : List FormTree) (pre : List (Option Str)) (i : Nat),
    slotsOk T pre i ts = true → ∀ c ∈ renderSlots pre i ts, ControlStable c
  | [], _, _, _, c, hc => by simp [renderSlots] at hc
  | t :: ts, pre, i, hok, c, hc => by
    simp only [slotsOk, Bool.and_eq_true] at hok
    simp only [renderSlots, List.mem_append] at hc
    rcases hc with h | h
    · exact renderForm_stable T t _ hok.1 c h
    · exact renderSlots_stable T ts pre (i + 1) hok.2 c h
end

/-! ### what a browser submits: at most one submitter is activated -/

/-- the submitters a browser counts in the rendered form are the ones the tree renders -/
theorem form_subCount (T : Tables) {see : Str → Bind → Attrs → Except PyErr Seen} (hsee : ReadsType see)
    (t : FormTree) (pre : List (Option Str)) (hok : formOk T pre t = true) (ps : List Pair)
    (h : browserPost see (renderForm pre t) = .ok ps) : subCount see (renderForm pre t) = .ok (submitters t) := by
  rw [subCount_eq hsee _ (renderForm_stable T t pre hok) ps h, countP_renderForm T t pre hok]

/-- with at most one submitter, pressed: the submission is what the controls post -/
theorem submit_of_post (T : Tables) {see : Str → Bind → Attrs → Except PyErr Seen} (hsee : ReadsType see)
    (t : FormTree) (hok : formOk T [] t = true) (hsub : oneSubmitter t = true) (ps : List Pair)
    (h : browserPost see (renderForm [] t) = .ok ps) : browserSubmit see (some 0) (renderForm [] t) = .ok ps :=
  browserSubmit_of_one _ _ ps (form_subCount T hsee t [] hok ps h) (by simpa [oneSubmitter] using hsub) h

/-- FORM ROUND TRIP.  For every element tree and every way form mode renders its leaves, on a
    generator whose context has name and value generation switched on: if the tag calls render,
    the name/value pairs a browser submits for the unchanged form are exactly the element's own
    flat pairs a form can carry, in document order.
    SUBMITTERS: a browser posts a `<button>` / `<input type=submit>` only when it is the control
    that was activated (`browserSubmit`).  The statement is about forms that render bound data as
    AT MOST ONE submitter (`hsub`), submitted through it.  An element rendered only as a button
    that is not pressed is not posted (`form_unpressed`); forms with two or more submitters are
    outside this theorem. -/
theorem form_roundtrip (T : Tables) (ctx : Ctx) (hT : TablesOK T) (hL : Live T ctx) (t : FormTree)
    (hok : formOk T [] t = true) (hsub : oneSubmitter t = true) (ps : List Pair)
    (h : browserSubmit (seenOf T ctx) (some 0) (renderForm [] t) = .ok ps) : ps = formPairs [] t := by
  obtain ⟨ps', h'⟩ := browserPost_of_submit _ _ _ h
  have e := submit_of_post T (readsType_seenOf T ctx) t hok hsub ps' h'
  rw [h] at e
  simp only [Except.ok.injEq] at e
  rw [e]
  exact form_controls_post T ctx hT hL t hok ps' h'

/-- FORM ROUND TRIP, total form: on a generator whose context has name/value generation on and the
    id / for / tabindex / filter transforms off (the default settings), every form renders and the
    browser submits exactly the element's own flat pairs a form can carry -/
theorem form_roundtrip_total (T : Tables) (ctx : Ctx) (hT : TablesOK T) (hL : Live T ctx) (hQ : Quiet T ctx)
    (t : FormTree) (hok : formOk T [] t = true) (hsub : oneSubmitter t = true) :
    browserSubmit (seenOf T ctx) (some 0) (renderForm [] t) = .ok (formPairs [] t) := by
  obtain ⟨ps, h⟩ := form_renders_at T ctx hT hL hQ _ (seesAll_seenOf T ctx) t [] hok
  have e := form_controls_post T ctx hT hL t hok ps h
  subst e
  exact submit_of_post T (readsType_seenOf T ctx) t hok hsub _ h

/-- … in particular on `Generator()` with the tables of the current source -/
theorem form_roundtrip_fresh (t : FormTree) (hok : formOk Tables.current [] t = true) (hsub : oneSubmitter t = true) :
    browserSubmit (seenOf Tables.current freshGen.ctx) (some 0) (renderForm [] t) = .ok (formPairs [] t) :=
  form_roundtrip_total _ _ tablesOK_current fresh_live fresh_quiet t hok hsub

/-! ### the same through `prepareTag`, the way the runner makes the tag calls -/

/-- every control posts its pair, every tag call made as `gen.<tag>(bind, **kwargs)` (`prepareTag`:
    keyword arguments re-keyed, attributes put in output order, contents printed and parsed back) -/
theorem form_controls_post_generator (T : Tables) (order : List Str) (g : Gen) (hT : TablesOK T) (hL : Live T g.ctx)
    (t : FormTree) (pre : List (Option Str)) (hok : formOk T pre t = true) (ps : List Pair)
    (h : browserPost (seenVia T order g) (renderForm pre t) = .ok ps) : ps = formPairs pre t :=
  form_roundtrip_at T g.ctx hT hL t pre hok ps
    (browserPost_via_of T order g _ (renderForm_stable T t pre hok) ps h)

/-- FORM ROUND TRIP on a generator -/
theorem form_roundtrip_generator (T : Tables) (order : List Str) (g : Gen) (hT : TablesOK T) (hL : Live T g.ctx)
    (t : FormTree) (hok : formOk T [] t = true) (hsub : oneSubmitter t = true) (ps : List Pair)
    (h : browserSubmit (seenVia T order g) (some 0) (renderForm [] t) = .ok ps) : ps = formPairs [] t := by
  obtain ⟨ps', h'⟩ := browserPost_of_submit _ _ _ h
  have e := submit_of_post T (readsType_seenVia T order g) t hok hsub ps' h'
  rw [h] at e
  simp only [Except.ok.injEq] at e
  rw [e]
  exact form_controls_post_generator T order g hT hL t [] hok ps' h'

theorem form_roundtrip_generator_total (T : Tables) (order : List Str) (g : Gen) (hT : TablesOK T) (hL : Live T g.ctx)
    (hQ : Quiet T g.ctx) (ho : OrderedSet g.ctx) (t : FormTree) (hok : formOk T [] t = true) (hsub : oneSubmitter t = true) :
    browserSubmit (seenVia T order g) (some 0) (renderForm [] t) = .ok (formPairs [] t) := by
  obtain ⟨ps, h⟩ := form_renders_at T g.ctx hT hL hQ _ (seesAll_seenVia T order g ho) t [] hok
  have e := form_controls_post_generator T order g hT hL t [] hok ps h
  subst e
  exact submit_of_post T (readsType_seenVia T order g) t hok hsub _ h

/-- … on `Generator()` with the tables and the attribute order of the current source: every form
    renders, and a browser submits exactly the element's own flat pairs a form can carry -/
theorem form_roundtrip_fresh_generator (t : FormTree) (hok : formOk Tables.current [] t = true) (hsub : oneSubmitter t = true) :
    browserSubmit (seenVia Tables.current Flatland.Generated.C11.staticAttributeOrder freshGen) (some 0) (renderForm [] t) =
      .ok (formPairs [] t) :=
  form_roundtrip_generator_total _ _ _ tablesOK_current fresh_live fresh_quiet fresh_ordered t hok hsub

/-! ### a submitter that is not pressed posts nothing -/

/-- the calls `see` makes round-trip control by control -/
def RoundTrips (T : Tables) (see : Str → Bind → Attrs → Except PyErr Seen) : Prop :=
  ∀ t pre, formOk T pre t = true → ∀ ps, browserPost see (renderForm pre t) = .ok ps → ps = formPairs pre t

theorem leaf_quiet (T : Tables) {see : Str → Bind → Attrs → Except PyErr Seen} (hsee : ReadsType see)
    (hrt : RoundTrips T see) (t : FormTree) (pre : List (Option Str)) (hok : formOk T pre t = true)
    (hleaf : quietPairs pre t = if t.isSubmitterLeaf then [] else formPairs pre t)
    (hsingle : t.isSubmitterLeaf = true → ∃ c, renderForm pre t = [c])
    (hcnt : submitters t = if t.isSubmitterLeaf then 1 else 0)
    (ps : List Pair) (h : browserPost see (renderForm pre t) = .ok ps) :
    browserSubmit see none (renderForm pre t) = .ok (quietPairs pre t) := by
  have hc := form_subCount T hsee t pre hok ps h
  have hps := hrt t pre hok ps h
  rw [hleaf]
  cases hl : t.isSubmitterLeaf with
  | false =>
    rw [hl] at hcnt
    simp only [Bool.false_eq_true, if_false] at hcnt ⊢
    rw [hcnt] at hc
    rw [← hps]
    exact browserSubmit_of_none _ ps hc h none
  | true =>
    rw [hl] at hcnt
    simp only [if_true] at hcnt ⊢
    obtain ⟨c, hcs⟩ := hsingle hl
    rw [hcs] at h hc ⊢
    rw [hcnt] at hc
    obtain ⟨p, q, hp, _, _⟩ := postsAll_cons h
    obtain ⟨s, m, hs, hm, e⟩ := subCount_cons_inv hc
    have hm0 : m = 0 := by
      simp only [subCount, pure, Except.pure, Except.ok.injEq] at hm
      exact hm.symm
    subst hm0
    cases s with
    | false => simp at e
    | true => exact browserSubmit_none_single_sub hp hs

mutual
/-- SUBMITTED WITHOUT PRESSING A SUBMITTER (Enter in a text field, `form.submit()`), any number of
    submitters in the form: the browser posts the element's pairs except those of the leaves
    rendered as a `<button>` / `<input type=submit>` -/
theorem form_unpressed_at (T : Tables) {see : Str → Bind → Attrs → Except PyErr Seen} (hsee : ReadsType see)
    (hrt : RoundTrips T see) :
    ∀ (t : FormTree) (pre : List (Option Str)), formOk T pre t = true → ∀ ps,
      browserPost see (renderForm pre t) = .ok ps → browserSubmit see none (renderForm pre t) = .ok (quietPairs pre t)
  | .text n u w ex, pre, hok, ps, h => by
    refine leaf_quiet T hsee hrt _ pre hok (by simp only [quietPairs]) ?_ ?_ ps h
    · intro hl
      cases w with
      | input ty => exact ⟨_, rfl⟩
      | button => exact ⟨_, rfl⟩
      | textarea => simp [FormTree.isSubmitterLeaf] at hl
      | radios ty lits => simp [FormTree.isSubmitterLeaf] at hl
      | select lits => simp [FormTree.isSubmitterLeaf] at hl
    · cases w with
      | input ty => simp only [submitters, FormTree.isSubmitterLeaf]; by_cases hs : submitTy ty = true <;> simp [hs]
      | button => simp [submitters, FormTree.isSubmitterLeaf]
      | textarea => simp [submitters, FormTree.isSubmitterLeaf]
      | radios ty lits => simp [submitters, FormTree.isSubmitterLeaf]
      | select lits => simp [submitters, FormTree.isSubmitterLeaf]
  | .bool n tru u ex, pre, hok, ps, h => by
    refine leaf_quiet T hsee hrt _ pre hok (by simp [quietPairs, FormTree.isSubmitterLeaf]) ?_ ?_ ps h
    · intro hl; simp [FormTree.isSubmitterLeaf] at hl
    · simp [submitters, FormTree.isSubmitterLeaf]
  | .array n strip ms w ex, pre, hok, ps, h => by
    refine leaf_quiet T hsee hrt _ pre hok (by simp [quietPairs, FormTree.isSubmitterLeaf]) ?_ ?_ ps h
    · intro hl; simp [FormTree.isSubmitterLeaf] at hl
    · simp [submitters, FormTree.isSubmitterLeaf]
  | .joined n u ms ty ex, pre, hok, ps, h => by
    refine leaf_quiet T hsee hrt _ pre hok (by simp only [quietPairs, FormTree.isSubmitterLeaf]; by_cases hs : submitTy ty = true <;> simp [hs]) ?_ ?_ ps h
    · intro _; exact ⟨_, rfl⟩
    · simp only [submitters, FormTree.isSubmitterLeaf]; by_cases hs : submitTy ty = true <;> simp [hs]
  | .dict n fields, pre, hok, ps, h => by
    simp only [formOk] at hok
    simp only [renderForm] at h ⊢
    simp only [quietPairs]
    exact fields_unpressed_at T hsee hrt fields (pre ++ [n]) hok ps h
  | .list n members, pre, hok, ps, h => by
    simp only [formOk] at hok
    simp only [renderForm] at h ⊢
    simp only [quietPairs]
    exact slots_unpressed_at T hsee hrt members (pre ++ [n]) 0 hok ps h
theorem fields_unpressed_at (T : Tables) {see : Str → Bind → Attrs → Except PyErr Seen} (hsee : ReadsType see)
    (hrt : RoundTrips T see) :
    ∀ (ts : List FormTree) (pre : List (Option Str)), fieldsOk T pre ts = true → ∀ ps,
      browserPost see (renderFields pre ts) = .ok ps → browserSubmit see none (renderFields pre ts) = .ok (quietFieldPairs pre ts)
  | [], _, _, _, _ => rfl
  | t :: ts, pre, hok, ps, h => by
    simp only [fieldsOk, Bool.and_eq_true] at hok
    simp only [renderFields] at h ⊢
    obtain ⟨p, q, hp, hq, _⟩ := postsAll_append h
    simp only [quietFieldPairs]
    exact browserSubmit_none_append _ _ _ _ (form_unpressed_at T hsee hrt t pre hok.1 p hp)
      (fields_unpressed_at T hsee hrt ts pre hok.2 q hq)
theorem slots_unpressed_at (T : Tables) {see : Str → Bind → Attrs → Except PyErr Seen} (hsee : ReadsType see)
    (hrt : RoundTrips T see) :
    ∀ (ts : List FormTree) (pre : List (Option Str)) (i : Nat), slotsOk T pre i ts = true → ∀ ps,
      browserPost see (renderSlots pre i ts) = .ok ps →
      browserSubmit see none (renderSlots pre i ts) = .ok (quietSlotPairs pre i ts)
  | [], _, _, _, _, _ => rfl
  | t :: ts, pre, i, hok, ps, h => by
    simp only [slotsOk, Bool.and_eq_true] at hok
    simp only [renderSlots] at h ⊢
    obtain ⟨p, q, hp, hq, _⟩ := postsAll_append h
    simp only [quietSlotPairs]
    exact browserSubmit_none_append _ _ _ _ (form_unpressed_at T hsee hrt t _ hok.1 p hp)
      (slots_unpressed_at T hsee hrt ts pre (i + 1) hok.2 q hq)
end

/-- A SUBMITTER THAT IS NOT PRESSED POSTS NOTHING.  On `Generator()`, every tag call made through
    `prepareTag`: a form (with any number of buttons) submitted without activating any of them
    posts the element's flat pairs MINUS the pairs of the leaves rendered as `<button>` /
    `<input type=submit>`.  So "a rendered form posts the element's flat pairs" is about leaves
    rendered as successful controls and at most the one submitter that is pressed. -/
theorem form_unpressed (t : FormTree) (hok : formOk Tables.current [] t = true) :
    browserSubmit (seenVia Tables.current Flatland.Generated.C11.staticAttributeOrder freshGen) none (renderForm [] t) =
      .ok (quietPairs [] t) := by
  obtain ⟨ps, h⟩ := form_renders_at Tables.current freshGen.ctx tablesOK_current fresh_live fresh_quiet _
    (seesAll_seenVia Tables.current Flatland.Generated.C11.staticAttributeOrder freshGen fresh_ordered) t [] hok
  exact form_unpressed_at Tables.current (readsType_seenVia _ _ _)
    (fun t pre hok ps h => form_controls_post_generator _ _ _ tablesOK_current fresh_live t pre hok ps h) t [] hok ps h

end Flatland.C12.Proofs

namespace Flatland.C12.Proofs
open Flatland.Markup Flatland.C12 Flatland.C19.Proofs
open Flatland.Flat (FNode joinSep namePath flattenNode)

/-! ### against `flatten()` of the flat model -/

/-- THE FORM'S PAIRS ARE THE ELEMENT'S OWN FLAT PAIRS: what `flatten()` emits for the tree (flat
    model, separator `_`) is, as a multiset, `formPairs` plus one pair for every Boolean whose box
    is unchecked -/
theorem formPairs_flatten (t : FormTree) :
    (flattenNode usep (embed t)).Perm (formPairs [] t ++ uncheckedPairs [] t) := by
  rw [Flatland.Flat.flattenNode_eq]
  exact formPairs_flattenAt t []

mutual
theorem unchecked_empty : ∀ (t : FormTree) (pre : List (Option Str)), boolsCanonical t = true →
    ∀ x ∈ uncheckedPairs pre t, x.2 = []
  | .text .., _, _, x, hx => by simp [uncheckedPairs] at hx
  | .array .., _, _, x, hx => by simp [uncheckedPairs] at hx
  | .joined .., _, _, x, hx => by simp [uncheckedPairs] at hx
  | .bool n tru u ex, pre, hc, x, hx => by
    simp only [uncheckedPairs] at hx
    simp only [boolsCanonical, Bool.or_eq_true, beq_iff_eq, List.isEmpty_iff] at hc
    split at hx
    · simp at hx
    · rename_i hne
      simp only [List.mem_singleton] at hx
      subst hx
      rcases hc with h | h
      · exact absurd h.symm hne
      · exact h
  | .dict n fields, pre, hc, x, hx => by
    simp only [uncheckedPairs] at hx
    simp only [boolsCanonical] at hc
    exact uncheckedFields_empty fields (pre ++ [n]) hc x hx
  | .list n members, pre, hc, x, hx => by
    simp only [uncheckedPairs] at hx
    simp only [boolsCanonical] at hc
    exact uncheckedSlots_empty members (pre ++ [n]) 0 hc x hx
theorem uncheckedFields_empty : ∀ (ts : List FormTree) (pre : List (Option Str)), allCanonical ts = true →
    ∀ x ∈ uncheckedFields pre ts, x.2 = []
  | [], _, _, x, hx => by simp [uncheckedFields] at hx
  | t :: ts, pre, hc, x, hx => by
    simp only [allCanonical, Bool.and_eq_true] at hc
    simp only [uncheckedFields, List.mem_append] at hx
    rcases hx with h | h
    · exact unchecked_empty t pre hc.1 x h
    · exact uncheckedFields_empty ts pre hc.2 x h
theorem uncheckedSlots_empty : ∀ (ts : List FormTree) (pre : List (Option Str)) (i : Nat), allCanonical ts = true →
    ∀ x ∈ uncheckedSlots pre i ts, x.2 = []
  | [], _, _, _, x, hx => by simp [uncheckedSlots] at hx
  | t :: ts, pre, i, hc, x, hx => by
    simp only [allCanonical, Bool.and_eq_true] at hc
    simp only [uncheckedSlots, List.mem_append] at hx
    rcases hx with h | h
    · exact unchecked_empty t _ hc.1 x h
    · exact uncheckedSlots_empty ts pre (i + 1) hc.2 x h
end

/-- WHAT THE BROWSER POSTS vs `flatten()`: the posted pairs together with the pairs of the unchecked
    Boolean boxes are exactly (as a multiset) the element's flat pairs; when every Boolean shows
    its true text or `''`, the pairs a form drops all have the value `''` -/
theorem form_posts_flatten (T : Tables) (ctx : Ctx) (hT : TablesOK T) (hL : Live T ctx) (t : FormTree)
    (hok : formOk T [] t = true) (hsub : oneSubmitter t = true) (ps : List Pair)
    (h : browserSubmit (seenOf T ctx) (some 0) (renderForm [] t) = .ok ps) :
    (flattenNode usep (embed t)).Perm (ps ++ uncheckedPairs [] t) ∧
    (boolsCanonical t = true → ∀ x ∈ uncheckedPairs [] t, x.2 = []) := by
  rw [form_roundtrip T ctx hT hL t hok hsub ps h]
  exact ⟨formPairs_flatten t, unchecked_empty t []⟩

/-- every posted name is the separator-join of the names on the path to a flattenable element of
    the tree (list members by index), and the posted value is that element's text (C07 `keys_are_paths`) -/
theorem posted_keys_are_paths (T : Tables) (ctx : Ctx) (hT : TablesOK T) (hL : Live T ctx) (t : FormTree)
    (hok : formOk T [] t = true) (hsub : oneSubmitter t = true) (ps : List Pair)
    (h : browserSubmit (seenOf T ctx) (some 0) (renderForm [] t) = .ok ps) (x : Pair) (hx : x ∈ ps) :
    ∃ p' n', Flatland.Flat.Proofs.Below [] (embed t) p' n' ∧ n'.fl = true ∧
      x = (joinSep usep (namePath p' n'), n'.u) := by
  have hperm := (form_posts_flatten T ctx hT hL t hok hsub ps h).1
  exact Flatland.Flat.Proofs.keys_are_paths usep (embed t) x
    (hperm.mem_iff.mpr (List.mem_append.mpr (Or.inl hx)))

end Flatland.C12.Proofs
